"""Shared machinery of C07 and C08: real `Controller` runs with counting equations and recording
trackers, the matching request for the Lean controller model (`c07.run`), the trace comparison and
the property monitors.

A *case* is a JSON-able dict
  {"numbers": "Q"|"F", "dt", "t_start", "t_end", "u0", "eq": "one"|"time"|"lin"|"lint"|"hook" (+"a"), "solver", "backend",
   "jit": bool (numba backend: compiled, else the same source under NUMBA_DISABLE_JIT=1),
   "N": whole-range step count or None,
   "trackers": [{"kind": "callback"|"storage"|"data", "sched": {...}, "stops": [[call, "S"|"F", msg], ..]}]}
Everything the real code is handed is a Python float; "Q" cases use dyadic numbers only (float
arithmetic is exact, the trace must equal the Rat model exactly), "F" cases use decimal numbers (the
trace must equal the Float instantiation of the model bit for bit).
"""
import logging
import math
from fractions import Fraction

import numpy as np

from harness.common.num import q, unq, fbits, unfbits

import sys

sys.setrecursionlimit(max(sys.getrecursionlimit(), 5000))  # `monitor_schedule` recurses once per tracker call

EPS = 1e-6  # the literal of `stepper_atol = 1e-6 * dt`
FIXED_SOLVERS = ["euler", "runge-kutta", "implicit", "crank-nicolson", "adams-bashforth"]
# the one-step map of the scheme for u' = t is u + dt*(t + shift*dt)
TIME_SHIFT = {"euler": 0.0, "implicit": 1.0, "runge-kutta": 0.5, "crank-nicolson": 0.5, "adams-bashforth": 0.5}
# equations: u' = 1, u' = t (state-independent: the state counts steps / sums times) and the state-dependent
# u' = a*u, u' = a*u + t (a solver whose own state - Adams-Bashforth's previous state, the implicit solvers'
# fixed-point iterate - is disturbed by a tracker interrupt ends in a different state)
# "hook": u' = 1 with a post-step hook that keeps a counter in `post_step_data` (another piece of stepper state that
# must survive a tracker interrupt): `data += 1; state += a*data`
AUTONOMOUS = ("one", "lin", "hook")
STATE_DEPENDENT = ("lin", "lint")
IMPLICIT_MAXITER, IMPLICIT_MAXERROR = 100, 1e-4  # defaults of ImplicitSolver / CrankNicolsonSolver

_classes = {}


def classes():
    """the equation / tracker / interrupt classes (created on first use, after `import pde`)"""
    if _classes:
        return _classes
    import pde
    from pde import PDEBase
    from pde.storage.base import StorageTracker
    from pde.trackers.interrupts import InterruptsBase
    from pde.trackers.trackers import CallbackTracker, DataTracker

    logging.getLogger("pde").setLevel(logging.CRITICAL)

    class CountingPDE(PDEBase):
        """u' = 1 (autonomous, the state counts the steps), u' = t (non-autonomous), u' = a*u (autonomous,
        state-dependent) or u' = a*u + t"""

        check_implementation = False

        def __init__(self, kind, a=0.0):
            super().__init__()
            self.kind = kind
            self.a = float(a)

        def evolution_rate(self, state, t=0):
            r = state.copy()
            if self.kind in ("one", "hook"):
                r.data[...] = 1.0
            elif self.kind == "time":
                r.data[...] = t
            elif self.kind == "lin":
                r.data[...] = self.a * state.data
            elif self.kind == "lint":
                r.data[...] = self.a * state.data + t
            else:
                raise ValueError(self.kind)
            return r

        def make_evolution_rate(self, state, backend):
            a = self.a
            if self.kind in ("one", "hook"):
                def rhs(arr, t):
                    return np.ones_like(arr)
            elif self.kind == "time":
                def rhs(arr, t):
                    return np.full_like(arr, t)
            elif self.kind == "lin":
                def rhs(arr, t):
                    return a * arr
            elif self.kind == "lint":
                def rhs(arr, t):
                    return a * arr + t
            else:
                raise ValueError(self.kind)
            return rhs

        def make_post_step_hook(self, state, backend="numpy"):
            if self.kind != "hook":
                raise NotImplementedError  # the solver then installs its no-op hook
            a = self.a

            def post_step_hook(state_data, t, post_step_data):
                post_step_data += 1.0
                state_data += a * post_step_data
                return state_data, post_step_data

            return post_step_hook, 0.0

    class OracleInterrupts(InterruptsBase):
        """adversarial schedule: prepared answers, one per call, `inf` afterwards"""

        def __init__(self, answers):
            self.answers = list(answers)
            self.i = 0

        def _pop(self):
            if self.i < len(self.answers):
                a = self.answers[self.i]
                self.i += 1
                return a
            return math.inf

        def initialize(self, t):
            self.i = 0
            return self._pop()

        def next(self, t):
            return self._pop()

    class FinalizeMixin:
        def finalize(self, info=None):
            self._rec["finalized"].append(self._idx)
            super().finalize(info)

    class RecCallback(FinalizeMixin, CallbackTracker):
        pass

    class RecData(FinalizeMixin, DataTracker):
        pass

    class RecStorage(FinalizeMixin, StorageTracker):
        pass

    _classes.update(pde=pde, CountingPDE=CountingPDE, OracleInterrupts=OracleInterrupts,
                    RecCallback=RecCallback, RecData=RecData, RecStorage=RecStorage)
    return _classes


# ------------------------------------------------------------------------------------------
# real execution
def make_interrupt(s, via_parse=False):
    from pde.trackers import interrupts as I

    k = s["kind"]
    if via_parse and s.get("text") is not None:
        # the interrupt as the user writes it: 'geometric(1, 2)'
        return I.parse_interrupt(s["text"])
    if k == "constant":
        if via_parse and s.get("t_start") is None:
            return I.parse_interrupt(s["dt"])
        return I.ConstantInterrupts(s["dt"], t_start=s.get("t_start"))
    if k == "logarithmic":
        return I.LogarithmicInterrupts(s["dt_initial"], s["factor"], t_start=s.get("t_start"))
    if k == "fixed":
        if via_parse:
            # the formats `parse_interrupt` accepts for a list of times: list, tuple, numpy array
            data = {"tuple": tuple, "array": np.array}.get(s.get("container"), list)(s["interrupts"])
            return I.parse_interrupt(data)
        return I.FixedInterrupts(s["interrupts"])
    if k == "realtime":
        # a time string ('0:01', '0:00:30', ...): `parse_interrupt` makes a RealtimeInterrupts of it, whose
        # simulation-time schedule follows the wall clock (no defining set; replayed as an oracle in the model)
        return I.parse_interrupt(s["duration"])
    if k == "geometric":
        if via_parse:
            return I.parse_interrupt(f"geometric({s['scale']!r}, {s['factor']!r})")
        return I.GeometricInterrupts(s["scale"], s["factor"])
    if k == "oracle":
        return classes()["OracleInterrupts"]([math.inf if a == "inf" else a for a in s["answers"]])
    raise ValueError(k)


def record_interrupt(obj, rec):
    """log every answer of an interrupt object (instance-level wrapping)"""
    orig_init, orig_next = obj.initialize, obj.next
    depth = [0]

    def initialize(t):
        depth[0] += 1
        try:
            a = orig_init(t)
        finally:
            depth[0] -= 1
        rec.append(("init", float(t), float(a)))
        return a

    def next_(t):
        a = orig_next(t)
        if depth[0] == 0:
            rec.append(("next", float(t), float(a)))
        return a

    obj.initialize = initialize
    obj.next = next_


def execute(case):
    """run the case on the real code; returns a picklable record of everything observable"""
    C = classes()
    pde = C["pde"]
    from pde.trackers.base import FinishedSimulation
    from pde.storage import MemoryStorage

    rec = {"trace": [], "finalized": [], "raised": []}
    trackers, scheds, handles = [], [], []
    def make_observer(idx, stops):
        counter = [0]

        def observe(field, t):
            k = counter[0]
            counter[0] += 1
            rec["trace"].append((idx, float(t), float(np.real(field.data.flat[0])), type(t).__name__))
            if k in stops:
                kind, msg = stops[k]
                rec["raised"].append((idx, k, float(t), kind, msg))
                args = (msg,) if msg is not None else ()
                raise (FinishedSimulation if kind == "F" else StopIteration)(*args)

        return observe

    def make_tracker(kind, observe, intr):
        if kind == "callback":
            def cb(field, t):
                observe(field, t)
            return C["RecCallback"](cb, interrupts=intr)
        if kind == "data":
            def cbd(field, t):
                observe(field, t)
                return float(np.real(field.data.flat[0]))
            return C["RecData"](cbd, interrupts=intr)
        if kind == "storage":
            first = [True]

            def trans(field, t):
                # `StorageTracker.initialize` applies the transformation once to the example
                # field (for `start_writing`); this is not a `handle` call
                if first[0]:
                    first[0] = False
                    return field
                observe(field, t)
                return field
            return C["RecStorage"](MemoryStorage(), interrupts=intr, transformation=trans)
        raise ValueError(kind)

    grid = pde.UnitGrid([case.get("cells", 1)])
    initial = pde.ScalarField(grid, case["u0"], dtype=complex if case.get("state_complex") else None)
    initial_before = (initial.data.copy(), initial.data.dtype, initial.label, initial._data_full.copy())
    eq = C["CountingPDE"](case["eq"], case.get("a", 0.0))
    if case.get("pde_complex"):
        eq.complex_valued = True  # the controller then converts (and must still copy) the initial state
    out = {"error": None}
    t_range = (case["t_start"], case["t_end"])
    if case.get("t_range_scalar"):
        t_range = case["t_end"]
    if case.get("t_range_raw") is not None:
        t_range = tuple(case["t_range_raw"])
    try:
        for idx, tr in enumerate(case["trackers"]):
            stops = {int(k): (kind, msg) for k, kind, msg in tr.get("stops", [])}
            slog = []
            if tr.get("shared_with") is not None:
                # the user hands the *same* interrupt object to two trackers (TrackerCollection.from_data must
                # give each its own copy); such objects are not instrumented (a copy would share the wrappers)
                intr = trackers[tr["shared_with"]].interrupt
            else:
                intr = make_interrupt(tr["sched"], tr.get("via_parse", False))
                if not tr.get("no_record"):
                    record_interrupt(intr, slog)
            scheds.append(slog)
            obj = make_tracker(tr["kind"], make_observer(idx, stops), intr)
            obj._rec = rec
            obj._idx = idx
            trackers.append(obj)
            handles.append(obj)
        kwargs = {}
        if case["solver"] in ("euler", "runge-kutta"):
            kwargs["adaptive"] = bool(case.get("adaptive", False))
        final, info = eq.solve(initial, t_range=t_range, dt=case["dt"], tracker=trackers,
                               backend=case["backend"], solver=case["solver"], ret_info=True, **kwargs)
    except Exception as exc:  # malformed stream: the error class is the expected outcome
        out["error"] = f"{type(exc).__name__}: {exc}"[:300]
        out.update(trace=[tuple(ev[:3]) for ev in rec["trace"]], finalized=rec["finalized"], raised=rec["raised"])
        return out
    data = np.asarray(final.data)
    out.update(
        trace=[tuple(e[:3]) for e in rec["trace"]],
        t_types=sorted({e[3] for e in rec["trace"]}),
        finalized=rec["finalized"], raised=rec["raised"],
        t_final=float(info["controller"]["t_final"]),
        dt_final=float(info["solver"].get("dt") or case["dt"]),
        steps=int(info["solver"]["steps"]),
        state=float(np.real(data.flat[0])),
        uniform=bool(np.all(data == data.flat[0]) and np.imag(data.flat[0]) == 0),
        stop_reason=str(info["controller"]["stop_reason"]),
        successful=bool(info["controller"]["successful"]),
        initial_after=float(np.real(initial.data.flat[0])),
        initial_uniform=bool(np.all(initial.data == initial.data.flat[0])),
        # every cell, real and imaginary part, dtype, label and the ghost cells of the caller's object
        initial_intact=bool(initial.data.dtype == initial_before[1] and initial.label == initial_before[2]
                            and initial.data.shape == initial_before[0].shape
                            and initial.data.tobytes() == initial_before[0].tobytes()
                            and initial._data_full.tobytes() == initial_before[3].tobytes()),
        same_object=bool(final is initial or np.shares_memory(final._data_full, initial._data_full)),
        state_imag=float(np.max(np.abs(np.imag(data)))) if data.size else 0.0,
        sched_log=scheds,
        times=[], frames=[],
        backend_used=str(info["solver"].get("backend", {}).get("name", "?")) if isinstance(info["solver"].get("backend"), dict) else "?",
    )
    for tr, obj in zip(case["trackers"], handles):
        if tr["kind"] == "storage":
            out["times"].append([float(x) for x in obj.storage.times])
            out["frames"].append([float(np.real(np.asarray(d).flat[0])) for d in obj.storage.data])
        elif tr["kind"] == "data":
            out["times"].append([float(x) for x in obj.times])
            out["frames"].append([float(x) for x in obj.data])
        else:
            out["times"].append([])
            out["frames"].append([])
    return out


def execute_many(cases, env=None, procs=8):
    from harness.common.isolated import run_many
    return run_many("harness.common.ctrl", "execute", cases, env=env, procs=procs)


def exec_mode(case):
    """numpy | numba-S (numba backend, source semantics: NUMBA_DISABLE_JIT=1) | numba-J (compiled)"""
    if case.get("backend") != "numba":
        return "numpy"
    return "numba-J" if case.get("jit") else "numba-S"


def mode_env(mode):
    env = {"NUMBA_DISABLE_JIT": "1"} if mode == "numba-S" else {"NUMBA_DISABLE_JIT": "0"}
    env["NUMBA_NUM_THREADS"] = "1"
    return env


def execute_as_recorded(cases, procs=4):
    """run every case in the execution mode recorded in it (replay / search): numpy in-process, the numba
    backend in a fresh interpreter with or without JIT"""
    out = [None] * len(cases)
    by_mode = {}
    for i, c in enumerate(cases):
        by_mode.setdefault(exec_mode(c), []).append(i)
    for mode, idxs in by_mode.items():
        if mode == "numpy":
            res = [execute(cases[i]) for i in idxs]
        else:
            res = execute_many([cases[i] for i in idxs], env=mode_env(mode), procs=procs)
        for i, r in zip(idxs, res):
            out[i] = {"error": r} if isinstance(r, str) else r
    return out


# ------------------------------------------------------------------------------------------
# model request / answer
def _enc(mode):
    return q if mode == "Q" else fbits


def model_request(case, mode, oracle_for=()):
    """request for the Lean handler `c07.run`; trackers listed in `oracle_for` (and geometric ones
    in Float mode) get the answers recorded from the real interrupt object as an oracle schedule"""
    enc = _enc(mode)
    trs = []
    for i, tr in enumerate(case["trackers"]):
        s = tr["sched"]
        k = s["kind"]
        if i in oracle_for:
            js = {"kind": "oracle", "answers": ["inf" if math.isinf(a) else enc(a) for a in oracle_for[i]]}
        elif k == "constant":
            js = {"kind": k, "dt": enc(s["dt"]), "t_start": None if s.get("t_start") is None else enc(s["t_start"])}
        elif k == "logarithmic":
            js = {"kind": k, "dt_initial": enc(s["dt_initial"]), "factor": enc(s["factor"]),
                  "t_start": None if s.get("t_start") is None else enc(s["t_start"])}
        elif k == "fixed":
            js = {"kind": k, "interrupts": [enc(x) for x in s["interrupts"]]}
        elif k == "geometric":
            js = {"kind": k, "scale": enc(s["scale"]), "factor": enc(s["factor"]), "fuel": 4000}
        elif k == "oracle":
            js = {"kind": k, "answers": ["inf" if a == "inf" else enc(a) for a in s["answers"]]}
        else:
            raise ValueError(k)  # (realtime schedules are always in `oracle_for`)
        trs.append({"kind": tr["kind"], "sched": js,
                    "stops": [[int(a), b, c or ""] for a, b, c in tr.get("stops", [])]})
    eq = case["eq"]
    req = {"mode": mode, "dt": enc(case["dt"]), "t_start": enc(case["t_start"]), "t_end": enc(case["t_end"]),
           "eps": enc(EPS), "u0": enc(case["u0"]), "eq": eq, "trackers": trs}
    if case.get("stepper") == "exact":
        req["stepper"] = "exact"
        req["fuel"] = 20000
    if eq == "time" and TIME_SHIFT.get(case["solver"], 0.0) != 0.0:
        req["eq"] = "timeshift"
        req["shift"] = enc(TIME_SHIFT[case["solver"]] * case["dt"])
    if eq == "hook":
        req["a"] = enc(case["a"])
    if eq in STATE_DEPENDENT:
        # the solver's own operations on u' = a*u (+ t): Model/StepMaps.lean
        req.update(a=enc(case["a"]), solver=case["solver"], cells=int(case.get("cells", 1)),
                   maxiter=IMPLICIT_MAXITER, maxerr2=enc(IMPLICIT_MAXERROR ** 2))
    return req


def needs_oracle(case, mode):
    """trackers whose schedule the model cannot replay itself: geometric in Float mode (libm), wall-clock
    schedules (time strings) always"""
    return [i for i, tr in enumerate(case["trackers"])
            if (tr["sched"]["kind"] == "geometric" and mode == "F") or tr["sched"]["kind"] == "realtime"]


def oracle_answers(real, idxs):
    return {i: [a for _k, _t, a in real["sched_log"][i]] for i in idxs}


def state_close(case, x, ref, rtol=1e-10):
    """round-off comparison of two states: relative to the state itself for the state-dependent equations
    (a decaying solution must not hide behind an absolute tolerance), to max(1, |state|) for u'=1, u'=t;
    NaN-safe (a non-finite value is a difference)"""
    floor = 1e-300 if case["eq"] in STATE_DEPENDENT else 1.0
    return abs(x - ref) <= rtol * max(floor, abs(ref), abs(x))


def compare(case, real, model, mode, exact_state=True, close_times=False):
    """first difference between the real run and the model answer, or None.  `close_times`: compare
    numbers to 1e-10 of the time scale instead of bit for bit (JIT-compiled code in Float mode, where
    LLVM may contract a*b+c into one fused operation)"""
    def dec(s):
        if s == "ConvergenceError":
            return math.nan
        return unq(s) if mode == "Q" else unfbits(s)
    same = (lambda x, s: math.isfinite(x) and q(x) == s) if mode == "Q" else (lambda x, s: fbits(x) == s)
    if close_times:
        scale = max(abs(case["t_start"]), abs(case["t_end"]), case["dt"])
        same = lambda x, s: abs(x - float(dec(s))) <= 1e-10 * scale
        exact_state = False

    state_rtol = 1e-6 if case.get("stepper") == "exact" else 1e-10  # scipy integrates u' = 1 to its own rtol
    if case.get("stepper") == "exact":
        exact_state = False

    def same_state(x, s):
        if s == "ConvergenceError":
            return False
        if exact_state:
            return same(x, s)
        return state_close(case, x, float(dec(s)), state_rtol)

    if real.get("error"):
        return {"what": "real run raised", "impl": real["error"]}
    if model["exit"] == "fuel":
        return {"what": "model ran out of fuel"}
    if len(real["trace"]) != len(model["trace"]):
        return {"what": "number of handle calls", "impl": len(real["trace"]), "model": len(model["trace"]),
                "impl_trace": real["trace"][:40], "model_trace": [[e[0], float(dec(e[1])), float(dec(e[2]))] for e in model["trace"][:40]]}
    for n, (r, m) in enumerate(zip(real["trace"], model["trace"])):
        if r[0] != m[0] or not same(r[1], m[1]) or not same_state(r[2], m[2]):
            return {"what": f"handle call {n}", "impl": list(r), "model": [m[0], float(dec(m[1])), float(dec(m[2]))]}
    if real["steps"] != model["steps"] and case.get("stepper") != "exact":
        return {"what": "steps", "impl": real["steps"], "model": model["steps"]}
    if not same(real["t_final"], model["t_final"]):
        return {"what": "t_final", "impl": real["t_final"], "model": float(dec(model["t_final"]))}
    if not same_state(real["state"], model["state"]):
        return {"what": "final state", "impl": real["state"], "model": float(dec(model["state"]))}
    if real["stop_reason"] != model["stop_reason"] or real["successful"] != model["successful"]:
        return {"what": "stop reason", "impl": [real["stop_reason"], real["successful"]],
                "model": [model["stop_reason"], model["successful"]]}
    fin_model = [i for i, tr in enumerate(model["trackers"]) for _ in range(tr["finalized"])]
    if real["finalized"] != fin_model:
        return {"what": "finalize calls", "impl": real["finalized"], "model": fin_model}
    for i, (tr, mt) in enumerate(zip(case["trackers"], model["trackers"])):
        if tr["kind"] == "callback":
            continue
        rt, rf = real["times"][i], real["frames"][i]
        if len(rt) != len(mt["times"]) or not all(same(a, b) for a, b in zip(rt, mt["times"])):
            return {"what": f"recorded times of tracker {i}", "impl": rt, "model": [float(dec(x)) for x in mt["times"]]}
        if len(rf) != len(mt["frames"]) or not all(same_state(a, b) for a, b in zip(rf, mt["frames"])):
            return {"what": f"recorded frames of tracker {i}", "impl": rf, "model": [float(dec(x)) for x in mt["frames"]]}
    # pending action times after the run (last answer of each interrupt object)
    for i, mt in enumerate(model["trackers"]):
        last = real["sched_log"][i][-1][2] if real["sched_log"][i] else None
        if last is None:
            continue
        if math.isinf(last) != (mt["due"] == "inf") or (not math.isinf(last) and not same(last, mt["due"])):
            if case["trackers"][i]["sched"]["kind"] == "geometric":
                continue  # libm pow: value compared through its effect on the trace only
            return {"what": f"pending action time of tracker {i}", "impl": last, "model": mt["due"]}
    return None


# ------------------------------------------------------------------------------------------
# execution in the three modes and resolution of the model answers (shared by C07 and C08)
def exec_groups(ctx, groups_by_mode):
    """execute all cases; numpy in-process, numba in fresh interpreters (S: NUMBA_DISABLE_JIT=1, J: JIT)"""
    results = {}
    for mode, groups in groups_by_mode.items():
        flat = [c for g in groups for c in g]
        if not flat:
            continue
        if mode == "numpy":
            res = [execute(c) for c in flat]
        else:
            res = execute_many(flat, env=mode_env(mode), procs=ctx.budget(8, 16))
        it = iter(res)
        results[mode] = [[next(it) for _ in g] for g in groups]
    return results


def bit_exact_state(case, mode):
    """is the model state a bit-exact reference for the real state?  Euler only (the other schemes are compared
    to 1e-10); with exact numbers (mode Q) only while float arithmetic is exact, i.e. for u'=1, u'=t; with the
    Float model whenever the code performs the source's IEEE operations (not under JIT: fused multiply-add)"""
    if case["solver"] != "euler":
        return False
    if case["eq"] in STATE_DEPENDENT:
        return mode == "F" and not case.get("jit")
    return True


def check_run(ctx, case, real, batch, pending):
    """queue the model request(s) for one executed run"""
    mode = case["numbers"]
    if isinstance(real, str) or real.get("error"):
        ctx.disagree("correspondence", case, "run completes", real if isinstance(real, str) else real["error"],
                     "real run raised on a valid case")
        return
    orc = needs_oracle(case, mode)
    for i in orc:
        if case["trackers"][i]["sched"]["kind"] != "geometric":
            continue  # (wall-clock schedule: any increasing answers)
        # answers replayed as an oracle must themselves be a geometric schedule (C09's monitor)
        if not geometric_answers_ok(case["trackers"][i]["sched"], real["sched_log"][i]):
            ctx.disagree("correspondence", case, "geometric schedule", real["sched_log"][i][:20],
                         f"answers of the geometric interrupt of tracker {i} are not a geometric schedule")
    i1 = batch.add("c07.run", model_request(case, mode, oracle_answers(real, orc)))
    i2 = i3 = None
    allg = [i for i, tr in enumerate(case["trackers"]) if tr["sched"]["kind"] in ("geometric", "realtime")]
    if mode == "F":
        # the same float inputs through the exact model: how often do exact and IEEE arithmetic part ways?
        i2 = batch.add("c07.run", model_request(case, "Q", oracle_answers(real, allg)))
    elif case["eq"] in STATE_DEPENDENT and bit_exact_state(case, "F") and not (allg and not all(real["sched_log"][i] for i in allg)):
        # dyadic numbers, state-dependent equation: times are exact but the state rounds; the Float
        # instantiation of the same model definitions must reproduce the interpreted solver bit for bit
        i3 = batch.add("c07.run", model_request(case, "F", oracle_answers(real, allg)))
    pending.append((case, real, i1, i2, i3))


def resolve(ctx, pending, answers, batch2):
    """compare; geometric mismatches in exact mode are retried with the recorded answers as oracle"""
    retry = []
    for case, real, i1, i2, i3 in pending:
        ctx.impl_traces += 1
        st, val = answers[i1]
        if st != "ok":
            ctx.disagree("correspondence", case, f"model error: {val}", None)
            continue
        d = compare(case, real, val, case["numbers"], exact_state=bit_exact_state(case, case["numbers"]))
        if case["numbers"] == "F" and case.get("jit"):
            # JIT-compiled steppers may fuse `t_start + i*dt` / `state + dt*rate` into one rounding (LLVM fma
            # contraction): not the IEEE operations of the source, so the Float model is not a bit-exact
            # reference here.  Decimal numbers under JIT are judged by the monitors; the comparison with the
            # Float model is reported only (dyadic numbers under JIT are compared exactly, fma or not).
            if d is None:
                ctx.hist("numba-J decimal vs Float model", "bit-identical")
            elif compare(case, real, val, "F", close_times=True) is None:
                ctx.hist("numba-J decimal vs Float model", "same trace, last bits differ (fused multiply-add)")
            else:
                ctx.hist("numba-J decimal vs Float model", "parted at a rounding tie (fused multiply-add)")
            d = None
        if d is not None:
            geo = [i for i, tr in enumerate(case["trackers"]) if tr["sched"]["kind"] == "geometric"]
            if geo and case["numbers"] == "Q":
                geo += [i for i, tr in enumerate(case["trackers"]) if tr["sched"]["kind"] == "realtime"]
                j = batch2.add("c07.run", model_request(case, "Q", oracle_answers(real, geo)))
                retry.append((case, real, j, d))
            else:
                ctx.disagree("correspondence", case, d.get("model"), d.get("impl"), d["what"])
        if i2 is not None:
            st2, val2 = answers[i2]
            if st2 == "ok":
                same = (val2["steps"] == val["steps"] and len(val2["trace"]) == len(val["trace"])
                        and all(a[0] == b[0] and abs(float(unq(a[1])) - unfbits(b[1])) <= 1e-9 * max(1.0, abs(unfbits(b[1])))
                                for a, b in zip(val2["trace"], val["trace"])))
                ctx.hist("exact-vs-float model", "same trace" if same else "parted at a rounding tie")
        if i3 is not None:
            st3, val3 = answers[i3]
            d3 = compare(case, real, val3, "F", exact_state=True) if st3 == "ok" else {"what": f"model error: {val3}"}
            ctx.hist("state-dependent equation vs Float model", "bit-identical" if d3 is None else "differs")
            if d3 is not None:
                ctx.disagree("correspondence", case, d3.get("model"), d3.get("impl"),
                             d3["what"] + " (Float model of the interpreted solver, state-dependent equation)")
    return retry


def resolve_retry(ctx, retry, answers2):
    for case, real, j, d in retry:
        st, val = answers2[j]
        d2 = compare(case, real, val, "Q", exact_state=bit_exact_state(case, "Q")) if st == "ok" else {"what": f"model error {val}"}
        geo_ok = all(geometric_answers_ok(case["trackers"][i]["sched"], real["sched_log"][i])
                     for i, tr in enumerate(case["trackers"]) if tr["sched"]["kind"] == "geometric")
        if d2 is None and geo_ok:
            ctx.hist("geometric", "float log/ceil tie: replayed as oracle")
        else:
            ctx.disagree("correspondence", case, d.get("model"), d.get("impl"), d["what"] + " (geometric; oracle replay: " + str(d2 and d2["what"]) + ")")


def geometric_answers_ok(s, log):
    """C09's monitor for the recorded geometric answers: on the lattice, not before the query, increasing"""
    prev = None
    for _k, t, a in log:
        if math.isinf(a) or a <= 0:
            return False
        k = math.log(a / s["scale"]) / math.log(s["factor"])
        if abs(k - round(k)) > 1e-7 * max(1.0, abs(k)) or a < t - 1e-12 * abs(t) or (prev is not None and not a > prev):
            return False
        prev = a
    return True



# ------------------------------------------------------------------------------------------
# reference quantities for the monitors (independent of the Lean model)
def rate_fn(case):
    """the right-hand side on one cell, as `CountingPDE` computes it"""
    eq, a = case["eq"], case.get("a", 0.0)
    if eq in ("one", "hook"):
        return lambda u, t: 1.0
    if eq == "time":
        return lambda u, t: t
    if eq == "lin":
        return lambda u, t: a * u
    if eq == "lint":
        return lambda u, t: a * u + t
    raise ValueError(eq)


def _fixpoint(it, x, cells):
    """the convergence loop of implicit.py / crank_nicolson.py (None: ConvergenceError)"""
    maxerr2 = IMPLICIT_MAXERROR ** 2
    for _ in range(IMPLICIT_MAXITER):
        prev = x
        x = it(x)
        d = x - prev
        err = 0.0
        for _j in range(cells):
            err += d * d
        err /= cells
        if err < maxerr2:
            return x
    return None


def iterate_states(case, n):
    """u_0..u_n: `n` applications of the solver's one-step map at times t_start + i*dt - an own Python copy
    of the update formulas of the five fixed-step solvers (same float operations in the same order as the
    interpreted source); the list ends early where a step would raise ConvergenceError"""
    f = rate_fn(case)
    u = case["u0"]
    dt, t0 = case["dt"], case["t_start"]
    solver, cells = case["solver"], int(case.get("cells", 1))
    out = [u]
    prev = None
    hook_data = 0.0
    for i in range(n):
        t = t0 + i * dt
        if solver == "euler":
            u = u + dt * f(u, t)
        elif solver == "runge-kutta":
            k1 = dt * f(u, t)
            k2 = dt * f(u + 0.5 * k1, t + 0.5 * dt)
            k3 = dt * f(u + 0.5 * k2, t + 0.5 * dt)
            k4 = dt * f(u + k3, t + dt)
            u = u + (k1 + 2 * k2 + 2 * k3 + k4) / 6
        elif solver == "implicit":
            ut = u
            u = _fixpoint(lambda x: ut + dt * f(x, t + dt), ut + dt * f(ut, t), cells)
        elif solver == "crank-nicolson":
            ut, rate_t = u, f(u, t)
            it = lambda x: ut + dt / 2 * (f(x, t + dt) + rate_t)
            u = _fixpoint(it, it(ut), cells)
        elif solver == "adams-bashforth":
            if prev is None:
                prev = u - dt * f(u, t0)
            rhs_prev, rhs_cur = f(prev, t - dt), f(u, t)
            prev = u
            u = u + dt * (1.5 * rhs_cur - 0.5 * rhs_prev)
        else:
            raise ValueError(solver)
        if u is None:
            break
        if case["eq"] == "hook":
            hook_data += 1.0
            u = u + case["a"] * hook_data
        out.append(u)
    return out


def _tol(case):
    return 1e-9 * max(abs(case["t_start"]), abs(case["t_end"]), case["dt"], 1e-300)


def state_matches_iterate(case, x, ref, exact):
    """does an observed state equal the reference iterate?  bit for bit where the reference performs the very
    float operations of the run (interpreted Euler with exact times), else to round-off; NaN-safe"""
    if exact and case["solver"] == "euler" and not (case["eq"] in STATE_DEPENDENT and case.get("jit")):
        return x == ref
    return state_close(case, x, ref)


def monitor_accounting(case, real):
    """C07 on one run without stop requests: list of (what, observed, expected)"""
    bad = []
    dt, t0, t1 = case["dt"], case["t_start"], case["t_end"]
    exact = case["numbers"] == "Q"
    tol = 0.0 if exact else _tol(case)
    steps, tf = real["steps"], real["t_final"]
    if real["stop_reason"] != "Reached final time" or not real["successful"]:
        bad.append(("read-only run did not reach the final time", real["stop_reason"], "Reached final time"))
    if case.get("N") is not None:
        if steps != case["N"]:
            bad.append(("steps == N for a range of N steps", steps, case["N"]))
        if not (abs(tf - t1) <= tol + abs(case.get("delta") or 0.0)):
            bad.append(("t_final == t_end for a range of N steps", tf, t1))
    if not (abs(tf - (t0 + steps * dt)) <= tol):
        bad.append(("t_final == t_start + steps*dt", tf, t0 + steps * dt))
    if t1 >= t0 and not abs(tf - t1) < dt * (1 + (0 if exact else 1e-9)):
        bad.append(("|t_final - t_end| < dt", tf - t1, f"< {dt}"))
    states = iterate_states(case, steps)
    if len(states) <= steps:
        bad.append(("final state == steps applications of the one-step map", real["state"],
                    f"the reference iteration does not converge at step {len(states) - 1}"))
    elif not state_matches_iterate(case, real["state"], states[steps], exact):
        bad.append(("final state == steps applications of the one-step map", real["state"], states[steps]))
    if not real["uniform"] or not (real.get("state_imag", 0.0) == 0.0):
        bad.append(("all cells evolve alike", "non-uniform", "uniform"))
    if (real["initial_after"] != case["u0"] or not real["initial_uniform"] or real["same_object"]
            or not real.get("initial_intact", True)):
        bad.append(("caller's initial state object left unmodified",
                    {"value": real["initial_after"], "aliased": real["same_object"],
                     "data/dtype/label intact": real.get("initial_intact")}, case["u0"]))
    return bad


def monitor_independence(group):
    """C07 across tracker sets: `group` = [(case, real), ...] with identical base parameters; the first
    member is the reference (in the generated groups: the run without any tracker)"""
    bad = []
    (c0, r0) = group[0]
    for c, r in group[1:]:
        if r["steps"] != r0["steps"]:
            bad.append(("steps independent of the trackers", r["steps"], r0["steps"]))
        if c0["eq"] in AUTONOMOUS:
            if fbits(r["state"]) != fbits(r0["state"]):
                bad.append(("final state bit-identical for every tracker set (autonomous)", r["state"], r0["state"]))
        elif not state_close(c0, r["state"], r0["state"]):
            bad.append(("final state identical to round-off for every tracker set", r["state"], r0["state"]))
        tol = 0.0 if c0["numbers"] == "Q" else _tol(c0)
        if not (abs(r["t_final"] - r0["t_final"]) <= tol):
            bad.append(("t_final independent of the trackers", r["t_final"], r0["t_final"]))
    return bad


# the corners in which the unchanged py-pde deviates from the literal statement of C08; a monitor failure gets one
# of these keys only if the monitor has recognised the corner from the data of the failing run
KNOWN_CORNERS = {
    "scheduled-at-t_end-missed": {
        "what": "every scheduled time <= t_end is served", "corner": "t_end = t_final + 1e-6*dt"},
    "adaptive-served-with-another-tracker": {
        "what": "adaptive stepper serves each scheduled time exactly at it", "corner": "another tracker due up to dt/2 earlier"},
    "whole-range-sliver-frame": {
        "call_site": "Controller._run_main_process final handle (atol = 1e-6*dt)",
        "what": "floor(T/D)+1 frames on a range that is a whole number of steps",
        "corner": "scheduled time in (t_end, t_end + 1e-6*dt) is served at t_end"},
    "geometric-log-overshoot": {
        "call_site": "GeometricInterrupts.next (np.ceil of np.log(t_min/scale)/np.log(factor))",
        "what": "a scheduled time equal to the time the schedule is asked about is served",
        "corner": "the float estimate of the exponent rounds above the exact integer"},
    "adaptive-dtmin-overshoot": {
        "call_site": "adaptive stepper: dt_step = max(min(dt_opt, t_end - t), dt_min)",
        "what": "adaptive stepper serves each scheduled time exactly at it",
        "corner": "an accepted step ends less than dt_min before the target: the call is up to dt_min = 1e-10 late"},
    "extra-frame-before-final-time": {
        "call_site": "Controller._run_main_process main loop (tracker_atol = dt/2)",
        "what": "the one frame more than floor(T/D)+1 is taken at the final time",
        "corner": "scheduled time in (t_end, t_end + dt/2) is served one step before t_final"},
}


def failure_key(what, corner=None):
    """key of a C08 monitor failure for known_findings.json"""
    if corner in KNOWN_CORNERS:
        return dict(KNOWN_CORNERS[corner])
    return {"what": what.split(" of ")[0][:60]}


def final_handle_time(case, t):
    """was a handle at time `t` the final one (loop condition `t < t_end - 1e-6*dt` false)?"""
    return not (t < case["t_end"] - EPS * case["dt"])


def monitor_trackers(case, real, stats=None):
    """C08 on one run: list of (what, observed, expected[, known corner]); `stats(name, key)` receives how each
    non-constant schedule was judged (for the evidence histograms)"""
    bad = []
    dt, t0, t1 = case["dt"], case["t_start"], case["t_end"]
    exact = case["numbers"] == "Q"
    tol = 0.0 if exact else _tol(case)
    steps, tf = real["steps"], real["t_final"]
    states = iterate_states(case, steps)
    n_tr = len(case["trackers"])
    per = [[] for _ in range(n_tr)]
    prev_t = None
    for (i, t, u) in real["trace"]:
        per[i].append((t, u))
        if prev_t is not None and t < prev_t:
            bad.append(("handle calls ordered in time", t, f">= {prev_t}"))
        prev_t = t
        n = round((t - t0) / dt) if math.isfinite(t) else -1
        if not (abs(t - (t0 + n * dt)) <= tol) or not 0 <= n <= steps:
            bad.append(("tracker time is a simulation time t_start + n*dt", t, f"n={n}"))
        elif n >= len(states) or not state_matches_iterate(case, u, states[n], exact):
            bad.append(("state shown to a tracker at t_start + n*dt is the state after n steps", {"t": t, "n": n, "state": u},
                        states[n] if n < len(states) else "reference iteration does not converge"))
    for i, ev in enumerate(per):
        for (a, _), (b, _) in zip(ev, ev[1:]):
            if not b > a:
                bad.append((f"tracker {i} called at strictly increasing times", b, f"> {a}"))
    # recorded frames of storage / data trackers = their calls (minus a raising one)
    raised_at = {(i, k) for (i, k, _t, _kind, _m) in real["raised"]}
    for i, tr in enumerate(case["trackers"]):
        if tr["kind"] == "callback":
            continue
        exp_t = [t for k, (t, _u) in enumerate(per[i]) if tr["kind"] == "data" or (i, k) not in raised_at]
        exp_f = [u for k, (_t, u) in enumerate(per[i]) if (i, k) not in raised_at]
        if real["times"][i] != exp_t:
            bad.append((f"recorded times of {tr['kind']} tracker {i}", real["times"][i], exp_t))
        if real["frames"][i] != exp_f:
            bad.append((f"recorded frames of {tr['kind']} tracker {i}", real["frames"][i], exp_f))
    stopped = bool(real["raised"])
    # constant schedules with D >= dt: every scheduled time served exactly once within dt/2, and the frame count
    # of the property text, clause by clause (the literal statement; the corners in which the unchanged code
    # deviates from it are recognised from the data of the run and named in the 4th entry, see KNOWN_CORNERS)
    whole = case.get("N") is not None and not (case.get("delta") or 0.0)
    for i, tr in enumerate(case["trackers"]):
        s = tr["sched"]
        if s["kind"] != "constant" or not (s["dt"] >= dt):
            continue
        D = s["dt"]
        tau0 = t0 if s.get("t_start") is None else max(t0, s["t_start"])
        calls = [t for t, _ in per[i]]
        for k, t in enumerate(calls):
            sig = tau0 + k * D
            if not (abs(t - sig) <= dt / 2 + tol):
                bad.append((f"call {k} of constant tracker {i} within dt/2 of its scheduled time", t, sig))
                break
        if stopped or not t1 >= t0:
            continue
        # the code's own scheduled times: `_t_next += D` starting at tau0 (no catch-up for D >= dt), so
        # "scheduled time <= t_end" is decided on exactly the numbers the code compares
        acc, a = [], tau0
        for _ in range(len(calls) + 3):
            acc.append(a)
            a = a + D
        lo = sum(1 for x in acc if x <= t1)           # floor(T/D) + 1 for tau0 = t_start
        lo_hi = sum(1 for x in acc if x <= t1 + tol)  # the same up to round-off (decimal numbers)
        n = len(calls)
        what_count = "floor(T/D)+1" if tau0 == t0 else "#{k: tau0 + k*D <= t_end}"
        if n < lo:
            sig = acc[n]
            corner = None
            if not (tf > sig - EPS * dt) and not (tf < t1 - EPS * dt):
                # the loop stopped at t_final >= t_end - 1e-6*dt and the final handle tests t > t_next - 1e-6*dt
                # strictly: a time scheduled at t_end = t_final + 1e-6*dt is due for neither
                corner = "scheduled-at-t_end-missed"
            bad.append((f"every scheduled time <= t_end of constant tracker {i} is served",
                        {"calls": calls[-3:], "n_calls": n, "t_final": tf},
                        {"scheduled times <= t_end": lo, "first missed": sig, "t_end": t1}, corner))
        elif whole:
            if n > lo_hi:
                sig = acc[n - 1]
                corner = None
                if n == lo_hi + 1 and t1 < sig <= t1 + EPS * dt + tol and tf > sig - EPS * dt and abs(calls[-1] - tf) <= tol:
                    corner = "whole-range-sliver-frame"
                bad.append((f"constant tracker {i} is handled {what_count} times on a range that is a whole number of steps",
                            {"n_calls": n, "last calls": calls[-3:], "t_final": tf},
                            {"expected": lo if lo == lo_hi else f"{lo}..{lo_hi}", "scheduled": acc[max(0, n - 2):n], "t_end": t1},
                            corner))
        else:
            if n > lo_hi + 1:
                bad.append((f"constant tracker {i} is handled {what_count} times or once more", n, f"{lo}..{lo_hi + 1}"))
            elif n == lo_hi + 1 and not (abs(calls[-1] - tf) <= tol):
                sig = acc[n - 1]
                corner = None
                if sig > t1 and calls[-1] < tf and calls[-1] > sig - dt / 2 - tol:
                    # scheduled after t_end but within dt/2 of the last lattice time before t_final: served there
                    corner = "extra-frame-before-final-time"
                bad.append((f"the one frame more than {what_count} of constant tracker {i} is taken at the final time",
                            {"last call": calls[-1], "t_final": tf, "n_calls": n},
                            {"served scheduled time": sig, "t_end": t1, "scheduled times <= t_end": lo}, corner))
    # non-constant schedules (fixed lists of any shape, geometric, logarithmic, time strings): the literal clause on
    # the schedule's defining set - see `monitor_schedule`
    for i, tr in enumerate(case["trackers"]):
        bad.extend(monitor_schedule(case, real, i, [t for t, _ in per[i]], stopped, stats))
    # finalisation: every tracker exactly once, in order, on every path
    if real["finalized"] != list(range(n_tr)):
        bad.append(("every tracker finalised exactly once", real["finalized"], list(range(n_tr))))
    # stop handling
    if stopped:
        ts = real["raised"][0][2]
        if any(r[2] != ts for r in real["raised"]):
            bad.append(("no tracker is called after a stop was requested", [r[2] for r in real["raised"]], ts))
        if tf != ts:
            bad.append(("run ends at the time of the stop request", tf, ts))
        n = round((ts - t0) / dt)
        if steps != n:
            bad.append(("no step is taken after the stop request", steps, n))
        if 0 <= n < len(states) and not state_matches_iterate(case, real["state"], states[n], exact):
            bad.append(("final state is the state of the stop time", real["state"], states[n]))
        if real["trace"] and real["trace"][-1][1] != ts:
            bad.append(("last handle call is at the stop time", real["trace"][-1][1], ts))
        atol = EPS * dt if final_handle_time(case, ts) else 0.5 * dt
        served = {i for (i, t, _u) in real["trace"] if t == ts}
        for i in range(n_tr):
            # pending action time of tracker i when the handle at `ts` started
            pend = None
            for (_kind, tq, a) in real["sched_log"][i]:
                if _kind == "init" or tq < ts:
                    pend = a
            if pend is not None and ts > pend - atol and i not in served:
                bad.append((f"tracker {i} due at the stop time is still served", "not called", f"pending {pend}, t={ts}"))
            if i in served and not (pend is not None and ts > pend - atol):
                bad.append((f"tracker {i} served at the stop time was due", f"pending {pend}", ts))
        last = max(real["raised"], key=lambda r: r[0])
        kind, msg = last[3], last[4]
        exp_reason = msg if msg else ("Tracker raised FinishedSimulation" if kind == "F" else "Tracker raised StopIteration")
        if real["stop_reason"] != exp_reason or real["successful"] != (kind == "F"):
            bad.append(("stop reason of the last raising tracker is reported",
                        [real["stop_reason"], real["successful"]], [exp_reason, kind == "F"]))
    else:
        if real["stop_reason"] != "Reached final time" or not real["successful"]:
            bad.append(("run without stop request reaches the final time", real["stop_reason"], "Reached final time"))
    return bad


# ------------------------------------------------------------------------------------------
# the literal clause for non-constant schedules
GEOM_AMBIGUOUS = 1e-12  # relative distance below which float log/pow may place a time on either side of a member


def geometric_overshoot(scale, factor, t, k):
    """does the code's own estimate `np.log(t/scale)/np.log(factor)` of the exponent of `t == scale*factor**k`
    round above the exact integer `k` (so that `np.ceil` answers `k + 1`)?  Recognises the known corner."""
    with np.errstate(all="ignore"):
        i = np.log(t / scale) / np.log(factor)
    return bool(i > k)


def schedule_members(s, t0, dt, horizon):
    """the defining set of a non-constant schedule as the run sees it: list of (time, exponent or index) in the
    order in which the schedule offers them (a fixed list: list order, all entries; geometric: scale*factor**k,
    k >= 0, increasing, up to `horizon`; logarithmic: tau0, tau0 + d0, tau0 + d0 + d0*f, ... accumulated like the
    code does).  None: the schedule has no defining set that is independent of the history of the run."""
    k = s["kind"]
    if k == "fixed":
        return [(float(e), j) for j, e in enumerate(s["interrupts"])]
    if k == "geometric":
        sc, f = s["scale"], s["factor"]
        if not (sc > 0 and f > 1):
            return None
        out, j = [], 0
        if t0 > sc:  # skip the members before the run without walking through them one by one
            j = max(0, int(math.floor(math.log(t0 / sc) / math.log(f))) - 2)
        while len(out) < 5000:
            g = geometric_time(sc, f, j)
            out.append((g, j))
            if not g <= horizon:
                break
            j += 1
        return out
    if k == "logarithmic":
        d0, f = s["dt_initial"], s["factor"]
        if not (f >= 1 and d0 >= dt):
            return None  # gaps below dt: the catch-up depends on the times of the calls (C09), no fixed set
        a = t0 if s.get("t_start") is None else max(t0, s["t_start"])
        d = d0 / f
        out = []
        while len(out) < 5000:
            out.append((a, len(out)))
            if not a <= horizon:
                break
            d = d * f   # `self.dt *= self.factor`
            a = a + d   # `self._t_next += self.dt`
        return out
    return None


def first_scheduled(s, t0, dt):
    """(time, exponent / index) of the first scheduled time of a non-constant schedule in a run starting at t0
    (None: none); a time-string schedule starts at t0"""
    if s["kind"] == "realtime":
        return (t0, 0)
    if s["kind"] == "logarithmic":
        return (t0 if s.get("t_start") is None else max(t0, s["t_start"]), 0)
    mem = schedule_members(s, t0, dt, t0 + dt) if s["kind"] in ("fixed", "geometric") else None
    for e, j in mem or []:
        if e >= t0:
            return (e, j)
    return None


def monitor_schedule(case, real, i, calls, stopped, stats=None):
    """The clause "every scheduled time in [t_start, t_end] is served exactly once, in order, by a call within
    dt/2 of it - the first one AT t_start when t_start is itself scheduled" for tracker `i` with a fixed-list,
    geometric or logarithmic schedule, judged against the schedule's defining set (properties.jsonl, C09): the
    pending scheduled time is the first not-yet-passed member (`>=` the time of the previous call; at the start:
    `>= t_start`) after the one served last; for a list in list order.  The k-th call must serve the k-th pending
    time p_k: not earlier than dt/2 before it and not later than dt/2 after it; only a member that was less than dt/2
    ahead when it became pending (members closer than dt: the analogue of D < dt) is served one step after the
    previous call instead.  Without a stop request nothing scheduled <= t_end may stay pending.  Members the
    schedule has passed (closer than dt/2 to a call, or out of order in a list) are not served: this is C09's
    definition of these schedules, for every list shape - sorted, dense, duplicated, unsorted.
    Wall-clock schedules (time strings) have no defining set: their first call must be at t_start."""
    tr = case["trackers"][i]
    s = tr["sched"]
    kind = s["kind"]
    dt, t0, t1 = case["dt"], case["t_start"], case["t_end"]
    tf = real["t_final"]
    tol = 0.0 if case["numbers"] == "Q" else _tol(case)
    name = {"fixed": "fixed-list", "geometric": "geometric", "logarithmic": "logarithmic"}.get(kind, kind)
    note = stats or (lambda *a: None)
    if kind == "realtime":
        if not calls or calls[0] != t0:
            return [(f"first call of time-string tracker {i} is at t_start", calls[:3], t0)]
        note("non-constant schedule judged", "time string: first call at t_start")
        return []
    if kind not in ("fixed", "geometric", "logarithmic"):
        return []
    horizon = max([t1, t0, tf] + calls[-1:]) + 2 * dt
    mem = schedule_members(s, t0, dt, horizon)
    if mem is None:
        note("non-constant schedule judged", f"{name}: no history-independent defining set (general clauses only)")
        return []
    geo = kind == "geometric"

    def slack(p):
        return tol + (GEOM_AMBIGUOUS * abs(p) if geo else 0.0)

    def pending_after(pos, t):
        """candidates for the first member after position `pos` that is not yet passed at time `t`: list of
        positions (two when float log/pow cannot tell on which side of `t` a geometric member lies; [None]:
        exhausted).  A logarithmic schedule with gaps >= dt never skips."""
        j = pos + 1
        while j < len(mem):
            e = mem[j][0]
            if kind == "logarithmic":
                return [j]
            if geo and e != t and abs(e - t) <= GEOM_AMBIGUOUS * abs(t) and j + 1 < len(mem):
                return [j, j + 1]
            if e >= t:
                return [j]
            j += 1
        return [None]

    literal = [True]  # no member was passed / served late: the run is judged by the literal clause alone

    def walk(k, pos_cands, t_prev):
        """failures of calls k.. given the candidates for the pending member; a branch without failure wins"""
        first_res = None
        for pos in pos_cands:
            res = walk1(k, pos, t_prev)
            if not res:
                return res
            if first_res is None:
                first_res = res
        return first_res

    def walk1(k, pos, t_prev):
        res = walk_spec(k, pos, t_prev)
        if res and geo and pos is not None:
            p = mem[pos][0]
            asked = t0 if k == 0 else t_prev  # the time the schedule was asked about when `p` became pending
            if p == asked and geometric_overshoot(s["scale"], s["factor"], p, mem[pos][1]):
                # the member equal to the queried time is skipped by the code's float estimate of its exponent
                # (known corner): recognised if the run fits the schedule without this member
                if not walk(k, pending_after(pos, asked), t_prev):
                    what, obs, exp = res[0][:3]
                    return [(what, obs, exp, "geometric-log-overshoot")]
        return res

    def walk_spec(k, pos, t_prev):
        if k == len(calls):
            if stopped or not t1 >= t0 or pos is None:
                return []
            p = mem[pos][0]
            if not p <= t1:
                return []
            if calls and not calls[-1] < tf and not p >= calls[-1] + dt / 2:
                return []  # became pending at the final time itself, less than dt/2 ahead: served by that call
            corner = None
            if not (tf > p - EPS * dt) and not (tf < t1 - EPS * dt):
                corner = "scheduled-at-t_end-missed"
            return [(f"every scheduled time <= t_end of {name} tracker {i} is served",
                     {"calls": calls[-3:], "n_calls": len(calls), "t_final": tf},
                     {"first scheduled time not served": p, "t_end": t1}, corner)]
        t = calls[k]
        if pos is None:
            return [(f"call {k} of {name} tracker {i} serves a scheduled time", t, "no scheduled time left")]
        p = mem[pos][0]
        reach = p + dt / 2 if (k == 0 or p >= t_prev + dt / 2) else max(p + dt / 2, t_prev + dt)
        if reach != p + dt / 2:
            literal[0] = False
        if not (t >= p - dt / 2 - slack(p) and t <= reach + slack(p)):
            if k == 0 and p == t0:
                what = f"scheduled time at t_start of {name} tracker {i} is served at t_start"
            else:
                what = f"call {k} of {name} tracker {i} within dt/2 of its scheduled time"
            return [(what, {"call": t, "all calls": calls[:12]}, {"scheduled time": p, "t_start": t0})]
        nxt = pending_after(pos, t)
        if nxt[0] is not None and nxt[0] != pos + 1:
            literal[0] = False
        return walk(k + 1, nxt, t)

    first = pending_after(-1, t0)
    bad = walk(0, first, None)
    if not bad and kind == "fixed" and not stopped and t1 >= t0:
        inc = all(b[0] > a[0] for a, b in zip(mem, mem[1:]))
        lost = [e for e, _ in mem if t0 <= e <= t1 and not any(abs(c - e) <= dt + slack(e) for c in calls)]
        if not inc:
            # (C09 defines a fixed schedule by "the first not-yet-passed element of the given increasing list": in a list
            # that is not increasing the entries that come after a later time are passed over - observation, not judged)
            note("fixed list not in increasing order", f"{min(len(lost), 3)}{'+' if len(lost) > 3 else ''} entries inside the range passed over")
    if not bad:
        gaps_ok = literal[0] and all(b[0] - a[0] >= dt for a, b in zip(mem, mem[1:]) if a[0] >= t0 and b[0] <= t1)
        on_start = first[0] is not None and mem[first[0]][0] == t0
        note("non-constant schedule judged",
             f"{name}: " + ("literal clause (members >= dt apart)" if gaps_ok else "with passed / merged members")
             + (", t_start scheduled" if on_start else ""))
    return bad


def monitor_exact(case, real, strict_exact=True):
    """C08 for steppers that reach their target exactly (ScipySolver, adaptive steppers): calls at strictly
    increasing action times; a constant schedule starting at t_start is never served late and - the clause
    "exactly at it for adaptive steppers", `strict_exact` - every call is exactly at its scheduled time.  The
    unchanged code violates the clause when another tracker is due up to dt/2 earlier (both are served
    together): recognised from the data of the run and named in the 4th entry (see KNOWN_CORNERS).
    `strict_exact=False`: the clause is demanded of a single tracker only."""
    bad = []
    dt, t0, t1 = case["dt"], case["t_start"], case["t_end"]
    # adaptive steppers: the last step of a segment is `max(t_end - t, dt_min)` with dt_min = 1e-10, so the target
    # is reached to round-off or overshot by up to dt_min; their tolerances follow the current adaptive dt
    rt = 1.5e-10 + 1e-12 * max(abs(t0), abs(t1), dt) if case.get("round_off") else 0.0
    dt_eff = max(dt, real.get("dt_final") or dt) if case.get("round_off") else dt
    n_tr = len(case["trackers"])
    per = [[] for _ in range(n_tr)]
    action = {t0, t1}
    for log in real["sched_log"]:
        action.update(a for _k, _t, a in log)
    for (i, t, u) in real["trace"]:
        per[i].append(t)
        if rt == 0.0 and t not in action:
            bad.append(("tracker time is an action time (t_start, t_end or a scheduled time)", t, "one of the schedules"))
        ref = case["u0"] + (t - t0)
        if case["eq"] == "one" and not (abs(u - ref) <= 1e-6 * max(1.0, abs(ref))):
            bad.append(("state shown to a tracker is the state of that time", {"t": t, "state": u}, ref))
    for i, ev in enumerate(per):
        for a, b in zip(ev, ev[1:]):
            if not b > a:
                bad.append((f"tracker {i} called at strictly increasing times", b, f"> {a}"))
    stopped = bool(real["raised"])

    def another_on_time(i, t):
        """is a tracker other than `i` served at `t` because its own action time is `t`?"""
        for j in range(n_tr):
            if j != i and any(abs(tt - t) <= rt for tt in per[j]) and \
                    any(abs(a - t) <= rt for _k, _t, a in real["sched_log"][j]):
                return True
        return False

    dtmin_seen = False
    for i, tr in enumerate(case["trackers"]):
        s = tr["sched"]
        if s["kind"] != "constant" or not s["dt"] > 0:
            continue
        D = s["dt"]
        tau0 = t0 if s.get("t_start") is None else max(t0, s["t_start"])
        a = tau0
        for k, t in enumerate(per[i]):
            if D >= dt:
                if not (t <= a + rt):
                    bad.append((f"call {k} of constant tracker {i} is not late", t, a))
                    break
                if not case.get("round_off") and not (t >= a - dt / 2 - rt):
                    # (fixed tolerance dt/2: ScipySolver(dt); the tolerance of an adaptive stepper follows its dt)
                    bad.append((f"call {k} of constant tracker {i} is at most dt/2 early", t, a))
                    break
                # the property's schedule is t_start + k*D: trackers with an own start offset are outside the clause
                # (a first scheduled time less than dt/2 after t_start is served at t_start)
                exact_required = (strict_exact or n_tr == 1) and tau0 == t0
                # a call at t_end for a scheduled time just beyond t_end is the "one frame more, at the final time"
                sliver = abs(t - t1) <= rt and t1 < a < t1 + EPS * dt_eff + rt
                if (exact_required and case.get("round_off") and not sliver and not dtmin_seen
                        and 1e-12 * max(1.0, abs(a)) < t - a <= rt):
                    # literal clause "exactly at it": an accepted step that ends less than dt_min = 1e-10 before the
                    # target is followed by a step of length dt_min, so the call is up to dt_min late (listed finding;
                    # Lean: adaptiveStepper_lands, adaptive_overshoot_by_dtmin)
                    dtmin_seen = True
                    bad.append((f"call {k} of constant tracker {i} exactly at its scheduled time (adaptive stepper)",
                                {"call": t, "late by": t - a}, a, "adaptive-dtmin-overshoot"))
                if exact_required and not (abs(t - a) <= rt) and not sliver:
                    corner = "adaptive-served-with-another-tracker" if (t < a and another_on_time(i, t)) else None
                    bad.append((f"call {k} of constant tracker {i} exactly at its scheduled time (adaptive stepper)",
                                {"call": t, "all calls": per[i][:12]}, a, corner))
                    break
            a = a + D
        if D >= dt and not stopped and t1 >= t0:
            acc, a = [], tau0
            for _ in range(len(per[i]) + 3):
                acc.append(a)
                a = a + D
            lo = sum(1 for x in acc if x <= t1 - rt)
            if len(per[i]) < lo:
                sig, tf = acc[len(per[i])], real["t_final"]
                corner = None
                if (len(per[i]) == lo - 1 and tf is not None and not (tf > sig - EPS * dt_eff)
                        and not (tf < t1 - EPS * dt_eff)):
                    # the same corner as with fixed steps: the loop ended at a tracker time t_final >= t_end - 1e-6*dt
                    # and the final handle tests t > t_next - 1e-6*dt strictly, so a time scheduled at t_end is due
                    # for neither (recognised from the data of the run)
                    corner = "scheduled-at-t_end-missed"
                bad.append((f"every scheduled time <= t_end of constant tracker {i} is served", len(per[i]), lo, corner))
    # non-constant schedules: a scheduled time that is t_start itself is served at t_start
    for i, tr in enumerate(case["trackers"]):
        s = tr["sched"]
        if s["kind"] not in ("fixed", "geometric", "logarithmic", "realtime"):
            continue
        p0 = first_scheduled(s, t0, dt)
        if p0 is not None and p0[0] == t0 and not (per[i] and per[i][0] == t0):
            corner = None
            if s["kind"] == "geometric" and geometric_overshoot(s["scale"], s["factor"], t0, p0[1]):
                corner = "geometric-log-overshoot"
            bad.append((f"scheduled time at t_start of {s['kind']} tracker {i} is served at t_start", per[i][:6], t0, corner))
    if real["finalized"] != list(range(n_tr)):
        bad.append(("every tracker finalised exactly once", real["finalized"], list(range(n_tr))))
    if stopped:
        ts = real["raised"][0][2]
        if real["t_final"] != ts or (real["trace"] and real["trace"][-1][1] != ts):
            bad.append(("run ends at the time of the stop request", real["t_final"], ts))
        last = max(real["raised"], key=lambda r: r[0])
        kind, msg = last[3], last[4]
        exp_reason = msg if msg else ("Tracker raised FinishedSimulation" if kind == "F" else "Tracker raised StopIteration")
        if real["stop_reason"] != exp_reason or real["successful"] != (kind == "F"):
            bad.append(("stop reason of the last raising tracker is reported",
                        [real["stop_reason"], real["successful"]], [exp_reason, kind == "F"]))
    elif real["stop_reason"] != "Reached final time":
        bad.append(("run without stop request reaches the final time", real["stop_reason"], "Reached final time"))
    elif t1 >= t0 and not (abs(real["t_final"] - t1) <= rt) and not (t1 - t0 <= EPS * dt):
        # an exact stepper ends at t_end itself (or, after a last target within 1e-6*dt of it, just before)
        if not (t1 - EPS * dt_eff - rt <= real["t_final"] <= t1 + rt):
            bad.append(("exact stepper ends at t_end", real["t_final"], t1))
    return bad


# ------------------------------------------------------------------------------------------
# generators
def dyadic(rng, lo=1, hi=32, emax=5):
    return rng.randint(lo, hi) / 2 ** rng.randint(0, emax)


DECIMAL_DT = [0.1, 0.3, 1e-3, 0.05, 0.7, 1 / 3, 0.01, 0.025, 0.2, 1.1, 2.5e-4, 0.15, 0.6, 0.9, 1e-2 / 3]
DECIMAL_T0 = [0.0, 0.0, 0.0, 0.1, 1.0, 0.3, -0.5, 2.7, 10.0, 100.3, 1e-3]
RATIOS_Q = [0.25, 0.5, 0.75, 1, 1, 1.5, 2, 2.5, 3, 3.5, 4.5, 5.25, 7.5, 10, 1.125, 2.375, 0.375, 6.5, 1.25, 1.75]
RATIOS_F = RATIOS_Q + [7 / 3, 0.3, math.e, math.sqrt(2), 1.1, 0.9, 2.9999999, 10 / 3, 1.0000001, 0.7, 3.3]


def gen_base(rng, numbers, hist, max_steps=120):
    """(dt, t_start, t_end, N, delta): N is the step count of a whole range (None for a general
    range); delta != 0 marks a range that is N steps long only up to |delta| < 1e-6*dt"""
    if numbers == "Q":
        dt = dyadic(rng, 1, 24, 6)
        t0 = rng.choice([0.0, 0.0, dyadic(rng, 0, 64, 4), -dyadic(rng, 0, 16, 3)]) + 0.0  # (-0.0 + 0.0 = +0.0)
    else:
        dt = rng.choice(DECIMAL_DT)
        t0 = rng.choice(DECIMAL_T0)
    return gen_range(rng, numbers, hist, max_steps, dt, t0)


def gen_range(rng, numbers, hist, max_steps, dt, t0):
    """the range part of `gen_base` for a given step and start time: (dt, t_start, t_end, N, delta)"""
    r = rng.random()
    n = rng.choice([1, 2, 3, 4, 5, 7, 10, 16, 25, 33, 50, 64, 100, max_steps])
    n = min(n, max_steps)
    if r < 0.55:
        hist("range", "whole")
        t1 = t0 + n * dt
        if numbers == "F" and rng.random() < 0.3:
            # decimal literal of the end time (as a user would type it), if it is the same range to round-off
            lit = float(repr(round(t0 + n * dt, 12)))
            if abs(lit - t1) <= 0.25e-9 * max(abs(t0), abs(t1), dt):
                t1 = lit
                hist("range", "whole (decimal literal)")
        return dt, t0, t1, n, 0.0
    if r < 0.65:
        # N steps up to the loop's own tolerance
        x = rng.choice([0.9, -0.9, 0.5, -0.5, 0.1, -0.1, 0.01, -0.99, 0.99])
        if numbers == "Q":
            delta = math.ldexp(1.0, -21) * dt * (1 if x > 0 else -1) * rng.choice([1, 0.5, 0.25])  # 2^-21 < 1e-6
        else:
            delta = x * EPS * dt
        t1 = t0 + n * dt + delta
        delta = t1 - (t0 + n * dt)
        if abs(delta) < EPS * dt * 0.995:
            hist("range", "whole up to |delta| < 1e-6 dt")
            return dt, t0, t1, n, delta
        return dt, t0, t0 + n * dt, n, 0.0
    if r < 0.9:
        frac = rng.choice([0.5, 0.5, 0.25, 0.75, 0.125, 0.375, 0.625, 0.0625, 0.9375]) if numbers == "Q" else \
            rng.choice([0.5, 0.5, 0.25, 0.49999999, 0.50000001, 0.3, 0.7, 0.999, 0.99999, 2e-6, 0.1, 1e-3])
        hist("range", f"general frac={frac}")
        return dt, t0, t0 + (n - 1 + frac) * dt, None, 0.0
    if r < 0.94:
        hist("range", "empty")
        return dt, t0, t0, 0, 0.0
    if r < 0.96:
        hist("range", "t_end < t_start")
        return dt, t0, t0 - rng.choice([0.5, 1, 3]) * dt, None, 0.0
    hist("range", "shorter than a step")
    frac = rng.choice([0.25, 0.5, 0.75, 0.0625]) if numbers == "Q" else rng.choice([0.5, 0.3, 0.9, 0.01])
    return dt, t0, t0 + frac * dt, None, 0.0


def gen_equation(rng, numbers, dt, t0, t1, hist, state_dependent=0.5):
    """(eq, a, u0): u'=1 / u'=t or, with probability `state_dependent`, u'=a*u / u'=a*u+t.  `|a*dt| <= 1/2`
    (every fixed-step scheme is stable and the fixed-point iterations of the implicit solvers contract), `a`
    dyadic with few bits in dyadic mode; growing solutions only while a*T <= 3"""
    if rng.random() >= state_dependent:
        eq = rng.choice(["one", "time", "one", "time", "hook"])
        u0 = rng.choice([0.0, 0.0, 1.0, dyadic(rng, 0, 16, 3)]) if numbers == "Q" else rng.choice([0.0, 0.1, 1.0, -0.3, 2.5])
        hist("equation", eq)
        a = 0.0
        if eq == "hook":
            a = rng.choice([0.5, 0.25, -0.125, 1.0, 0.0625]) if numbers == "Q" else rng.choice([0.1, 0.3, -0.05, 1.0])
        return eq, a, u0
    eq = rng.choice(["lin", "lin", "lint"])
    if numbers == "Q":
        z = rng.choice([0.5, 0.5, 0.25, 0.375, 0.125, 0.4375, 0.0625, 0.3125])
        a = z * 2.0 ** math.floor(math.log2(1.0 / dt))  # |a*dt| in (z/2, z]
        u0 = rng.choice([1.0, 1.0, -1.0, dyadic(rng, 1, 16, 3), 0.0 if eq == "lint" else 2.0])
    else:
        a = rng.choice([0.5, 0.3, 0.1, 0.05, 0.45, 0.01, 0.2]) / dt
        u0 = rng.choice([1.0, 0.1, -0.3, 2.5, 0.0 if eq == "lint" else 1.7])
    if rng.random() < 0.75 or a * max(t1 - t0, 0.0) > 3.0:
        a = -a
    hist("equation", eq + (" (decaying)" if a < 0 else " (growing)"))
    hist("|a*dt|", min(5, int(abs(a * dt) * 10)) / 10)
    return eq, a, u0


def gen_sched(rng, numbers, dt, t0, t1, hist, adversarial=True):
    T = max(t1 - t0, dt)
    kinds = ["constant"] * 6 + ["fixed"] * 3 + ["logarithmic"] * 2 + ["geometric"] * 2 + (["oracle"] * 2 if adversarial else [])
    k = rng.choice(kinds)
    ratios = RATIOS_Q if numbers == "Q" else RATIOS_F
    num = (lambda: dyadic(rng, 1, 24, 4)) if numbers == "Q" else (lambda: rng.choice([0.1, 0.3, 0.7, 1.0, 0.25, 2.5, 1 / 3, 0.05]))
    if k == "constant":
        style = rng.random()
        if style < 0.75:
            D = rng.choice(ratios) * dt
        elif style < 0.9:
            D = T / rng.choice([1, 2, 3, 4, 8]) if numbers == "F" else max(1, round(T / dt) // rng.choice([1, 2, 4])) * dt
        else:
            D = num()
        ts = None
        if rng.random() < 0.2:
            ts = t0 + rng.choice(ratios) * dt * rng.choice([1, 2, -1])
        hist("interval/dt", "D<dt" if D < dt else ("D==dt" if D == dt else ("x.5" if (D / dt) % 1 == 0.5 else ("integer" if (D / dt) % 1 == 0 else "other"))))
        return {"kind": "constant", "dt": D, "t_start": ts}
    if k == "fixed":
        n = rng.choice([0, 1, 2, 3, 5, 8])
        pts = set()
        for _ in range(n):
            style = rng.random()
            if style < 0.4:  # on the step lattice
                pts.add(t0 + rng.randint(0, max(1, round(T / dt))) * dt)
            elif style < 0.6:  # x.5 between lattice points
                pts.add(t0 + (rng.randint(0, max(1, round(T / dt))) + 0.5) * dt)
            elif style < 0.9:
                pts.add(t0 + rng.choice(ratios) * dt * rng.randint(0, 8))
            else:  # outside the range
                pts.add(rng.choice([t0 - dt, t1 + dt, t1 + 0.25 * dt, t1]))
        return {"kind": "fixed", "interrupts": sorted(pts)}
    if k == "logarithmic":
        # dyadic mode: only factors that keep dt*f^k exactly representable for every k
        f = rng.choice([1.0, 2.0, 2.0, 4.0]) if numbers == "Q" else rng.choice([1.0, 1.1, 1.3, 2.0, 1.7, 1.25, 1.5, 3.0])
        return {"kind": "logarithmic", "dt_initial": rng.choice(ratios) * dt, "factor": f,
                "t_start": None if rng.random() < 0.8 else t0 + rng.choice(ratios) * dt}
    if k == "geometric":
        f = rng.choice([2.0, 1.5, 4.0, 3.0]) if numbers == "Q" else rng.choice([1.1, 2.0, 10.0, 1.3, 1.5])
        sc = rng.choice(ratios) * dt * rng.choice([1, 1, 0.5, 4])
        return {"kind": "geometric", "scale": sc, "factor": f}
    # adversarial oracle: arbitrary answers (unsorted, in the past, repeated, beyond the end, inf)
    n = rng.choice([0, 1, 3, 6, 12, 25])
    ans = []
    for _ in range(n):
        style = rng.random()
        if style < 0.5:
            ans.append(t0 + rng.choice(ratios) * dt * rng.randint(0, max(1, round(T / dt))))
        elif style < 0.7:
            ans.append(t0 + rng.randint(-2, max(1, round(T / dt)) + 2) * dt)
        elif style < 0.8:
            ans.append(t0 - rng.choice(ratios) * dt)
        elif style < 0.9:
            ans.append(t1 + rng.choice([0.0, 0.25, -0.25, 0.5, 1.0]) * dt)
        else:
            ans.append("inf")
    return {"kind": "oracle", "answers": ans}


def geometric_time(scale, factor, k):
    """`GeometricInterrupts`' own arithmetic for the k-th member of its sequence: a Python float times a Python
    float raised to a numpy float (`self.scale * self.factor ** np.ceil(i)`)"""
    return float(scale * factor ** np.float64(k))


def _is_exact(x, frac):
    return math.isfinite(x) and Fraction(x) == frac


REALTIME_STRINGS = ["0:01", "0:00:01", "1", "0:00:30", "00:01:00", "0:00:00.5"]


def gen_anchor(rng, numbers, dt, hist):
    """(schedule, t_start, via_parse, label): a non-constant schedule together with a start time of the run
    that is *itself one of its scheduled times* - `t_start = scale*factor**k` (k = 0 included) of a geometric
    schedule (in dyadic mode only where the product is exact), the `t_start` argument of a logarithmic one, an
    entry of a fixed list (sorted, unsorted, dense, with duplicates; as list / tuple / array / FixedInterrupts).
    The start-free part of the generator never produces these coincidences."""
    ratios = RATIOS_Q if numbers == "Q" else RATIOS_F
    kind = rng.choice(["geometric"] * 5 + ["fixed"] * 4 + ["logarithmic"] * 2)
    if kind == "geometric":
        for _ in range(50):
            if numbers == "Q":
                f = rng.choice([2.0, 2.0, 4.0, 1.5, 3.0, 5.0, 5.0])
                sc = rng.choice([rng.choice(ratios) * dt * rng.choice([1, 1, 0.5, 4]), 1.0, 1.0, 0.5, 2.0,
                                 float(rng.randint(1, 8)), dyadic(rng, 1, 16, 3)])
            else:
                f = rng.choice([1.1, 2.0, 10.0, 1.3, 1.5, 5.0, 3.0])
                sc = rng.choice([rng.choice(ratios) * dt * rng.choice([1, 1, 0.5, 4]), 1.0, 0.1, 0.5, 0.3, 2.5])
            k = rng.choice([0, 0, 0, 1, 1, 2, 3, 3, 4, 5, 6, 7])
            t0 = geometric_time(sc, f, k)
            if numbers == "Q" and not (_is_exact(t0, Fraction(sc) * Fraction(f) ** k) and abs(t0) < 2.0 ** 20):
                continue
            if not t0 <= 256 * dt:
                continue  # (keeps the number of later scheduled times inside a range of <= 120 steps non-trivial)
            hist("start on a scheduled time", f"geometric k={min(k, 4)}{'+' if k >= 4 else ''}")
            sched = {"kind": "geometric", "scale": sc, "factor": f}
            if sc == int(sc) and f == int(f) and rng.random() < 0.7:
                # integers as a user types them, with the white space the pattern of `parse_interrupt` allows
                sched["text"] = rng.choice(["geometric({}, {})", "geometric({},{})", "geometric( {} , {} )"]).format(int(sc), int(f))
            return sched, t0, "text" in sched or rng.random() < 0.5, f"geometric k={k}"
        kind = "fixed"
    if numbers == "Q":
        t0 = rng.choice([0.0, dyadic(rng, 0, 64, 4), -dyadic(rng, 0, 16, 3), dyadic(rng, 1, 32, 2)]) + 0.0
    else:
        t0 = rng.choice(DECIMAL_T0)
    if kind == "logarithmic":
        f = rng.choice([1.0, 2.0, 2.0, 4.0]) if numbers == "Q" else rng.choice([1.0, 1.1, 1.3, 2.0, 1.7, 1.25, 1.5, 3.0])
        d0 = rng.choice([r for r in ratios if r >= 1]) * dt
        # the schedule starts at max(t_start of the run, its own t_start): own start equal to / before the run's
        own = rng.choice([None, t0, t0, t0 - rng.choice(ratios) * dt])
        hist("start on a scheduled time", "logarithmic t_start " + ("omitted" if own is None else "== run" if own == t0 else "< run"))
        return {"kind": "logarithmic", "dt_initial": d0, "factor": f, "t_start": own}, t0, False, "logarithmic"
    # fixed list with t_start among its entries
    style = rng.choice(["sorted", "sorted", "sorted", "dense", "duplicates", "unsorted", "before"])
    n = rng.choice([1, 2, 3, 5, 8])
    pts = [t0]
    for _ in range(n - 1):
        step = rng.choice([r for r in ratios if r >= 1]) * dt * rng.randint(1, 4)
        if style in ("dense", "duplicates") and rng.random() < 0.6:
            step = rng.choice([0.25, 0.5, 0.75, 0.125, 1.0, 0.375] if numbers == "Q" else [0.3, 0.5, 0.7, 0.1, 1e-7, 0.49999999]) * dt
        if style == "duplicates" and rng.random() < 0.4:
            step = 0.0
        pts.append(pts[-1] + step)
    if style == "before":  # entries before the start of the run, then t_start itself
        pts = [t0 - rng.choice(ratios) * dt * j for j in range(rng.randint(1, 3), 0, -1)] + pts
    if style == "unsorted":
        rng.shuffle(pts)
    hist("start on a scheduled time", f"fixed list ({style})")
    container = rng.choice(["list", "list", "tuple", "array"])
    return ({"kind": "fixed", "interrupts": pts, "container": container}, t0, rng.random() < 0.6, f"fixed {style}")


def gen_trackers(rng, numbers, dt, t0, t1, hist, n=None, shared_objects=False):
    if n is None:
        n = rng.choice([0, 1, 1, 2, 2, 3, 4])
    out = []
    for _ in range(n):
        s = gen_sched(rng, numbers, dt, t0, t1, hist)
        kind = rng.choice(["callback", "callback", "storage", "data"])
        hist("tracker", f"{kind}/{s['kind']}")
        out.append({"kind": kind, "sched": s, "stops": [], "via_parse": rng.random() < 0.15 and s["kind"] != "oracle"})
    if n >= 2 and rng.random() < 0.3:
        # several trackers due together: duplicate a schedule
        out[-1] = dict(out[-1], sched=dict(out[0]["sched"]))
        hist("tracker", "duplicate-schedule")
        if shared_objects and out[0]["sched"]["kind"] not in ("geometric", "oracle") and rng.random() < 0.5:
            # ... by handing the very same interrupt object to both trackers (not instrumented, see `execute`)
            out[0] = dict(out[0], no_record=True, via_parse=False)
            out[-1] = dict(out[-1], shared_with=0, no_record=True, via_parse=False)
            hist("tracker", "shared-interrupt-object")
    hist("n_trackers", n)
    return out
