"""C20 helper: execution of storage operation sequences on the real `MemoryStorage`.

An operation is a JSON-able dict in the vocabulary of the Lean model (`Storage.Op`) plus
harness-only hints (`how`, `via`, `recipe`).  `RealWorld.execute(op)` performs it on real py-pde
objects and returns `(error class or None, observation, model_op)` where `model_op` is the
request understood by the Lean driver (`c20.replay`)."""
import logging
import math

import numpy as np

from harness.common.num import q

MODES = ["truncate", "truncate_once", "append", "readonly"]
ERR_CLASSES = ("RuntimeError", "ValueError", "IndexError", "TypeError", "KeyError")


def _grids():
    from pde import CartesianGrid, PolarSymGrid, UnitGrid
    # name -> (constructor, equality class under `==`)
    return {
        "u4": (lambda: UnitGrid([4]), 0),
        "c4": (lambda: CartesianGrid([[0, 2]], 4), 1),
        "u4p": (lambda: UnitGrid([4], periodic=True), 2),
        "u3": (lambda: UnitGrid([3]), 3),
        "u1": (lambda: UnitGrid([1]), 4),
        "u22": (lambda: UnitGrid([2, 2]), 5),
        "c22": (lambda: CartesianGrid([[0, 1], [0, 1]], [2, 2]), 6),
        "u23": (lambda: UnitGrid([2, 3]), 7),
        "p3": (lambda: PolarSymGrid(2, 3), 8),
        "u2": (lambda: UnitGrid([2]), 9),
    }


_GRID_CACHE = {}


def grid_table():
    if not _GRID_CACHE:
        _GRID_CACHE.update(_grids())
    return _GRID_CACHE


def check_grid_table():
    """the equality classes of the table are the ones of the real `GridBase.__eq__`"""
    t = grid_table()
    objs = {k: (c(), i) for k, (c, i) in t.items()}
    for a, (ga, ia) in objs.items():
        for b, (gb, ib) in objs.items():
            if (ga == gb) != (ia == ib) or (ga != gb) != (ia != ib):
                return f"grid table inconsistent with GridBase.__eq__: {a} vs {b}"
        if not (t[a][0]() == ga):
            return f"two instances of grid {a} are not equal"
    return None


def grid_id(g):
    for _name, (c, i) in grid_table().items():
        if c() == g:
            return i
    return 99


KIND_RANK = {"scalar": 0, "vector": 1, "tensor": 2}


def recipe_size(recipe):
    """number of values of a field built from `recipe`"""
    g = grid_table()[recipe["grid"]][0]()
    ncell = int(np.prod(g.shape))
    if recipe["kind"] == "coll":
        return sum(g.dim ** KIND_RANK[m["kind"]] for m in recipe["members"]) * ncell
    return g.dim ** KIND_RANK[recipe["kind"]] * ncell


def cast_vals(vals, ivals, dt):
    """the array a field of dtype `dt` holds for the requested real parts `vals` (and imaginary
    parts `ivals` for complex dtypes); the values are rounded to `dt` (the monitor snapshots the
    real data, so the rounding is part of the *input*, not of the storage)"""
    dt = np.dtype(dt)
    arr = np.array(vals, dtype=float)
    if dt.kind == "c":
        arr = arr + 1j * np.array(ivals if ivals is not None else [0.0] * len(vals), dtype=float)
    with np.errstate(all="ignore"):
        return arr.astype(dt)


def build_field(recipe, vals, ivals=None):
    from pde import FieldCollection, ScalarField, Tensor2Field, VectorField
    cls = {"scalar": ScalarField, "vector": VectorField, "tensor": Tensor2Field}
    g = grid_table()[recipe["grid"]][0]()
    dt = np.dtype(recipe.get("dtype", "float64"))
    arr = cast_vals(vals, ivals, dt)
    if recipe["kind"] == "coll":
        ncell = int(np.prod(g.shape))
        members, pos = [], 0
        for m in recipe["members"]:
            r = KIND_RANK[m["kind"]]
            n = g.dim ** r * ncell
            shp = (g.dim,) * r + tuple(g.shape)
            members.append(cls[m["kind"]](g, arr[pos:pos + n].reshape(shp), label=m.get("label"), dtype=dt))
            pos += n
        return FieldCollection(members, label=recipe.get("label"), dtype=dt)
    r = KIND_RANK[recipe["kind"]]
    shp = (g.dim,) * r + tuple(g.shape)
    return cls[recipe["kind"]](g, arr.reshape(shp), label=recipe.get("label"), dtype=dt)


def info_of(field):
    """the `FieldInfo` of the Lean model, measured on a real field object"""
    from pde import FieldCollection, ScalarField, Tensor2Field, VectorField
    clsid = {ScalarField: 0, VectorField: 1, Tensor2Field: 2}
    g = field.grid
    members = []
    if isinstance(field, FieldCollection):
        c = 3
        for m in field.fields:
            members.append({"label": m.label, "cls": clsid[type(m)], "shape": list(m.data.shape),
                            "ncomp": int(g.dim ** m.rank)})
    else:
        c = clsid[type(field)]
    return {"grid": grid_id(g), "ncell": int(np.prod(g.shape)), "shape": list(field.data.shape),
            "cls": c, "label": field.label, "members": members}


def flat(arr):
    """flattened data as Python numbers: floats (also for integer dtypes), complex for complex dtypes"""
    return tuple(x if isinstance(x, complex) else float(x) for x in np.asarray(arr).ravel().tolist())


def same_vals(a, b):
    """NaN-safe, exact comparison of two flattened data tuples (a non-finite entry counts as a difference
    unless both sides hold the same infinity)"""
    a, b = tuple(a), tuple(b)
    if len(a) != len(b):
        return False
    for x, y in zip(a, b):
        if not (x == y):
            return False
    return True


def root_id(arr):
    while getattr(arr, "base", None) is not None:
        arr = arr.base
    return id(arr)


def make_func(spec):
    from pde import FieldCollection
    k = spec["kind"]
    if k == "ident":
        return lambda f: f
    if k == "scale":
        c = spec["c"]

        def scale(f):
            g = f.copy()
            g.data *= c
            return g
        return scale
    if k == "addTime":
        def add_time(f, t):
            g = f.copy()
            g.data += t
            return g
        return add_time
    if k == "member":
        i = spec["i"]
        return lambda f: f[i] if isinstance(f, FieldCollection) and i < len(f) else f
    raise ValueError(k)


def model_func(spec):
    if spec["kind"] == "scale":
        return {"kind": "scale", "c": q(spec["c"])}
    return dict(spec)


class RealWorld:
    """live fields and storages of one operation sequence, on the real code"""

    def __init__(self):
        logging.disable(logging.WARNING)
        self.fields = []
        self.stores = []
        self.trackers = {}
        self.observations = []

    # ------------------------------------------------------------------ observation
    def snap_store(self, st):
        shape = st.shape
        try:
            st.dtype
            dtype = True
        except RuntimeError:
            dtype = False
        mode = st.write_mode if st.write_mode in MODES else "other"
        return {
            "times": tuple(float(t) for t in st.times),
            "frames": tuple(flat(d) for d in st.data),
            "mode": mode,
            "shape": None if shape is None else list(shape[1:]),
            "dtype": dtype,
            "grid": None if st._grid is None else grid_id(st._grid),
            "tmpl": None if st._field is None else info_of(st._field),
        }

    def snapshot(self):
        stores = [self.snap_store(st) for st in self.stores]
        fields = [flat(f.data) for f in self.fields]
        roots, alias = {}, []
        for f in self.fields:
            alias.append(roots.setdefault(root_id(f.data), len(roots)))
        for st in self.stores:
            for d in st.data:
                alias.append(roots.setdefault(root_id(d), len(roots)))
        return {"stores": stores, "fields": fields, "alias": alias}

    # ------------------------------------------------------------------ execution
    def execute(self, op):
        """-> (err, obs, model_op); err = exception class name, 'bad-request', or None"""
        try:
            return self._execute(op)
        except Exception as e:  # noqa: BLE001 - every exception class is an outcome
            return type(e).__name__, None, self._last_model_op

    def _bad(self, mop):
        return "bad-request", None, mop

    def _execute(self, op):
        from pde import MemoryStorage
        k = op["op"]
        mop = {a: b for a, b in op.items() if a not in ("how", "via", "recipe", "ivals")}
        self._last_model_op = mop
        F, S = self.fields, self.stores
        if k == "newField":
            f = build_field(op["recipe"], op["vals"], op.get("ivals"))
            mop["info"] = info_of(f)
            mop["vals"] = [q(x) for x in op["vals"]]
            F.append(f)
            return None, None, mop
        if k == "setField":
            mop["vals"] = [q(x) for x in op["vals"]]
            if op["fid"] >= len(F):
                return self._bad(mop)
            f = F[op["fid"]]
            arr = cast_vals(op["vals"], op.get("ivals"), f.dtype).reshape(f.data.shape)
            how = op.get("how", "inplace")
            if how == "setter":
                f.data = arr
            elif how == "iadd":
                f.data *= 0.0
                f.data += arr
            elif how == "members" and hasattr(f, "fields"):
                pos = 0
                for m in f.fields:
                    n = int(f.grid.dim ** m.rank)
                    m.data[...] = arr[pos:pos + n].reshape(m.data.shape)
                    pos += n
            else:
                f.data[...] = arr
            return None, None, mop
        if k == "newStore":
            S.append(MemoryStorage(write_mode="bogus" if op["mode"] == "other" else op["mode"]))
            return None, {"store": len(S) - 1}, mop
        if k == "fromFields":
            mop["times"] = [q(t) for t in op["times"]]
            if any(i >= len(F) for i in op["fids"]):
                return self._bad(mop)
            fs = [F[i] for i in op["fids"]]
            if fs and any(f.data.shape != fs[0].data.shape for f in fs[1:]) and \
                    all(f.grid == fs[0].grid for f in fs[1:]):
                return self._bad(mop)
            st = MemoryStorage.from_fields(op["times"], fs,
                                           write_mode="bogus" if op["mode"] == "other" else op["mode"])
            S.append(st)
            return None, {"store": len(S) - 1}, mop
        if k == "fromCollection":
            mop["rtol"], mop["atol"] = q(op["rtol"]), q(op["atol"])
            if any(i >= len(S) for i in op["sids"]):
                return self._bad(mop)
            st = MemoryStorage.from_collection([S[i] for i in op["sids"]], label=op.get("label"),
                                               rtol=op["rtol"], atol=op["atol"])
            if len({len(S[i].times) for i in op["sids"]}) > 1:
                # numpy broadcast the time lists of storages with different numbers of frames: the result
                # is ragged (frames of different shapes, some unreadable) - outside the model, discarded
                shapes = sorted({tuple(d.shape) for d in st.data})
                self.observations.append(f"from_collection accepted storages with {sorted(len(S[i].times) for i in op['sids'])} "
                                         f"frames; result frame shapes {shapes}")
                return self._bad(mop)
            S.append(st)
            return None, {"store": len(S) - 1}, mop
        # everything else addresses a storage
        sid = op["sid"]
        if k == "append":
            mop["t"] = None if op["t"] is None else q(op["t"])
            mop.pop("cast", None)
        if k == "extractTimeRange":
            for a in ("a", "b"):
                if a in op:
                    mop[a] = None if op[a] is None else q(op[a])
        if k == "poke":
            mop["vals"] = [q(x) for x in op["vals"]]
        if k == "apply":
            mop["func"] = model_func(op["func"])
        if sid >= len(S):
            return self._bad(mop)
        st = S[sid]
        if k == "setMode":
            st.write_mode = "bogus" if op["mode"] == "other" else op["mode"]
            return None, None, mop
        if k in ("start", "append"):
            if op["fid"] >= len(F):
                return self._bad(mop)
            f = F[op["fid"]]
            via = op.get("via", "direct")
            if k == "append":
                # numpy's verdict for the dtype rule of StorageBase.append (external to the model)
                cast = st._dtype is None or bool(np.can_cast(f.dtype, st._dtype, casting="same_kind"))
                mop["cast"] = cast
                op["cast"] = cast
            if k == "start":
                if via == "tracker":
                    tr = st.tracker(1, transformation=(lambda x: x) if op.get("how") == "transform" else None)
                    self.trackers[sid] = tr
                    tr.initialize(f)
                else:
                    st.start_writing(f)
            else:
                tr = self.trackers.get(sid)
                if via == "tracker" and tr is not None and op["t"] is not None:
                    tr.handle(f, op["t"])
                elif op["t"] is None:
                    st.append(f)
                else:
                    st.append(f, op["t"])
            return None, None, mop
        if k == "end":
            tr = self.trackers.get(sid)
            if op.get("via") == "tracker" and tr is not None:
                tr.finalize()
            else:
                st.end_writing()
            return None, None, mop
        if k == "clear":
            if op["shape"] or op.get("how") == "kw":
                st.clear(clear_data_shape=op["shape"])
            else:
                st.clear()
            return None, None, mop
        if k == "read":
            f = st[op["i"]]
            F.append(f)
            return None, {"field": {"info": info_of(f), "vals": flat(f.data)}}, mop
        if k == "items":
            if op.get("how") == "iter":
                fs = list(st)
                ts = list(st.times)
                if len(fs) != len(ts):
                    raise AssertionError("iteration length differs from len(times)")
                its = list(zip(ts, fs))
            else:
                its = list(st.items())
            return None, {"items": [{"t": float(t), "info": info_of(f), "vals": flat(f.data)} for t, f in its]}, mop
        if k == "slice":
            fs = st[op["a"]:op["b"]:op["step"]] if op.get("step") is not None else st[op["a"]:op["b"]]
            return None, {"fields": [{"info": info_of(f), "vals": flat(f.data)} for f in fs]}, mop
        if k == "extractTimeRange":
            kind = op["kind"]
            if kind == "all":
                r = st.extract_time_range() if op.get("how") == "noarg" else st.extract_time_range(None)
            elif kind == "upto":
                r = st.extract_time_range(op["b"])
            else:
                r = st.extract_time_range((op["a"], op["b"]))
            S.append(r)
            return None, {"store": len(S) - 1}, mop
        if k == "extractField":
            if op.get("label") is None:
                r = st.extract_field(op["field"])
            else:
                r = st.extract_field(op["field"], op["label"])
            S.append(r)
            return None, {"store": len(S) - 1}, mop
        if k == "viewRead":
            f = st.view_field(op["field"])[op["k"]]
            F.append(f)
            return None, {"field": {"info": info_of(f), "vals": flat(f.data)}}, mop
        if k == "viewItems":
            v = st.view_field(op["field"])
            if op.get("how") == "iter":     # StorageView.__iter__ / __len__ / times
                fs, ts = list(v), list(v.times)
                if len(fs) != len(ts) or len(v) != len(ts):
                    raise AssertionError("iteration length of the view differs from len(times)")
                its = list(zip(ts, fs))
            else:
                its = list(v.items())
            return None, {"items": [{"t": float(t), "info": info_of(f), "vals": flat(f.data)} for t, f in its]}, mop
        if k == "apply":
            out = op.get("out")
            if out is not None and (out >= len(S) or out == sid):
                return self._bad(mop)
            o = None if out is None else S[out]
            src_dtype = np.dtype(float) if st._field is None else np.dtype(st._field.dtype)
            cast = o is None or o._dtype is None or bool(np.can_cast(src_dtype, o._dtype, casting="same_kind"))
            mop["cast"] = cast
            if op["func"]["kind"] == "ident" and op.get("how") != "apply":
                r = st.copy(out=o) if o is not None else st.copy()
            else:
                r = st.apply(make_func(op["func"]), out=o)
            if out is None:
                S.append(r)
                return None, {"store": len(S) - 1}, mop
            if r is not o:
                raise AssertionError("apply(out=...) returned another object")
            return None, {"store": out}, mop
        if k == "poke":
            if op["i"] >= len(st.data):
                raise IndexError("no such frame")
            st.data[op["i"]][...] = np.array(op["vals"], dtype=float).reshape(st.data[op["i"]].shape)
            return None, None, mop
        raise ValueError(f"unknown op {k}")


def is_finite_vals(vals):
    return all(math.isfinite(v) for v in vals)
