"""Run harness functions in fresh interpreters (own environment: NUMBA_DISABLE_JIT, thread
counts, fresh caches) and in parallel.

    results = run_many("harness.c02", "worker", [args0, args1, ...], env={"NUMBA_DISABLE_JIT": "1"}, procs=8)

`worker(args)` must be a module-level function returning something picklable.  Each subprocess
handles a contiguous share of the argument list and returns the list of results (or, for an
exception, the string "EXC: ..." in place of the result)."""
import os
import pickle
import subprocess
import sys
import traceback

from . import paths

_counter = [0]


def _chunks(xs, n):
    k, m = divmod(len(xs), n)
    out, i = [], 0
    for j in range(n):
        size = k + (1 if j < m else 0)
        if size:
            out.append((i, xs[i:i + size]))
        i += size
    return out


def run_many(module, func, args_list, env=None, procs=8, workdir=None, timeout=3000):
    if not args_list:
        return []
    workdir = workdir or os.environ.get("VERIF_WORKDIR") or paths.WORK_ROOT
    os.makedirs(workdir, exist_ok=True)
    procs = max(1, min(procs, len(args_list), 16))
    e = dict(os.environ)
    e.update(env or {})
    jobs = []
    for start, chunk in _chunks(list(args_list), procs):
        _counter[0] += 1
        fin = os.path.join(workdir, f"iso_{os.getpid()}_{_counter[0]}.in")
        fout = fin[:-3] + ".out"
        with open(fin, "wb") as fh:
            pickle.dump((module, func, chunk), fh)
        p = subprocess.Popen([paths.PYTHON, "-m", "harness.common.isolated", fin, fout],
                             cwd=paths.VERIF, env=e, stdout=subprocess.PIPE, stderr=subprocess.STDOUT, text=True)
        jobs.append((start, len(chunk), p, fin, fout))
    results = [None] * len(args_list)
    for start, n, p, fin, fout in jobs:
        out, _ = p.communicate(timeout=timeout)
        if p.returncode != 0 or not os.path.exists(fout):
            from .lean import BrokenCheck
            raise BrokenCheck(f"isolated worker {module}.{func} failed rc={p.returncode}:\n{out[-3000:]}")
        with open(fout, "rb") as fh:
            res = pickle.load(fh)
        results[start:start + n] = res
        for f in (fin, fout):
            try:
                os.unlink(f)
            except OSError:
                pass
    return results


def run_one(module, func, args, env=None, **kw):
    return run_many(module, func, [args], env=env, procs=1, **kw)[0]


def _main():
    sys.set_int_max_str_digits(0)
    fin, fout = sys.argv[1], sys.argv[2]
    with open(fin, "rb") as fh:
        module, func, chunk = pickle.load(fh)
    import importlib

    mod = importlib.import_module(module)
    f = getattr(mod, func)
    res = []
    for a in chunk:
        try:
            res.append(f(a))
        except Exception:
            res.append("EXC: " + traceback.format_exc()[-1500:])
    with open(fout, "wb") as fh:
        pickle.dump(res, fh)


if __name__ == "__main__":
    _main()
