"""Extractor E1: numeric constants of the time steppers, read from the py-pde *sources* with `ast`.

Nothing is imported or executed: the files are parsed, the relevant statements are located by
their shape and every arithmetic expression of literals is evaluated in exact rational
arithmetic (`1 / 4` -> 1/4, `-8.0` -> -8, `0.00057665` -> 57665/100000000).  State updates
such as `state_data + b31 * k1 + b32 * k2` or `(k1 + 2 * k2 + 2 * k3 + k4) / 6` are evaluated
as *linear forms* over the program variables, so that what is extracted is the coefficient
that is effectively applied to every stage (a formula using the wrong named constant, a
changed literal and a changed constant definition are all visible).

`extract(repo)` -> dict name -> Fraction (insertion ordered); `render(consts)` -> text of
`lean/PdeVerif/Generated/Tableau.lean`.  `ExtractError` = the source no longer has the shape
the extractor (and hence the model) knows."""
import ast
import os
from fractions import Fraction

STEP_SYMBOLS = {"dt", "dt_step"}


class ExtractError(Exception):
    pass


# ---------------------------------------------------------------------------------------------
# exact evaluation of expressions as linear forms  {symbol: Fraction}, constant term under key 1
def _const_of(form):
    if set(form) <= {1}:
        return form.get(1, Fraction(0))
    return None


def _scale(form, c):
    return {k: v * c for k, v in form.items() if v * c != 0}


def _add(f, g, sign=1):
    out = dict(f)
    for k, v in g.items():
        out[k] = out.get(k, Fraction(0)) + sign * v
        if out[k] == 0:
            del out[k]
    return out


def _call_symbol(node):
    # `f(x, y).copy()` is the same value as `f(x, y)`
    if isinstance(node.func, ast.Attribute) and node.func.attr == "copy" and not node.args:
        inner = node.func.value
        if isinstance(inner, ast.Call):
            return _call_symbol(inner)
    return ast.unparse(node)


def lin(node, env):
    """linear form of an expression; `env` maps names of numeric constants to Fractions"""
    if isinstance(node, ast.Constant):
        v = node.value
        if isinstance(v, bool) or not isinstance(v, (int, float)):
            raise ExtractError(f"non-numeric literal {v!r}")
        if isinstance(v, float):
            if v != v or v in (float("inf"), float("-inf")):
                raise ExtractError(f"non-finite literal {v!r}")
            v = Fraction(repr(v))  # the decimal that was written (shortest round trip)
        return {1: Fraction(v)} if v != 0 else {}
    if isinstance(node, ast.Name):
        if node.id in env:
            return {1: env[node.id]} if env[node.id] != 0 else {}
        return {node.id: Fraction(1)}
    if isinstance(node, ast.UnaryOp) and isinstance(node.op, (ast.USub, ast.UAdd)):
        f = lin(node.operand, env)
        return _scale(f, -1) if isinstance(node.op, ast.USub) else f
    if isinstance(node, ast.Call):
        return {_call_symbol(node): Fraction(1)}
    if isinstance(node, ast.BinOp):
        if isinstance(node.op, ast.Add):
            return _add(lin(node.left, env), lin(node.right, env))
        if isinstance(node.op, ast.Sub):
            return _add(lin(node.left, env), lin(node.right, env), -1)
        if isinstance(node.op, ast.Mult):
            f, g = lin(node.left, env), lin(node.right, env)
            cf, cg = _const_of(f), _const_of(g)
            if cf is not None:
                return _scale(g, cf)
            if cg is not None:
                return _scale(f, cg)
            # (c * dt) * form  ->  c * "dt*"form
            for s, o in ((f, g), (g, f)):
                if len(s) == 1:
                    (sym, c), = s.items()
                    if sym in STEP_SYMBOLS:
                        return {("dt" if k == 1 else f"dt*{k}"): v * c for k, v in o.items()}
            raise ExtractError(f"non-linear product {ast.unparse(node)}")
        if isinstance(node.op, ast.Div):
            f, g = lin(node.left, env), lin(node.right, env)
            cg = _const_of(g)
            if cg is None or cg == 0:
                raise ExtractError(f"division by a non-constant {ast.unparse(node)}")
            return _scale(f, 1 / cg)
        if isinstance(node.op, ast.Pow):
            f, g = lin(node.left, env), lin(node.right, env)
            cf, cg = _const_of(f), _const_of(g)
            if cf is not None and cg is not None and cg.denominator == 1:
                return {1: cf ** int(cg)}
            raise ExtractError(f"power {ast.unparse(node)}")
    raise ExtractError(f"unsupported expression {ast.unparse(node)}")


def const(node, env):
    c = _const_of(lin(node, env))
    if c is None:
        raise ExtractError(f"not a constant: {ast.unparse(node)}")
    return c


# ---------------------------------------------------------------------------------------------
def _parse(repo, rel):
    p = os.path.join(repo, rel)
    try:
        return ast.parse(open(p, encoding="utf8").read(), filename=p)
    except (OSError, SyntaxError) as e:
        raise ExtractError(f"cannot parse {rel}: {e}")


def _find(node, kind, name):
    """first (pre-order) ClassDef/FunctionDef called `name` below `node`"""
    for n in ast.walk(node):
        if isinstance(n, kind) and n.name == name:
            return n
    raise ExtractError(f"{kind.__name__} {name} not found")


def _statements(fn):
    """all simple statements inside a function, in source order, including loop/if/try bodies
    (but not those of nested function definitions)"""
    out = []

    def rec(body):
        for s in body:
            if isinstance(s, (ast.FunctionDef, ast.ClassDef)):
                continue
            out.append(s)
            for fld in ("body", "orelse", "finalbody"):
                if hasattr(s, fld) and isinstance(getattr(s, fld), list):
                    rec(getattr(s, fld))
            if isinstance(s, ast.Try):
                for h in s.handlers:
                    rec(h.body)

    rec(fn.body)
    return out


def _target_name(t):
    if isinstance(t, ast.Name):
        return t.id
    if isinstance(t, ast.Subscript) and isinstance(t.value, ast.Name):
        return t.value.id  # x[:] = ...  /  x[...] = ...
    return None


def _assignments(fn):
    """[(kind, name, value_node)] with kind '=' or '+='"""
    res = []
    for s in _statements(fn):
        if isinstance(s, ast.Assign) and len(s.targets) == 1 and _target_name(s.targets[0]):
            res.append(("=", _target_name(s.targets[0]), s.value))
        elif isinstance(s, ast.AnnAssign) and s.value is not None and _target_name(s.target):
            res.append(("=", _target_name(s.target), s.value))
        elif isinstance(s, ast.AugAssign) and isinstance(s.op, ast.Add) and _target_name(s.target):
            res.append(("+=", _target_name(s.target), s.value))
    return res


def _stage(value, env, rate_names=("rhs", "rhs_pde")):
    """`dt * rhs(A, B)` -> (linear form of A, linear form of B)"""
    if not (isinstance(value, ast.BinOp) and isinstance(value.op, ast.Mult)):
        raise ExtractError(f"stage is not dt * rhs(...): {ast.unparse(value)}")
    l, r = value.left, value.right
    if isinstance(r, ast.Name) and isinstance(l, ast.Call):
        l, r = r, l
    if not (isinstance(l, ast.Name) and l.id == "dt" and isinstance(r, ast.Call)
            and isinstance(r.func, ast.Name) and r.func.id in rate_names and len(r.args) == 2
            and not r.keywords):
        raise ExtractError(f"stage is not dt * rhs(state, time): {ast.unparse(value)}")
    return lin(r.args[0], env), lin(r.args[1], env)


def _only(form, allowed, what):
    extra = set(form) - set(allowed)
    if extra:
        raise ExtractError(f"{what}: unexpected terms {sorted(map(str, extra))}")


def _runge_kutta(repo, out):
    tree = _parse(repo, "pde/solvers/runge_kutta.py")
    cls = _find(tree, ast.ClassDef, "RungeKuttaSolver")

    # --- classical RK4 (fixed steps) ---------------------------------------------------------
    fn = _find(_find(cls, ast.FunctionDef, "_make_single_step_fixed_dt"), ast.FunctionDef, "single_step")
    ks, update = {}, None
    for kind, name, value in _assignments(fn):
        if kind == "=" and name in ("k1", "k2", "k3", "k4"):
            if name in ks:
                raise ExtractError(f"RK4 single_step: {name} assigned twice")
            ks[name] = _stage(value, {})
        elif kind == "+=" and name == "state_data":
            if update is not None:
                raise ExtractError("RK4 single_step: state_data updated twice")
            update = lin(value, {})
        elif name in ("k1", "k2", "k3", "k4", "state_data"):
            raise ExtractError(f"RK4 single_step: unexpected assignment to {name} ({kind})")
    if sorted(ks) != ["k1", "k2", "k3", "k4"] or update is None:
        raise ExtractError("RK4 single_step: stages k1..k4 / update of state_data not found")
    for i in range(1, 5):
        a_form, t_form = ks[f"k{i}"]
        prev = [f"k{j}" for j in range(1, i)]
        _only(a_form, ["state_data"] + prev, f"RK4 stage {i} state")
        _only(t_form, ["t", "dt"], f"RK4 stage {i} time")
        if a_form.get("state_data") != 1 or t_form.get("t") != 1:
            raise ExtractError(f"RK4 stage {i}: state/time argument not based on (state_data, t)")
        for j in range(1, i):
            out[f"rk4_a{i}{j}"] = a_form.get(f"k{j}", Fraction(0))
        out[f"rk4_c{i}"] = t_form.get("dt", Fraction(0))
    _only(update, ["k1", "k2", "k3", "k4"], "RK4 update")
    for i in range(1, 5):
        out[f"rk4_w{i}"] = update.get(f"k{i}", Fraction(0))

    # --- Runge-Kutta-Fehlberg 4(5) -------------------------------------------------------------
    outer = _find(cls, ast.FunctionDef, "_make_single_step_error_estimate")
    env = {}
    for s in outer.body:  # the named constants a2 ... c5 (top level of the factory only)
        if isinstance(s, ast.Assign) and len(s.targets) == 1 and isinstance(s.targets[0], ast.Name):
            try:
                env[s.targets[0].id] = const(s.value, env)
            except ExtractError:
                pass  # not a numeric constant (e.g. rhs = ...)
    fn = _find(outer, ast.FunctionDef, "single_step_error_estimate")
    ks, err, new = {}, None, None
    for kind, name, value in _assignments(fn):
        if kind == "=" and name in ("k1", "k2", "k3", "k4", "k5", "k6"):
            if name in ks:
                raise ExtractError(f"RKF45: {name} assigned twice")
            ks[name] = _stage(value, env)
        elif kind == "=" and name == "error_local":
            if err is not None:
                raise ExtractError("RKF45: error_local assigned twice")
            err = lin(value, env)
        elif kind == "=" and name == "state_new":
            if new is not None:
                raise ExtractError("RKF45: state_new assigned twice")
            new = lin(value, env)
        elif name in ("k1", "k2", "k3", "k4", "k5", "k6", "error_local", "state_new"):
            raise ExtractError(f"RKF45: unexpected assignment to {name} ({kind})")
    if len(ks) != 6 or err is None or new is None:
        raise ExtractError("RKF45: stages k1..k6 / error_local / state_new not found")
    knames = [f"k{i}" for i in range(1, 7)]
    for i in range(1, 7):
        a_form, t_form = ks[f"k{i}"]
        _only(a_form, ["state_data"] + knames[: i - 1], f"RKF45 stage {i} state")
        _only(t_form, ["t", "dt"], f"RKF45 stage {i} time")
        if a_form.get("state_data") != 1 or t_form.get("t") != 1:
            raise ExtractError(f"RKF45 stage {i}: state/time argument not based on (state_data, t)")
        out[f"rkf_a{i}"] = t_form.get("dt", Fraction(0))
        for j in range(1, i):
            out[f"rkf_b{i}{j}"] = a_form.get(f"k{j}", Fraction(0))
    _only(err, knames, "RKF45 error_local")
    _only(new, ["state_data"] + knames, "RKF45 state_new")
    if new.get("state_data") != 1:
        raise ExtractError("RKF45 state_new does not start from state_data")
    for i in range(1, 7):
        out[f"rkf_c{i}"] = new.get(f"k{i}", Fraction(0))
    for i in range(1, 7):
        out[f"rkf_r{i}"] = err.get(f"k{i}", Fraction(0))


def _ab2_from(fn, prefix, out):
    """the Adams-Bashforth statements (identical shape in the numpy and the numba loop)"""
    prev_call = cur_call = upd = None
    for kind, name, value in _assignments(fn):
        if kind == "=" and name == "rhs_prev":
            if prev_call is not None:
                raise ExtractError(f"{prefix}: rhs_prev assigned twice")
            prev_call = value
        elif kind == "=" and name == "rhs_cur":
            if cur_call is not None:
                raise ExtractError(f"{prefix}: rhs_cur assigned twice")
            cur_call = value
        elif kind == "+=" and name == "state_data":
            if upd is not None:
                raise ExtractError(f"{prefix}: state_data updated twice")
            upd = lin(value, {})
    if prev_call is None or cur_call is None or upd is None:
        raise ExtractError(f"{prefix}: rhs_prev / rhs_cur / update of state_data not found")

    def call_args(node):
        if isinstance(node, ast.Call) and isinstance(node.func, ast.Attribute) and node.func.attr == "copy":
            node = node.func.value
        if not (isinstance(node, ast.Call) and len(node.args) == 2):
            raise ExtractError(f"{prefix}: rate call expected, got {ast.unparse(node)}")
        return lin(node.args[0], {}), lin(node.args[1], {})

    ps, pt = call_args(prev_call)
    cs, ct = call_args(cur_call)
    if ps != {"state_prev": 1} or cs != {"state_data": 1}:
        raise ExtractError(f"{prefix}: rates are not taken at (state_prev, state_data)")
    _only(pt, ["t", "dt"], f"{prefix} previous time")
    _only(ct, ["t", "dt"], f"{prefix} current time")
    if pt.get("t") != 1 or ct.get("t") != 1:
        raise ExtractError(f"{prefix}: rate times not based on t")
    _only(upd, ["dt*rhs_cur", "dt*rhs_prev"], f"{prefix} update")
    out[f"{prefix}_w_cur"] = upd.get("dt*rhs_cur", Fraction(0))
    out[f"{prefix}_w_prev"] = upd.get("dt*rhs_prev", Fraction(0))
    out[f"{prefix}_t_cur"] = ct.get("dt", Fraction(0))
    out[f"{prefix}_t_prev"] = pt.get("dt", Fraction(0))


def _ab2_init(fn, prefix, out):
    for kind, name, value in _assignments(fn):
        if kind == "=" and name == "state_prev" and not (isinstance(value, ast.Call)):
            f = lin(value, {})
            keys = [k for k in f if k != "state_data"]
            if f.get("state_data") != 1 or len(keys) != 1 or not str(keys[0]).startswith("dt*rhs_pde(state_data, t_start)"):
                raise ExtractError(f"{prefix}: unexpected initialisation {ast.unparse(value)}")
            out[f"{prefix}_init"] = f[keys[0]]
            return
    raise ExtractError(f"{prefix}: initialisation of state_prev not found")


def _adams_bashforth(repo, out):
    tree = _parse(repo, "pde/solvers/adams_bashforth.py")
    inner = _find(_find(tree, ast.ClassDef, "AdamsBashforthSolver"), ast.FunctionDef, "_make_inner_stepper")
    _ab2_from(_find(inner, ast.FunctionDef, "single_step"), "ab2", out)
    _ab2_init(_find(inner, ast.FunctionDef, "fixed_stepper"), "ab2", out)
    tree = _parse(repo, "pde/backends/numba/_solvers.py")
    fn = _find(tree, ast.FunctionDef, "_make_adams_bashforth_stepper")
    _ab2_from(_find(fn, ast.FunctionDef, "compiled_stepper"), "ab2nb", out)
    _ab2_init(_find(fn, ast.FunctionDef, "fixed_stepper"), "ab2nb", out)


def _controller(repo, out):
    tree = _parse(repo, "pde/solvers/base.py")
    fn = _find(_find(tree, ast.FunctionDef, "_make_dt_adjuster"), ast.FunctionDef, "adjust_dt")
    chain = [s for s in fn.body if isinstance(s, ast.If)]
    if len(chain) < 1:
        raise ExtractError("adjust_dt: if-chain not found")
    top = chain[0]

    def factor_of(body):
        if len(body) == 1 and isinstance(body[0], ast.AugAssign) and isinstance(body[0].op, ast.Mult) \
                and _target_name(body[0].target) == "dt":
            return body[0].value
        raise ExtractError("adjust_dt: branch is not `dt *= ...`")

    t = top.test
    if not (isinstance(t, ast.Compare) and len(t.ops) == 1 and isinstance(t.ops[0], ast.Lt)
            and isinstance(t.left, ast.Name) and t.left.id == "error_rel"):
        raise ExtractError("adjust_dt: first test is not `error_rel < c`")
    out["ctl_small"] = const(t.comparators[0], {})
    out["ctl_up"] = const(factor_of(top.body), {})
    if not (len(top.orelse) == 1 and isinstance(top.orelse[0], ast.If)):
        raise ExtractError("adjust_dt: elif isnan branch not found")
    second = top.orelse[0]
    if "isnan" not in ast.unparse(second.test):
        raise ExtractError("adjust_dt: second test is not isnan(error_rel)")
    out["ctl_nan"] = const(factor_of(second.body), {})
    v = factor_of(second.orelse)
    # max(c * error_rel**p, m)
    ok = (isinstance(v, ast.Call) and isinstance(v.func, ast.Name) and v.func.id == "max" and len(v.args) == 2)
    if ok:
        first, lo = v.args
        ok = (isinstance(first, ast.BinOp) and isinstance(first.op, ast.Mult)
              and isinstance(first.right, ast.BinOp) and isinstance(first.right.op, ast.Pow)
              and isinstance(first.right.left, ast.Name) and first.right.left.id == "error_rel")
    if not ok:
        raise ExtractError(f"adjust_dt: unexpected scaling rule {ast.unparse(v)}")
    out["ctl_safety"] = const(first.left, {})
    out["ctl_expo"] = const(first.right.right, {})
    out["ctl_down"] = const(lo, {})
    # clamp: if dt > dt_max: dt = dt_max / elif dt < dt_min: raise
    if len(chain) < 2 or "dt > dt_max" not in ast.unparse(chain[1].test):
        raise ExtractError("adjust_dt: clamp `if dt > dt_max` not found")
    if not (len(chain[1].orelse) == 1 and isinstance(chain[1].orelse[0], ast.If)
            and "dt < dt_min" in ast.unparse(chain[1].orelse[0].test)):
        raise ExtractError("adjust_dt: `elif dt < dt_min` not found")

    cls = _find(tree, ast.ClassDef, "AdaptiveSolverBase")
    for s in cls.body:
        if isinstance(s, ast.AnnAssign) and isinstance(s.target, ast.Name) and s.value is not None \
                and s.target.id in ("dt_min", "dt_max"):
            out["ctl_" + s.target.id] = const(s.value, {})
    init = _find(cls, ast.FunctionDef, "__init__")
    for a, d in zip(init.args.kwonlyargs, init.args.kw_defaults):
        if a.arg == "tolerance" and d is not None:
            out["ctl_tolerance_default"] = const(d, {})
    for k in ("ctl_dt_min", "ctl_dt_max", "ctl_tolerance_default"):
        if k not in out:
            raise ExtractError(f"AdaptiveSolverBase: {k[4:]} not found")


def extract(repo):
    out = {}
    _runge_kutta(repo, out)
    _adams_bashforth(repo, out)
    _controller(repo, out)
    return out


# ---------------------------------------------------------------------------------------------
HEADER = """/-
GENERATED FILE - do not edit.  Written by extractor E1 (harness/common/e1_tableau.py, called from
harness/c06.py `regenerate`) from the py-pde sources
  pde/solvers/runge_kutta.py, pde/solvers/adams_bashforth.py, pde/solvers/base.py,
  pde/backends/numba/_solvers.py
on every run of `./check C06`; rewritten only when the extracted constants change.
Every constant is the exact rational that the source applies (see the extractor for how the
coefficient of every stage is read off the update formulas).  Core Lean only.
-/
namespace PdeVerif.Generated

section
variable {K : Type} [Div K] [NatCast K] [IntCast K]

/-- the rational `p/q` in any number type.  At `Float` this is one correctly rounded division of
two exactly representable integers, i.e. the double Python obtains for the literal. -/
def ratK (p : Int) (q : Nat) : K := ((p : Int) : K) / ((q : Nat) : K)
"""

SECTIONS = [
    ("rk4_", "classical Runge-Kutta (RungeKuttaSolver._make_single_step_fixed_dt): stage matrix a_ij,\n"
             "stage times c_i (fractions of dt), weights w_i"),
    ("rkf_", "Runge-Kutta-Fehlberg 4(5) (RungeKuttaSolver._make_single_step_error_estimate): stage times\n"
             "a_i, stage matrix b_ij, weights c_i of the returned (4th order) state, weights r_i of the\n"
             "error estimate"),
    ("ab2_", "Adams-Bashforth (adams_bashforth.py): weights of the current/previous rate, their time\n"
             "offsets (fractions of dt) and the coefficient of dt*rate in the initial previous state"),
    ("ab2nb_", "Adams-Bashforth, compiled loop (backends/numba/_solvers.py)"),
    ("ctl_", "adaptive step-size controller (base.py: _make_dt_adjuster, AdaptiveSolverBase)"),
]


def render(consts):
    lines = [HEADER]
    used = set()
    for prefix, doc in SECTIONS:
        lines.append("/-! " + doc + " -/")
        for k, v in consts.items():
            if k.startswith(prefix) and k not in used:
                used.add(k)
                lines.append(f"def {k} : K := ratK ({v.numerator}) {v.denominator}")
        lines.append("")
    rest = [k for k in consts if k not in used]
    if rest:
        raise ExtractError(f"unrendered constants {rest}")
    lines.append("end")
    lines.append("")
    lines.append("/-- names and values of everything above (for the driver's self-description) -/")
    lines.append("def table : List (String × Int × Nat) := [")
    items = list(consts.items())
    for i, (k, v) in enumerate(items):
        lines.append(f"  (\"{k}\", {v.numerator}, {v.denominator})" + ("," if i + 1 < len(items) else ""))
    lines.append("]")
    lines.append("")
    lines.append("end PdeVerif.Generated")
    return "\n".join(lines) + "\n"
