"""Exact-number helpers for the line protocol."""
from fractions import Fraction
import math
import struct


def q(x) -> str:
    """exact rational text of an int, Fraction or (finite) float"""
    if isinstance(x, bool):
        x = int(x)
    if isinstance(x, int):
        return str(x)
    if isinstance(x, Fraction):
        return str(x.numerator) if x.denominator == 1 else f"{x.numerator}/{x.denominator}"
    x = float(x)
    if math.isinf(x) or math.isnan(x):
        raise ValueError(f"not a finite number: {x}")
    fr = Fraction(x)
    return str(fr.numerator) if fr.denominator == 1 else f"{fr.numerator}/{fr.denominator}"


def qs(xs):
    return [q(x) for x in xs]


def unq(s) -> Fraction:
    if isinstance(s, int):
        return Fraction(s)
    return Fraction(s)


def fbits(x: float) -> str:
    """IEEE-754 bit pattern of a double, as understood by the Lean driver"""
    return "b:%d" % struct.unpack("<Q", struct.pack("<d", float(x)))[0]


def unfbits(s: str) -> float:
    assert s.startswith("b:"), s
    return struct.unpack("<d", struct.pack("<Q", int(s[2:])))[0]


def close(a, b, rtol=1e-10, atol=0.0, scale=None) -> bool:
    """|a-b| <= atol + rtol*scale  (scale defaults to max(|a|,|b|))"""
    a = float(a)
    b = float(b)
    if math.isinf(a) or math.isinf(b):
        return a == b
    s = max(abs(a), abs(b)) if scale is None else scale
    return abs(a - b) <= atol + rtol * s


def far(diff, tol):
    """NaN-safe `abs(diff) > tol` for scalars: a non-finite difference counts as far"""
    return not (abs(diff) <= tol)


def arr_far(a, b, tol):
    """NaN-safe `max|a - b| > tol` for arrays (tol scalar or array): shape mismatch and non-finite entries count as far"""
    import numpy as np
    a, b = np.asarray(a), np.asarray(b)
    if a.shape != b.shape:
        return True
    if a.size == 0:
        return False
    with np.errstate(invalid="ignore"):
        return not bool(np.all(np.abs(a - b) <= tol))
