"""Expression ASTs for C11 (and the expression leg of C10): type-directed random generator,
printer with minimal parentheses, re-reader built on Python's `ast` module, reference
evaluators (float with first-order error propagation; Python `eval` of the text) and a
structural shrinker.

AST nodes are JSON-able dicts in the format of `lean/PdeVerif/Drv/C11.lean`:
  {"k":"num","v":"p/q","t":"<literal text>"}   {"k":"var","n":name}   {"k":"idx","n":name,"i":int}
  {"k":"named","n":"pi"|"E"}   {"k":"neg","a":..}   {"k":"add"|"sub"|"mul"|"div","a":..,"b":..}
  {"k":"powi","a":..,"n":int}   {"k":"call1","f":name,"a":..}   {"k":"call2","f":name,"a":..,"b":..}
  {"k":"heav1","a":..}   {"k":"heav2","a":..,"h":..}   {"k":"cmp","op":"lt|le|gt|ge","a":..,"b":..}
  {"k":"pw","h":cond,"a":..,"b":..}   = `Piecewise((a, cond), (b, True))` (a longer chain nests in "b";
                                         the Lean driver reads it as the model's `select cond a b`)
The general power `a**b` is {"k":"call2","f":"pow",...}.  `hv` on heav nodes records the spelling
(`heaviside` or `Heaviside`); it does not influence the meaning."""
import ast as pyast
import math
from fractions import Fraction

BIN = {"add": "+", "sub": "-", "mul": "*", "div": "/"}
CMP = {"lt": "<", "le": "<=", "gt": ">", "ge": ">="}
CMP_AST = {pyast.Lt: "lt", pyast.LtE: "le", pyast.Gt: "gt", pyast.GtE: "ge"}
NAMED = {"pi": math.pi, "E": math.e}

# unary functions of the grammar: python implementation, derivative, domain of the argument
FUN1 = {
    "sin": (math.sin, math.cos, "any"),
    "cos": (math.cos, lambda x: -math.sin(x), "any"),
    "tan": (math.tan, lambda x: 1 + math.tan(x) ** 2, "tan"),
    "exp": (math.exp, math.exp, "small"),
    "log": (math.log, lambda x: 1 / x, "pos"),
    "sqrt": (math.sqrt, lambda x: 0.5 / math.sqrt(x), "pos"),
    "tanh": (math.tanh, lambda x: 1 - math.tanh(x) ** 2, "any"),
    "sinh": (math.sinh, math.cosh, "small"),
    "cosh": (math.cosh, math.sinh, "small"),
    "atan": (math.atan, lambda x: 1 / (1 + x * x), "any"),
    "asin": (math.asin, lambda x: 1 / math.sqrt(1 - x * x), "unit"),
    "acos": (math.acos, lambda x: -1 / math.sqrt(1 - x * x), "unit"),
    "asinh": (math.asinh, lambda x: 1 / math.sqrt(1 + x * x), "any"),
    "atanh": (math.atanh, lambda x: 1 / (1 - x * x), "unit"),
    "abs": (abs, lambda x: 1.0 if x > 0 else -1.0, "any"),
    # special function of py-pde's SPECIAL_FUNCTIONS (scipy.special.erf there; libm's erf here, cross-checked
    # against mpmath by `selfcheck_erf`)
    "erf": (math.erf, lambda x: 2.0 / math.sqrt(math.pi) * math.exp(-x * x), "small"),
    # step-like functions: `evalerr` / `ival` treat them separately (jump at the integers)
    "floor": (lambda x: float(math.floor(x)), lambda x: 0.0, "any"),
    "ceiling": (lambda x: float(math.ceil(x)), lambda x: 0.0, "any"),
}
FUN2 = {
    "hypot": (math.hypot, "any", "any"),
    "atan2": (math.atan2, "nz", "pos"),
    "pow": (math.pow, "pos", "small"),
}
DIFF_FUN1 = {"sin", "cos", "exp", "log", "sqrt", "tanh", "tan", "sinh", "cosh", "atan"}
PY_KEYWORDS = {"lambda", "in", "is", "as", "if", "or", "and", "not", "for", "def", "del", "from"}


# ------------------------------------------------------------------------------------------
# construction helpers
def num(text):
    fr = Fraction(text)
    return {"k": "num", "v": _q(fr), "t": text}


def _q(fr):
    return str(fr.numerator) if fr.denominator == 1 else f"{fr.numerator}/{fr.denominator}"


def var(n):
    return {"k": "var", "n": n}


def idx(n, i):
    return {"k": "idx", "n": n, "i": i}


def un(k, a, **kw):
    return dict({"k": k, "a": a}, **kw)


def bi(k, a, b, **kw):
    return dict({"k": k, "a": a, "b": b}, **kw)


def children(e):
    return [e[c] for c in ("a", "b", "h") if c in e]


def depth(e):
    cs = children(e)
    return 1 + (max(depth(c) for c in cs) if cs else 0)


def size(e):
    return 1 + sum(size(c) for c in children(e))


def walk(e):
    yield e
    for c in children(e):
        yield from walk(c)


def kinds(e):
    out = set()
    for n in walk(e):
        k = n["k"]
        if k in ("call1", "call2"):
            out.add(f"{k}:{n['f']}")
        elif k == "cmp":
            out.add(f"cmp:{n['op']}")
        elif k == "powi":
            out.add("powi:" + ("neg" if n["n"] < 0 else "zero" if n["n"] == 0 else "pos"))
        elif k == "num":
            t = n.get("t", "")
            out.add("num:" + ("sci" if "e" in t else "dec" if "." in t else "int"))
        else:
            out.add(k)
    return out


def symbols(e):
    return {n["n"] for n in walk(e) if n["k"] in ("var", "idx")}


def strip(e):
    """AST without the printing hints (what is sent to Lean and compared after re-reading)"""
    out = {k: v for k, v in e.items() if k not in ("t", "hv", "a", "b", "h")}
    for c in ("a", "b", "h"):
        if c in e:
            out[c] = strip(e[c])
    return out


# ------------------------------------------------------------------------------------------
# printer (minimal parentheses, Python's grammar)
P_CMP, P_ADD, P_MUL, P_NEG, P_POW, P_ATOM = 1, 2, 3, 4, 5, 6


def prec(e):
    k = e["k"]
    if k == "cmp":
        return P_CMP
    if k in ("add", "sub"):
        return P_ADD
    if k in ("mul", "div"):
        return P_MUL
    if k == "neg":
        return P_NEG
    if k == "powi" or (k == "call2" and e["f"] == "pow"):
        return P_POW
    return P_ATOM


def _par(e, minprec, sp):
    s = to_text(e, sp)
    return f"({s})" if prec(e) < minprec else s


def to_text(e, sp=None):
    """text of the expression; `sp` (a random.Random or None) varies the white space only"""
    k = e["k"]
    w = (lambda: sp.choice(["", " "])) if sp else (lambda: " ")
    if k == "num":
        return e.get("t") or _num_text(e["v"])
    if k in ("var", "named"):
        return e["n"]
    if k == "idx":
        return f"{e['n']}[{e['i']}]"
    if k == "neg":
        return "-" + _par(e["a"], P_NEG, sp)
    if k in BIN:
        p = prec(e)
        s = w()
        return _par(e["a"], p, sp) + s + BIN[k] + s + _par(e["b"], p + 1, sp)
    if k == "powi":
        n = e["n"]
        return _par(e["a"], P_ATOM, sp) + "**" + str(n)
    if k == "call2" and e["f"] == "pow":
        return _par(e["a"], P_ATOM, sp) + "**" + _par(e["b"], P_NEG, sp)
    if k == "call1":
        return f"{e['f']}({to_text(e['a'], sp)})"
    if k == "call2":
        return f"{e['f']}({to_text(e['a'], sp)},{w()}{to_text(e['b'], sp)})"
    if k == "heav1":
        return f"{e.get('hv', 'heaviside')}({to_text(e['a'], sp)})"
    if k == "heav2":
        return f"{e.get('hv', 'heaviside')}({to_text(e['a'], sp)},{w()}{to_text(e['h'], sp)})"
    if k == "cmp":
        return _par(e["a"], P_ADD, sp) + " " + CMP[e["op"]] + " " + _par(e["b"], P_ADD, sp)
    if k == "pw":
        # Piecewise((a1, c1), (a2, c2), ..., (b, True)): a chain of "pw" nodes nested in "b" is printed flat
        pairs, cur = [], e
        while cur["k"] == "pw":
            pairs.append(f"({to_text(cur['a'], sp)},{w()}{to_text(cur['h'], sp)})")
            cur = cur["b"]
        pairs.append(f"({to_text(cur, sp)},{w()}True)")
        return "Piecewise(" + ("," + w()).join(pairs) + ")"
    raise ValueError(k)


def _num_text(v):
    fr = Fraction(v)
    if fr.denominator == 1:
        return str(fr.numerator)
    return repr(float(fr))


def tensor_text(t, sp=None):
    if isinstance(t, list):
        return "[" + ", ".join(tensor_text(x, sp) for x in t) + "]"
    return to_text(t, sp)


# ------------------------------------------------------------------------------------------
# reader: text -> AST through Python's own grammar
class ReadError(Exception):
    pass


def read_text(text, declared=()):
    """AST (or nested list of ASTs for array text) as Python's `ast` module reads the text;
    `declared` symbols take precedence over the named constants pi/E"""
    tree = pyast.parse(text.strip(), mode="eval").body
    return _conv(tree, text.strip(), set(declared))


def _conv(n, src, declared):
    if isinstance(n, pyast.List):
        return [_conv(x, src, declared) for x in n.elts]
    if isinstance(n, pyast.Constant):
        if isinstance(n.value, bool) or not isinstance(n.value, (int, float)):
            raise ReadError(f"constant {n.value!r}")
        seg = pyast.get_source_segment(src, n)
        return num(seg.replace("_", ""))
    if isinstance(n, pyast.Name):
        if n.id in NAMED and n.id not in declared:
            return {"k": "named", "n": n.id}
        return var(n.id)
    if isinstance(n, pyast.Subscript):
        if isinstance(n.value, pyast.Name) and isinstance(n.slice, pyast.Constant) and isinstance(n.slice.value, int):
            return idx(n.value.id, n.slice.value)
        raise ReadError("subscript")
    if isinstance(n, pyast.UnaryOp):
        if isinstance(n.op, pyast.USub):
            return un("neg", _conv(n.operand, src, declared))
        raise ReadError("unary op")
    if isinstance(n, pyast.BinOp):
        a = _conv(n.left, src, declared)
        if isinstance(n.op, pyast.Pow):
            r = n.right
            if isinstance(r, pyast.Constant) and isinstance(r.value, int) and not isinstance(r.value, bool):
                return {"k": "powi", "a": a, "n": r.value}
            if (isinstance(r, pyast.UnaryOp) and isinstance(r.op, pyast.USub) and isinstance(r.operand, pyast.Constant)
                    and isinstance(r.operand.value, int) and not isinstance(r.operand.value, bool)):
                return {"k": "powi", "a": a, "n": -r.operand.value}
            return bi("call2", a, _conv(r, src, declared), f="pow")
        b = _conv(n.right, src, declared)
        for cls, k in ((pyast.Add, "add"), (pyast.Sub, "sub"), (pyast.Mult, "mul"), (pyast.Div, "div")):
            if isinstance(n.op, cls):
                return bi(k, a, b)
        raise ReadError("binary op")
    if isinstance(n, pyast.Call):
        if not isinstance(n.func, pyast.Name) or n.keywords:
            raise ReadError("call")
        f = n.func.id
        if f == "Piecewise":
            # Piecewise((value, condition), ..., (value, True)) -> nested "pw" nodes
            pairs = []
            for a in n.args:
                if not (isinstance(a, pyast.Tuple) and len(a.elts) == 2):
                    raise ReadError("Piecewise argument")
                pairs.append(a.elts)
            last = pairs[-1][1] if pairs else None
            if not (isinstance(last, pyast.Constant) and last.value is True) or len(pairs) < 2:
                raise ReadError("Piecewise without a final (value, True)")
            out = _conv(pairs[-1][0], src, declared)
            for val, cond in reversed(pairs[:-1]):
                c = _conv(cond, src, declared)
                if c["k"] != "cmp":
                    raise ReadError("Piecewise condition")
                out = {"k": "pw", "h": c, "a": _conv(val, src, declared), "b": out}
            return out
        args = [_conv(x, src, declared) for x in n.args]
        if f in ("heaviside", "Heaviside"):
            if len(args) == 1:
                return {"k": "heav1", "a": args[0]}
            if len(args) == 2:
                return {"k": "heav2", "a": args[0], "h": args[1]}
            raise ReadError("heaviside arity")
        if len(args) == 1:
            return {"k": "call1", "f": f, "a": args[0]}
        if len(args) == 2:
            return {"k": "call2", "f": f, "a": args[0], "b": args[1]}
        raise ReadError("arity")
    if isinstance(n, pyast.Compare):
        if len(n.ops) == 1 and type(n.ops[0]) in CMP_AST:
            return {"k": "cmp", "op": CMP_AST[type(n.ops[0])], "a": _conv(n.left, src, declared),
                    "b": _conv(n.comparators[0], src, declared)}
        raise ReadError("comparison")
    raise ReadError(type(n).__name__)


# ------------------------------------------------------------------------------------------
# reference evaluation in float with first-order error propagation
class Undefined(Exception):
    pass


def heaviside(x, h=0.5):
    return 0.0 if x < 0 else (1.0 if x > 0 else h)


def evalerr(e, env, ufuncs=None, flags=None):
    """(value, A) where A bounds |dv| / delta to first order when every input is perturbed by a
    relative delta and every operation commits a relative error delta.  `flags` (a list) collects
    'jump' when a step function's argument cannot be told from its jump under such perturbations.
    env: name -> float or list of floats.  ufuncs: name -> (params, body)."""
    k = e["k"]
    try:
        if k == "num":
            fr = Fraction(e["v"])
            v = float(fr)
            exact = fr.denominator & (fr.denominator - 1) == 0 and abs(fr.numerator) < 2 ** 53
            return v, (0.0 if exact else abs(v))
        if k == "var":
            v = env[e["n"]]
            if isinstance(v, (list, tuple)):
                raise Undefined("vector used as scalar")
            return float(v), abs(float(v))
        if k == "idx":
            v = float(env[e["n"]][e["i"]])
            return v, abs(v)
        if k == "named":
            return NAMED[e["n"]], abs(NAMED[e["n"]])
        if k == "neg":
            v, a = evalerr(e["a"], env, ufuncs, flags)
            return -v, a
        if k in BIN:
            x, ax = evalerr(e["a"], env, ufuncs, flags)
            y, ay = evalerr(e["b"], env, ufuncs, flags)
            if k == "add":
                v = x + y
                return v, ax + ay + abs(v)
            if k == "sub":
                v = x - y
                return v, ax + ay + abs(v)
            if k == "mul":
                v = x * y
                return v, abs(x) * ay + abs(y) * ax + abs(v)
            if y == 0:
                raise Undefined("division by zero")
            v = x / y
            return v, ax / abs(y) + abs(x) * ay / (y * y) + abs(v)
        if k == "powi":
            x, ax = evalerr(e["a"], env, ufuncs, flags)
            n = e["n"]
            if n < 0 and x == 0:
                raise Undefined("negative power of zero")
            v = float(x) ** n
            d = 0.0 if n == 0 else abs(n * float(x) ** (n - 1)) if (x != 0 or n >= 1) else 0.0
            return v, d * ax + abs(v)
        if k == "call1":
            x, ax = evalerr(e["a"], env, ufuncs, flags)
            f = e["f"]
            if ufuncs and f in ufuncs:
                ps, body = ufuncs[f]
                v, a = evalerr(body, {ps[0]: x}, None, flags)
                # sensitivity to the argument: a is for relative perturbations of x
                return v, (a / abs(x) * ax if x != 0 else a) + abs(v)
            if f in ("floor", "ceiling"):
                v = float(math.floor(x) if f == "floor" else math.ceil(x))
                if flags is not None and ax > 0 and abs(x - round(x)) <= 1e-9 * ax:
                    flags.append("jump")
                return v, 0.0
            fn, dfn, _dom = FUN1[f]
            v = fn(x)
            if f == "abs" and flags is not None and ax > 0 and abs(x) <= 1e-9 * ax:
                flags.append("kink")
            return v, abs(dfn(x)) * ax + abs(v)
        if k == "call2":
            x, ax = evalerr(e["a"], env, ufuncs, flags)
            y, ay = evalerr(e["b"], env, ufuncs, flags)
            f = e["f"]
            if ufuncs and f in ufuncs:
                ps, body = ufuncs[f]
                v, a = evalerr(body, {ps[0]: x, ps[1]: y}, None, flags)
                sx = ax / abs(x) if x != 0 else 1.0
                sy = ay / abs(y) if y != 0 else 1.0
                return v, a * max(sx, sy, 1.0) + abs(v)
            if f == "pow":
                if x <= 0:
                    raise Undefined("power of a non-positive base")
                v = math.pow(x, y)
                return v, abs(v) * (abs(y) / x * ax + abs(math.log(x)) * ay) + abs(v)
            if f == "hypot":
                v = math.hypot(x, y)
                if v == 0:
                    return 0.0, ax + ay
                return v, (abs(x) * ax + abs(y) * ay) / v + v
            if f == "atan2":
                if x == 0 and y == 0:
                    raise Undefined("atan2(0,0)")
                v = math.atan2(x, y)
                r2 = x * x + y * y
                return v, (abs(y) * ax + abs(x) * ay) / r2 + abs(v)
            raise Undefined(f"unknown function {f}")
        if k in ("heav1", "heav2"):
            x, ax = evalerr(e["a"], env, ufuncs, flags)
            if k == "heav2":
                h, ah = evalerr(e["h"], env, ufuncs, flags)
            else:
                h, ah = 0.5, 0.0
            if flags is not None and ax > 0 and abs(x) <= 1e-9 * ax:
                flags.append("jump")
            return heaviside(x, h), (ah if x == 0 else 0.0)
        if k == "cmp":
            x, ax = evalerr(e["a"], env, ufuncs, flags)
            y, ay = evalerr(e["b"], env, ufuncs, flags)
            if flags is not None and (ax + ay) > 0 and abs(x - y) <= 1e-9 * (ax + ay):
                flags.append("jump")
            op = e["op"]
            r = x < y if op == "lt" else x <= y if op == "le" else x > y if op == "gt" else x >= y
            return (1.0 if r else 0.0), 0.0
        if k == "pw":
            # the condition decides (a tie within reach of rounding is flagged as a jump by the comparison); only
            # the selected branch is evaluated, as in the generated code `(a) if (cond) else (b)`
            c, _ac = evalerr(e["h"], env, ufuncs, flags)
            return evalerr(e["a"] if c != 0 else e["b"], env, ufuncs, flags)
    except (ValueError, OverflowError, ZeroDivisionError, KeyError, IndexError, TypeError) as ex:
        raise Undefined(f"{type(ex).__name__}: {ex}")
    raise Undefined(f"unknown node {k}")


def selfcheck_erf():
    """libm's erf (reference of the erf leg) against mpmath at 30 digits, |x| <= 6: largest relative deviation"""
    import mpmath

    worst = 0.0
    with mpmath.workdps(30):
        for k in range(-240, 241):
            x = k / 40.0
            ref = float(mpmath.erf(mpmath.mpf(x)))
            worst = max(worst, abs(math.erf(x) - ref) / max(abs(ref), 1e-300) if ref else abs(math.erf(x)))
    return worst


def pyvalue(e, env, ufuncs=None):
    """float value or None when undefined / not finite"""
    try:
        v, _ = evalerr(e, env, ufuncs)
    except Undefined:
        return None
    return v if math.isfinite(v) else None


def conditioning(e, env, ufuncs=None, rng=None):
    """classification of the point for the comparison:
    ('ok', value, kappa) | ('undefined', why) | ('ill', kappa) | ('jump', why)"""
    flags = []
    try:
        v, a = evalerr(e, env, ufuncs, flags)
    except Undefined as ex:
        return ("undefined", str(ex))
    if not math.isfinite(v) or not math.isfinite(a):
        return ("undefined", "not finite")
    if flags:
        return ("jump", flags[0])
    if a > 1e6 * abs(v):
        return ("ill", math.inf if v == 0 else a / abs(v))
    # the actual perturbation test of the design: 1e-12 relative input change
    pats = [1, -1]
    names = sorted(env)
    for trial in range(4):
        penv = {}
        for i, n in enumerate(names):
            s = (1 if trial == 0 else -1 if trial == 1 else (1 if (rng.random() < 0.5 if rng else (i + trial) % 2) else -1))
            x = env[n]
            penv[n] = [t * (1 + s * 1e-12) for t in x] if isinstance(x, (list, tuple)) else x * (1 + s * 1e-12)
        try:
            pv, _ = evalerr(e, penv, ufuncs)
        except Undefined:
            return ("ill", math.inf)
        if abs(pv - v) > 1e-6 * abs(v):
            return ("ill", abs(pv - v) / (abs(v) * 1e-12) if v else math.inf)
    return ("ok", v, (a / abs(v) if v else 0.0))


# ------------------------------------------------------------------------------------------
# Python's own evaluation of the text (second, independent reference)
def piecewise(*pairs):
    """Python reading of `Piecewise((value, condition), ..., (value, True))`: the first value whose condition holds
    (all values are evaluated: a point where any branch is undefined is an undefined point of the reference)"""
    for value, cond in pairs:
        if cond:
            return value
    raise ValueError("Piecewise without a true condition")


def python_namespace(ufuncs=None):
    ns = {name: fn for name, (fn, _d, _dom) in FUN1.items()}
    ns.update({"hypot": math.hypot, "atan2": math.atan2, "pi": math.pi, "E": math.e,
               "heaviside": heaviside, "Heaviside": heaviside, "floor": lambda x: float(math.floor(x)),
               "ceiling": lambda x: float(math.ceil(x)), "Piecewise": piecewise, "__builtins__": {}})
    # the body of a user function sees the BASE functions only (a user function may carry the name of a base
    # function - `log` meaning the decadic logarithm - and use the base function of that name in its body)
    base = dict(ns)
    for name, (ps, body) in (ufuncs or {}).items():
        ns[name] = eval(f"lambda {', '.join(ps)}: {to_text(body)}", dict(base))
    return ns


def python_eval(text, env, ufuncs=None):
    """value of the text under Python's semantics with `math` functions (None if undefined)"""
    ns = python_namespace(ufuncs)
    ns.update(env)
    try:
        v = eval(compile(text, "<expr>", "eval"), ns)
    except (ValueError, OverflowError, ZeroDivisionError, TypeError):
        return None
    if isinstance(v, complex):
        return None
    if isinstance(v, list):
        return v
    v = float(v)
    return v if math.isfinite(v) else None


# ------------------------------------------------------------------------------------------
# intervals (the "types" of the generator)
def _mono(fn, lo, hi):
    return (fn(lo), fn(hi))


def ival(e, ranges, ufuncs=None):
    """enclosure (lo, hi) of the values over the box `ranges`, or None if not guaranteed defined"""
    k = e["k"]
    if k == "num":
        v = float(Fraction(e["v"]))
        return (v, v)
    if k == "var":
        r = ranges.get(e["n"])
        return None if r is None or isinstance(r, list) else r
    if k == "idx":
        r = ranges.get(e["n"])
        return r[e["i"]] if isinstance(r, list) and e["i"] < len(r) else None
    if k == "named":
        return (NAMED[e["n"]],) * 2
    cs = {c: ival(e[c], ranges, ufuncs) for c in ("a", "b", "h") if c in e}
    if any(v is None for v in cs.values()):
        return None
    if k == "neg":
        lo, hi = cs["a"]
        return (-hi, -lo)
    if k in BIN:
        (al, ah), (bl, bh) = cs["a"], cs["b"]
        if k == "add":
            return (al + bl, ah + bh)
        if k == "sub":
            return (al - bh, ah - bl)
        if k == "mul":
            ps = [al * bl, al * bh, ah * bl, ah * bh]
            return (min(ps), max(ps))
        if bl <= 0 <= bh:
            return None
        ps = [al / bl, al / bh, ah / bl, ah / bh]
        return (min(ps), max(ps))
    if k == "powi":
        lo, hi = cs["a"]
        n = e["n"]
        if n == 0:
            return (1.0, 1.0)
        if n < 0:
            if lo <= 0 <= hi:
                return None
            m = -n
            ps = [1 / lo ** m, 1 / hi ** m]
            return (min(ps), max(ps))
        try:
            ps = [lo ** n, hi ** n]
        except OverflowError:
            return None
        if n % 2 == 0 and lo < 0 < hi:
            return (0.0, max(ps))
        return (min(ps), max(ps))
    if k == "call1":
        lo, hi = cs["a"]
        f = e["f"]
        if ufuncs and f in ufuncs:
            ps, body = ufuncs[f]
            return ival(body, {ps[0]: (lo, hi)})
        if f in ("sin", "cos"):
            return (-1.0, 1.0)
        if f == "abs":
            return (0.0 if lo <= 0 <= hi else min(abs(lo), abs(hi)), max(abs(lo), abs(hi)))
        if f == "cosh":
            if max(abs(lo), abs(hi)) > 30:
                return None
            return (1.0 if lo <= 0 <= hi else math.cosh(min(abs(lo), abs(hi))), math.cosh(max(abs(lo), abs(hi))))
        if f in ("exp", "sinh") and max(abs(lo), abs(hi)) > 30:
            return None
        if f == "tan" and not (-1.4 <= lo and hi <= 1.4):
            return None
        if f in ("log", "sqrt") and lo <= 0:
            return None
        if f in ("asin", "acos", "atanh") and not (-0.999 <= lo and hi <= 0.999):
            return None
        if f == "acos":
            return (math.acos(hi), math.acos(lo))
        if f in ("floor", "ceiling"):
            return (math.floor(lo), math.ceil(hi))
        if f in FUN1:
            return _mono(FUN1[f][0], lo, hi)
        return None
    if k == "call2":
        (al, ah), (bl, bh) = cs["a"], cs["b"]
        f = e["f"]
        if ufuncs and f in ufuncs:
            ps, body = ufuncs[f]
            return ival(body, {ps[0]: (al, ah), ps[1]: (bl, bh)})
        if f == "hypot":
            return (0.0, math.hypot(max(abs(al), abs(ah)), max(abs(bl), abs(bh))))
        if f == "atan2":
            if (al <= 0 <= ah) and (bl <= 0 <= bh):
                return None
            return (-math.pi, math.pi)
        if f == "pow":
            if al <= 0:
                return None
            try:
                ps = [math.pow(x, y) for x in (al, ah) for y in (bl, bh)]
            except OverflowError:
                return None
            return (min(ps), max(ps))
        return None
    if k == "heav1":
        return (0.0, 1.0)
    if k == "heav2":
        hl, hh = cs["h"]
        return (min(0.0, hl), max(1.0, hh))
    if k == "cmp":
        return (0.0, 1.0)
    if k == "pw":
        (al, ah), (bl, bh) = cs["a"], cs["b"]
        return (min(al, bl), max(ah, bh))
    return None


def satisfies(iv, need):
    if iv is None:
        return False
    lo, hi = iv
    if not (math.isfinite(lo) and math.isfinite(hi)) or max(abs(lo), abs(hi)) > 1e6:
        return False
    if need == "any":
        return True
    if need == "pos":
        return lo >= 0.05
    if need == "nz":
        return lo >= 0.05 or hi <= -0.05
    if need == "small":
        return -6 <= lo and hi <= 6
    if need == "unit":
        return -0.95 <= lo and hi <= 0.95
    if need == "tan":
        return -1.3 <= lo and hi <= 1.3
    raise ValueError(need)


# ------------------------------------------------------------------------------------------
# generator
INT_LITS = ["0", "1", "2", "3", "4", "5", "7", "10", "12"]
DEC_LITS = ["0.5", "0.25", "1.5", "2.75", "0.125", "0.1", "0.3", "2.5", "1.2", "0.75", "3.25", "0.7"]
SCI_LITS = ["1e-3", "2.5e2", "1e2", "5e-2"]


class Vocabulary:
    """names available to one program: variables with ranges, constants with values, user
    functions, indexed symbols"""

    def __init__(self, variables=None, consts=None, ufuncs=None, indexed=None, allow_named=True,
                 allow_step=True, fun1=None, fun2=None):
        self.variables = dict(variables or {})      # name -> (lo, hi)
        self.consts = dict(consts or {})            # name -> float value (scalar)
        self.ufuncs = dict(ufuncs or {})            # name -> (params, body)
        self.indexed = dict(indexed or {})          # name -> list of (lo, hi)   (variables)
        self.indexed_consts = {}                    # name -> list of float values
        self.allow_named = allow_named
        self.allow_step = allow_step
        self.fun1 = list(FUN1) if fun1 is None else list(fun1)
        self.fun2 = list(FUN2) if fun2 is None else list(fun2)

    def ranges(self):
        r = dict(self.variables)
        for c, v in self.consts.items():
            r[c] = (v, v)
        for n, l in self.indexed.items():
            r[n] = list(l)
        for n, l in self.indexed_consts.items():
            r[n] = [(v, v) for v in l]
        return r


class Gen:
    def __init__(self, rng, voc):
        self.rng = rng
        self.voc = voc
        self.ranges = voc.ranges()

    def iv(self, e):
        return ival(e, self.ranges, self.voc.ufuncs)

    # leaves ---------------------------------------------------------------------------
    def literal(self, positive=False):
        r = self.rng.random()
        t = self.rng.choice(INT_LITS if r < 0.5 else DEC_LITS if r < 0.9 else SCI_LITS)
        if positive and float(t) == 0:
            t = "2"
        return num(t)

    def leaf(self):
        rng, voc = self.rng, self.voc
        opts = []
        if voc.variables:
            opts += [("var", 6)]
        if voc.consts:
            opts += [("const", 2)]
        if voc.indexed or voc.indexed_consts:
            opts += [("idx", 2)]
        opts += [("num", 3)]
        if voc.allow_named:
            opts += [("named", 0.4)]
        k = _weighted(rng, opts)
        if k == "var":
            return var(rng.choice(sorted(voc.variables)))
        if k == "const":
            return var(rng.choice(sorted(voc.consts)))
        if k == "idx":
            pool = sorted(list(voc.indexed) + list(voc.indexed_consts))
            n = rng.choice(pool)
            ln = len(voc.indexed.get(n) or voc.indexed_consts.get(n))
            return idx(n, rng.randrange(ln))
        if k == "named":
            return {"k": "named", "n": rng.choice(["pi", "pi", "E"]) if "E" not in voc.variables else "pi"}
        return self.literal()

    def leaf_for(self, need):
        """a leaf guaranteed to satisfy `need`"""
        cands = []
        for n, r in self.ranges.items():
            if isinstance(r, tuple) and satisfies(r, need):
                cands.append(var(n))
        lit = {"any": "2", "pos": "1.5", "nz": "3", "small": "0.5", "unit": "0.25", "tan": "0.5"}[need]
        cands.append(num(lit))
        return self.rng.choice(cands)

    # typed generation --------------------------------------------------------------------
    def gen(self, d, need="any"):
        for _ in range(6):
            e = self.raw(d)
            iv = self.iv(e)
            if satisfies(iv, need):
                return e
            if iv is not None:
                e2 = self.coerce(e, iv, need)
                if e2 is not None and satisfies(self.iv(e2), need):
                    return e2
        return self.leaf_for(need)

    def coerce(self, e, iv, need):
        """wrap an expression so that its values land in the wanted set"""
        rng = self.rng
        lo, hi = iv
        m = max(abs(lo), abs(hi))
        if not math.isfinite(m) or m > 1e6:
            if need in ("any", "small", "unit", "tan"):
                return un("call1", e, f=rng.choice(["tanh", "atan", "sin"]))
            return None
        if need == "any":
            return e
        if need in ("pos", "nz"):
            c = rng.choice(["1", "2", "0.5"])
            ch = rng.random()
            if ch < 0.35 and m < 1e3:
                return bi("add", {"k": "powi", "a": e, "n": 2}, num(c))
            if ch < 0.55:
                return bi("add", un("call1", e, f="abs"), num(c))
            if ch < 0.75 and m <= 6:
                return un("call1", e, f="exp")
            if ch < 0.85 and m <= 6:
                return un("call1", e, f="cosh")
            k = math.floor(-lo) + 1 + rng.choice([0, 1])
            return bi("add", e, num(str(k))) if k >= 0 else bi("sub", e, num(str(-k)))
        if need in ("small", "unit", "tan"):
            bound = {"small": 6.0, "unit": 0.95, "tan": 1.3}[need]
            ch = rng.random()
            if ch < 0.3:
                f = rng.choice(["sin", "tanh", "cos"] if need != "unit" else ["tanh"])
                w = un("call1", e, f=f)
                return bi("mul", num("0.75"), w) if need == "unit" else w
            if ch < 0.5 and need != "unit":
                return un("call1", e, f="atan") if need == "small" else bi("mul", num("0.75"), un("call1", e, f="atan"))
            k = max(1, math.ceil(m / bound))
            if k == 1 and m > bound:
                k = 2
            return bi("div", e, num(str(k)))
        return None

    def raw(self, d):
        rng, voc = self.rng, self.voc
        if d <= 1 or rng.random() < 0.08:
            return self.leaf()
        opts = [("add", 5), ("sub", 4), ("mul", 6), ("div", 3.5), ("neg", 1.5), ("powi", 3), ("call1", 6)]
        if voc.fun2:
            opts.append(("call2", 1.8))
        if voc.ufuncs:
            opts.append(("ucall", 2.5))
        if voc.allow_step:
            opts.append(("heav", 1.6))
        k = _weighted(rng, opts)
        sub = lambda need="any": self.gen(d - 1 if rng.random() < 0.7 else max(1, d - 1 - rng.randrange(1, 3)), need)
        if k in ("add", "sub", "mul"):
            return bi(k, sub(), sub())
        if k == "div":
            return bi("div", sub(), sub("nz"))
        if k == "neg":
            a = sub()
            return un("neg", a)
        if k == "powi":
            n = rng.choice([2, 2, 3, 3, 4, 5, 1, 0, -1, -1, -2, -3])
            a = sub("nz") if n < 0 else sub()
            return {"k": "powi", "a": a, "n": n}
        if k == "call1":
            f = rng.choice(voc.fun1)
            return un("call1", sub(FUN1[f][2]), f=f)
        if k == "call2":
            f = rng.choice(voc.fun2)
            _fn, da, db = FUN2[f]
            if f == "pow":
                ch = rng.random()
                if ch < 0.5:
                    b = num(rng.choice(["0.5", "1.5", "2.5", "0.25", "1.2"]))
                elif ch < 0.65:
                    b = bi("div", num("1"), num(rng.choice(["2", "3", "4"])))
                else:
                    b = sub("small")
                return bi("call2", sub("pos"), b, f="pow")
            return bi("call2", sub(da), sub(db), f=f)
        if k == "ucall":
            f = rng.choice(sorted(voc.ufuncs))
            ps, _body = voc.ufuncs[f]
            if len(ps) == 1:
                return un("call1", sub("small"), f=f)
            return bi("call2", sub("small"), sub("small"), f=f)
        if k == "heav":
            hv = rng.choice(["heaviside", "Heaviside"])
            if rng.random() < 0.4:
                return {"k": "heav1", "a": sub(), "hv": hv}
            return {"k": "heav2", "a": sub(), "h": num(rng.choice(["0.5", "0.25", "1", "0", "0.75", "0.3"])), "hv": hv}
        raise ValueError(k)

    def expression(self, dmax=6):
        """a random expression of depth <= dmax with a guaranteed-defined, bounded value"""
        for _ in range(30):
            d = self.rng.choice([2, 3, 3, 4, 4, 5, 5, 6])
            e = self.gen(min(d, dmax), "any")
            if depth(e) <= dmax and satisfies(self.iv(e), "any"):
                return e
        return self.leaf_for("any")

    def comparison(self, dmax=5):
        op = self.rng.choice(sorted(CMP))
        a = self.expression(dmax - 1)
        b = self.expression(max(1, dmax - 2)) if self.rng.random() < 0.6 else self.literal()
        return {"k": "cmp", "op": op, "a": a, "b": b}

    def user_body(self, params, d=3):
        """body of a user function: total on the `small` box, rational or elementary"""
        g = Gen(self.rng, Vocabulary({p: (-6.0, 6.0) for p in params}, allow_named=False, allow_step=False,
                                     fun1=["sin", "cos", "tanh", "exp", "atan", "abs"], fun2=[]))
        for _ in range(20):
            e = g.gen(d, "any")
            iv = g.iv(e)
            if satisfies(iv, "any") and set(params) <= symbols(e) and max(abs(iv[0]), abs(iv[1])) < 1e4:
                return e
        e = var(params[0])
        for p in params[1:]:
            e = bi("add", bi("mul", e, var(p)), num("1"))
        return bi("add", {"k": "powi", "a": e, "n": 2}, num("1")) if len(params) == 1 else e


def _weighted(rng, opts):
    tot = sum(w for _, w in opts)
    r = rng.random() * tot
    for k, w in opts:
        r -= w
        if r <= 0:
            return k
    return opts[-1][0]


def in_diff_fragment(e, ufuncs=()):
    """expression lies in the fragment of the soundness theorem `diff_sound` (and sympy's
    derivative can be turned into a function again)"""
    for n in walk(e):
        k = n["k"]
        if k in ("heav1", "heav2", "cmp", "idx", "pw"):
            return False
        if k == "call1" and n["f"] not in DIFF_FUN1:
            return False
        if k == "call2" and n["f"] != "pow":
            return False
    return True


def rational_fragment(e, ufuncs=None):
    for n in walk(e):
        k = n["k"]
        if k == "named":
            return False
        if k == "call1" and ufuncs and n["f"] in ufuncs:
            # a user function (it may carry the name of a base function, `abs` included): its body decides
            if len(ufuncs[n["f"]][0]) == 1 and rational_fragment(ufuncs[n["f"]][1]):
                continue
            return False
        if k == "call1" and n["f"] not in ("abs",):
            return False
        if k == "call2":
            if ufuncs and n["f"] in ufuncs and len(ufuncs[n["f"]][0]) == 2 and rational_fragment(ufuncs[n["f"]][1]):
                continue
            return False
    return True


# ------------------------------------------------------------------------------------------
# shrinking
def shrink_candidates(e):
    """structurally smaller expressions: sub-expressions first, then local simplifications"""
    out = []
    for c in children(e):
        out.append(c)
    for key in ("a", "b", "h"):
        if key in e:
            for c2 in shrink_candidates(e[key]):
                n = dict(e)
                n[key] = c2
                out.append(n)
    if e["k"] == "num" and e.get("t") not in ("1", "2"):
        out.append(num("2"))
    if e["k"] == "powi" and e["n"] not in (2, -1):
        out.append(dict(e, n=2 if e["n"] > 0 else -1))
    if e["k"] == "heav2":
        out.append({"k": "heav1", "a": e["a"], "hv": e.get("hv", "heaviside")})
    return out


def shrink(e, still_fails, budget=150):
    """greedy structural shrinking; `still_fails(expr) -> bool`"""
    cur = e
    n = 0
    improved = True
    while improved and n < budget:
        improved = False
        for c in sorted(shrink_candidates(cur), key=size):
            if size(c) >= size(cur):
                continue
            n += 1
            if n > budget:
                break
            try:
                bad = still_fails(c)
            except Exception:
                bad = False
            if bad:
                cur = c
                improved = True
                break
    return cur
