"""Serialise real Python objects into the object graphs of `PdeVerif.Cache.PyObj` (C04).

The walk follows *my reading* of `pde.tools.cache.hash_mutable` (it never calls it): which
branch applies to which kind of object, which attributes take part, what the `_cache_hash`
methods of grids and MPI conditions hash.  The Lean model computes the cache key from the
graph; the harness compares key equality in the model with hash equality on the real objects.
"""
import collections
import collections.abc
import math
import numbers

import numpy as np


class Unmodelled(Exception):
    pass


def num_pair(x):
    """finite int/float -> (m, e) with x == m * 2**e"""
    if isinstance(x, (bool, np.bool_)):
        return int(x), 0
    if isinstance(x, (int, np.integer)):
        return int(x), 0
    x = float(x)
    n, d = x.as_integer_ratio()
    return n, -(d.bit_length() - 1)


def num_val(x):
    """value part of a number node"""
    if isinstance(x, (bool, int, np.integer)):
        return {"k": "fin", "m": str(int(x)), "e": 0}
    if isinstance(x, (complex, np.complexfloating)):
        z = complex(x)
        if z.imag == 0:
            x = z.real  # `if not isinstance(obj, numbers.Real) and obj.imag == 0: obj = obj.real`
        else:
            if not (math.isfinite(z.real) and math.isfinite(z.imag)):
                raise Unmodelled("non-finite complex")
            (rm, re), (im, ie) = num_pair(z.real), num_pair(z.imag)
            return {"k": "cplx", "rm": str(rm), "re": re, "im": str(im), "ie": ie, "txt": repr(z + 0.0)}
    if isinstance(x, (float, np.floating)):
        f = float(x)
        if math.isnan(f):
            return {"k": "nan", "id": id(x)}
        if math.isinf(f):
            return {"k": "inf", "neg": f < 0}
        m, e = num_pair(f)
        return {"k": "fin", "m": str(m), "e": e}
    raise Unmodelled(f"number class {type(x).__name__}")


def ser_num(x):
    """a `numbers.Number` (incl. Python's bool): class name, repr, value"""
    return {"t": "num", "cls": type(x).__name__, "repr": repr(x), "v": num_val(x)}


def float_spec(x):
    if not isinstance(x, (int, float, np.integer, np.floating)) or isinstance(x, bool):
        raise Unmodelled(f"grid bound of class {type(x).__name__}")
    m, e = num_pair(x)
    return [type(x).__name__, repr(x), str(m), e]


def grid_spec(g):
    return {"cls": type(g).__name__, "shape": [int(n) for n in g.shape],
            "bounds": [[float_spec(lo), float_spec(hi)] for lo, hi in g.axes_bounds],
            "periodic": [bool(p) for p in g.periodic]}


def arr_spec(a):
    a = np.asarray(a)
    return {"dtype": a.dtype.str, "shape": [int(n) for n in a.shape], "h": a.tobytes().hex()}


def bc_spec(bc):
    """specification of a constant-data boundary condition read through its attributes"""
    s = {"cls": type(bc).__qualname__, "grid": grid_spec(bc.grid), "axis": int(bc.axis), "upper": bool(bc.upper),
         "rank": int(bc.rank), "shape_tensor": [int(n) for n in bc._shape_tensor],
         "shape_boundary": [int(n) for n in bc._shape_boundary]}
    if hasattr(bc, "_value"):
        s["value"] = arr_spec(bc._value)
        s["homogeneous"] = bool(bc.homogeneous)
        s["linked"] = bool(bc.value_is_linked)
    if hasattr(bc, "const"):
        s["const"] = arr_spec(bc.const)
    if hasattr(bc, "flip_sign"):
        s["flip"] = bool(bc.flip_sign)
    return s


MODELLED_BC = {"DirichletBC", "NeumannBC", "MixedBC", "CurvatureBC", "NormalDirichletBC", "NormalNeumannBC",
               "NormalMixedBC", "NormalCurvatureBC", "_PeriodicBC", "UserBC"}


def bcs_spec(bcs):
    """BoundariesList -> specification (None if a condition outside the modelled classes occurs)"""
    axes = []
    for ax in bcs:
        if type(ax.low).__qualname__ not in MODELLED_BC or type(ax.high).__qualname__ not in MODELLED_BC:
            return None
        axes.append({"periodic": type(ax).__name__ == "BoundaryPeriodic", "low": bc_spec(ax.low), "high": bc_spec(ax.high)})
    return {"grid": grid_spec(bcs.grid), "rank": int(bcs.rank), "axes": axes}


def op_spec(info):
    return {"factory": leaf_tag(info.factory), "rank_in": int(info.rank_in), "rank_out": int(info.rank_out),
            "name": info.name}


def leaf_tag(obj):
    """canonical name of the equality class of a hashable leaf"""
    t = type(obj)
    if t.__hash__ is object.__hash__ or isinstance(obj, type) or callable(obj) and getattr(t, "__eq__", None) is object.__eq__:
        return f"id:{id(obj)}"
    if isinstance(obj, float) and math.isnan(obj):
        return f"id:{id(obj)}"
    try:
        import sympy
        if isinstance(obj, sympy.Basic):
            return "sympy:" + sympy.srepr(obj)
    except Exception:
        pass
    return f"{t.__module__}.{t.__qualname__}:{obj!r}"


def _pairs(d):
    out = []
    for k, v in d.items():
        if not isinstance(k, str):
            raise Unmodelled(f"non-string dictionary key {k!r}")
        out.append([k, ser(v)])
    return out


def ser(obj):
    # 1. `_cache_hash`
    if hasattr(obj, "_cache_hash"):
        from pde.grids.base import GridBase
        if isinstance(obj, GridBase):
            ch = {"t": "tuple", "l": [
                {"t": "str", "s": type(obj).__name__},
                {"t": "tuple", "l": [ser_num(n) for n in obj.shape]},
                {"t": "tuple", "l": [{"t": "tuple", "l": [ser(lo), ser(hi)]} for lo, hi in obj.axes_bounds]},
                {"t": "tuple", "l": [ser(p) for p in tuple(obj.periodic)]}]}
            return {"t": "grid", "cls": type(obj).__name__, "ch": ch}
        if type(obj).__name__ == "_MPIBC":
            ch = {"t": "tuple", "l": [{"t": "str", "s": type(obj).__name__}, ser(obj.grid), ser(obj.axis),
                                      ser(obj.rank), ser(obj._neighbor_id)]}
            return {"t": "hobj", "cls": type(obj).__name__, "ch": ch}
        raise Unmodelled(f"_cache_hash of {type(obj).__name__}")
    # 2. containers
    if isinstance(obj, tuple):
        return {"t": "tuple", "l": [ser(v) for v in obj]}
    if isinstance(obj, list):
        return {"t": "list", "l": [ser(v) for v in obj]}
    if isinstance(obj, (set, frozenset)):
        raise Unmodelled("set")
    if isinstance(obj, collections.OrderedDict):
        return {"t": "odict", "l": _pairs(obj)}
    if isinstance(obj, (dict, collections.abc.MutableMapping)):
        return {"t": "dict", "l": _pairs(obj)}
    if isinstance(obj, np.ndarray):
        return {"t": "nd", "dtype": obj.dtype.str, "shape": [int(n) for n in obj.shape], "h": obj.tobytes().hex()}
    if isinstance(obj, slice):
        return {"t": "slice", "a": ser(obj.start), "b": ser(obj.stop), "c": ser(obj.step)}
    # 3. numbers (Python's bool is one, numpy's is not): text of the exact value
    if isinstance(obj, np.bool_):
        return {"t": "bool", "b": bool(obj)}
    if isinstance(obj, numbers.Number):
        return ser_num(obj)
    # 4. hashable leaves
    if obj is None:
        return {"t": "none"}
    if isinstance(obj, str):
        return {"t": "str", "s": obj}
    if isinstance(obj, bytes):
        return {"t": "bytes", "h": obj.hex()}
    if type(obj).__hash__ is not None:
        return {"t": "atom", "tag": leaf_tag(obj)}
    # 5. unhashable: buffer objects go through sha1 (not modelled), the rest through `__dict__`
    if isinstance(obj, (bytearray, memoryview)):
        raise Unmodelled("unhashable buffer")
    if not hasattr(obj, "__dict__"):
        raise Unmodelled(f"unhashable object without __dict__: {type(obj).__name__}")
    return {"t": "obj", "cls": type(obj).__qualname__, "eq": True, "id": 0, "attrs": _pairs(obj.__dict__)}
