"""Per-run context: PRNG, counters, samples, disagreements, monitor failures."""
import collections
import json
import random


def canon(obj):
    """canonical JSON text of a case (used as distinctness key)"""
    return json.dumps(obj, sort_keys=True, default=str, separators=(",", ":"))


class Ctx:
    def __init__(self, pid, tier, seed, workdir):
        self.pid = pid
        self.tier = tier
        self.seed = seed
        self.workdir = workdir
        self.rng = random.Random(f"{pid}:{seed}")
        self.evaluations = 0
        self.keys = set()
        self.nontrivial_keys = set()
        self.samples = []
        self.hists = collections.defaultdict(collections.Counter)
        self.disagreements = []  # model != code (correspondence)
        self.monitor_failures = []  # the property itself fails on the real code
        self.impl_traces = 0  # executions of the real code compared with the model
        self.monitor_evals = 0  # executions of the property monitor on the real code
        self.notes = []
        self.extra = {}
        self.legs = collections.Counter()
        self.exhaustive = False

    # ---- budgets ------------------------------------------------------------------
    def budget(self, quick, thorough):
        return thorough if self.tier == "thorough" else quick

    def sub_rng(self, name):
        return random.Random(f"{self.pid}:{self.seed}:{name}")

    # ---- bookkeeping --------------------------------------------------------------
    def count(self, case, nontrivial=True, leg=None, sample_every=0):
        """register one generated/evaluated case"""
        self.evaluations += 1
        k = canon(case)
        self.keys.add(hash(k))
        if nontrivial:
            self.nontrivial_keys.add(hash(k))
        if leg:
            self.legs[leg] += 1
        if len(self.samples) < 6 and (leg is None or sum(1 for s in self.samples if s.get("leg") == leg) < 2):
            self.samples.append({"leg": leg, "case": json.loads(k)})

    def hist(self, name, key, n=1):
        self.hists[name][str(key)] += n

    def disagree(self, leg, case, model, impl, note=""):
        self.disagreements.append(
            {"leg": leg, "case": case, "model": model, "impl": impl, "note": note}
        )

    def monitor_fail(self, leg, case, observed, expected, what, key=None):
        """the property's own monitor fails on the real code for `case`"""
        self.monitor_failures.append(
            {"leg": leg, "case": case, "observed": observed, "expected": expected,
             "what": what, "key": key or {}}
        )

    def note(self, text):
        self.notes.append(text)
