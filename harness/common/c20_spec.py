"""C20 property monitor: an executable statement of the property, independent of the Lean model.

For every storage of a `RealWorld` it keeps the specification state "list of appended
(time, data) pairs of the surviving sessions" under the *documented* write-mode semantics and
checks after every operation, through the public API (`times`, `data`, `storage[i]`, `items()`,
`extract_*`, `view_field`, `copy`, `apply`), that the real storage shows exactly that."""
import bisect

import numpy as np

from harness.common.c20_world import flat


class Cell:
    """content of one stored frame according to the specification: a snapshot taken when the
    frame was appended, or (storages built by `from_fields`) the live field it aliases"""
    __slots__ = ("vals", "field", "shape")

    def __init__(self, vals=None, field=None, shape=None):
        self.vals, self.field, self.shape = vals, field, shape

    def get(self):
        return self.vals if self.field is None else flat(self.field.data)


class SpecStore:
    def __init__(self, mode):
        self.log = []          # [(time, Cell)]
        self.mode = mode       # documented mode as set by the user
        self.fresh = True      # no writing session started since the mode was set

    def times(self):
        return [t for t, _ in self.log]


def member_layout(coll):
    """[(label, start, stop)] of the members of a collection in its flattened data"""
    ncell = int(np.prod(coll.grid.shape))
    out, pos = [], 0
    for m in coll.fields:
        n = int(coll.grid.dim ** m.rank) * ncell
        out.append((m.label, pos, pos + n))
        pos += n
    return out


def pick_member(layout, field_id):
    """index of the member selected by an int (Python indexing) or a label (first match)"""
    if isinstance(field_id, str):
        for i, (lab, _a, _b) in enumerate(layout):
            if lab == field_id:
                return i
        return None
    n = len(layout)
    j = field_id + n if field_id < 0 else field_id
    return j if 0 <= j < n else None


def apply_vals(func, t, vals, coll_layout):
    k = func["kind"]
    if k == "ident":
        return tuple(vals)
    if k == "scale":
        return tuple(v * func["c"] for v in vals)
    if k == "addTime":
        return tuple(v + t for v in vals)
    if k == "member":
        if coll_layout is not None and func["i"] < len(coll_layout):
            _l, a, b = coll_layout[func["i"]]
            return tuple(vals[a:b])
        return tuple(vals)
    raise ValueError(k)


class Monitor:
    def __init__(self, world):
        self.w = world
        self.specs = []
        self.evals = 0
        self.observations = []

    # failures are dicts {what, observed, expected, key}
    @staticmethod
    def _fail(what, observed, expected, symptom, call_site="MemoryStorage"):
        return {"what": what, "observed": observed, "expected": expected,
                "key": {"call_site": call_site, "symptom": symptom}}

    def check_contents(self, touched=None):
        """every storage shows exactly its specification log"""
        for sid, (st, sp) in enumerate(zip(self.w.stores, self.specs)):
            exp_t = sp.times()
            if [float(t) for t in st.times] != [float(t) for t in exp_t] or len(st.data) != len(sp.log):
                return self._fail("stored times differ from the appended times of the surviving sessions",
                                  {"storage": sid, "times": list(st.times), "n_frames": len(st.data)},
                                  {"times": exp_t}, "times")
            for k, (_t, cell) in enumerate(sp.log):
                if flat(st.data[k]) != tuple(cell.get()):
                    return self._fail("stored frame differs from the data of the field when it was appended",
                                      {"storage": sid, "frame": k, "data": flat(st.data[k])},
                                      {"data": tuple(cell.get())}, "frame-data")
            if sid == touched and sp.log and st._field is not None:
                for k, (t, cell) in enumerate(sp.log):
                    try:
                        f = st[k]
                    except Exception as e:  # noqa: BLE001
                        return self._fail("storage[i] raised for a stored frame",
                                          {"storage": sid, "frame": k, "error": f"{type(e).__name__}: {e}"},
                                          {"data": tuple(cell.get())}, "read-raised")
                    if flat(f.data) != tuple(cell.get()):
                        return self._fail("storage[i] differs from the data of the field when it was appended",
                                          {"storage": sid, "frame": k, "data": flat(f.data)},
                                          {"data": tuple(cell.get())}, "read-data")
        return None

    def after(self, op, err, obs):
        """update the specification with the outcome of `op` and check the real world;
        returns None or a failure dict"""
        self.evals += 1
        w, S = self.w, self.specs
        k = op["op"]
        if err == "bad-request":
            return None
        bad = None
        touched = op.get("sid")
        if k == "newStore":
            S.append(SpecStore(op["mode"]))
        elif k == "fromFields":
            if err is None:
                sp = SpecStore(op["mode"])
                sp.log = [(t, Cell(field=w.fields[i], shape=w.fields[i].data.shape))
                          for t, i in zip(op["times"], op["fids"])]
                S.append(sp)
        elif k == "fromCollection":
            if err is None:
                sp = SpecStore("truncate_once")
                srcs = [S[i] for i in op["sids"]]
                if srcs:
                    for kk, (t, _c) in enumerate(srcs[0].log):
                        vals = ()
                        for src in srcs:
                            if kk < len(src.log):
                                vals = vals + tuple(src.log[kk][1].get())
                        sp.log.append((t, Cell(vals=vals)))
                S.append(sp)
        elif k in ("newField", "setField"):
            pass
        else:
            sp = S[op["sid"]]
            st = w.stores[op["sid"]]
            bad = self._after_store_op(op, err, obs, sp, st)
        if bad is not None:
            return bad
        return self.check_contents(touched)

    def _after_store_op(self, op, err, obs, sp, st):
        w, S = self.w, self.specs
        k = op["op"]
        n = len(sp.log)
        if k == "setMode":
            sp.mode, sp.fresh = op["mode"], True
        elif k == "start":
            if sp.mode == "readonly" and err != "RuntimeError":
                return self._fail("start_writing on a readonly storage did not raise RuntimeError",
                                  {"error": err}, {"error": "RuntimeError"}, "readonly-start-accepted",
                                  "MemoryStorage.start_writing")
            if err is None:
                if sp.mode == "truncate" or (sp.mode == "truncate_once" and sp.fresh):
                    sp.log = []
                sp.fresh = False
        elif k == "append":
            f = w.fields[op["fid"]]
            if err is None:
                t = op["t"]
                if t is None:
                    t = 0 if n == 0 else sp.log[-1][0] + 1
                ragged = n > 0 and sp.log[0][1].shape is not None and sp.log[0][1].shape != f.data.shape
                sp.log.append((t, Cell(vals=flat(f.data), shape=f.data.shape)))
                if sp.mode == "readonly":
                    return self._fail("append on a readonly storage was accepted (documented: 'readonly' "
                                      "disables writing completely)", {"error": None, "times": list(st.times)},
                                      {"error": "an exception"}, "readonly-append-accepted", "StorageBase.append")
                if ragged:
                    return self._fail("append accepted a field whose data shape differs from the stored frames",
                                      {"shape": list(f.data.shape)}, {"error": "ValueError"}, "ragged-append")
        elif k == "clear":
            if err is None:
                sp.log = []
            else:
                return self._fail("clear raised", {"error": err}, {"error": None}, "clear-raised")
        elif k == "end":
            if err is not None:
                return self._fail("end_writing raised", {"error": err}, {"error": None}, "end-raised")
        elif k == "read":
            i = op["i"]
            j = i + n if i < 0 else i
            if not 0 <= j < n:
                if err != "IndexError":
                    return self._fail("out-of-range read did not raise IndexError", {"error": err},
                                      {"error": "IndexError"}, "read-range")
            else:
                if err is not None:
                    return self._fail("in-range read raised", {"error": err, "i": i}, {"error": None}, "read-raised")
                if tuple(obs["field"]["vals"]) != tuple(sp.log[j][1].get()):
                    return self._fail("storage[i] differs from the appended data", {"i": i, "data": obs["field"]["vals"]},
                                      {"data": sp.log[j][1].get()}, "read-data")
                if np.shares_memory(w.fields[-1].data, st.data[j]):
                    return self._fail("field read back shares memory with the stored frame", {"i": i},
                                      {"shares_memory": False}, "read-aliases-frame")
        elif k in ("items", "slice"):
            if k == "items":
                exp = [(float(t), tuple(c.get())) for t, c in sp.log]
                got = None if err else [(it["t"], tuple(it["vals"])) for it in obs["items"]]
            else:
                exp = [tuple(c.get()) for _t, c in sp.log[op["a"]:op["b"]]]
                got = None if err else [tuple(it["vals"]) for it in obs["fields"]]
            if err is not None or got != exp:
                return self._fail(f"{k} does not return the appended pairs in order", {"error": err, "got": got},
                                  {"expected": exp}, f"{k}-data")
        elif k == "extractTimeRange":
            ts = sp.times()
            a, b = (None, None) if op["kind"] == "all" else ((None, op["b"]) if op["kind"] == "upto" else (op["a"], op["b"]))
            if (a is None or b is None) and not ts:
                if err != "IndexError":
                    return self._fail("extract_time_range with an open end on an empty storage", {"error": err},
                                      {"error": "IndexError"}, "etr-empty")
                return None
            if err is not None:
                return self._fail("extract_time_range raised", {"error": err}, {"error": None}, "etr-raised")
            a = ts[0] if a is None else a
            b = ts[-1] if b is None else b
            r = w.stores[-1]
            if all(x <= y for x, y in zip(ts, ts[1:])):
                # sorted times: exactly the pairs with a <= t <= b, in order
                i, j = bisect.bisect_left(ts, a), bisect.bisect_right(ts, b)
                part = sp.log[i:j]
                filt = [e for e in sp.log if a <= e[0] <= b]
                if [id(e[1]) for e in filt] != [id(e[1]) for e in part]:
                    return self._fail("bisect reference differs from the interval filter on sorted times",
                                      {"slice": [i, j]}, {}, "etr-reference")
            else:
                # unsorted times: the bracket found by a binary search is unspecified, but the result
                # must be a contiguous run of the stored pairs
                m = len(r.times)
                i = next((i for i in range(n - m + 1)
                          if [float(t) for t in ts[i:i + m]] == [float(t) for t in r.times]
                          and all(flat(r.data[x]) == tuple(sp.log[i + x][1].get()) for x in range(m))
                          and all(np.shares_memory(r.data[x], st.data[i + x]) for x in range(m))), None)
                if i is None:
                    i = next((i for i in range(n - m + 1)
                              if [float(t) for t in ts[i:i + m]] == [float(t) for t in r.times]
                              and all(flat(r.data[x]) == tuple(sp.log[i + x][1].get()) for x in range(m))), None)
                if i is None:
                    return self._fail("extract_time_range result is not a contiguous run of the stored pairs",
                                      {"times": list(r.times)}, {"stored_times": ts}, "etr-not-a-run")
                part = sp.log[i:i + m]
            new = SpecStore("truncate_once")
            for kk, (t, c) in enumerate(part):
                shared = kk < len(r.data) and i + kk < len(st.data) and np.shares_memory(r.data[kk], st.data[i + kk])
                new.log.append((t, c if shared else Cell(vals=tuple(c.get()), shape=c.shape)))
            S.append(new)
        elif k == "extractField":
            if err is None:
                r = w.stores[-1]
                new = SpecStore("truncate_once")
                for kk, (t, c) in enumerate(sp.log):
                    lay = member_layout(st[kk])
                    m = pick_member(lay, op["field"])
                    if m is None:
                        return self._fail("extract_field accepted a field id that selects no member",
                                          {"field": op["field"]}, {"error": "an exception"}, "extract-field-id")
                    vals = tuple(c.get())[lay[m][1]:lay[m][2]]
                    new.log.append((t, Cell(vals=vals)))
                    if kk < len(r.data) and np.shares_memory(r.data[kk], st.data[kk]):
                        return self._fail("extract_field result shares memory with the source (documented: copy)",
                                          {"frame": kk}, {"shares_memory": False}, "extract-field-aliases")
                S.append(new)
        elif k in ("viewRead", "viewItems"):
            if err is None:
                its = [(op["k"], obs["field"]["vals"])] if k == "viewRead" else list(enumerate(it["vals"] for it in obs["items"]))
                if k == "viewItems" and ([it["t"] for it in obs["items"]] != [float(t) for t in sp.times()]):
                    return self._fail("view items have other times", {}, {}, "view-times")
                for kk, vals in its:
                    jj = kk + n if kk < 0 else kk
                    lay = member_layout(st[jj])
                    m = pick_member(lay, op["field"])
                    exp = None if m is None else tuple(sp.log[jj][1].get())[lay[m][1]:lay[m][2]]
                    if exp is None or tuple(vals) != exp:
                        return self._fail("view_field differs from the member's part of the stored frame",
                                          {"k": kk, "data": vals}, {"data": exp}, "view-data")
        elif k == "apply":
            src = [(t, tuple(c.get())) for t, c in sp.log]
            out = op.get("out")
            tgt = None if out is None else S[out]
            if src and tgt is not None and tgt.mode == "readonly" and err != "RuntimeError":
                return self._fail("copy/apply into a readonly storage did not raise RuntimeError", {"error": err},
                                  {"error": "RuntimeError"}, "readonly-start-accepted", "StorageBase.apply")
            if err is None:
                lay = None
                if src:
                    f0 = st[0]
                    if hasattr(f0, "fields"):
                        lay = member_layout(f0)
                newlog = [(t, Cell(vals=apply_vals(op["func"], t, v, lay))) for t, v in src]
                if tgt is None:
                    tgt = SpecStore("truncate_once")
                    S.append(tgt)
                if src:
                    if tgt.mode == "truncate" or (tgt.mode == "truncate_once" and tgt.fresh):
                        tgt.log = []
                    tgt.fresh = False
                    tgt.log = tgt.log + newlog
        elif k == "poke":
            if err is None:
                c = sp.log[op["i"]][1]
                if c.field is None:
                    c.vals = tuple(float(x) for x in op["vals"])
        return None
