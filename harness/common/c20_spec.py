"""C20 property monitor: an executable statement of the property, independent of the Lean model.

For every storage of a `RealWorld` it keeps the specification state "list of appended
(time, data) pairs of the surviving sessions" under the *documented* write-mode semantics and
checks after every operation, through the public API (`times`, `data`, `storage[i]`, `items()`,
`extract_*`, `view_field`, `copy`, `apply`), that the real storage shows exactly that.

Acceptance is judged by the monitor itself: `before(op)` records the public state of the addressed
storages (`write_mode`, `shape`, `dtype`, grid, template), `after(op, err, obs)` derives from it
whether the operation is VALID (then it must succeed: symptoms `*-rejected`) or must be refused
(`readonly-*-accepted`, `ragged-append`, `dtype-rule`, `extract-field-id`, ...); the specification
log only follows operations that really were accepted.  Data are compared exactly (NaN-safe) in the
dtype they were appended with."""
import bisect

import numpy as np

from harness.common.c20_world import flat, same_vals

WRITABLE = ("truncate", "truncate_once", "append")


class Cell:
    """content of one stored frame according to the specification: a snapshot taken when the
    frame was appended, or (storages built by `from_fields`) the live field it aliases;
    `dtype` = dtype string the stored frame must have (None: not determined by the specification)"""
    __slots__ = ("vals", "field", "shape", "dtype")

    def __init__(self, vals=None, field=None, shape=None, dtype=None):
        self.vals, self.field, self.shape, self.dtype = vals, field, shape, dtype

    def get(self):
        return self.vals if self.field is None else flat(self.field.data)


class SpecStore:
    def __init__(self, mode):
        self.log = []          # [(time, Cell)]
        self.mode = mode       # documented mode as set by the user
        self.fresh = True      # no writing session started since the mode was set

    def times(self):
        return [t for t, _ in self.log]

    def truncates(self):
        return self.mode == "truncate" or (self.mode == "truncate_once" and self.fresh)


def member_layout(coll):
    """[(label, start, stop)] of the members of a collection in its flattened data"""
    ncell = int(np.prod(coll.grid.shape))
    out, pos = [], 0
    for m in coll.fields:
        n = int(coll.grid.dim ** m.rank) * ncell
        out.append((m.label, pos, pos + n))
        pos += n
    return out


def pick_member(layout, field_id):
    """index of the member selected by an int (Python indexing) or a label (first match)"""
    if isinstance(field_id, str):
        for i, (lab, _a, _b) in enumerate(layout):
            if lab == field_id:
                return i
        return None
    n = len(layout)
    j = field_id + n if field_id < 0 else field_id
    return j if 0 <= j < n else None


def apply_vals(func, t, vals, coll_layout):
    k = func["kind"]
    if k == "ident":
        return tuple(vals)
    if k == "scale":
        return tuple(v * func["c"] for v in vals)
    if k == "addTime":
        return tuple(v + t for v in vals)
    if k == "member":
        if coll_layout is not None and func["i"] < len(coll_layout):
            _l, a, b = coll_layout[func["i"]]
            return tuple(vals[a:b])
        return tuple(vals)
    raise ValueError(k)


def is_collection(f):
    return f is not None and hasattr(f, "fields")


def public_state(st):
    """what a storage says about itself (no side effects: `storage.grid` may load a grid from `info`)"""
    try:
        dt = np.dtype(st.dtype)
    except RuntimeError:
        dt = None
    shp = st.shape
    return {"mode": st.write_mode, "shape": None if shp is None else tuple(shp[1:]), "grid": st._grid,
            "dtype": dt, "n": len(st), "template": st._field}


def cast_class(src, pre):
    """how data of dtype `src` relates to the dtype the storage will read it back with:
    'safe' (every value survives), 'same_kind' (numpy casts but may lose precision), 'no';
    the dtype of the storage if it is set, else the dtype of the template, else 'safe'"""
    dst = pre["dtype"]
    if dst is None and pre["template"] is not None:
        dst = np.dtype(pre["template"].dtype)
    if dst is None or np.can_cast(src, dst, casting="safe"):
        return "safe"
    if np.can_cast(src, dst, casting="same_kind"):
        return "same_kind"
    return "no"


def probe(world):
    """touch the public state of every storage the way generator and monitor do; raises if a storage
    is left in a state that cannot even be inspected"""
    for st in world.stores:
        n = len(st)
        ts = [float(t) for t in st.times]
        sizes = [int(d.size) for d in st.data]
        if len(ts) != n or len(sizes) != n:
            raise RuntimeError(f"len(storage)={n}, {len(ts)} times, {len(sizes)} frames")
        public_state(st)
        if st._field is not None:
            for k in range(n):
                st[k]


class Monitor:
    def __init__(self, world):
        self.w = world
        self.specs = []
        self.evals = 0
        self.observations = []
        self.pre = self.pre_out = None
        self.branches = []          # sub-branches taken (for the input-distribution histograms)

    # failures are dicts {what, observed, expected, key}
    @staticmethod
    def _fail(what, observed, expected, symptom, call_site="MemoryStorage", **extra):
        return {"what": what, "observed": observed, "expected": expected,
                "key": {"call_site": call_site, "symptom": symptom, **extra}}

    def _data_fail(self, what, observed, expected, symptom, st, k):
        """a read that differs from the appended data; diagnosed as the dtype narrowing of `_get_field`
        when the stored frame itself is right but its dtype cannot be cast safely to the template's"""
        try:
            tmpl = st._field
            ks = [k] if k is not None else range(len(st.data))
            fr = next((st.data[x] for x in ks if tmpl is not None and
                       not np.can_cast(st.data[x].dtype, tmpl.dtype, casting="safe")), None)
            if fr is not None:
                # how the frame got there: appended to a storage without dtype (`from_fields`, `extract_*` results),
                # appended before a later `start_writing` replaced the template by one of another dtype, or
                # accepted by the same_kind rule of `append`
                route = ("dtype-unset-append" if st._dtype is None else
                         "template-dtype-changed" if np.can_cast(fr.dtype, st._dtype, casting="safe") else
                         "same-kind-append")
                return self._fail(
                    "a read differs from the appended data: the frame is stored exactly, but `_get_field` narrows it to "
                    f"the dtype of the template ({route})",
                    {**observed, "check": what, "frame_dtype": str(fr.dtype), "template_dtype": str(np.dtype(tmpl.dtype))},
                    expected, "read-narrows-frame-to-template-dtype", "StorageBase._get_field", route=route)
        except Exception:  # noqa: BLE001 - the diagnosis must not hide the failure
            pass
        return self._fail(what, observed, expected, symptom)

    def check_contents(self, touched=None):
        """every storage shows exactly its specification log"""
        for sid, (st, sp) in enumerate(zip(self.w.stores, self.specs)):
            exp_t = sp.times()
            if not same_vals([float(t) for t in st.times], [float(t) for t in exp_t]) or len(st.data) != len(sp.log):
                return self._fail("stored times differ from the appended times of the surviving sessions",
                                  {"storage": sid, "times": list(st.times), "n_frames": len(st.data)},
                                  {"times": exp_t}, "times")
            for k, (_t, cell) in enumerate(sp.log):
                if not same_vals(flat(st.data[k]), cell.get()):
                    return self._fail("stored frame differs from the data of the field when it was appended",
                                      {"storage": sid, "frame": k, "data": flat(st.data[k])},
                                      {"data": tuple(cell.get())}, "frame-data")
                if cell.dtype is not None and st.data[k].dtype.str != cell.dtype:
                    return self._fail("stored frame has another dtype than the data that was appended",
                                      {"storage": sid, "frame": k, "dtype": st.data[k].dtype.str},
                                      {"dtype": cell.dtype}, "frame-dtype")
            if sid == touched and sp.log and st._field is not None:
                for k, (t, cell) in enumerate(sp.log):
                    try:
                        f = st[k]
                    except Exception as e:  # noqa: BLE001
                        return self._fail("storage[i] raised for a stored frame",
                                          {"storage": sid, "frame": k, "error": f"{type(e).__name__}: {e}"},
                                          {"data": tuple(cell.get())}, "read-raised")
                    if not same_vals(flat(f.data), cell.get()):
                        return self._data_fail("storage[i] differs from the data of the field when it was appended",
                                               {"storage": sid, "frame": k, "data": flat(f.data)},
                                               {"data": tuple(cell.get())}, "read-data", st, k)
        return None

    def before(self, op):
        """record the public state the acceptance of `op` is judged on"""
        S = self.w.stores
        sid, out = op.get("sid"), op.get("out")
        self.pre = public_state(S[sid]) if isinstance(sid, int) and sid < len(S) else None
        self.pre_out = public_state(S[out]) if isinstance(out, int) and out < len(S) else None

    def after(self, op, err, obs):
        """update the specification with the outcome of `op` and check the real world;
        returns None or a failure dict"""
        self.evals += 1
        w, S = self.w, self.specs
        k = op["op"]
        if err == "bad-request":
            return None
        bad = None
        touched = op.get("sid")
        if k == "newStore":
            S.append(SpecStore(op["mode"]))
        elif k == "fromFields":
            fs = [w.fields[i] for i in op["fids"]]
            valid = (len(fs) > 0 and len(op["times"]) == len(fs) and all(f.grid == fs[0].grid for f in fs)
                     and all(f.data.shape == fs[0].data.shape for f in fs))
            if valid and err is not None:
                return self._fail("from_fields refused times and fields of equal length on one grid", {"error": err},
                                  {"error": None}, "from-fields-rejected", "MemoryStorage.from_fields")
            if err is None:
                sp = SpecStore(op["mode"])
                sp.log = [(t, Cell(field=w.fields[i], shape=w.fields[i].data.shape, dtype=w.fields[i].data.dtype.str))
                          for t, i in zip(op["times"], op["fids"])]
                S.append(sp)
        elif k == "fromCollection":
            if err is None:
                sp = SpecStore("truncate_once")
                srcs = [S[i] for i in op["sids"]]
                if srcs:
                    for kk, (t, _c) in enumerate(srcs[0].log):
                        vals = ()
                        for src in srcs:
                            if kk < len(src.log):
                                vals = vals + tuple(src.log[kk][1].get())
                        sp.log.append((t, Cell(vals=vals)))
                S.append(sp)
        elif k in ("newField", "setField"):
            pass
        else:
            sp = S[op["sid"]]
            st = w.stores[op["sid"]]
            bad = self._after_store_op(op, err, obs, sp, st)
        if bad is not None:
            return bad
        return self.check_contents(touched)

    # ------------------------------------------------------------------------------------------
    def _start(self, op, err, sp, st):
        f = self.w.fields[op["fid"]]
        pre = self.pre
        if sp.mode == "readonly" and err != "RuntimeError":
            return self._fail("start_writing on a readonly storage did not raise RuntimeError",
                              {"error": err}, {"error": "RuntimeError"}, "readonly-start-accepted",
                              "MemoryStorage.start_writing")
        shape_ok = pre["shape"] is None or pre["shape"] == tuple(f.data.shape)
        valid = pre["mode"] in WRITABLE and shape_ok
        self.branches.append("start:" + ("valid" if valid else "readonly" if pre["mode"] == "readonly" else
                                         "unknown-mode" if pre["mode"] not in WRITABLE else "wrong-shape"))
        if valid and err is not None:
            return self._fail(f"start_writing was refused in mode '{pre['mode']}' although the data shape is "
                              "unknown or equal to the field's", {"error": err, "mode": pre["mode"]},
                              {"error": None}, "start-rejected", "MemoryStorage.start_writing")
        if err is None:
            if pre["mode"] not in WRITABLE:
                return self._fail(f"start_writing was accepted in the undocumented write mode '{pre['mode']}'",
                                  {"error": None}, {"error": "an exception"}, "unknown-mode-start-accepted",
                                  "MemoryStorage.start_writing")
            if sp.truncates():
                sp.log = []
            sp.fresh = False
            now = public_state(st)
            want_dt = pre["dtype"] if pre["dtype"] is not None else np.dtype(f.dtype)
            if now["shape"] != tuple(f.data.shape) or now["grid"] != f.grid or now["dtype"] != want_dt or \
                    now["template"] is None or type(now["template"]) is not type(f):
                return self._fail("after start_writing(field) the storage is not prepared for the field "
                                  "(data shape, grid, dtype, template)",
                                  {"shape": now["shape"], "dtype": str(now["dtype"]),
                                   "template": type(now["template"]).__name__},
                                  {"shape": tuple(f.data.shape), "dtype": str(want_dt), "template": type(f).__name__},
                                  "start-postcondition", "MemoryStorage.start_writing")
        return None

    def _append(self, op, err, sp, st):
        f = self.w.fields[op["fid"]]
        pre, n = self.pre, len(sp.log)
        shape_ok = pre["shape"] is not None and pre["shape"] == tuple(f.data.shape)
        grid_ok = pre["grid"] is None or pre["grid"] == f.grid
        cc = cast_class(f.dtype, pre)
        others_ok = pre["mode"] in WRITABLE and shape_ok and grid_ok
        valid = others_ok and cc == "safe"
        self.branches.append("append:" + ("valid" if valid else "readonly" if pre["mode"] == "readonly" else
                                          "no-shape" if pre["shape"] is None else "wrong-shape" if not shape_ok else
                                          "wrong-grid" if not grid_ok else "unknown-mode" if not others_ok else
                                          "cast-" + cc))
        if valid and err is not None:
            return self._fail("append of a field with the grid, data shape and a safely castable dtype of the "
                              f"storage was refused in mode '{pre['mode']}'", {"error": err}, {"error": None},
                              "append-rejected", "StorageBase.append")
        if others_ok and cc == "no" and pre["dtype"] is not None and err != "TypeError":
            return self._fail(f"append of {np.dtype(f.dtype)} data to a {pre['dtype']} storage did not raise TypeError",
                              {"error": err}, {"error": "TypeError"}, "dtype-rule", "StorageBase.append")
        if err is None:
            t = op["t"]
            if t is None:
                t = 0 if n == 0 else sp.log[-1][0] + 1
            ragged = n > 0 and sp.log[0][1].shape is not None and sp.log[0][1].shape != f.data.shape
            sp.log.append((t, Cell(vals=flat(f.data), shape=f.data.shape, dtype=f.data.dtype.str)))
            if sp.mode == "readonly":
                return self._fail("append on a readonly storage was accepted (documented: 'readonly' "
                                  "disables writing completely)", {"error": None, "times": list(st.times)},
                                  {"error": "an exception"}, "readonly-append-accepted", "StorageBase.append")
            if ragged:
                return self._fail("append accepted a field whose data shape differs from the stored frames",
                                  {"shape": list(f.data.shape)}, {"error": "ValueError"}, "ragged-append")
        return None

    def _template_member(self, field_id):
        """(is the storage a collection storage, index of the selected member or None)"""
        tmpl = self.pre["template"]
        if not is_collection(tmpl):
            return False, None
        return True, pick_member(member_layout(tmpl), field_id)

    def _after_store_op(self, op, err, obs, sp, st):
        w, S = self.w, self.specs
        k = op["op"]
        n = len(sp.log)
        if k == "setMode":
            sp.mode, sp.fresh = op["mode"], True
        elif k == "start":
            return self._start(op, err, sp, st)
        elif k == "append":
            return self._append(op, err, sp, st)
        elif k == "clear":
            if err is None:
                sp.log = []
                if op.get("shape") and st.shape is not None:
                    return self._fail("clear(clear_data_shape=True) kept the data shape", {"shape": list(st.shape)},
                                      {"shape": None}, "clear-keeps-shape")
            else:
                return self._fail("clear raised", {"error": err}, {"error": None}, "clear-raised")
        elif k == "end":
            if err is not None:
                return self._fail("end_writing raised", {"error": err}, {"error": None}, "end-raised")
        elif k == "read":
            i = op["i"]
            j = i + n if i < 0 else i
            self.branches.append("read:" + ("in-range" if 0 <= j < n else "out-of-range") + ("-negative" if i < 0 else ""))
            if not 0 <= j < n:
                if err != "IndexError":
                    return self._fail("out-of-range read did not raise IndexError", {"error": err},
                                      {"error": "IndexError"}, "read-range")
            else:
                if err is not None:
                    return self._fail("in-range read raised", {"error": err, "i": i}, {"error": None}, "read-raised")
                if not same_vals(obs["field"]["vals"], sp.log[j][1].get()):
                    return self._data_fail("storage[i] differs from the appended data",
                                           {"i": i, "data": obs["field"]["vals"]},
                                           {"data": sp.log[j][1].get()}, "read-data", st, j)
                if np.shares_memory(w.fields[-1].data, st.data[j]):
                    return self._fail("field read back shares memory with the stored frame", {"i": i},
                                      {"shares_memory": False}, "read-aliases-frame")
        elif k in ("items", "slice"):
            if k == "items":
                exp = [(float(t), tuple(c.get())) for t, c in sp.log]
                got = None if err else [(it["t"], tuple(it["vals"])) for it in obs["items"]]
                same = got is not None and len(got) == len(exp) and all(
                    same_vals([a[0]], [b[0]]) and same_vals(a[1], b[1]) for a, b in zip(got, exp))
            else:
                exp = [tuple(c.get()) for _t, c in sp.log[op["a"]:op["b"]:op.get("step")]]
                got = None if err else [tuple(it["vals"]) for it in obs["fields"]]
                same = got is not None and len(got) == len(exp) and all(same_vals(a, b) for a, b in zip(got, exp))
                self.branches.append("slice:" + ("stepped" if op.get("step") is not None else "plain") +
                                     ("-empty" if not exp else ""))
            if not same:
                return self._data_fail(f"{k} does not return the appended pairs in order", {"error": err, "got": got},
                                       {"expected": exp}, f"{k}-data", st, None)
        elif k == "extractTimeRange":
            return self._extract_time_range(op, err, sp, st)
        elif k == "extractField":
            coll, m = self._template_member(op["field"])
            self.branches.append("extractField:" + ("no-collection" if not coll else "bad-id" if m is None else
                                                    "label" if isinstance(op["field"], str) else
                                                    "negative" if op["field"] < 0 else "index"))
            if coll and m is not None and err is not None:
                return self._fail("extract_field refused a field id that selects a member of the stored collection",
                                  {"error": err, "field": op["field"]}, {"error": None}, "extract-field-rejected",
                                  "StorageBase.extract_field")
            if err is None:
                if m is None:
                    return self._fail("extract_field accepted a field id that selects no member",
                                      {"field": op["field"]}, {"error": "an exception"}, "extract-field-id")
                r = w.stores[-1]
                lay = member_layout(self.pre["template"])
                new = SpecStore("truncate_once")
                for kk, (t, c) in enumerate(sp.log):
                    vals = tuple(c.get())[lay[m][1]:lay[m][2]]
                    new.log.append((t, Cell(vals=vals, dtype=c.dtype)))
                    if kk < len(r.data) and np.shares_memory(r.data[kk], st.data[kk]):
                        return self._fail("extract_field result shares memory with the source (documented: copy)",
                                          {"frame": kk}, {"shares_memory": False}, "extract-field-aliases")
                S.append(new)
                want = op.get("label") or self.pre["template"][m].label
                if r._field is None or r._field.label != want or type(r._field) is not type(self.pre["template"][m]):
                    return self._fail("extract_field result has another template than the selected member",
                                      {"label": getattr(r._field, "label", None), "class": type(r._field).__name__},
                                      {"label": want, "class": type(self.pre["template"][m]).__name__},
                                      "extract-field-template")
        elif k in ("viewRead", "viewItems"):
            coll, m = self._template_member(op["field"])
            inrange = True
            if k == "viewRead":
                jj = op["k"] + n if op["k"] < 0 else op["k"]
                inrange = 0 <= jj < n
            self.branches.append(k + ":" + ("no-collection" if not coll else "bad-id" if m is None else
                                            "out-of-range" if not inrange else
                                            "label" if isinstance(op["field"], str) else
                                            "negative" if op["field"] < 0 else "index"))
            if coll and m is not None and inrange and err is not None:
                return self._fail("view_field refused a field id that selects a member of the stored collection",
                                  {"error": err, "field": op["field"]}, {"error": None}, "view-rejected",
                                  "StorageBase.view_field")
            if err is None:
                if m is None and (k == "viewRead" or n > 0):
                    return self._fail("view_field returned data for a field id that selects no member",
                                      {"field": op["field"]}, {"error": "an exception"}, "view-field-id")
                its = [(op["k"], obs["field"]["vals"])] if k == "viewRead" else list(enumerate(it["vals"] for it in obs["items"]))
                if k == "viewItems" and (len(its) != n or not same_vals([it["t"] for it in obs["items"]],
                                                                        [float(t) for t in sp.times()])):
                    return self._fail("view items have other times", {"times": [it["t"] for it in obs["items"]]},
                                      {"times": sp.times()}, "view-times")
                lay = member_layout(self.pre["template"])
                for kk, vals in its if m is not None else []:
                    jj = kk + n if kk < 0 else kk
                    exp = tuple(sp.log[jj][1].get())[lay[m][1]:lay[m][2]]
                    if not same_vals(vals, exp):
                        return self._data_fail("view_field differs from the member's part of the stored frame",
                                               {"k": kk, "data": vals}, {"data": exp}, "view-data", st, jj)
                if k == "viewRead" and np.shares_memory(w.fields[-1].data, st.data[jj]):
                    # (the docstring of view_field promises a view; the property demands that fields read back
                    # do not alias stored frames - the code returns copies)
                    return self._fail("field read through view_field shares memory with the stored frame",
                                      {"k": op["k"]}, {"shares_memory": False}, "view-aliases-frame")
        elif k == "apply":
            return self._apply(op, err, sp, st)
        elif k == "poke":
            if err is None:
                c = sp.log[op["i"]][1]
                if c.field is None:
                    # a direct write of the user to `storage.data[i]`: numpy stores the values in the frame's dtype
                    with np.errstate(all="ignore"):
                        c.vals = flat(np.array(op["vals"], dtype=float).astype(st.data[op["i"]].dtype))
        return None

    def _extract_time_range(self, op, err, sp, st):
        w, S = self.w, self.specs
        n = len(sp.log)
        ts = sp.times()
        a, b = (None, None) if op["kind"] == "all" else ((None, op["b"]) if op["kind"] == "upto" else (op["a"], op["b"]))
        srt = all(x <= y for x, y in zip(ts, ts[1:]))
        self.branches.append("extractTimeRange:" + op["kind"] + ("-empty" if not ts else "-sorted" if srt else "-unsorted"))
        if (a is None or b is None) and not ts:
            if err != "IndexError":
                return self._fail("extract_time_range with an open end on an empty storage", {"error": err},
                                  {"error": "IndexError"}, "etr-empty")
            return None
        if err is not None:
            return self._fail("extract_time_range raised", {"error": err}, {"error": None}, "etr-raised")
        a = ts[0] if a is None else a
        b = ts[-1] if b is None else b
        r = w.stores[-1]
        if srt:
            # sorted times: exactly the pairs with a <= t <= b, in order
            i, j = bisect.bisect_left(ts, a), bisect.bisect_right(ts, b)
            part = sp.log[i:j]
            filt = [e for e in sp.log if a <= e[0] <= b]
            if [id(e[1]) for e in filt] != [id(e[1]) for e in part]:
                return self._fail("bisect reference differs from the interval filter on sorted times",
                                  {"slice": [i, j]}, {}, "etr-reference")
        else:
            # unsorted times: the bracket found by a binary search is unspecified, but the result
            # must be a contiguous run of the stored pairs
            m = len(r.times)
            i = next((i for i in range(n - m + 1)
                      if same_vals([float(t) for t in ts[i:i + m]], [float(t) for t in r.times])
                      and all(same_vals(flat(r.data[x]), sp.log[i + x][1].get()) for x in range(m))
                      and all(np.shares_memory(r.data[x], st.data[i + x]) for x in range(m))), None)
            if i is None:
                i = next((i for i in range(n - m + 1)
                          if same_vals([float(t) for t in ts[i:i + m]], [float(t) for t in r.times])
                          and all(same_vals(flat(r.data[x]), sp.log[i + x][1].get()) for x in range(m))), None)
            if i is None:
                return self._fail("extract_time_range result is not a contiguous run of the stored pairs",
                                  {"times": list(r.times)}, {"stored_times": ts}, "etr-not-a-run")
            part = sp.log[i:i + m]
        new = SpecStore("truncate_once")
        for kk, (t, c) in enumerate(part):
            shared = kk < len(r.data) and i + kk < len(st.data) and np.shares_memory(r.data[kk], st.data[i + kk])
            new.log.append((t, c if shared else Cell(vals=tuple(c.get()), shape=c.shape, dtype=c.dtype)))
        S.append(new)
        return None

    def _apply(self, op, err, sp, st):
        S = self.specs
        pre, pre_out = self.pre, self.pre_out
        src = [(t, tuple(c.get())) for t, c in sp.log]
        out = op.get("out")
        tgt = None if out is None else S[out]
        func = op["func"]
        if src and tgt is not None and tgt.mode == "readonly" and err != "RuntimeError":
            return self._fail("copy/apply into a readonly storage did not raise RuntimeError", {"error": err},
                              {"error": "RuntimeError"}, "readonly-start-accepted", "StorageBase.apply")
        tmpl = pre["template"]
        lay = member_layout(tmpl) if is_collection(tmpl) else None
        # validity: an empty source never touches `out`; otherwise `out.start_writing(transformed)` and the
        # appends of the transformed fields must be valid
        if not src:
            valid = True
        elif tmpl is None:
            valid = False
        else:
            tf = tmpl[func["i"]] if func["kind"] == "member" and lay is not None and func["i"] < len(lay) else tmpl
            # the output storage reads with its own dtype or (a storage that `apply` creates, or one without
            # dtype) with the dtype of the first transformed field: every transformed field must fit into it
            dts = [np.dtype(st[kk].dtype) for kk in range(len(src))]
            odt = dts[0] if tgt is None or pre_out["dtype"] is None else pre_out["dtype"]
            cast_ok = all(np.can_cast(d, odt, casting="safe") for d in dts)
            if tgt is None:
                valid = cast_ok
            else:
                shape_ok = pre_out["shape"] is None or pre_out["shape"] == tuple(tf.data.shape)
                valid = pre_out["mode"] in WRITABLE and shape_ok and cast_ok
        self.branches.append("apply:" + func["kind"] + ("-empty" if not src else "") +
                             ("-new" if tgt is None else "-out-valid" if valid else "-out-invalid"))
        if valid and err is not None:
            return self._fail("copy/apply was refused although the source is readable and the output storage "
                              "(if any) accepts the transformed fields", {"error": err, "func": func, "out": out},
                              {"error": None}, "apply-rejected", "StorageBase.apply")
        newlog = [(t, Cell(vals=apply_vals(func, t, v, lay))) for t, v in src]
        if err is None:
            if tgt is None:
                tgt = SpecStore("truncate_once")
                S.append(tgt)
            if src:
                if tgt.truncates():
                    tgt.log = []
                tgt.fresh = False
                tgt.log = tgt.log + newlog
        elif src and tgt is not None and pre_out["mode"] in WRITABLE:
            # an `apply` that raises leaves `out` untouched (`out.start_writing` refused) or, when the session was
            # opened (truncation as documented), with the transformed fields appended before the one that was refused
            real = self.w.stores[out]
            rt = [float(t) for t in real.times]
            flipped = pre_out["mode"] == "truncate_once" and real.write_mode == "append"
            base = [] if tgt.truncates() else tgt.log
            cands = ([] if flipped else [None]) + [base + newlog[:j] for j in range(len(newlog))]
            for c in cands:
                if same_vals([float(t) for t, _c in (tgt.log if c is None else c)], rt):
                    if c is not None:
                        tgt.log, tgt.fresh = c, False
                    break
        return None
