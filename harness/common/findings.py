"""known_findings.json: committed, read-only at run time.

Entry: {"status": "known"|"fixed", "property": "C19", "key": {...}, "summary": "...",
        "commit": "<sha, fixed entries only>"}
A monitor failure matches a *known* entry only if every field of the entry's key equals the
same field of the failure's key.  `fixed` entries suppress nothing."""
import json
import os

from . import paths


def load():
    if not os.path.exists(paths.KNOWN_FINDINGS):
        return []
    return json.load(open(paths.KNOWN_FINDINGS))["findings"]


def match(pid, failure_key, findings):
    for f in findings:
        if f.get("status") != "known" or f.get("property") != pid:
            continue
        k = f.get("key", {})
        if k and all(failure_key.get(a) == b for a, b in k.items()):
            return f
    return None
