"""Exact complex rationals for the C06 monitors (closed forms evaluated without rounding)."""
from fractions import Fraction


class CQ:
    """Gaussian rational re + i*im with Fraction parts"""
    __slots__ = ("re", "im")

    def __init__(self, re=0, im=0):
        self.re = Fraction(re)
        self.im = Fraction(im)

    @staticmethod
    def of(x):
        if isinstance(x, CQ):
            return x
        if isinstance(x, complex):
            return CQ(Fraction(x.real), Fraction(x.imag))
        if isinstance(x, (list, tuple)):
            return CQ(Fraction(x[0]), Fraction(x[1]))
        return CQ(Fraction(x), 0)

    def __add__(self, o):
        o = CQ.of(o)
        return CQ(self.re + o.re, self.im + o.im)

    __radd__ = __add__

    def __sub__(self, o):
        o = CQ.of(o)
        return CQ(self.re - o.re, self.im - o.im)

    def __rsub__(self, o):
        return CQ.of(o) - self

    def __neg__(self):
        return CQ(-self.re, -self.im)

    def __mul__(self, o):
        o = CQ.of(o)
        return CQ(self.re * o.re - self.im * o.im, self.re * o.im + self.im * o.re)

    __rmul__ = __mul__

    def __truediv__(self, o):
        o = CQ.of(o)
        d = o.re * o.re + o.im * o.im
        return CQ((self.re * o.re + self.im * o.im) / d, (self.im * o.re - self.re * o.im) / d)

    def __rtruediv__(self, o):
        return CQ.of(o) / self

    def __pow__(self, n):
        assert isinstance(n, int) and n >= 0
        r, b = CQ(1), self
        while n:
            if n & 1:
                r = r * b
            b = b * b
            n >>= 1
        return r

    def __eq__(self, o):
        o = CQ.of(o)
        return self.re == o.re and self.im == o.im

    def __hash__(self):
        return hash((self.re, self.im))

    def is_zero(self):
        return self.re == 0 and self.im == 0

    def __complex__(self):
        return complex(float(self.re), float(self.im))

    def abs(self):
        return abs(complex(self))

    def __repr__(self):
        return f"CQ({self.re}, {self.im})"
