"""C07 - observation does not perturb a simulation; step and time accounting is exact.

Correspondence: real `eq.solve` / `Controller` runs (numpy and numba backends, all fixed-step
solvers) with a counting equation and recording trackers vs the Lean controller model
(`PdeVerif.Controller.runSpec`, handler `c07.run`): full event trace `(tracker, t, state)`,
`t_final`, `steps`, final state, stop reason, finalize calls, recorded frames, pending action times.
Dyadic parameters: exactly against the Rat model; decimal parameters: bit for bit against the Float
instantiation of the same definitions.  Monitors (on every real run): steps == N, t_final == t_end,
t_final == t_start + steps*dt, |t_final - t_end| < dt, final state == iterate of the one-step map,
identical final state / steps / t_final for every tracker set, initial state object untouched."""
import copy
import json

from harness.common import ctrl

PID = "C07"
LEVEL = "proof"
REQUIRED_THEOREMS = [
    "lattice_invariant", "no_overshoot", "progress", "run_terminates", "steps_eq_ceil",
    "whole_range_exact", "whole_range_exact_approx", "general_range", "state_is_iterate",
    "observation_independent", "initial_state_untouched", "readonly_reaches_final",
    "round_stable", "steps_stable_under_relative_error",
]
RULE = ("groups of runs sharing (dt, t_start, t_end, equation, solver, backend) and differing in the tracker "
        "set (the first set is empty; 0-4 trackers with constant / fixed / logarithmic / geometric / adversarial "
        "oracle schedules, intervals chosen as non-commensurate multiples of dt incl. x.5 ties and D < dt); "
        "dyadic numbers are compared exactly with the Rat model, decimal numbers bit-exactly with the Float model; "
        "a run is distinct by its full case record and non-trivial if it takes >= 2 steps and (unless it is the "
        "tracker-free reference run of its group) at least one tracker call happens")
ASSUMPTIONS = [
    "theorems are about exact field arithmetic; IEEE rounding enters only through round_stable / "
    "steps_stable_under_relative_error and through the bit-exact Float replay of the same model definitions",
    "GeometricInterrupts answers (libm log/pow) are replayed as an oracle schedule in Float mode and whenever the "
    "exact lattice point differs from the float answer; the theorems hold for every oracle",
    "the simulated state is one number per cell (counting equations u'=1, u'=t); the theorems are for an arbitrary "
    "state type and one-step map",
]
TRUSTED_EXTRA = ["IEEE double arithmetic of Lean's Float equals CPython/numpy/numba float64 for + - * / floor"]

MALFORMED = [
    ("dt=0", {"dt": 0.0}, "ZeroDivisionError"),
    ("interval=0", {"trackers": [{"kind": "callback", "sched": {"kind": "constant", "dt": 0.0, "t_start": None}, "stops": []}]},
     "ZeroDivisionError"),
    ("geometric factor<=0", {"trackers": [{"kind": "callback", "sched": {"kind": "geometric", "scale": 0.5, "factor": -2.0}, "stops": []}]},
     "ValueError"),
    ("t_range with 3 entries", {"t_range_raw": [0.0, 1.0, 2.0]}, "ValueError"),
    ("unknown solver", {"solver": "no-such-solver"}, "ValueError"),
]


# ------------------------------------------------------------------------------------------
def gen_group(rng, hist, exec_mode, max_steps):
    numbers = rng.choice(["Q", "F"])
    dt, t0, t1, N, delta = ctrl.gen_base(rng, numbers, hist, max_steps)
    eq = rng.choice(["one", "time"])
    solver = "euler" if rng.random() < 0.8 else rng.choice(ctrl.FIXED_SOLVERS[1:])
    u0 = rng.choice([0.0, 0.0, 1.0, ctrl.dyadic(rng, 0, 16, 3)]) if numbers == "Q" else rng.choice([0.0, 0.1, 1.0, -0.3, 2.5])
    base = {"numbers": numbers, "dt": dt, "t_start": t0, "t_end": t1, "u0": u0, "eq": eq, "solver": solver,
            "backend": "numpy" if exec_mode == "numpy" else "numba", "jit": exec_mode == "numba-J", "N": N, "delta": delta,
            "cells": rng.choice([1, 1, 1, 3])}
    if t0 == 0.0 and rng.random() < 0.3:
        base["t_range_scalar"] = True
    hist("numbers", "dyadic" if numbers == "Q" else "decimal")
    hist("solver", solver)
    hist("equation", eq)
    hist("exec", exec_mode)
    k = rng.choice([2, 3, 3, 4])
    cases = []
    for j in range(k):
        trs = [] if j == 0 else ctrl.gen_trackers(rng, numbers, dt, t0, t1, hist)
        if j > 0 and not trs:
            trs = ctrl.gen_trackers(rng, numbers, dt, t0, t1, hist, n=1)
        cases.append(dict(copy.deepcopy(base), trackers=trs))
    return cases


def exec_groups(ctx, groups_by_mode):
    """execute all cases; numpy in-process, numba in fresh interpreters (S: NUMBA_DISABLE_JIT=1, J: JIT)"""
    results = {}
    for mode, groups in groups_by_mode.items():
        flat = [c for g in groups for c in g]
        if not flat:
            continue
        if mode == "numpy":
            res = [ctrl.execute(c) for c in flat]
        else:
            env = {"NUMBA_DISABLE_JIT": "1"} if mode == "numba-S" else {"NUMBA_DISABLE_JIT": "0"}
            env["NUMBA_NUM_THREADS"] = "1"
            res = ctrl.execute_many(flat, env=env, procs=ctx.budget(8, 16))
        it = iter(res)
        results[mode] = [[next(it) for _ in g] for g in groups]
    return results


def check_run(ctx, case, real, batch, pending):
    """queue the model request(s) for one executed run"""
    mode = case["numbers"]
    if isinstance(real, str) or real.get("error"):
        ctx.disagree("correspondence", case, "run completes", real if isinstance(real, str) else real["error"],
                     "real run raised on a valid case")
        return
    orc = ctrl.needs_oracle(case, mode)
    i1 = batch.add("c07.run", ctrl.model_request(case, mode, ctrl.oracle_answers(real, orc)))
    i2 = None
    if mode == "F":
        # the same float inputs through the exact model: how often do exact and IEEE arithmetic part ways?
        allg = [i for i, tr in enumerate(case["trackers"]) if tr["sched"]["kind"] == "geometric"]
        i2 = batch.add("c07.run", ctrl.model_request(case, "Q", ctrl.oracle_answers(real, allg)))
    pending.append((case, real, i1, i2))


def resolve(ctx, pending, answers, batch2):
    """compare; geometric mismatches in exact mode are retried with the recorded answers as oracle"""
    retry = []
    for case, real, i1, i2 in pending:
        ctx.impl_traces += 1
        st, val = answers[i1]
        if st != "ok":
            ctx.disagree("correspondence", case, f"model error: {val}", None)
            continue
        d = ctrl.compare(case, real, val, case["numbers"], exact_state=case["solver"] == "euler")
        if d is not None and case["numbers"] == "F" and case.get("jit"):
            d = ctrl.compare(case, real, val, "F", close_times=True)
            if d is None:
                ctx.hist("numba-J", "differs from the Float model in the last bits (fused multiply-add)")
        if d is not None:
            geo = [i for i, tr in enumerate(case["trackers"]) if tr["sched"]["kind"] == "geometric"]
            if geo and case["numbers"] == "Q":
                j = batch2.add("c07.run", ctrl.model_request(case, "Q", ctrl.oracle_answers(real, geo)))
                retry.append((case, real, j, d))
            else:
                ctx.disagree("correspondence", case, d.get("model"), d.get("impl"), d["what"])
        if i2 is not None:
            st2, val2 = answers[i2]
            if st2 == "ok":
                same = (val2["steps"] == val["steps"] and len(val2["trace"]) == len(val["trace"])
                        and all(a[0] == b[0] and abs(float(ctrl.unq(a[1])) - ctrl.unfbits(b[1])) <= 1e-9 * max(1.0, abs(ctrl.unfbits(b[1])))
                                for a, b in zip(val2["trace"], val["trace"])))
                ctx.hist("exact-vs-float model", "same trace" if same else "parted at a rounding tie")
    return retry


def resolve_retry(ctx, retry, answers2):
    for case, real, j, d in retry:
        st, val = answers2[j]
        d2 = ctrl.compare(case, real, val, "Q", exact_state=case["solver"] == "euler") if st == "ok" else {"what": f"model error {val}"}
        geo_ok = all(geometric_answers_ok(case["trackers"][i]["sched"], real["sched_log"][i])
                     for i, tr in enumerate(case["trackers"]) if tr["sched"]["kind"] == "geometric")
        if d2 is None and geo_ok:
            ctx.hist("geometric", "float log/ceil tie: replayed as oracle")
        else:
            ctx.disagree("correspondence", case, d.get("model"), d.get("impl"), d["what"] + " (geometric; oracle replay: " + str(d2 and d2["what"]) + ")")


def geometric_answers_ok(s, log):
    """C09's monitor for the recorded geometric answers: on the lattice, not before the query, increasing"""
    import math
    prev = None
    for _k, t, a in log:
        if math.isinf(a) or a <= 0:
            return False
        k = math.log(a / s["scale"]) / math.log(s["factor"])
        if abs(k - round(k)) > 1e-7 * max(1.0, abs(k)) or a < t - 1e-12 * abs(t) or (prev is not None and not a > prev):
            return False
        prev = a
    return True


def run_monitors(ctx, group, reals):
    ok_runs = []
    for case, real in zip(group, reals):
        if isinstance(real, str) or real.get("error"):
            continue
        ctx.monitor_evals += 1
        for what, obs, exp in ctrl.monitor_accounting(case, real):
            ctx.monitor_fail("accounting", case, obs, exp, what, key={"what": what})
        ok_runs.append((case, real))
    if len(ok_runs) >= 2:
        ctx.monitor_evals += 1
        for what, obs, exp in ctrl.monitor_independence(ok_runs):
            ctx.monitor_fail("independence", {"group": [c for c, _ in ok_runs]}, obs, exp, what, key={"what": what})


def run(ctx):
    from harness.common.lean import LeanBatch
    rng = ctx.rng
    plan = {"numpy": ctx.budget(330, 4200), "numba-S": ctx.budget(60, 700), "numba-J": ctx.budget(12, 110)}
    groups = {m: [gen_group(rng, ctx.hist, m, 120 if m != "numba-J" else 40) for _ in range(n)] for m, n in plan.items()}
    results = exec_groups(ctx, groups)
    batch, pending = LeanBatch(ctx.workdir), []
    for mode in groups:
        for g, rs in zip(groups[mode], results.get(mode, [])):
            for case, real in zip(g, rs):
                nontrivial = (not isinstance(real, str) and not real.get("error") and real["steps"] >= 2
                              and (not case["trackers"] or len(real["trace"]) >= 1))
                ctx.count(case, nontrivial=nontrivial, leg=mode)
                if not isinstance(real, str) and not real.get("error"):
                    ctx.hist("steps", min(real["steps"], 128) // 16 * 16)
                    ctx.hist("handle calls", min(len(real["trace"]), 64) // 8 * 8)
                    for ty in real.get("t_types", []):
                        ctx.hist("type of t seen by trackers", ty)
                check_run(ctx, case, real, batch, pending)
            run_monitors(ctx, g, rs)
    answers = batch.run()
    batch2 = LeanBatch(ctx.workdir)
    retry = resolve(ctx, pending, answers, batch2)
    resolve_retry(ctx, retry, batch2.run())
    malformed(ctx)
    ctx.disagreements.sort(key=lambda d: len(json.dumps(d["case"], default=str)))


def malformed(ctx):
    """malformed stream: the expected outcome is an error class"""
    base = {"numbers": "Q", "dt": 0.25, "t_start": 0.0, "t_end": 1.0, "u0": 0.0, "eq": "one", "solver": "euler",
            "backend": "numpy", "N": 4, "trackers": []}
    for name, patch, err in MALFORMED:
        case = dict(copy.deepcopy(base), **copy.deepcopy(patch))
        real = ctrl.execute(case)
        ctx.count(dict(case, malformed=name), nontrivial=False, leg="malformed")
        ctx.hist("malformed", name)
        got = (real.get("error") or "no error").split(":")[0]
        if got != err:
            ctx.disagree("malformed", case, err, real.get("error") or "no error", f"malformed input `{name}`")


# ------------------------------------------------------------------------------------------
def search(ctx, broken):
    """failing-input search after a broken tie: the monitors on the disagreeing cases and on a
    larger fresh sample (numpy backend in-process)"""
    found = []

    def probe(group):
        reals = [ctrl.execute(c) for c in group]
        oks = [(c, r) for c, r in zip(group, reals) if not r.get("error")]
        for c, r in oks:
            for what, obs, exp in ctrl.monitor_accounting(c, r):
                found.append({"leg": "accounting", "case": c, "observed": obs, "expected": exp, "what": what,
                              "key": {"what": what}})
                return True
        if len(oks) >= 2:
            for what, obs, exp in ctrl.monitor_independence(oks):
                found.append({"leg": "independence", "case": {"group": [c for c, _ in oks]}, "observed": obs,
                              "expected": exp, "what": what, "key": {"what": what}})
                return True
        return False

    for d in broken:
        c = d.get("case") if isinstance(d, dict) else None
        if not c or "dt" not in c or c.get("backend") != "numpy":
            continue
        c = copy.deepcopy(c)
        for tr in c["trackers"]:
            tr["stops"] = []
        if probe([dict(c, trackers=[]), c]):
            return found
    rng = ctx.sub_rng("search")
    nohist = lambda *a, **k: None
    for _ in range(4000):
        if probe(gen_group(rng, nohist, "numpy", 150)):
            return found
    return found


def replay(ctx, rep):
    c = rep["case"]
    group = c["group"] if "group" in c else [c]
    reals = [ctrl.execute(x) for x in group]
    bad = []
    for x, r in zip(group, reals):
        if r.get("error"):
            bad.append(("run raised", r["error"], None))
            continue
        print("steps", r["steps"], "t_final", r["t_final"], "state", r["state"], "stop_reason", r["stop_reason"])
        bad += ctrl.monitor_accounting(x, r)
    oks = [(x, r) for x, r in zip(group, reals) if not r.get("error")]
    if len(oks) >= 2:
        bad += ctrl.monitor_independence(oks)
    for b in bad:
        print("monitor:", b)
    if not bad:
        print("monitor: holds")
    return not bad
