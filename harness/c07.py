"""C07 - observation does not perturb a simulation; step and time accounting is exact.

Correspondence: real `eq.solve` / `Controller` runs (numpy and numba backends, all fixed-step
solvers) with a counting equation and recording trackers vs the Lean controller model
(`PdeVerif.Controller.runSpec`, handler `c07.run`): full event trace `(tracker, t, state)`,
`t_final`, `steps`, final state, stop reason, finalize calls, recorded frames, pending action times.
Dyadic parameters: exactly against the Rat model; decimal parameters: bit for bit against the Float
instantiation of the same definitions.  Equations: u'=1, u'=t and the state-dependent u'=a*u,
u'=a*u+t, so that a solver whose own state (Adams-Bashforth's previous state, a fixed-point iterate)
is disturbed by a tracker interrupt ends in a different state.  Monitors (on every real run):
steps == N, t_final == t_end, t_final == t_start + steps*dt, |t_final - t_end| < dt, final state ==
iterate of the solver's one-step map (own Python copy of the five schemes), final state of every
tracked run bit-identical (autonomous) / identical to round-off with the tracker-free run of its
group, same steps / t_final, initial state object untouched."""
import copy
import json

from harness.common import ctrl
from harness.common.num import q, fbits

PID = "C07"
LEVEL = "proof"
EXTRA_PROP_FILES = ["C07Heap"]  # heap-level Controller.run (initial state object), runSpec-level statements
REQUIRED_THEOREMS = [
    "lattice_invariant", "no_overshoot", "progress", "run_terminates", "steps_eq_ceil",
    "whole_range_exact", "whole_range_exact_approx", "general_range", "state_is_iterate",
    "observation_independent", "observed_run_eq_unobserved", "solver_state_survives_interrupts",
    "initial_state_untouched_partial", "readonly_reaches_final", "whole_range_exact_readonly",
    "round_stable", "steps_stable_under_relative_error",
    # Props/C07Heap.lean
    "initial_state_untouched", "runHeap_refines", "runHeapAt_refines", "missing_copy_modifies_initial",
    "runSpec_whole_range_exact", "runSpec_observation_independent", "runSpec_any_range", "empty_range",
    "c07_statement_on_heap", "c07_any_range_on_heap",
    "autonomous_state_any_arithmetic", "autonomous_bit_identical_of_same_steps", "float_autonomous_state",
    "float_initial_state_untouched",
]
MIN_LEGS = {"heap": 100}
RULE = ("groups of runs sharing (dt, t_start, t_end, equation, solver, backend) and differing in the tracker "
        "set (the first set is empty: the tracker-free reference run; 0-4 trackers with constant / fixed / "
        "logarithmic / geometric / adversarial oracle schedules, intervals chosen as non-commensurate multiples of "
        "dt incl. x.5 ties and D < dt, two trackers handed the same interrupt object); equations u'=1, u'=t, u'=1 with a "
        "post-step hook that keeps a step counter in post_step_data, and the "
        "state-dependent u'=a*u, u'=a*u+t (|a*dt| <= 1/2) with all five fixed-step solvers on numpy, numba source "
        "and numba JIT; dyadic numbers are compared exactly with the Rat model (states of the state-dependent "
        "equations to 1e-10 and, for interpreted Euler, bit for bit with the Float model), decimal numbers "
        "bit-exactly with the Float model; "
        "a run is distinct by its full case record and non-trivial if it takes >= 2 steps and (unless it is the "
        "tracker-free reference run of its group) at least one tracker call happens")
ASSUMPTIONS = [
    "theorems are about exact field arithmetic; IEEE rounding enters only through round_stable / "
    "steps_stable_under_relative_error, through the bit-exact Float replay of the same model definitions, and through "
    "autonomous_state_any_arithmetic / float_autonomous_state (law-free arithmetic: state of an autonomous equation = "
    "steps-fold iterate, bit-identical for equal step counts - holds for the Float instantiation itself)",
    "GeometricInterrupts answers (libm log/pow) are replayed as an oracle schedule in Float mode and whenever the "
    "exact lattice point differs from the float answer; the theorems hold for every oracle",
    "the simulated state is one number per cell (u'=1, u'=t, u'=a*u, u'=a*u+t; all cells alike) plus the stepper's "
    "own persistent state; the theorems are for an arbitrary state type and one-step map",
    "the clause `initial state object left unmodified` is a theorem about the heap-level model of Controller.run "
    "(Model/ControllerHeap.lean: copy() allocates, the stepper writes in place; theorems initial_state_untouched, "
    "runHeap_refines); the heap model is executed by the handler c07.heap and compared with the real run "
    "(content of the caller's object after the run, aliasing of the returned object, and the whole trace) in the leg "
    "`heap`; other Python objects than field data (solver, trackers, info dictionaries) are not heap objects of the model",
    "post-step hooks are covered by one hook with persistent data (a step counter added to the state; the data is the "
    "second component of the model's solver state); trackers that read or write info[...] are neither modelled nor generated",
    "decimal parameters under JIT (fused multiply-add) have no bit-exact model reference: judged by the monitors, "
    "agreement with the Float model reported as a histogram",
]
TRUSTED_EXTRA = ["IEEE double arithmetic of Lean's Float equals CPython/numpy/numba float64 for + - * / floor"]

MALFORMED = [
    ("dt=0", {"dt": 0.0}, "ZeroDivisionError"),
    ("interval=0", {"trackers": [{"kind": "callback", "sched": {"kind": "constant", "dt": 0.0, "t_start": None}, "stops": []}]},
     "ZeroDivisionError"),
    ("geometric factor<=0", {"trackers": [{"kind": "callback", "sched": {"kind": "geometric", "scale": 0.5, "factor": -2.0}, "stops": []}]},
     "ValueError"),
    ("t_range with 3 entries", {"t_range_raw": [0.0, 1.0, 2.0]}, "ValueError"),
    ("unknown solver", {"solver": "no-such-solver"}, "ValueError"),
]


# ------------------------------------------------------------------------------------------
def gen_group(rng, hist, exec_mode, max_steps, force=None):
    """`force` = (solver, equation class): the compiled steppers of all five solvers are exercised with a
    state-dependent equation in every run of the check"""
    # under JIT only dyadic numbers have a bit-exact reference (see ctrl.resolve): favour them there
    numbers = rng.choice(["Q", "F"]) if exec_mode != "numba-J" else rng.choice(["Q", "Q", "Q", "F"])
    dt, t0, t1, N, delta = ctrl.gen_base(rng, numbers, hist, max_steps)
    eq, a, u0 = ctrl.gen_equation(rng, numbers, dt, t0, t1, hist, state_dependent=1.0 if force else 0.5)
    solver = "euler" if rng.random() < 0.55 else rng.choice(ctrl.FIXED_SOLVERS[1:])
    if force:
        solver = force
    base = {"numbers": numbers, "dt": dt, "t_start": t0, "t_end": t1, "u0": u0, "eq": eq, "a": a, "solver": solver,
            "backend": "numpy" if exec_mode == "numpy" else "numba", "jit": exec_mode == "numba-J", "N": N, "delta": delta,
            "cells": rng.choice([1, 1, 1, 3])}
    if t0 == 0.0 and rng.random() < 0.3:
        base["t_range_scalar"] = True
    # complex-valued equations / states take another branch of Controller.run's copy of the initial state
    kind = rng.choice(["real"] * 7 + ["complex-state", "complex-pde", "complex-both"])
    if kind in ("complex-state", "complex-both"):
        base["state_complex"] = True
    if kind in ("complex-pde", "complex-both"):
        base["pde_complex"] = True
    hist("dtype", kind)
    hist("numbers", "dyadic" if numbers == "Q" else "decimal")
    hist("solver", solver)
    hist("exec", exec_mode)
    hist("solver x equation x exec", f"{solver} / {'state-dependent' if eq in ctrl.STATE_DEPENDENT else 'counting'} / {exec_mode}")
    k = rng.choice([2, 3, 3, 4])
    cases = []
    for j in range(k):
        trs = [] if j == 0 else ctrl.gen_trackers(rng, numbers, dt, t0, t1, hist, shared_objects=True)
        if j > 0 and not trs:
            trs = ctrl.gen_trackers(rng, numbers, dt, t0, t1, hist, n=1)
        cases.append(dict(copy.deepcopy(base), trackers=trs))
    return cases


def run_monitors(ctx, group, reals):
    ok_runs = []
    for case, real in zip(group, reals):
        if isinstance(real, str) or real.get("error"):
            continue
        ctx.monitor_evals += 1
        for what, obs, exp in ctrl.monitor_accounting(case, real):
            ctx.monitor_fail("accounting", case, obs, exp, what, key={"what": what})
        ok_runs.append((case, real))
    if len(ok_runs) >= 2:
        ctx.monitor_evals += 1
        for what, obs, exp in ctrl.monitor_independence(ok_runs):
            ctx.monitor_fail("independence", {"group": [c for c, _ in ok_runs]}, obs, exp, what, key={"what": what})


def heap_request(ctx, hrng, case, real, batch, pending_heap):
    """queue the heap-level model (`c07.heap` = Controller.runHeapSpec) for one executed run: the caller's initial
    state is one object among 0-2 + 0-2 others; geometric schedules are replayed from the recorded answers"""
    mode = case["numbers"]
    if isinstance(real, str) or real.get("error"):
        return
    if mode == "F" and case.get("jit"):
        ctx.hist("heap leg", "skipped: decimal numbers under JIT (no bit-exact reference)")
        return
    allg = [i for i, tr in enumerate(case["trackers"]) if tr["sched"]["kind"] in ("geometric", "realtime")]
    if any(not real["sched_log"][i] for i in allg):
        ctx.hist("heap leg", "skipped: uninstrumented geometric schedule")
        return
    req = ctrl.model_request(case, mode, ctrl.oracle_answers(real, allg))
    enc = q if mode == "Q" else fbits
    others = lambda n: [enc(hrng.randrange(-16, 17) / 4.0) for _ in range(n)]
    req["heap"] = {"before": others(hrng.choice([0, 0, 1, 2])), "after": others(hrng.choice([0, 1, 2]))}
    pending_heap.append((case, real, batch.add("c07.heap", req), req["heap"]))


def resolve_heap(ctx, pending_heap, answers):
    """heap-level model vs real run: everything `c07.run` is compared on, plus the caller's object after the run
    (content, aliasing with the returned object) and the model's own frame (one allocation, no other write)"""
    for case, real, i, heap in pending_heap:
        ctx.count({"heap": heap, "case": case}, nontrivial=real["steps"] >= 1, leg="heap")
        ctx.impl_traces += 1
        st, val = answers[i]
        if st != "ok":
            ctx.disagree("heap", case, f"model error: {val}", None, "heap-level model")
            continue
        mode = case["numbers"]
        d = ctrl.compare(case, real, val, mode, exact_state=ctrl.bit_exact_state(case, mode))
        if d is not None:
            ctx.disagree("heap", case, d.get("model"), d.get("impl"), d["what"] + " (heap-level model c07.heap)")
            continue
        enc = q if mode == "Q" else fbits
        n, k = len(val["heap_before"]), val["caller"]
        model_obs = {"initial": val["initial"], "aliased": val["aliased"], "allocs": val["allocs"]}
        impl_obs = {"initial": enc(real["initial_after"]), "aliased": real["same_object"],
                    "uniform": real["initial_uniform"], "intact": real.get("initial_intact", True)}
        if (impl_obs["initial"] != val["initial"] or real["same_object"] != val["aliased"]
                or not real["initial_uniform"] or not real.get("initial_intact", True)):
            ctx.disagree("heap", case, model_obs, impl_obs,
                         "the caller's initial state object after Controller.run (heap-level model c07.heap)")
        # the model's own frame (what `initial_state_untouched` proves), evaluated: one allocation, the returned object
        # is the new one, every object that existed before has its old content
        if (k != len(heap["before"]) or n != len(heap["before"]) + 1 + len(heap["after"]) or val["allocs"] != 1
                or val["obj"] != n or val["aliased"] or val["heap_after"][:n] != val["heap_before"]
                or len(val["heap_after"]) != n + 1 or val["heap_after"][n] != val["state"]
                or val["heap_before"][k] != enc(case["u0"])):
            ctx.disagree("heap", case, {x: val[x] for x in ("caller", "obj", "allocs", "heap_before", "heap_after")},
                         None, "frame of the heap-level model: objects other than the new working copy changed")
        ctx.hist("heap leg", f"compared ({n - 1} bystander objects)")


def run(ctx):
    from harness.common.lean import LeanBatch
    rng = ctx.rng
    hrng = ctx.sub_rng("heap")
    heap_budget = [ctx.budget(500, 5000)]
    pending_heap = []
    plan = {"numpy": ctx.budget(500, 14000), "numba-S": ctx.budget(90, 2400), "numba-J": ctx.budget(14, 320)}
    groups = {m: [gen_group(rng, ctx.hist, m, 120 if m != "numba-J" else 40,
                            force=ctrl.FIXED_SOLVERS[i % 5] if (m == "numba-J" and i < ctx.budget(5, 40)) or
                            (m == "numba-S" and i < ctx.budget(10, 80)) else None)
                  for i in range(n)] for m, n in plan.items()}
    results = ctrl.exec_groups(ctx, groups)
    batch, pending = LeanBatch(ctx.workdir), []
    for mode in groups:
        for g, rs in zip(groups[mode], results.get(mode, [])):
            for case, real in zip(g, rs):
                nontrivial = (not isinstance(real, str) and not real.get("error") and real["steps"] >= 2
                              and (not case["trackers"] or len(real["trace"]) >= 1))
                ctx.count(case, nontrivial=nontrivial, leg=mode)
                if not isinstance(real, str) and not real.get("error"):
                    ctx.hist("steps", min(real["steps"], 128) // 16 * 16)
                    ctx.hist("handle calls", min(len(real["trace"]), 64) // 8 * 8)
                    for ty in real.get("t_types", []):
                        ctx.hist("type of t seen by trackers", ty)
                ctrl.check_run(ctx, case, real, batch, pending)
                if heap_budget[0] > 0 and (mode != "numpy" or hrng.random() < 0.4):
                    heap_budget[0] -= 1
                    heap_request(ctx, hrng, case, real, batch, pending_heap)
            run_monitors(ctx, g, rs)
    answers = batch.run()
    resolve_heap(ctx, pending_heap, answers)
    batch2 = LeanBatch(ctx.workdir)
    retry = ctrl.resolve(ctx, pending, answers, batch2)
    ctrl.resolve_retry(ctx, retry, batch2.run())
    malformed(ctx)
    ctx.disagreements.sort(key=lambda d: len(json.dumps(d["case"], default=str)))


def malformed(ctx):
    """malformed stream: the expected outcome is an error class"""
    base = {"numbers": "Q", "dt": 0.25, "t_start": 0.0, "t_end": 1.0, "u0": 0.0, "eq": "one", "solver": "euler",
            "backend": "numpy", "N": 4, "trackers": []}
    for name, patch, err in MALFORMED:
        case = dict(copy.deepcopy(base), **copy.deepcopy(patch))
        real = ctrl.execute(case)
        ctx.count(dict(case, malformed=name), nontrivial=False, leg="malformed")
        ctx.hist("malformed", name)
        got = (real.get("error") or "no error").split(":")[0]
        if got != err:
            ctx.disagree("malformed", case, err, real.get("error") or "no error", f"malformed input `{name}`")


# ------------------------------------------------------------------------------------------
def judge_group(group, reals, found=None):
    """the C07 monitors on one group of executed runs: list of monitor-failure dicts"""
    out = []
    oks = [(c, r) for c, r in zip(group, reals) if not (isinstance(r, str) or r.get("error"))]
    for c, r in oks:
        for what, obs, exp in ctrl.monitor_accounting(c, r):
            out.append({"leg": "accounting", "case": c, "observed": obs, "expected": exp, "what": what,
                        "key": {"what": what}})
    if len(oks) >= 2:
        for what, obs, exp in ctrl.monitor_independence(oks):
            out.append({"leg": "independence", "case": {"group": [c for c, _ in oks]}, "observed": obs,
                        "expected": exp, "what": what, "key": {"what": what}})
    return out


def search(ctx, broken):
    """failing-input search after a broken tie: the monitors on the disagreeing cases (each next to its
    tracker-free twin, in the execution mode it was generated for) and on a larger fresh sample - numpy
    in-process, and the numba modes in which a disagreement occurred"""
    groups, modes = [], set()
    for d in broken:
        c = d.get("case") if isinstance(d, dict) else None
        if not c or "dt" not in c:
            continue
        c = copy.deepcopy(c)
        for tr in c["trackers"]:
            tr["stops"] = []
        modes.add(ctrl.exec_mode(c))
        if len(groups) < 24:
            groups.append([dict(copy.deepcopy(c), trackers=[]), c])
    flat = [c for g in groups for c in g]
    it = iter(ctrl.execute_as_recorded(flat, procs=8))
    for g in groups:
        found = judge_group(g, [next(it) for _ in g])
        if found:
            return found[:1]
    rng = ctx.sub_rng("search")
    nohist = lambda *a, **k: None
    for _ in range(4000):
        g = gen_group(rng, nohist, "numpy", 150)
        found = judge_group(g, [ctrl.execute(c) for c in g])
        if found:
            return found[:1]
    for mode in sorted(modes - {"numpy"}):
        gs = [gen_group(rng, nohist, mode, 60, force=ctrl.FIXED_SOLVERS[i % 5] if i % 2 else None)
              for i in range(120 if mode == "numba-S" else 30)]
        it = iter(ctrl.execute_as_recorded([c for g in gs for c in g], procs=8))
        for g in gs:
            found = judge_group(g, [next(it) for _ in g])
            if found:
                return found[:1]
    return []


def replay(ctx, rep):
    """re-run the recorded case (a single run, or the group of an independence failure) on the real code in
    the recorded execution mode and judge the recorded symptom"""
    c = rep.get("case")
    if not isinstance(c, dict) or not ("group" in c or "dt" in c):
        print("this file records no case of C07 (nothing to re-run): cannot be replayed")
        return False
    group = c["group"] if "group" in c else [c]
    print("execution mode(s):", sorted({ctrl.exec_mode(x) for x in group}))
    reals = ctrl.execute_as_recorded(group)
    for x, r in zip(group, reals):
        if r.get("error"):
            print("run raised:", r["error"])
        else:
            print("steps", r["steps"], "t_final", r["t_final"], "state", repr(r["state"]), "stop_reason", r["stop_reason"],
                  "trackers", len(x["trackers"]))
    if any(r.get("error") for r in reals):
        return False
    bad = judge_group(group, reals)
    for b in bad:
        print("monitor:", b["what"], "| observed", b["observed"], "| expected", b["expected"])
    what = rep.get("what")
    same = [b for b in bad if what is None or b["what"] == what]
    if not bad:
        print("monitor: holds")
    elif not same:
        print(f"the recorded symptom `{what}` is gone; the failures above are different ones")
    return not same
