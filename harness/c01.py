"""C01 - differential operators are second-order consistent stencils.

Legs:
  matrix : for (grid class, shape, bounds, operator, options, backend route) the complete matrix of
           `grid.make_operator_no_bc(...)` is read off basis vectors of the padded input (all components)
           and compared entry by entry with the matrix of the Lean model `PdeVerif.Stencil` over exact
           rationals; `gradient_squared` (quadratic) on random integer arrays and their polarisation.
           Routes: numba kernels with source semantics (NUMBA_DISABLE_JIT=1; breadth), JIT-compiled
           kernels (subset), scipy backend (Cartesian operators it registers).
  bound  : the real kernels applied to cos / sin on grids with and without hole stay below the explicit uniform
           error bounds `C h^2` of Props/C01GapSmooth.lean in EVERY cell (incl. the cell adjoining the axis).
  order  : refinement study on smooth fields (N, 2N, 4N) against hand-derived continuum operators:
           the property monitor (observed order >= 1.8 central / 0.8 one-sided away from the axis).
           Runs on a fixed set of operators every time and on every operator whose matrix differs.
"""
import itertools
import math
from fractions import Fraction

import numpy as np

from harness.common.num import arr_far, q, unq
from harness.common.isolated import run_many

PID = "C01"
LEVEL = "proof"
REQUIRED_THEOREMS = [
    "withCorners_periodic_y", "stencil9_cubic_exact_isotropic", "stencil9_anisotropic_inconsistent",
    "sphTensorDivergence_conservative_first_order_at_origin", "sphTensorDoubleDivergence_conservative_inconsistent_at_origin",
    "d1_central_poly", "d1_forward_poly", "d1_backward_poly", "d2_poly", "d1_linear", "d2_linear",
    "cartLaplace_poly_2d", "polarLaplace_poly", "polarLaplace_even_uniform", "sphLaplace_plain_poly",
    "sphLaplace_conservative_poly", "sphLaplace_conservative_even_uniform", "cylLaplace_poly",
    "polarDivergence_poly", "sphDivergence_plain_poly", "sphDivergence_conservative_poly",
    "cylDivergence_poly", "polarVectorGradient_components", "cylVectorLaplace_poly",
    "polarTensorDivergence_poly", "sphTensorDivergence_plain_poly", "sphTensorDivergence_conservative_poly",
    "sphTensorDoubleDivergence_plain_poly", "sphTensorDoubleDivergence_conservative_poly",
    "sphVectorGradient_components", "cart_operators_are_building_blocks",
    "polarLaplace_remainder_bound", "sphLaplace_conservative_remainder_bound",
    "cart_d2_taylor", "cart_d1_taylor", "d2_fun_taylor", "d1_central_fun_taylor", "polar_laplace_taylor", "sph_laplace_plain_taylor",
    # all smooth fields, every operator and component (Props/C01Smooth.lean, Props/C01SmoothB.lean; tools/gen_c01_smooth.py)
    "d1_forward_fun_taylor", "d1_backward_fun_taylor", "d2_fun_bounded", "d1sq_central_fun_taylor",
    "d1sq_onesided_fun_taylor", "abs_lincomb_le", "d1sq_smooth", "d1sq_onesided_smooth",
    "polarLaplace_smooth", "polarGradient_smooth", "polarGradient_onesided_smooth", "polarDivergence_smooth",
    "polarVectorGradient_smooth", "polarTensorDivergence_smooth",
    "sphLaplace_plain_smooth", "sphLaplace_conservative_smooth", "sphGradient_smooth", "sphGradient_onesided_smooth",
    "sphDivergence_plain_smooth", "sphDivergence_plain_onesided_smooth", "sphDivergence_conservative_smooth",
    "sphDivergence_conservative_onesided_smooth", "sphVectorGradient_smooth", "sphVectorGradient_onesided_smooth",
    "sphTensorDivergence_plain_smooth", "sphTensorDivergence_conservative_smooth",
    "sphTensorDoubleDivergence_plain_smooth", "sphTensorDoubleDivergence_conservative_smooth",
    "cylLaplace_smooth", "cylGradient_smooth", "cylGradientSquared_smooth", "cylGradientSquared_onesided_smooth",
    "cylDivergence_smooth", "cylVectorGradient_smooth", "cylVectorLaplace_smooth", "cylTensorDivergence_smooth",
    "cartLaplace1_smooth", "cartLaplace2_smooth", "cartLaplace3_smooth", "cartGradient_smooth",
    "cartGradient_onesided_smooth", "cartGradientSquared_smooth", "cartGradientSquared_onesided_smooth",
    "cartDivergence2_smooth", "cartDivergence2_onesided_smooth", "cartDivergence3_smooth",
    "cartDivergence3_onesided_smooth", "cartVectorGradient_smooth", "cartVectorGradient_onesided_smooth",
    "cartVectorLaplace_smooth", "cartTensorDivergence_smooth", "cartTensorDivergence_onesided_smooth",
    "polarLaplace_uniform_away_from_axis", "sphLaplace_plain_uniform_away_from_axis",
    "sphLaplace_conservative_uniform_away_from_axis", "sphDivergence_conservative_uniform_away_from_axis",
    "cylLaplace_uniform_away_from_axis", "cylVectorLaplace_uniform_away_from_axis",
    "cylVectorLaplace_r_error_eq", "cylVectorLaplace_first_order_at_axis_smooth",
    "cylVectorLaplace_first_order_at_axis_sharp",
    # polynomial exactness with explicit remainders, Cartesian any number of axes / 3-d, cylindrical (Props/C01Gap.lean)
    "d2_line_poly", "d1_central_line_poly", "d1_forward_line_poly", "d1_backward_line_poly",
    "cartLaplace_poly_nd", "cartGradient_poly_nd", "cartGradient_onesided_poly_nd", "cartDivergence_poly_nd",
    "cartDivergence_forward_poly_nd", "cartDivergence_backward_poly_nd",
    "cartVectorGradient_poly_nd", "cartVectorLaplace_poly_nd", "cartTensorDivergence_poly_nd",
    "cartLaplace_poly_3d", "cartGradient_poly_3d", "cartDivergence_poly_3d", "cartVectorGradient_poly_3d",
    "cartVectorLaplace_poly_3d", "cartTensorDivergence_poly_3d", "cartLaplace_poly_3d_mixed",
    "cylGradient_poly", "cylVectorGradient_poly", "cylTensorDivergence_poly", "cylVectorLaplace_components_poly",
    "cylVectorLaplace_z_even_uniform", "cylLaplace_even_uniform", "cylVectorLaplace_phi_axis_first_order",
    # polar / spherical: remaining operators, uniform over all cells for fields regular at the axis / origin
    "radialGradient_poly", "radialDivergence_poly", "sphLaplace_plain_even_uniform",
    "sphDivergence_conservative_odd_uniform", "sphDivergence_conservative_odd_remainder_bound",
    "sphLaplace_conservative_even_remainder_bound", "polarTensorDivergence_quartic_poly",
    "sphTensorDivergence_plain_quartic_poly", "sphTensorDoubleDivergence_plain_regular_uniform",
    "sphTensorDoubleDivergence_conservative_regular_poly", "sphTensorDivergence_conservative_regular_poly",
    "polarLaplace_even_uniform_bound", "sphLaplace_plain_even_uniform_bound",
    "sphLaplace_conservative_even_uniform_bound", "sphDivergence_conservative_odd_uniform_bound",
    # ALL smooth fields regular at the axis / origin, every cell incl. the one at the axis (Props/C01GapSmooth.lean)
    "d1_central_fun_taylor_local", "even_iteratedDeriv3_bound", "even_d1_error_div_radius", "even_d1_error_bound",
    "even_d2_sub_d1_div_bound", "polarLaplace_even_smooth_uniform", "sphLaplace_plain_even_smooth_uniform",
    "sphLaplace_conservative_even_smooth_uniform", "sphTensorDoubleDivergence_plain_even_smooth_uniform",
    "cylLaplace_even_smooth_uniform", "d2_fun_bounded_local", "odd_d1_sub_div_bound",
    "sphDivergence_conservative_odd_smooth_uniform", "cylVectorLaplace_z_even_smooth_uniform",
    "centre_eq_lattice", "centre_ge_half", "sphLaplace_conservative_grid_uniform", "polarLaplace_grid_uniform",
    "sphDivergence_conservative_grid_uniform",
]
EXTRA_PROP_FILES = ["C01Taylor", "C01Smooth", "C01SmoothB", "C01Axis", "C01Nine", "C01Gap", "C01GapSmooth"]
RULE = ("matrix leg: seed-derived grids of the four stencil families (Cartesian 1-3 axes incl. UnitGrid, polar, "
        "spherical, cylindrical; 1-4 cells per axis, anisotropic dyadic spacings, with/without hole) x every registered "
        "operator x every documented option (central/forward/backward, conservative or not, central flag) x route; "
        "distinct by (grid, operator, options, route); all are non-trivial (non-zero matrices). order leg: smooth test "
        "fields on three refinements per operator. bound leg: the proved uniform error constants (fields regular at the "
        "axis, all cells) on cos/sin for seed-chosen N and r_min.")
ASSUMPTIONS = [
    "matrix entries compared at 1e-11 relative to the largest entry; zero pattern exactly",
    "theorems cover polynomial fields (all coefficients, sizes, positions) and all C2/C3/C4 real fields (Props/C01Smooth*.lean; uniformly over all cells for fields regular at the axis: Props/C01GapSmooth.lean); the refinement study is the model-free monitor of the same clause",
]
TRUSTED_EXTRA = ["numba code generation / scipy.ndimage are external: observed through the matrix comparison only"]

# operator -> (rank_in, rank_out)
RANKS = {"laplace": (0, 0), "gradient_squared": (0, 0), "gradient": (0, 1), "divergence": (1, 0),
         "vector_gradient": (1, 2), "vector_laplace": (1, 1), "tensor_divergence": (2, 1),
         "tensor_double_divergence": (2, 0)}
METHODS = ["central", "forward", "backward"]
OPS = {
    "cart": {"laplace": [{}], "gradient": [{"method": m} for m in METHODS],
             "gradient_squared": [{"central": True}, {"central": False}],
             "divergence": [{"method": m} for m in METHODS],
             "vector_gradient": [{"method": m} for m in METHODS], "vector_laplace": [{}],
             "tensor_divergence": [{"method": m} for m in METHODS]},
    "polar": {"laplace": [{}], "gradient": [{"method": m} for m in METHODS],
              "gradient_squared": [{"central": True}, {"central": False}], "divergence": [{}],
              "vector_gradient": [{}], "tensor_divergence": [{}]},
    "sph": {"laplace": [{"conservative": True}, {"conservative": False}],
            "gradient": [{"method": m} for m in METHODS],
            "gradient_squared": [{"central": True}, {"central": False}],
            "divergence": [{"conservative": c, "method": m, "safe": False} for c in (True, False) for m in METHODS],
            "vector_gradient": [{"method": m, "safe": False} for m in METHODS],
            "tensor_divergence": [{"conservative": c, "safe": False} for c in (True, False)],
            "tensor_double_divergence": [{"conservative": c, "safe": False} for c in (True, False)]},
    "cyl": {"laplace": [{}], "gradient": [{}], "gradient_squared": [{"central": True}, {"central": False}],
            "divergence": [{}], "vector_gradient": [{}], "vector_laplace": [{}], "tensor_divergence": [{}]},
}
# the documented 9-point variants of the 2-d Cartesian Laplacian (matrix leg of this check only; other checks that
# draw from OPS never see them)
NINE_POINT = [{"corner_weight": 0.5}, {"corner_weight": 1 / 3}, {"corner_weight": 0.0}]
SCIPY_OPS = ["laplace", "gradient", "divergence", "vector_gradient", "vector_laplace", "tensor_divergence"]
AXNAMES = {"cart": "xyz", "polar": "r", "sph": "r", "cyl": "rz"}
DIM = {"polar": 2, "sph": 3, "cyl": 3}


def make_grid(g):
    import pde

    cls, shape, lo, dx = g["cls"], g["shape"], g["lo"], g["dx"]
    hi = [l + d * n for l, d, n in zip(lo, dx, shape)]
    if cls == "cart":
        if g.get("unit"):
            return pde.UnitGrid(shape)
        return pde.CartesianGrid([[a, b] for a, b in zip(lo, hi)], shape, periodic=g.get("periodic", False))
    rad = (lo[0], hi[0]) if lo[0] else hi[0]
    if cls == "polar":
        return pde.PolarSymGrid(rad, shape[0])
    if cls == "sph":
        return pde.SphericalSymGrid(rad, shape[0])
    return pde.CylindricalSymGrid(rad, (lo[1], hi[1]), shape)


def gen_grid(rng, cls, nax=None, hole=None):
    nax = {"polar": 1, "sph": 1, "cyl": 2}.get(cls) or nax or rng.choice([1, 2, 2, 3])
    shape = [rng.randint(1, 4 if nax < 3 else 3) for _ in range(nax)]
    unit = cls == "cart" and rng.random() < 0.15
    dx = [1.0 if unit else rng.choice([0.25, 0.5, 1.0, 2.0, 0.125, 1.5, 0.75, 3.0]) for _ in range(nax)]
    lo = []
    for i in range(nax):
        if unit:
            lo.append(0.0)
        elif cls != "cart" and i == 0:
            lo.append(0.0 if hole is False else rng.choice([0.5, 1.0, 2.25, 7.0]) if hole else rng.choice([0.0, 0.0, 0.5, 1.0, 2.25, 7.0]))
        else:
            lo.append(rng.choice([0.0, -1.0, 0.5, -2.75, 3.0]))
    g = {"cls": cls, "shape": shape, "lo": lo, "dx": dx, "unit": unit}
    if cls == "cart" and not unit:
        # the operators without boundary conditions ignore periodicity, except the corner points of the 9-point Laplacian
        g["periodic"] = [rng.random() < 0.4 for _ in range(nax)]
    return g


def model_cfg(g, op, opts):
    cfg = {"cls": g["cls"], "shape": g["shape"], "lo": [q(x) for x in g["lo"]], "dx": [q(x) for x in g["dx"]], "op": op}
    for k in ("method", "central", "conservative", "axis"):
        if k in opts:
            cfg[k] = opts[k]
    if "corner_weight" in opts:
        cfg["corner_weight"] = q(opts["corner_weight"])
        cfg["periodic"] = [bool(x) for x in g.get("periodic", [False] * len(g["shape"]))]
    return cfg


def op_name(g, op, opts):
    """registered name and kwargs for the real code"""
    if op == "d_d":
        ax = AXNAMES[g["cls"]][opts["axis"]]
        m = opts["method"]
        return f"d_d{ax}" + ("" if m == "central" else "_" + m), {}
    if op == "d2_d2":
        ax = AXNAMES[g["cls"]][opts["axis"]]
        return f"d2_d{ax}2", {}
    return op, dict(opts)


def real_matrix(arg):
    """dense matrix (out_flat x in_flat) of the real operator, or values on given data for nonlinear ops"""
    import pde  # noqa

    g, op, opts, backend, data = arg
    grid = make_grid(g)
    name, kw = op_name(g, op, opts)
    rin, rout = RANKS.get(op, (0, 0))
    dim = grid.dim
    fshape = [dim] * rin + [n + 2 for n in grid.shape]
    oshape = [dim] * rout + list(grid.shape)
    try:
        f = grid.make_operator_no_bc(name, backend=backend, **kw)
        info = pde.get_backend(backend).get_operator_info(grid, name)
        ranks = (info.rank_in, info.rank_out)
    except Exception as e:  # noqa
        return {"error": f"{type(e).__name__}: {e}"}
    if data is not None:
        outs = []
        for d in data:
            out = np.full(oshape, np.nan)
            f(np.array(d, dtype=float).reshape(fshape), out)
            outs.append(out.ravel())
        return {"values": outs, "ranks": ranks}
    n_in = int(np.prod(fshape))
    n_out = int(np.prod(oshape))
    mat = np.zeros((n_out, n_in))
    for j in range(n_in):
        arr = np.zeros(n_in)
        arr[j] = 1.0
        out = np.full(oshape, np.nan)
        f(arr.reshape(fshape), out)
        mat[:, j] = out.ravel()
    # complex-linearity probe on one random vector
    rs = np.random.RandomState(n_in)
    x = rs.randint(-5, 6, n_in).astype(float)
    outc = np.full(oshape, np.nan, dtype=complex)
    try:
        fc = grid.make_operator_no_bc(name, backend=backend, dtype=complex, **kw)
        fc(((1 + 2j) * x).reshape(fshape), outc)
        cplx = float(np.abs(outc.ravel() - (1 + 2j) * (mat @ x)).max())
    except Exception as e:  # noqa
        cplx = f"{type(e).__name__}: {e}"
    return {"matrix": mat, "ranks": ranks, "complex_dev": cplx}


# ------------------------------------------------------------------------------------------
# refinement study (property monitor): smooth test fields with ALL components distinct and
# non-zero; continuum operators by symbolic differentiation (sympy) of the textbook formulas
def _continuum(cls, op, dim_cart, regular=False):
    """returns (input component functions, output component functions) as numpy callables of the
    grid coordinates; tensor components in the package's order.
    regular=True (curvilinear grids): fields that are smooth as fields on the physical space, i.e. regular at
    the axis r = 0 (scalars and axial components even in r, radial/azimuthal components odd, tensors
    delta_ij A + r^2 B_ij with mixed axial components odd) - the family for the `uniformly over all cells` clause"""
    import sympy as sp

    if cls == "cart":
        X = sp.symbols("x y z")[:dim_cart]
        d = dim_cart
    elif cls in ("polar", "sph"):
        X = (sp.Symbol("r"),)
        d = 2 if cls == "polar" else 3
    else:
        X = (sp.Symbol("r"), sp.Symbol("z"))
        d = 3
    ph = sum((0.7 - 0.2 * i) * x for i, x in enumerate(X))
    rin, rout = RANKS.get(op, (0, 0))

    def smooth(k):  # family of distinct smooth functions
        if regular and cls != "cart":  # even in r
            zz = X[1] if cls == "cyl" else 0
            return sp.cos(0.7 * X[0] ** 2 + 0.5 * zz + 0.4 * k) + (0.3 + 0.05 * k) * X[0] ** 2 + 0.1 * k * zz
        return sp.cos(ph + 0.4 * k) + (0.3 + 0.05 * k) * X[0] ** 2 + 0.1 * k * X[-1]

    r = X[0]
    D = lambda e, i: sp.diff(e, X[i]) if i < len(X) else 0  # noqa
    if rin == 0:
        f = smooth(0)
        fin = [f]
        if op == "laplace":
            val = sum(D(D(f, i), i) for i in range(len(X)))
            if cls in ("polar", "cyl"):
                val += D(f, 0) / r
            if cls == "sph":
                val += 2 * D(f, 0) / r
            fout = [val]
        elif op == "gradient":
            fout = [D(f, i) if i < len(X) else sp.Integer(0) for i in range(d)]
        elif op == "gradient_squared":
            fout = [sum(D(f, i) ** 2 for i in range(len(X)))]
        else:
            raise KeyError(op)
    elif rin == 1:
        v = [smooth(k + 1) for k in range(d)]
        if regular and cls != "cart":  # radial and azimuthal components odd in r, axial component even
            v = [v[k] if (cls == "cyl" and k == 1) else r * v[k] for k in range(d)]
        if cls == "sph":
            v = [v[0], sp.Integer(0), sp.Integer(0)]
        fin = v
        if cls == "cart":
            grad = [[D(v[i], j) for j in range(d)] for i in range(d)]
            div = sum(D(v[i], i) for i in range(d))
            vlap = [sum(D(D(v[i], j), j) for j in range(d)) for i in range(d)]
        elif cls == "polar":  # components (r, phi)
            grad = [[D(v[0], 0), -v[1] / r], [D(v[1], 0), v[0] / r]]
            div = D(v[0], 0) + v[0] / r
            vlap = None
        elif cls == "sph":
            grad = [[D(v[0], 0), 0, 0], [0, v[0] / r, 0], [0, 0, v[0] / r]]
            div = D(v[0], 0) + 2 * v[0] / r
            vlap = None
        else:  # cylindrical, components (r, z, phi)
            grad = [[D(v[0], 0), D(v[0], 1), -v[2] / r], [D(v[1], 0), D(v[1], 1), 0], [D(v[2], 0), D(v[2], 1), v[0] / r]]
            div = D(v[0], 0) + v[0] / r + D(v[1], 1)
            lap_s = lambda g: D(D(g, 0), 0) + D(g, 0) / r + D(D(g, 1), 1)  # noqa
            vlap = [lap_s(v[0]) - v[0] / r ** 2, lap_s(v[1]), lap_s(v[2]) - v[2] / r ** 2]
        if op == "divergence":
            fout = [div]
        elif op == "vector_gradient":
            fout = [sp.sympify(grad[i][j]) for i in range(d) for j in range(d)]
        elif op == "vector_laplace":
            fout = vlap
        else:
            raise KeyError(op)
    else:
        T = [[smooth(3 * i + j + 1) for j in range(d)] for i in range(d)]
        if regular and cls != "cart":
            A = smooth(11)
            ax = 1 if cls == "cyl" else None  # index of the axial component
            for i in range(d):
                for j in range(d):
                    if i == ax and j == ax:
                        continue  # T_zz even
                    if i == ax or j == ax:
                        T[i][j] = r * T[i][j]  # mixed axial components odd
                    else:
                        T[i][j] = (A if i == j else 0) + r ** 2 * T[i][j]
        if cls == "sph":
            # admissible symmetric-grid tensors: T_rθ = T_θr = T_rφ = T_φr = 0, T_θθ = T_φφ, T_φθ = -T_θφ
            q, w = smooth(5), smooth(7)
            if regular:
                q, w = smooth(11) + r ** 2 * q, r ** 2 * w
            T = [[T[0][0], 0, 0], [0, q, w], [0, -w, q]]
        fin = [sp.sympify(T[i][j]) for i in range(d) for j in range(d)]
        if op == "tensor_divergence":
            if cls == "cart":
                fout = [sum(D(T[i][j], j) for j in range(d)) for i in range(d)]
            elif cls == "polar":
                fout = [D(T[0][0], 0) + (T[0][0] - T[1][1]) / r, D(T[1][0], 0) + (T[0][1] + T[1][0]) / r]
            elif cls == "sph":
                fout = [D(T[0][0], 0) + 2 * (T[0][0] - T[2][2]) / r, sp.Integer(0), sp.Integer(0)]
            else:
                fout = [D(T[0][0], 0) + D(T[0][1], 1) + (T[0][0] - T[2][2]) / r,
                        D(T[1][0], 0) + D(T[1][1], 1) + T[1][0] / r,
                        D(T[2][0], 0) + D(T[2][1], 1) + (T[0][2] + T[2][0]) / r]
        elif op == "tensor_double_divergence":
            a_, q_ = T[0][0], T[2][2]
            fout = [D(D(a_, 0), 0) + 4 * D(a_, 0) / r + 2 * a_ / r ** 2 - 2 * D(q_, 0) / r - 2 * q_ / r ** 2]
        else:
            raise KeyError(op)
    lam = lambda e: sp.lambdify(X, sp.sympify(e), "numpy")  # noqa
    return [lam(e) for e in fin], [lam(e) for e in fout], len(X)


def order_case(arg):
    """returns list of (N, max error away from axis, max error over all cells)"""
    import pde  # noqa

    cls, op, opts, lo = arg[:4]
    dim_cart = arg[4] if len(arg) > 4 else 1
    regular = bool(arg[5]) if len(arg) > 5 else False
    res = []
    Ns = (8, 16, 32) if (cls == "cart" and dim_cart == 3) else ((16, 32, 64) if (cls == "cyl" or (cls == "cart" and dim_cart == 2)) else (32, 64, 128))
    for N in Ns:
        if cls == "cart" and "corner_weight" in opts:
            # the 9-point stencils are documented for isotropic spacings only (the code warns otherwise)
            grid = pde.CartesianGrid([[0.3, 2.3], [-1.0, 0.0]], [N, N // 2])
        elif cls == "cart":
            grid = pde.CartesianGrid([[0.3, 2.3], [-1.0, 0.5], [0.2, 1.2]][:dim_cart], [N, max(2, N // 2), max(2, N // 2)][:dim_cart])
        elif cls == "polar":
            grid = pde.PolarSymGrid((lo, lo + 2.0) if lo else 2.0, N)
        elif cls == "sph":
            grid = pde.SphericalSymGrid((lo, lo + 2.0) if lo else 2.0, N)
        else:
            grid = pde.CylindricalSymGrid((lo, lo + 2.0) if lo else 2.0, (0.0, 1.0), [N, max(2, N // 2)])
        name, kw = op_name({"cls": cls}, op, opts)
        f = grid.make_operator_no_bc(name, backend="numba", **kw)
        dim = grid.dim
        rin, rout = RANKS.get(op, (0, 0))
        pads = [grid.axes_bounds[a][0] + (np.arange(n + 2) - 0.5) * grid.discretization[a] for a, n in enumerate(grid.shape)]
        P = np.meshgrid(*pads, indexing="ij")
        V = [p[tuple([slice(1, -1)] * len(pads))] for p in P]
        if op in ("d_d", "d2_d2"):
            fin_f, _, _ = _continuum(cls, "laplace", dim_cart)
            import sympy as sp
            X = sp.symbols("x y z")[:dim_cart] if cls == "cart" else ((sp.Symbol("r"),) if cls in ("polar", "sph") else (sp.Symbol("r"), sp.Symbol("z")))
            ph = sum((0.7 - 0.2 * i) * x for i, x in enumerate(X))
            fe = sp.cos(ph) + 0.3 * X[0] ** 2
            de = sp.diff(fe, X[opts["axis"]], 1 if op == "d_d" else 2)
            fin_f, fout_f = [sp.lambdify(X, fe, "numpy")], [sp.lambdify(X, de, "numpy")]
        else:
            fin_f, fout_f, _ = _continuum(cls, op, dim_cart, regular)
        fshape = [dim] * rin + list(P[0].shape)
        oshape = [dim] * rout + list(V[0].shape)
        arr = np.zeros(fshape).reshape([-1] + list(P[0].shape))
        for c_, fn in enumerate(fin_f):
            arr[c_] = fn(*P)
        arr = arr.reshape(fshape)
        exact = np.zeros(oshape).reshape([-1] + list(V[0].shape))
        for c_, fn in enumerate(fout_f):
            exact[c_] = fn(*V)
        exact = exact.reshape(oshape)
        out = np.full(oshape, np.nan)
        f(arr, out)
        err = np.abs(out - exact)
        # "a fixed distance away from the coordinate singularity r = 0": distance from the AXIS (an inner boundary
        # r_inner > 0 is not a singularity - every cell of a grid with a hole counts)
        away = V[0] >= 0.5 if cls != "cart" else np.ones(V[0].shape, dtype=bool)
        with np.errstate(invalid="ignore"):
            e_away = err[..., away]
            res.append((N, (float("nan") if not np.isfinite(e_away).all() else float(e_away.max())) if away.any() else 0.0,
                        float("nan") if not np.isfinite(err).all() else float(err.max())))
    return res


# ------------------------------------------------------------------------------------------
# bound leg: the explicit constants of the `*_grid_uniform` / `*_even_smooth_uniform` theorems (Props/C01GapSmooth.lean:
# error <= C * M * h^2 in EVERY cell incl. the one adjoining the axis, fields regular at the axis) checked on the real
# kernels with cos / sin (all derivative bounds M = 1)
BOUND_CASES = [
    # (class, operator, options, C_r (h^2 coefficient), C_z (k^2 coefficient), theorem)
    ("polar", "laplace", {}, 7 / 12, 0.0, "polarLaplace_grid_uniform"),
    ("sph", "laplace", {"conservative": False}, 13 / 12, 0.0, "sphLaplace_plain_even_smooth_uniform"),
    ("sph", "laplace", {"conservative": True}, 17 / 12, 0.0, "sphLaplace_conservative_grid_uniform"),
    ("sph", "divergence", {"conservative": True, "method": "central", "safe": False}, 11 / 6, 0.0,
     "sphDivergence_conservative_grid_uniform"),
    ("cyl", "laplace", {}, 7 / 12, 1 / 12, "cylLaplace_even_smooth_uniform"),
    ("cyl", "vector_laplace", {}, 7 / 12, 1 / 12, "cylVectorLaplace_z_even_smooth_uniform"),
]


def bound_case(arg):
    """max over ALL cells of error / (C_r h^2 + C_z k^2) for the real operator on cos / sin"""
    import pde  # noqa

    cls, op, opts, c_r, c_z, _thm, N, rmin = arg
    rad = (rmin, rmin + 2.0) if rmin else 2.0
    if cls == "polar":
        grid = pde.PolarSymGrid(rad, N)
    elif cls == "sph":
        grid = pde.SphericalSymGrid(rad, N)
    else:
        grid = pde.CylindricalSymGrid(rad, (-0.5, 1.0), [N, max(2, N // 2 + 1)])
    f = grid.make_operator_no_bc(op, backend="numba", **opts)
    pads = [grid.axes_bounds[a][0] + (np.arange(n + 2) - 0.5) * grid.discretization[a] for a, n in enumerate(grid.shape)]
    P = np.meshgrid(*pads, indexing="ij")
    V = [p[tuple([slice(1, -1)] * len(pads))] for p in P]
    h = grid.discretization[0]
    k = grid.discretization[1] if cls == "cyl" else 0.0
    lap_r = lambda r: -np.cos(r) - np.sin(r) / r  # noqa  (cos)'' + (cos)'/r
    if op == "laplace" and cls == "polar":
        arr, exact = np.cos(P[0]), lap_r(V[0])
    elif op == "laplace" and cls == "sph":
        arr, exact = np.cos(P[0]), -np.cos(V[0]) - 2 * np.sin(V[0]) / V[0]
    elif op == "divergence":
        arr = np.zeros([3] + list(P[0].shape))
        arr[0] = np.sin(P[0])
        exact = np.cos(V[0]) + 2 * np.sin(V[0]) / V[0]
    elif op == "laplace":
        arr, exact = np.cos(P[0]) * np.cos(P[1]), lap_r(V[0]) * np.cos(V[1]) - np.cos(V[0]) * np.cos(V[1])
    else:  # cylindrical vector Laplacian, axial component (index 1 of (r, z, phi))
        arr = np.zeros([3] + list(P[0].shape))
        arr[1] = np.cos(P[0]) * np.cos(P[1])
        exact = lap_r(V[0]) * np.cos(V[1]) - np.cos(V[0]) * np.cos(V[1])
    rin, rout = RANKS[op]
    out = np.full([3] * rout + list(V[0].shape), np.nan)
    f(arr, out)
    got = out[1] if op == "vector_laplace" else out
    err = float(np.abs(got - exact).max())
    return {"err": err, "bound": c_r * h * h + c_z * k * k, "h": float(h), "k": float(k)}


ORDER_CASES = []
for _cls, _ops in OPS.items():
    for _op, _optl in _ops.items():
        for _o in _optl:
            if _cls == "cart":
                for _d in (1, 2, 3):
                    if "corner_weight" in _o:
                        # the 9-point stencils are outside the order clause (the quantifier names the default 5-point
                        # Laplacian): their interpolated corner points are first-order accurate only, which costs the
                        # four corner cells of a non-periodic domain their consistency; the matrix leg and C05 cover them
                        continue
                    ORDER_CASES.append((_cls, _op, _o, 0.0, _d))
            else:
                for _lo in (0.0, 1.0):
                    ORDER_CASES.append((_cls, _op, _o, _lo))
for _cls in ("cart", "polar", "sph", "cyl"):
    for _ax in range(len(AXNAMES[_cls]) if _cls != "cart" else 1):
        for _m in METHODS:
            ORDER_CASES.append((_cls, "d_d", {"axis": _ax, "method": _m}, 1.0 if _cls != "cart" else 0.0))
        ORDER_CASES.append((_cls, "d2_d2", {"axis": _ax}, 1.0 if _cls != "cart" else 0.0))


# the `uniformly over all cells` clause: central variants on grids that contain the axis, axis-regular fields,
# error over ALL cells; the cylindrical vector Laplacian is the documented first-order exception
UNIFORM_CASES = []
for _cls, _ops in OPS.items():
    if _cls == "cart":
        continue
    for _op, _optl in _ops.items():
        for _o in _optl:
            if _o.get("method", "central") == "central" and not (_cls == "cyl" and _op == "vector_laplace"):
                UNIFORM_CASES.append((_cls, _op, _o, 0.0, 1, True))


def expected_order(op, opts):
    if opts.get("method", "central") != "central":
        return 1.0
    return 2.0


def check_order(ctx, case, res, leg="order"):
    cls, op, opts, lo = case[:4]
    uniform = len(case) > 5 and bool(case[5])
    exp = expected_order(op, opts)
    errs = [(e_all if uniform else e) for _, e, e_all in res]
    obs = []
    finite = all(math.isfinite(e) for e in errs)
    for a, b in zip(errs, errs[1:]):
        if finite and b > 1e-12 and a > 1e-12:
            obs.append(math.log2(a / b))
    ctx.monitor_evals += 1
    # pre-asymptotic pairs may be lower; the finest pair decides, coarser pairs must not be far off
    ok = finite and (not obs or (obs[-1] >= exp - 0.25 and all(o >= exp - 0.6 for o in obs))) \
        and (errs[-1] < ((0.1 if uniform else 0.02) if exp == 2.0 else 0.2))  # (the axis-regular family has larger derivatives)
    ctx.hist("observed-order" + ("-uniform" if uniform else ""), f"{cls}:{op}:{round(min(obs), 1) if obs else 'exact'}")
    if not ok:
        ctx.monitor_fail(leg, {"cls": cls, "op": op, "opts": opts, "r_min": lo, "dim_cart": case[4] if len(case) > 4 else 1,
                               "uniform": uniform,
                               "field": ("axis-regular family (even/odd in r), error over ALL cells" if uniform else
                                         "components cos(phase + 0.4 k) + (0.3 + 0.05 k) x0^2 + 0.1 k x_last, k = component number")
                               + " (see harness/c01.py:_continuum)"},
                         {"errors": errs, "observed_orders": obs}, f"order >= {exp - 0.25}",
                         f"{cls} {op}: error does not shrink at the documented rate"
                         + (" uniformly over all cells" if uniform else ""),
                         key={"cls": cls, "op": op, "uniform": str(uniform), "conservative": str(opts.get("conservative", "-")),
                              # observed order of the finest pair, rounded: a different behaviour is a different finding
                              "order": str(round(obs[-1])) if obs else "none"})
    return ok


# ------------------------------------------------------------------------------------------
def run(ctx):
    from harness.common.lean import LeanBatch

    rng = ctx.rng
    thorough = ctx.tier == "thorough"
    n_grids = ctx.budget(2, 8)
    batch = LeanBatch(ctx.workdir)
    jobs = []  # (grid, op, opts, model request index, data)
    for cls in ("cart", "polar", "sph", "cyl"):
        # stratified: every run has 1-, 2- and 3-axis Cartesian grids (separate kernels) and, per curvilinear class,
        # a grid containing the axis and a grid with a hole; every operator/option meets every grid
        if cls == "cart":
            grids = [gen_grid(rng, cls, nax=k) for k in (1, 2, 3)] + [gen_grid(rng, cls) for _ in range(n_grids * 2 - 3)]
        else:
            grids = [gen_grid(rng, cls, hole=False), gen_grid(rng, cls, hole=True)] + [gen_grid(rng, cls) for _ in range(n_grids - 2)]
        for op, optl in OPS[cls].items():
            for opts in optl + (NINE_POINT if (cls, op) == ("cart", "laplace") else []):
                for g in grids:
                    if "corner_weight" in opts and len(g["shape"]) != 2:
                        continue  # documented for the 2-d Laplacian only
                    rin = RANKS[op][0]
                    dim = DIM.get(cls, len(g["shape"]))
                    n_in = dim ** rin * int(np.prod([n + 2 for n in g["shape"]]))
                    if n_in > 1300:
                        ctx.hist("matrix-skipped", "input larger than 1300 entries")
                        continue
                    if op == "gradient_squared":
                        data = [[rng.randint(-6, 6) for _ in range(n_in)] for _ in range(3)]
                        data.append([a + b for a, b in zip(data[0], data[1])])  # polarisation
                        idx = [batch.add("c01.apply", {"cfg": model_cfg(g, op, opts), "data": [q(x) for x in d]}) for d in data]
                    else:
                        data = None
                        idx = batch.add("c01.matrix", {"cfg": model_cfg(g, op, opts)})
                    jobs.append((g, op, opts, idx, data))
        # single-axis derivatives
        for g in rng.sample(grids, min(len(grids), 2)):
            for ax in range(len(g["shape"])):
                for m in METHODS:
                    o = {"axis": ax, "method": m}
                    jobs.append((g, "d_d", o, batch.add("c01.matrix", {"cfg": model_cfg(g, "d_d", o)}), None))
                o = {"axis": ax}
                jobs.append((g, "d2_d2", o, batch.add("c01.matrix", {"cfg": model_cfg(g, "d2_d2", o)}), None))
    answers = batch.run()

    # real code ---------------------------------------------------------------------------------
    args_s = [(g, op, opts, "numba", data) for g, op, opts, _, data in jobs]
    res_s = run_many("harness.c01", "real_matrix", args_s, env={"NUMBA_DISABLE_JIT": "1"}, procs=16)
    n_jit = ctx.budget(40, 400)
    jit_ids = sorted(rng.sample(range(len(jobs)), min(n_jit, len(jobs))))
    res_j = dict(zip(jit_ids, run_many("harness.c01", "real_matrix", [args_s[i] for i in jit_ids],
                                       env={"NUMBA_DISABLE_JIT": "0"}, procs=16)))
    scipy_ids = [i for i, (g, op, opts, _, data) in enumerate(jobs)
                 if g["cls"] == "cart" and op in SCIPY_OPS and opts.get("method", "central") == "central"
                 and "corner_weight" not in opts]  # (the scipy operator has no corner_weight option)
    res_sp = dict(zip(scipy_ids, run_many("harness.c01", "real_matrix",
                                          [(jobs[i][0], jobs[i][1], jobs[i][2], "scipy", jobs[i][4]) for i in scipy_ids],
                                          env={"NUMBA_DISABLE_JIT": "1"}, procs=16)))

    differing_ops = set()
    for ji, (g, op, opts, idx, data) in enumerate(jobs):
        case = {"grid": g, "op": op, "opts": opts}
        ctx.hist("operator", f"{g['cls']}:{op}")
        ctx.hist("grid", f"{g['cls']}/{'x'.join(map(str, g['shape']))}/{'hole' if g['cls'] != 'cart' and g['lo'][0] else 'full'}")
        routes = {"numba(source)": res_s[ji]}
        if ji in res_j:
            routes["numba(jit)"] = res_j[ji]
        if ji in res_sp:
            routes["scipy"] = res_sp[ji]
        for rname, rr in routes.items():
            ckey = dict(case, route=rname)
            ctx.count(ckey, nontrivial=True, leg="matrix")
            ctx.hist("route", rname)
            ctx.impl_traces += 1
            if (rname == "scipy" and not isinstance(rr, str) and "error" in rr and "not uniform" in rr["error"]
                    and op in ("laplace", "vector_laplace") and len(set(g["dx"])) > 1):
                ctx.hist("route", "scipy-refuses-anisotropic-laplace")
                continue
            if isinstance(rr, str) or "error" in rr:
                ctx.disagree("matrix:" + rname, ckey, "operator exists", rr if isinstance(rr, str) else rr["error"],
                             "real code failed to build/apply the operator")
                differing_ops.add((g["cls"], op))
                continue
            if op in RANKS and tuple(rr["ranks"]) != RANKS[op]:
                ctx.disagree("ranks", ckey, RANKS[op], rr["ranks"], "registered tensor ranks differ")
            if data is not None:
                for d, i_m, vals in zip(data, idx, rr["values"]):
                    st, val = answers[i_m]
                    if st != "ok":
                        ctx.disagree("matrix:" + rname, ckey, f"model error {val}", None)
                        continue
                    mv = np.array([float(unq(x)) for x in val])
                    sc = max(1.0, np.abs(mv).max())
                    if arr_far(mv, vals, 1e-11 * sc):
                        ctx.disagree("matrix:" + rname, dict(ckey, data=d), mv.tolist(), np.asarray(vals).tolist(),
                                     "gradient_squared values differ")
                        differing_ops.add((g["cls"], op))
                continue
            st, val = answers[idx]
            if st != "ok":
                ctx.disagree("matrix:" + rname, ckey, f"model error {val}", None)
                continue
            mat = rr["matrix"]
            model = np.zeros_like(mat)
            for o, i_, v in val:
                model[o, i_] = float(unq(v))
            sc = max(1e-300, np.abs(model).max())
            with np.errstate(invalid="ignore"):
                diff = np.abs(model - mat)
                # an output cell the kernel never writes stays NaN (the output is pre-filled with NaN): non-finite
                # entries differ from every model entry
                bad = np.argwhere(~np.isfinite(mat) | (diff > 1e-11 * sc) | ((model == 0) != (mat == 0)) & (diff > 0))
            if len(bad):
                o, i_ = (int(x) for x in bad[0])
                ctx.disagree("matrix:" + rname, dict(ckey, basis_vector=i_, output_cell=o), float(model[o, i_]), float(mat[o, i_]),
                             f"{len(bad)} matrix entries differ")
                differing_ops.add((g["cls"], op))
            if not isinstance(rr["complex_dev"], float) or not (rr["complex_dev"] <= 1e-9 * max(1.0, sc) * 10):
                ctx.disagree("complex:" + rname, ckey, "complex-linear", rr["complex_dev"], "operator on complex data")

    # bound leg -----------------------------------------------------------------------------------
    b_args = [c + (N, rmin) for c in BOUND_CASES for N in sorted(rng.sample([2, 3, 4, 6, 8, 12, 16, 24, 32, 48, 64], 4 if not thorough else 11))
              for rmin in (0.0, rng.choice([0.25, 0.5, 1.0]))]
    res_b = run_many("harness.c01", "bound_case", b_args, env={"NUMBA_DISABLE_JIT": "1"}, procs=16)
    for a_, rb in zip(b_args, res_b):
        case = {"bound": list(a_[:2]), "opts": a_[2], "N": a_[6], "r_min": a_[7], "theorem": a_[5]}
        ctx.count(case, nontrivial=True, leg="bound")
        ctx.impl_traces += 1
        ctx.hist("bound", f"{a_[0]}:{a_[1]}")
        if isinstance(rb, str):
            ctx.disagree("bound", case, "operator runs", rb[-600:], "real operator failed")
            continue
        if not (rb["err"] <= rb["bound"] * (1 + 1e-9) + 1e-11):
            ctx.disagree("bound", case, f"error <= {rb['bound']} (theorem {a_[5]}, cos/sin, all cells)", rb["err"],
                         "real kernel exceeds the proved uniform error bound")

    # order leg ------------------------------------------------------------------------------------
    if thorough:
        todo = list(ORDER_CASES)
    else:
        todo = [c for c in ORDER_CASES if (c[0], c[1]) in differing_ops]
        rest = [c for c in ORDER_CASES if c not in todo]
        todo += rng.sample(rest, min(len(rest), 24))
    # the uniform clause (axis-regular fields, error over all cells incl. the cell adjoining the axis): every run
    todo += UNIFORM_CASES if thorough else ([c for c in UNIFORM_CASES if c[0] == "sph" and c[1].startswith("tensor")]
                                            + rng.sample(UNIFORM_CASES, 8))
    todo = [c for i, c in enumerate(todo) if c not in todo[:i]]
    res_o = run_many("harness.c01", "order_case", todo, env={"NUMBA_DISABLE_JIT": "1"}, procs=16)
    for case, res in zip(todo, res_o):
        ctx.count({"order": list(case[:2]), "opts": case[2], "lo": case[3], "dim": case[4] if len(case) > 4 else None,
                   "uniform": len(case) > 5 and bool(case[5])}, nontrivial=True, leg="order")
        ctx.impl_traces += 1
        if isinstance(res, str):
            if (case[0], case[1]) in differing_ops:
                continue
            ctx.disagree("order", {"case": str(case)}, "refinement study runs", res[-600:], "real operator failed")
            continue
        check_order(ctx, case, res)


def search(ctx, broken):
    """matrix differs but the sampled refinement study found nothing: run the study for every
    operator/option of the affected grid classes"""
    classes = set()
    for b in broken:
        c = b.get("case", {}) if isinstance(b, dict) else {}
        g = c.get("grid")
        if g:
            classes.add(g["cls"])
    todo = [c for c in ORDER_CASES + UNIFORM_CASES if c[0] in classes]
    res_o = run_many("harness.c01", "order_case", todo, env={"NUMBA_DISABLE_JIT": "1"}, procs=16)
    before = len(ctx.monitor_failures)
    for case, res in zip(todo, res_o):
        if not isinstance(res, str):
            check_order(ctx, case, res, leg="order-search")
    return ctx.monitor_failures[before:]


def replay(ctx, rep):
    c = rep["case"]
    if "cls" in c:
        case = (c["cls"], c["op"], c["opts"], c["r_min"], c.get("dim_cart", 1), bool(c.get("uniform", False)))
        res = order_case(case)
        print("refinement study (N, error away from axis, error all cells):", res)
        before = len(ctx.monitor_failures)
        check_order(ctx, case, res)
        return len(ctx.monitor_failures) == before
    print("matrix case:", c)
    return False
