import sys, os, time, json
os.environ.setdefault("VERIF_WORKDIR", "/tmp/vw/c11c10/.work/dev")
os.makedirs(os.environ["VERIF_WORKDIR"], exist_ok=True)
os.environ.setdefault("NUMBA_CACHE_DIR", os.environ["VERIF_WORKDIR"] + "/nc")
from harness.common.context import Ctx
import harness.c11 as m
seed = int(sys.argv[1]) if len(sys.argv) > 1 else 0
n = int(sys.argv[2]) if len(sys.argv) > 2 else 60
nj = int(sys.argv[3]) if len(sys.argv) > 3 else 10
ctx = Ctx("C11", "quick", seed, os.environ["VERIF_WORKDIR"])
ctx.budget = lambda qk, th: n if qk == 900 else nj
t0 = time.time()
m.run(ctx)
print("wall", time.time() - t0)
print("evals", ctx.evaluations, "nontrivial", len(ctx.nontrivial_keys), "traces", ctx.impl_traces, "monitor", ctx.monitor_evals)
print("disagreements", len(ctx.disagreements), "monitor failures", len(ctx.monitor_failures))
for k, v in ctx.hists.items():
    print(k, dict(v.most_common(60)))
print({k: v for k, v in ctx.extra.items()})
for d in ctx.disagreements[:8]:
    print("DIS", json.dumps(d, default=str)[:1500])
for d in ctx.monitor_failures[:8]:
    print("MF", json.dumps(d, default=str)[:1500])
