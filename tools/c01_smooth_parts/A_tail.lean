/-! ### away from the axis the bounds are `C h²` with `C` independent of `h` and of the position

For every lattice point at distance `|ρ| ≥ ρ0 > 0` from the axis; no restriction on `h` is needed because the
kernels divide only by the radius of the cell itself and by the shell volume `h (h² + 12ρ²)/12`. -/

theorem shellQ_ge {ρ ρ0 : ℝ} (h : ℝ) (hρ0 : 0 < ρ0) (hfar : ρ0 ≤ |ρ|) : 12 * ρ0^2 ≤ h^2 + 12 * ρ^2 := by
  have h1 : ρ0^2 ≤ |ρ|^2 := pow_le_pow_left₀ hρ0.le hfar 2
  rw [sq_abs] at h1
  nlinarith [sq_nonneg h]

theorem shellQ_pos {ρ ρ0 : ℝ} (h : ℝ) (hρ0 : 0 < ρ0) (hfar : ρ0 ≤ |ρ|) : 0 < h^2 + 12 * ρ^2 :=
  lt_of_lt_of_le (by positivity) (shellQ_ge h hρ0 hfar)

/-- `(12ρ² + a h²)/(h² + 12ρ²) ≤ a` for `a ≥ 1` (used with `a = 3, 9`) -/
theorem shell_geom1 {ρ ρ0 : ℝ} (h a : ℝ) (ha : 1 ≤ a) (hρ0 : 0 < ρ0) (hfar : ρ0 ≤ |ρ|) :
    (12 * ρ^2 + a * h^2) / (h^2 + 12 * ρ^2) ≤ a := by
  rw [div_le_iff₀ (shellQ_pos h hρ0 hfar)]
  nlinarith [sq_nonneg ρ, sq_nonneg h, mul_nonneg (sub_nonneg.mpr ha) (sq_nonneg ρ)]

theorem shell_geom2 {ρ ρ0 : ℝ} (h : ℝ) (hρ0 : 0 < ρ0) (hfar : ρ0 ≤ |ρ|) :
    |ρ| / (h^2 + 12 * ρ^2) ≤ 1 / (12 * ρ0) := by
  rw [div_le_div_iff₀ (shellQ_pos h hρ0 hfar) (by positivity)]
  have h1 : |ρ|^2 = ρ^2 := sq_abs ρ
  nlinarith [sq_nonneg h, mul_le_mul_of_nonneg_left hfar (abs_nonneg ρ)]

theorem shell_geom3 {ρ ρ0 : ℝ} (h : ℝ) (hρ0 : 0 < ρ0) (hfar : ρ0 ≤ |ρ|) :
    1 / (h^2 + 12 * ρ^2) ≤ 1 / (12 * ρ0^2) :=
  one_div_le_one_div_of_le (by positivity) (shellQ_ge h hρ0 hfar)

theorem inv_abs_le_of_far {ρ ρ0 : ℝ} (hρ0 : 0 < ρ0) (hfar : ρ0 ≤ |ρ|) : 1 / |ρ| ≤ 1 / ρ0 :=
  one_div_le_one_div_of_le hρ0 hfar

theorem shell_geom4 {ρ ρ0 : ℝ} (h : ℝ) (hρ0 : 0 < ρ0) (hfar : ρ0 ≤ |ρ|) :
    1 / |ρ| * (1 / (h^2 + 12 * ρ^2)) ≤ 1 / (12 * ρ0^3) := by
  have hQ := shellQ_pos h hρ0 hfar
  have := mul_le_mul (inv_abs_le_of_far hρ0 hfar) (shell_geom3 h hρ0 hfar) (by positivity) (by positivity)
  calc _ ≤ 1 / ρ0 * (1 / (12 * ρ0^2)) := this
    _ = _ := by ring

/-- **polar Laplacian, uniform bound away from the axis**: `C = M4/12 + M3/(6ρ0)` -/
theorem polarLaplace_uniform_away_from_axis (F : List Int → ℝ → ℝ) (hF : ContDiff ℝ 4 (F [])) (M3 M4 : ℝ)
    (hM3 : ∀ y, |iteratedDeriv 3 (F []) y| ≤ M3) (hM4 : ∀ y, |iteratedDeriv 4 (F []) y| ≤ M4)
    (ρ0 : ℝ) (hρ0 : 0 < ρ0) (x0 h : ℝ) (hh : h ≠ 0) (i : Int) (ρ : ℝ) (hρ : ρ = x0 + (i:ℝ) * h)
    (hfar : ρ0 ≤ |ρ|) :
    |polarLaplace (fun n => x0 + (n:ℝ) * h) h (sampleAx1 F x0 h) i
        - (iteratedDeriv 2 (F []) ρ + iteratedDeriv 1 (F []) ρ / ρ)|
      ≤ (M4 / 12 + M3 / (6 * ρ0)) * h^2 := by
  have hr : ρ ≠ 0 := abs_pos.mp (lt_of_lt_of_le hρ0 hfar)
  have hM3' : 0 ≤ M3 := (abs_nonneg _).trans (hM3 0)
  have g := mul_le_mul_of_nonneg_left (inv_abs_le_of_far hρ0 hfar) (by positivity : 0 ≤ M3 / 6)
  calc _ ≤ _ := polarLaplace_smooth F hF M4 M3 hM4 hM3 x0 h hh i ρ hρ hr
    _ = (M4 / 12 + M3 / 6 * (1 / |ρ|)) * h^2 := by ring
    _ ≤ (M4 / 12 + M3 / 6 * (1 / ρ0)) * h^2 := mul_le_mul_of_nonneg_right (by linarith) (sq_nonneg h)
    _ = _ := by ring

/-- **plain spherical Laplacian, uniform bound away from the axis**: `C = M4/12 + M3/(3ρ0)` -/
theorem sphLaplace_plain_uniform_away_from_axis (F : List Int → ℝ → ℝ) (hF : ContDiff ℝ 4 (F [])) (M3 M4 : ℝ)
    (hM3 : ∀ y, |iteratedDeriv 3 (F []) y| ≤ M3) (hM4 : ∀ y, |iteratedDeriv 4 (F []) y| ≤ M4)
    (ρ0 : ℝ) (hρ0 : 0 < ρ0) (x0 h : ℝ) (hh : h ≠ 0) (i : Int) (ρ : ℝ) (hρ : ρ = x0 + (i:ℝ) * h)
    (hfar : ρ0 ≤ |ρ|) :
    |sphLaplace false (fun n => x0 + (n:ℝ) * h) h (sampleAx1 F x0 h) i
        - (iteratedDeriv 2 (F []) ρ + 2 * iteratedDeriv 1 (F []) ρ / ρ)|
      ≤ (M4 / 12 + M3 / (3 * ρ0)) * h^2 := by
  have hr : ρ ≠ 0 := abs_pos.mp (lt_of_lt_of_le hρ0 hfar)
  have hM3' : 0 ≤ M3 := (abs_nonneg _).trans (hM3 0)
  have g := mul_le_mul_of_nonneg_left (inv_abs_le_of_far hρ0 hfar) (by positivity : 0 ≤ M3 / 3)
  calc _ ≤ _ := sphLaplace_plain_smooth F hF M4 M3 hM4 hM3 x0 h hh i ρ hρ hr
    _ = (M4 / 12 + M3 / 3 * (1 / |ρ|)) * h^2 := by ring
    _ ≤ (M4 / 12 + M3 / 3 * (1 / ρ0)) * h^2 := mul_le_mul_of_nonneg_right (by linarith) (sq_nonneg h)
    _ = _ := by ring

/-- **conservative spherical Laplacian, uniform bound away from the axis**:
`C = M4/4 + M3/(3ρ0) + M2/(6ρ0²) + M1/(6ρ0³)` with global bounds `M1..M4` on `f'..f''''` -/
theorem sphLaplace_conservative_uniform_away_from_axis (F : List Int → ℝ → ℝ) (hF : ContDiff ℝ 4 (F []))
    (M1 M2 M3 M4 : ℝ) (hM1 : ∀ y, |iteratedDeriv 1 (F []) y| ≤ M1) (hM2 : ∀ y, |iteratedDeriv 2 (F []) y| ≤ M2)
    (hM3 : ∀ y, |iteratedDeriv 3 (F []) y| ≤ M3) (hM4 : ∀ y, |iteratedDeriv 4 (F []) y| ≤ M4)
    (ρ0 : ℝ) (hρ0 : 0 < ρ0) (x0 h : ℝ) (hh : h ≠ 0) (i : Int) (ρ : ℝ) (hρ : ρ = x0 + (i:ℝ) * h)
    (hfar : ρ0 ≤ |ρ|) :
    |sphLaplace true (fun n => x0 + (n:ℝ) * h) h (sampleAx1 F x0 h) i
        - (iteratedDeriv 2 (F []) ρ + 2 * iteratedDeriv 1 (F []) ρ / ρ)|
      ≤ (M4 / 4 + M3 / (3 * ρ0) + M2 / (6 * ρ0^2) + M1 / (6 * ρ0^3)) * h^2 := by
  have hr : ρ ≠ 0 := abs_pos.mp (lt_of_lt_of_le hρ0 hfar)
  have hM1' : 0 ≤ M1 := (abs_nonneg _).trans (hM1 0)
  have hM2' : 0 ≤ M2 := (abs_nonneg _).trans (hM2 0)
  have hM3' : 0 ≤ M3 := (abs_nonneg _).trans (hM3 0)
  have hM4' : 0 ≤ M4 := (abs_nonneg _).trans (hM4 0)
  have hQ := shellQ_pos h hρ0 hfar
  have g1 := mul_le_mul_of_nonneg_left (shell_geom1 h 3 (by norm_num) hρ0 hfar) (by positivity : 0 ≤ M4 / 12)
  have g2 := mul_le_mul_of_nonneg_left (shell_geom2 h hρ0 hfar) (by positivity : 0 ≤ 4 * M3)
  have g3 := mul_le_mul (mul_le_mul_of_nonneg_left (hM2 ρ) (by norm_num : (0:ℝ) ≤ 2)) (shell_geom3 h hρ0 hfar)
    (by positivity) (by positivity : 0 ≤ 2 * M2)
  have g4 := mul_le_mul (mul_le_mul_of_nonneg_left (hM1 ρ) (by norm_num : (0:ℝ) ≤ 2)) (shell_geom4 h hρ0 hfar)
    (by positivity) (by positivity : 0 ≤ 2 * M1)
  calc _ ≤ _ := sphLaplace_conservative_smooth F hF M4 M3 hM4 hM3 x0 h hh i ρ hρ hr
    _ = (M4 / 12 * ((12 * ρ^2 + 3 * h^2) / (h^2 + 12 * ρ^2)) + 4 * M3 * (|ρ| / (h^2 + 12 * ρ^2))
          + 2 * |iteratedDeriv 2 (F []) ρ| * (1 / (h^2 + 12 * ρ^2))
          + 2 * |iteratedDeriv 1 (F []) ρ| * (1 / |ρ| * (1 / (h^2 + 12 * ρ^2)))) * h^2 := by ring
    _ ≤ (M4 / 12 * 3 + 4 * M3 * (1 / (12 * ρ0)) + 2 * M2 * (1 / (12 * ρ0^2)) + 2 * M1 * (1 / (12 * ρ0^3))) * h^2 :=
        mul_le_mul_of_nonneg_right (add_le_add (add_le_add (add_le_add g1 g2) g3) g4) (sq_nonneg h)
    _ = _ := by ring

/-- **conservative spherical divergence, uniform bound away from the axis**:
`C = M3/2 + M2/(2ρ0) + M1/(6ρ0²) + M0/(6ρ0³)` with global bounds `M0..M3` on `v_r..v_r'''` -/
theorem sphDivergence_conservative_uniform_away_from_axis (F : List Int → ℝ → ℝ) (hF : ContDiff ℝ 3 (F [0]))
    (M0 M1 M2 M3 : ℝ) (hM0 : ∀ y, |F [0] y| ≤ M0) (hM1 : ∀ y, |iteratedDeriv 1 (F [0]) y| ≤ M1)
    (hM2 : ∀ y, |iteratedDeriv 2 (F [0]) y| ≤ M2) (hM3 : ∀ y, |iteratedDeriv 3 (F [0]) y| ≤ M3)
    (ρ0 : ℝ) (hρ0 : 0 < ρ0) (x0 h : ℝ) (hh : h ≠ 0) (i : Int) (ρ : ℝ) (hρ : ρ = x0 + (i:ℝ) * h)
    (hfar : ρ0 ≤ |ρ|) :
    |sphDivergence true .central (fun n => x0 + (n:ℝ) * h) h (sampleAx1 F x0 h) i
        - (iteratedDeriv 1 (F [0]) ρ + 2 * F [0] ρ / ρ)|
      ≤ (M3 / 2 + M2 / (2 * ρ0) + M1 / (6 * ρ0^2) + M0 / (6 * ρ0^3)) * h^2 := by
  have hr : ρ ≠ 0 := abs_pos.mp (lt_of_lt_of_le hρ0 hfar)
  have hM0' : 0 ≤ M0 := (abs_nonneg _).trans (hM0 0)
  have hM1' : 0 ≤ M1 := (abs_nonneg _).trans (hM1 0)
  have hM2' : 0 ≤ M2 := (abs_nonneg _).trans (hM2 0)
  have hM3' : 0 ≤ M3 := (abs_nonneg _).trans (hM3 0)
  have hQ := shellQ_pos h hρ0 hfar
  have g1 := mul_le_mul_of_nonneg_left (shell_geom1 h 3 (by norm_num) hρ0 hfar) (by positivity : 0 ≤ M3 / 6)
  have g2 := mul_le_mul_of_nonneg_left (shell_geom2 h hρ0 hfar) (by positivity : 0 ≤ 6 * M2)
  have g3 := mul_le_mul (mul_le_mul_of_nonneg_left (hM1 ρ) (by norm_num : (0:ℝ) ≤ 2)) (shell_geom3 h hρ0 hfar)
    (by positivity) (by positivity : 0 ≤ 2 * M1)
  have g4 := mul_le_mul (mul_le_mul_of_nonneg_left (hM0 ρ) (by norm_num : (0:ℝ) ≤ 2)) (shell_geom4 h hρ0 hfar)
    (by positivity) (by positivity : 0 ≤ 2 * M0)
  calc _ ≤ _ := sphDivergence_conservative_smooth F hF M3 M2 hM3 hM2 x0 h hh i ρ hρ hr
    _ = (M3 / 6 * ((12 * ρ^2 + 3 * h^2) / (h^2 + 12 * ρ^2)) + 6 * M2 * (|ρ| / (h^2 + 12 * ρ^2))
          + 2 * |iteratedDeriv 1 (F [0]) ρ| * (1 / (h^2 + 12 * ρ^2))
          + 2 * |F [0] ρ| * (1 / |ρ| * (1 / (h^2 + 12 * ρ^2)))) * h^2 := by ring
    _ ≤ (M3 / 6 * 3 + 6 * M2 * (1 / (12 * ρ0)) + 2 * M1 * (1 / (12 * ρ0^2)) + 2 * M0 * (1 / (12 * ρ0^3))) * h^2 :=
        mul_le_mul_of_nonneg_right (add_le_add (add_le_add (add_le_add g1 g2) g3) g4) (sq_nonneg h)
    _ = _ := by ring

/-! ### tie to the polynomial statements of `Props/C01.lean` -/

theorem hasDerivAt_quartic (a0 a1 a2 a3 a4 x : ℝ) :
    HasDerivAt (fun y : ℝ => a0 + a1 * y + a2 * y^2 + a3 * y^3 + a4 * y^4)
      (a1 + 2 * a2 * x + 3 * a3 * x^2 + 4 * a4 * x^3) x := by
  have h1 : HasDerivAt (fun y : ℝ => a1 * y) a1 x := ((hasDerivAt_id x).const_mul a1).congr_deriv (by simp)
  have h2 : HasDerivAt (fun y : ℝ => a2 * y^2) (2 * a2 * x) x :=
    ((hasDerivAt_pow 2 x).const_mul a2).congr_deriv (by norm_num; ring)
  have h3 : HasDerivAt (fun y : ℝ => a3 * y^3) (3 * a3 * x^2) x :=
    ((hasDerivAt_pow 3 x).const_mul a3).congr_deriv (by norm_num; ring)
  have h4 : HasDerivAt (fun y : ℝ => a4 * y^4) (4 * a4 * x^3) x :=
    ((hasDerivAt_pow 4 x).const_mul a4).congr_deriv (by norm_num; ring)
  exact (((((hasDerivAt_const x a0).add h1).add h2).add h3).add h4).congr_deriv (by ring)

theorem deriv_poly4 (c0 c1 c2 c3 c4 : ℝ) : deriv (poly4 c0 c1 c2 c3 c4) = dpoly4 c1 c2 c3 c4 :=
  funext fun x => (hasDerivAt_quartic c0 c1 c2 c3 c4 x).deriv

theorem deriv_dpoly4 (c1 c2 c3 c4 : ℝ) : deriv (dpoly4 c1 c2 c3 c4) = ddpoly4 c2 c3 c4 := by
  funext x
  have h := (hasDerivAt_quartic c1 (2 * c2) (3 * c3) (4 * c4) 0 x).deriv
  have e : dpoly4 c1 c2 c3 c4 = fun y : ℝ => c1 + 2 * c2 * y + 3 * c3 * y^2 + 4 * c4 * y^3 + 0 * y^4 := by
    funext y; simp [dpoly4]
  rw [e, h]; simp only [ddpoly4]; ring

/-- on polynomial fields the continuum operators of the `_smooth` theorems are the ones of `Props/C01.lean` -/
theorem iteratedDeriv_poly4 (c0 c1 c2 c3 c4 x : ℝ) :
    iteratedDeriv 1 (poly4 c0 c1 c2 c3 c4) x = dpoly4 c1 c2 c3 c4 x ∧
    iteratedDeriv 2 (poly4 c0 c1 c2 c3 c4) x = ddpoly4 c2 c3 c4 x := by
  refine ⟨by rw [iteratedDeriv_one, deriv_poly4], ?_⟩
  rw [iteratedDeriv_succ, iteratedDeriv_one, deriv_poly4, deriv_dpoly4]

/-- the two sampling conventions agree on scalar fields, and the continuum of `polarLaplace_smooth` on a
quartic is the continuum of `polarLaplace_poly` -/
theorem polarLaplace_continuum_poly4 (c0 c1 c2 c3 c4 x0 h ρ : ℝ) (i : Int) :
    sampleAx1 (fun _ => poly4 c0 c1 c2 c3 c4) x0 h [i] = sample1 (poly4 c0 c1 c2 c3 c4) x0 h [i] ∧
    iteratedDeriv 2 (poly4 c0 c1 c2 c3 c4) ρ + iteratedDeriv 1 (poly4 c0 c1 c2 c3 c4) ρ / ρ
      = ddpoly4 c2 c3 c4 ρ + dpoly4 c1 c2 c3 c4 ρ / ρ := by
  refine ⟨rfl, ?_⟩
  rw [(iteratedDeriv_poly4 c0 c1 c2 c3 c4 ρ).1, (iteratedDeriv_poly4 c0 c1 c2 c3 c4 ρ).2]

/-! ### non-vacuity: concrete smooth, non-polynomial fields meet the hypotheses -/

/-- `f = sin` on the lattice `1/4 + n/2`, cell `i = 2` (`ρ = 5/4`): all derivatives are bounded by 1 -/
example : |polarLaplace (fun n => (1/4:ℝ) + (n:ℝ) * (1/2)) (1/2) (sampleAx1 (fun _ => Real.sin) (1/4) (1/2)) 2
      - (iteratedDeriv 2 Real.sin (5/4) + iteratedDeriv 1 Real.sin (5/4) / (5/4))|
    ≤ (1 / 12 + 1 / 6 / |(5/4 : ℝ)|) * (1/2)^2 :=
  polarLaplace_smooth (fun _ => Real.sin) Real.contDiff_sin 1 1
    (fun y => Real.abs_iteratedDeriv_sin_le_one 4 y) (fun y => Real.abs_iteratedDeriv_sin_le_one 3 y)
    (1/4) (1/2) (by norm_num) 2 (5/4) (by norm_num) (by norm_num)

/-- the conservative spherical Laplacian of `f = cos`, uniformly for all cells at distance `≥ 1` and all `h` -/
example (x0 h : ℝ) (hh : h ≠ 0) (i : Int) (hfar : 1 ≤ |x0 + (i:ℝ) * h|) :
    |sphLaplace true (fun n => x0 + (n:ℝ) * h) h (sampleAx1 (fun _ => Real.cos) x0 h) i
      - (iteratedDeriv 2 Real.cos (x0 + (i:ℝ) * h) + 2 * iteratedDeriv 1 Real.cos (x0 + (i:ℝ) * h) / (x0 + (i:ℝ) * h))|
    ≤ (1 / 4 + 1 / (3 * 1) + 1 / (6 * 1^2) + 1 / (6 * 1^3)) * h^2 :=
  sphLaplace_conservative_uniform_away_from_axis (fun _ => Real.cos) Real.contDiff_cos 1 1 1 1
    (fun y => Real.abs_iteratedDeriv_cos_le_one 1 y) (fun y => Real.abs_iteratedDeriv_cos_le_one 2 y)
    (fun y => Real.abs_iteratedDeriv_cos_le_one 3 y) (fun y => Real.abs_iteratedDeriv_cos_le_one 4 y)
    1 one_pos x0 h hh i _ rfl hfar

/-- the conservative spherical divergence of the vector field `v_r = sin`, forward variant: first order -/
example (x0 h : ℝ) (hh : h ≠ 0) (i : Int) (ρ : ℝ) (hρ : ρ = x0 + (i:ℝ) * h) (hr : ρ ≠ 0) :
    |sphDivergence true .forward (fun n => x0 + (n:ℝ) * h) h (sampleAx1 (fun _ => Real.sin) x0 h) i
      - (iteratedDeriv 1 Real.sin ρ + 2 * Real.sin ρ / ρ)|
    ≤ (12 * ((ρ + h / 2)^2 * (1 / 2)) + |12 * ρ + 2 * h| * |iteratedDeriv 1 Real.sin ρ|
        + 2 * (|h| * (|Real.sin ρ| / |ρ|))) / (h^2 + 12 * ρ^2) * |h| :=
  (sphDivergence_conservative_onesided_smooth (fun _ => Real.sin) Real.contDiff_sin 1
    (fun y => Real.abs_iteratedDeriv_sin_le_one 2 y) x0 h hh i ρ hρ hr).1

end PdeVerif.Stencil
