end PdeVerif.Stencil
