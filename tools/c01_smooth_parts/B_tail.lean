/-! ### cylindrical operators away from the axis: `C_r h² + C_z k²` with constants independent of `h`, `k`
and of the position (`|ρ| ≥ ρ0 > 0`) -/

/-- **cylindrical Laplacian, uniform bound away from the axis** -/
theorem cylLaplace_uniform_away_from_axis (F : List Int → ℝ → ℝ → ℝ)
    (hFr : ∀ z, ContDiff ℝ 4 (fun s => F [] s z)) (hFz : ∀ r, ContDiff ℝ 4 (F [] r)) (M4r M3r M4z : ℝ)
    (hM4r : ∀ r z, |iteratedDeriv 4 (fun s => F [] s z) r| ≤ M4r)
    (hM3r : ∀ r z, |iteratedDeriv 3 (fun s => F [] s z) r| ≤ M3r)
    (hM4z : ∀ r z, |iteratedDeriv 4 (F [] r) z| ≤ M4z) (ρ0 : ℝ) (hρ0 : 0 < ρ0)
    (x0 h z0 k : ℝ) (hh : h ≠ 0) (hk : k ≠ 0) (i j : Int)
    (ρ ζ : ℝ) (hρ : ρ = x0 + (i:ℝ) * h) (hζ : ζ = z0 + (j:ℝ) * k) (hfar : ρ0 ≤ |ρ|) :
    |cylLaplace (fun n => x0 + (n:ℝ) * h) h k (sampleAx2 F x0 h z0 k) i j
        - (iteratedDeriv 2 (fun s => F [] s ζ) ρ + iteratedDeriv 1 (fun s => F [] s ζ) ρ / ρ
            + iteratedDeriv 2 (F [] ρ) ζ)|
      ≤ (M4r / 12 + M3r / (6 * ρ0)) * h^2 + M4z / 12 * k^2 := by
  have hr : ρ ≠ 0 := abs_pos.mp (lt_of_lt_of_le hρ0 hfar)
  have hM3' : 0 ≤ M3r := (abs_nonneg _).trans (hM3r 0 0)
  have g := mul_le_mul_of_nonneg_left (inv_abs_le_of_far hρ0 hfar) (by positivity : 0 ≤ M3r / 6)
  have g' : (M4r / 12 + M3r / 6 * (1 / |ρ|)) * h^2 ≤ (M4r / 12 + M3r / 6 * (1 / ρ0)) * h^2 :=
    mul_le_mul_of_nonneg_right (by linarith) (sq_nonneg h)
  calc _ ≤ _ := cylLaplace_smooth F hFr hFz M4r M3r M4z hM4r hM3r hM4z x0 h z0 k hh hk i j ρ ζ hρ hζ hr
    _ = (M4r / 12 + M3r / 6 * (1 / |ρ|)) * h^2 + M4z / 12 * k^2 := by ring
    _ ≤ (M4r / 12 + M3r / 6 * (1 / ρ0)) * h^2 + M4z / 12 * k^2 := by linarith
    _ = _ := by ring

/-! ### the documented exception: the cylindrical vector Laplacian next to the axis -/

/-- the error of the radial component of the cylindrical vector Laplacian, for ANY field (no smoothness needed):
`E₂(z) + E₁(r)/ρ + E₂(r)` - the central-difference error of `∂_r v_r` is divided by the radius -/
theorem cylVectorLaplace_r_error_eq (F : List Int → ℝ → ℝ → ℝ) (x0 h z0 k : ℝ) (hh : h ≠ 0) (hk : k ≠ 0)
    (i j : Int) (ρ ζ : ℝ) (hρ : ρ = x0 + (i:ℝ) * h) (hζ : ζ = z0 + (j:ℝ) * k) (hr : ρ ≠ 0) :
    cylVectorLaplace (fun n => x0 + (n:ℝ) * h) h k (sampleAx2 F x0 h z0 k) 0 i j
        - (iteratedDeriv 2 (fun s => F [0] s ζ) ρ + iteratedDeriv 1 (fun s => F [0] s ζ) ρ / ρ
            + iteratedDeriv 2 (F [0] ρ) ζ - F [0] ρ ζ / ρ^2)
      = ((F [0] ρ (ζ + k) - 2 * F [0] ρ ζ + F [0] ρ (ζ - k)) / (k * k) - iteratedDeriv 2 (F [0] ρ) ζ)
        + ((F [0] (ρ + h) ζ - F [0] (ρ - h) ζ) / (2 * h) - iteratedDeriv 1 (fun s => F [0] s ζ) ρ) / ρ
        + ((F [0] (ρ + h) ζ - 2 * F [0] ρ ζ + F [0] (ρ - h) ζ) / (h * h)
            - iteratedDeriv 2 (fun s => F [0] s ζ) ρ) := by
  have e0i : x0 + (i:ℝ) * h = ρ := hρ.symm
  have e1i : x0 + ((i:ℝ) + 1) * h = ρ + h := by rw [hρ]; ring
  have e2i : x0 + ((i:ℝ) - 1) * h = ρ - h := by rw [hρ]; ring
  have e3i : x0 + ((i:ℝ) + -1) * h = ρ - h := by rw [hρ]; ring
  have e0j : z0 + (j:ℝ) * k = ζ := hζ.symm
  have e1j : z0 + ((j:ℝ) + 1) * k = ζ + k := by rw [hζ]; ring
  have e2j : z0 + ((j:ℝ) - 1) * k = ζ - k := by rw [hζ]; ring
  have e3j : z0 + ((j:ℝ) + -1) * k = ζ - k := by rw [hζ]; ring
  stencil_split [cylVectorLaplace, sampleAx2_s, sampleAx2_v, sampleAx2_t] [e0i, e1i, e2i, e3i, e0j, e1j, e2j, e3j]

/-- lower bound for the error of the central first derivative: `m h²/6 ≤ D₁f - f'` when `f''' ≥ m` -/
theorem d1_central_fun_taylor_lower (f : ℝ → ℝ) (hf : ContDiff ℝ 3 f) (m : ℝ) (hm : ∀ y, m ≤ iteratedDeriv 3 f y)
    (x h : ℝ) (hh : h ≠ 0) :
    m * h^2 / 6 ≤ (f (x + h) - f (x - h)) / (2 * h) - iteratedDeriv 1 f x := by
  obtain ⟨ξ1, _, e1⟩ := taylor2 f hf x h hh
  obtain ⟨ξ2, _, e2⟩ := taylor2 f hf x (-h) (neg_ne_zero.mpr hh)
  have e2' : f (x - h) = f x - iteratedDeriv 1 f x * h + iteratedDeriv 2 f x * h^2 / 2
      - iteratedDeriv 3 f ξ2 * h^3 / 6 := by
    have : x + -h = x - h := by ring
    rw [this] at e2; rw [e2]; ring
  have key : (f (x + h) - f (x - h)) / (2 * h) - iteratedDeriv 1 f x
      = (iteratedDeriv 3 f ξ1 + iteratedDeriv 3 f ξ2) * h^2 / 12 := by
    rw [e1, e2']; field_simp; ring
  rw [key]
  nlinarith [mul_nonneg (by linarith [hm ξ1, hm ξ2] : 0 ≤ iteratedDeriv 3 f ξ1 + iteratedDeriv 3 f ξ2 - 2 * m)
    (sq_nonneg h)]

/-- **the exception, upper bound, all smooth fields**: in the cells adjoining the axis (`ρ = ± h/2`: first cell of a
full cylinder) the error of `(Δv)_r` is bounded by a FIRST-order expression `(M3r/3) |h| + (M4r/12) h² + (M4z/12) k²` -/
theorem cylVectorLaplace_first_order_at_axis_smooth (F : List Int → ℝ → ℝ → ℝ)
    (hFz_0 : ∀ r, ContDiff ℝ 4 (F [0] r)) (hFr_0 : ∀ z, ContDiff ℝ 4 (fun s => F [0] s z))
    (M4z_0 M3r_0 M4r_0 : ℝ) (hM4z_0 : ∀ r z, |iteratedDeriv 4 (F [0] r) z| ≤ M4z_0)
    (hM3r_0 : ∀ r z, |iteratedDeriv 3 (fun s => F [0] s z) r| ≤ M3r_0)
    (hM4r_0 : ∀ r z, |iteratedDeriv 4 (fun s => F [0] s z) r| ≤ M4r_0)
    (x0 h z0 k : ℝ) (hh : h ≠ 0) (hk : k ≠ 0) (i j : Int) (ρ ζ : ℝ) (hρ : ρ = x0 + (i:ℝ) * h)
    (hζ : ζ = z0 + (j:ℝ) * k) (hax : |ρ| = |h| / 2) :
    |cylVectorLaplace (fun n => x0 + (n:ℝ) * h) h k (sampleAx2 F x0 h z0 k) 0 i j
        - (iteratedDeriv 2 (fun s => F [0] s ζ) ρ + iteratedDeriv 1 (fun s => F [0] s ζ) ρ / ρ
            + iteratedDeriv 2 (F [0] ρ) ζ - F [0] ρ ζ / ρ^2)|
      ≤ M3r_0 / 3 * |h| + M4r_0 / 12 * h^2 + M4z_0 / 12 * k^2 := by
  have habs : 0 < |h| := abs_pos.mpr hh
  have hr : ρ ≠ 0 := abs_pos.mp (by rw [hax]; positivity)
  rw [cylVectorLaplace_r_error_eq F x0 h z0 k hh hk i j ρ ζ hρ hζ hr]
  have bz := d2_fun_taylor (F [0] ρ) (hFz_0 ρ) M4z_0 (hM4z_0 ρ) ζ k hk
  have b1 := abs_div_le_of (d1_central_fun_taylor (fun s => F [0] s ζ) ((hFr_0 ζ).of_le (by norm_num)) M3r_0
    (fun t => hM3r_0 t ζ) ρ h hh) ρ
  have br := d2_fun_taylor (fun s => F [0] s ζ) (hFr_0 ζ) M4r_0 (fun t => hM4r_0 t ζ) ρ h hh
  have e : M3r_0 * h^2 / 6 / |ρ| = M3r_0 / 3 * |h| := by
    rw [hax, ← sq_abs h]; field_simp; ring
  rw [e] at b1
  refine le_trans (abs_add_le_of (abs_add_le_of bz b1) br) (le_of_eq (by ring))

/-- **the exception is sharp for smooth fields**: if `∂_r³ v_r ≥ m` everywhere, then in the first cell of a full
cylinder (`ρ = h/2`, `h > 0`) the error of `(Δv)_r` is at least `(m/3) h - (M4r/12) h² - (M4z/12) k²`: for `m > 0`
it is of first order in `h` and not better (`k ≲ h`), whereas at any fixed distance from the axis it is `O(h² + k²)`
(`cylVectorLaplace_smooth`) -/
theorem cylVectorLaplace_first_order_at_axis_sharp (F : List Int → ℝ → ℝ → ℝ)
    (hFz_0 : ∀ r, ContDiff ℝ 4 (F [0] r)) (hFr_0 : ∀ z, ContDiff ℝ 4 (fun s => F [0] s z))
    (M4z_0 M4r_0 m : ℝ) (hM4z_0 : ∀ r z, |iteratedDeriv 4 (F [0] r) z| ≤ M4z_0)
    (hm : ∀ r z, m ≤ iteratedDeriv 3 (fun s => F [0] s z) r)
    (hM4r_0 : ∀ r z, |iteratedDeriv 4 (fun s => F [0] s z) r| ≤ M4r_0)
    (x0 h z0 k : ℝ) (hh : 0 < h) (hk : k ≠ 0) (i j : Int) (ρ ζ : ℝ) (hρ : ρ = x0 + (i:ℝ) * h)
    (hζ : ζ = z0 + (j:ℝ) * k) (hax : ρ = h / 2) :
    m / 3 * h - M4r_0 / 12 * h^2 - M4z_0 / 12 * k^2
      ≤ cylVectorLaplace (fun n => x0 + (n:ℝ) * h) h k (sampleAx2 F x0 h z0 k) 0 i j
        - (iteratedDeriv 2 (fun s => F [0] s ζ) ρ + iteratedDeriv 1 (fun s => F [0] s ζ) ρ / ρ
            + iteratedDeriv 2 (F [0] ρ) ζ - F [0] ρ ζ / ρ^2) := by
  have hh' : h ≠ 0 := hh.ne'
  have hρpos : 0 < ρ := by rw [hax]; positivity
  rw [cylVectorLaplace_r_error_eq F x0 h z0 k hh' hk i j ρ ζ hρ hζ hρpos.ne']
  have bz := neg_le_of_abs_le (d2_fun_taylor (F [0] ρ) (hFz_0 ρ) M4z_0 (hM4z_0 ρ) ζ k hk)
  have br := neg_le_of_abs_le (d2_fun_taylor (fun s => F [0] s ζ) (hFr_0 ζ) M4r_0 (fun t => hM4r_0 t ζ) ρ h hh')
  have b1 := div_le_div_of_nonneg_right (d1_central_fun_taylor_lower (fun s => F [0] s ζ)
    ((hFr_0 ζ).of_le (by norm_num)) m (fun t => hm t ζ) ρ h hh') hρpos.le
  have e : m * h^2 / 6 / ρ = m / 3 * h := by rw [hax]; field_simp; ring
  rw [e] at b1
  linarith

theorem cyl_bound_away {M4z M3r M4r ρ ρ0 : ℝ} (h k : ℝ) (hM3 : 0 ≤ M3r) (hρ0 : 0 < ρ0) (hfar : ρ0 ≤ |ρ|) :
    (M4r / 12 + M3r / 6 * (1 / |ρ|)) * h^2 + M4z / 12 * k^2 ≤ (M4r / 12 + M3r / (6 * ρ0)) * h^2 + M4z / 12 * k^2 := by
  have g := mul_le_mul_of_nonneg_left (inv_abs_le_of_far hρ0 hfar) (by positivity : 0 ≤ M3r / 6)
  have g' : (M4r / 12 + M3r / 6 * (1 / |ρ|)) * h^2 ≤ (M4r / 12 + M3r / 6 * (1 / ρ0)) * h^2 :=
    mul_le_mul_of_nonneg_right (by linarith) (sq_nonneg h)
  have e : (M4r / 12 + M3r / (6 * ρ0)) * h^2 = (M4r / 12 + M3r / 6 * (1 / ρ0)) * h^2 := by ring
  rw [e]; linarith

/-- **cylindrical vector Laplacian, all three components `(r, z, φ)`, uniform bound away from the axis**:
second order with constants independent of `h`, `k` and of the position (`|ρ| ≥ ρ0 > 0`) -/
theorem cylVectorLaplace_uniform_away_from_axis (F : List Int → ℝ → ℝ → ℝ)
    (hFz_0 : ∀ r, ContDiff ℝ 4 (F [0] r)) (hFr_0 : ∀ z, ContDiff ℝ 4 (fun s => F [0] s z))
    (hFz_1 : ∀ r, ContDiff ℝ 4 (F [1] r)) (hFr_1 : ∀ z, ContDiff ℝ 4 (fun s => F [1] s z))
    (hFz_2 : ∀ r, ContDiff ℝ 4 (F [2] r)) (hFr_2 : ∀ z, ContDiff ℝ 4 (fun s => F [2] s z))
    (M4z_0 M3r_0 M4r_0 M4z_1 M3r_1 M4r_1 M4z_2 M3r_2 M4r_2 : ℝ)
    (hM4z_0 : ∀ r z, |iteratedDeriv 4 (F [0] r) z| ≤ M4z_0)
    (hM3r_0 : ∀ r z, |iteratedDeriv 3 (fun s => F [0] s z) r| ≤ M3r_0)
    (hM4r_0 : ∀ r z, |iteratedDeriv 4 (fun s => F [0] s z) r| ≤ M4r_0)
    (hM4z_1 : ∀ r z, |iteratedDeriv 4 (F [1] r) z| ≤ M4z_1)
    (hM3r_1 : ∀ r z, |iteratedDeriv 3 (fun s => F [1] s z) r| ≤ M3r_1)
    (hM4r_1 : ∀ r z, |iteratedDeriv 4 (fun s => F [1] s z) r| ≤ M4r_1)
    (hM4z_2 : ∀ r z, |iteratedDeriv 4 (F [2] r) z| ≤ M4z_2)
    (hM3r_2 : ∀ r z, |iteratedDeriv 3 (fun s => F [2] s z) r| ≤ M3r_2)
    (hM4r_2 : ∀ r z, |iteratedDeriv 4 (fun s => F [2] s z) r| ≤ M4r_2)
    (ρ0 : ℝ) (hρ0 : 0 < ρ0) (x0 h z0 k : ℝ) (hh : h ≠ 0) (hk : k ≠ 0) (i j : Int) (ρ ζ : ℝ)
    (hρ : ρ = x0 + (i:ℝ) * h) (hζ : ζ = z0 + (j:ℝ) * k) (hfar : ρ0 ≤ |ρ|) :
    |cylVectorLaplace (fun n => x0 + (n:ℝ) * h) h k (sampleAx2 F x0 h z0 k) 0 i j
        - (iteratedDeriv 2 (fun s => F [0] s ζ) ρ + iteratedDeriv 1 (fun s => F [0] s ζ) ρ / ρ + iteratedDeriv 2 (F [0] ρ) ζ - F [0] ρ ζ / ρ^2)|
      ≤ (M4r_0 / 12 + M3r_0 / (6 * ρ0)) * h^2 + M4z_0 / 12 * k^2 ∧
    |cylVectorLaplace (fun n => x0 + (n:ℝ) * h) h k (sampleAx2 F x0 h z0 k) 1 i j
        - (iteratedDeriv 2 (fun s => F [1] s ζ) ρ + iteratedDeriv 1 (fun s => F [1] s ζ) ρ / ρ + iteratedDeriv 2 (F [1] ρ) ζ)|
      ≤ (M4r_1 / 12 + M3r_1 / (6 * ρ0)) * h^2 + M4z_1 / 12 * k^2 ∧
    |cylVectorLaplace (fun n => x0 + (n:ℝ) * h) h k (sampleAx2 F x0 h z0 k) 2 i j
        - (iteratedDeriv 2 (fun s => F [2] s ζ) ρ + iteratedDeriv 1 (fun s => F [2] s ζ) ρ / ρ + iteratedDeriv 2 (F [2] ρ) ζ - F [2] ρ ζ / ρ^2)|
      ≤ (M4r_2 / 12 + M3r_2 / (6 * ρ0)) * h^2 + M4z_2 / 12 * k^2 := by
  have hr : ρ ≠ 0 := abs_pos.mp (lt_of_lt_of_le hρ0 hfar)
  obtain ⟨b0, b1, b2⟩ := cylVectorLaplace_smooth F hFz_0 hFr_0 hFz_1 hFr_1 hFz_2 hFr_2 M4z_0 M3r_0 M4r_0 M4z_1 M3r_1 M4r_1 M4z_2 M3r_2 M4r_2 hM4z_0 hM3r_0 hM4r_0 hM4z_1 hM3r_1 hM4r_1 hM4z_2 hM3r_2 hM4r_2
    x0 h z0 k hh hk i j ρ ζ hρ hζ hr
  exact ⟨b0.trans (le_of_eq_of_le (by ring) (cyl_bound_away h k ((abs_nonneg _).trans (hM3r_0 0 0)) hρ0 hfar)),
    b1.trans (le_of_eq_of_le (by ring) (cyl_bound_away h k ((abs_nonneg _).trans (hM3r_1 0 0)) hρ0 hfar)),
    b2.trans (le_of_eq_of_le (by ring) (cyl_bound_away h k ((abs_nonneg _).trans (hM3r_2 0 0)) hρ0 hfar))⟩

/-! ### non-vacuity: a concrete smooth non-polynomial field of two variables -/

theorem abs_iteratedDeriv_sin_mul_const_le (n : ℕ) (c x : ℝ) (hc : |c| ≤ 1) :
    |iteratedDeriv n (fun s => Real.sin s * c) x| ≤ 1 := by
  rw [iteratedDeriv_mul_const_field, abs_mul]
  exact mul_le_one₀ (Real.abs_iteratedDeriv_sin_le_one n x) (abs_nonneg c) hc

theorem abs_iteratedDeriv_const_mul_cos_le (n : ℕ) (c x : ℝ) (hc : |c| ≤ 1) :
    |iteratedDeriv n (fun s => c * Real.cos s) x| ≤ 1 := by
  rw [iteratedDeriv_const_mul_field, abs_mul]
  exact mul_le_one₀ hc (abs_nonneg _) (Real.abs_iteratedDeriv_cos_le_one n x)

/-- the cylindrical Laplacian of `f(r, z) = sin r · cos z` on any lattice, any cell off the axis -/
example (x0 h z0 k : ℝ) (hh : h ≠ 0) (hk : k ≠ 0) (i j : Int) (ρ ζ : ℝ) (hρ : ρ = x0 + (i:ℝ) * h)
    (hζ : ζ = z0 + (j:ℝ) * k) (hr : ρ ≠ 0) :
    |cylLaplace (fun n => x0 + (n:ℝ) * h) h k (sampleAx2 (fun _ r z => Real.sin r * Real.cos z) x0 h z0 k) i j
        - (iteratedDeriv 2 (fun s => Real.sin s * Real.cos ζ) ρ + iteratedDeriv 1 (fun s => Real.sin s * Real.cos ζ) ρ / ρ
            + iteratedDeriv 2 (fun s => Real.sin ρ * Real.cos s) ζ)|
      ≤ (1 / 12 + 1 / 6 / |ρ|) * h^2 + 1 / 12 * k^2 :=
  cylLaplace_smooth (fun _ r z => Real.sin r * Real.cos z)
    (fun z => Real.contDiff_sin.mul contDiff_const) (fun r => contDiff_const.mul Real.contDiff_cos) 1 1 1
    (fun r z => abs_iteratedDeriv_sin_mul_const_le 4 _ r (Real.abs_cos_le_one z))
    (fun r z => abs_iteratedDeriv_sin_mul_const_le 3 _ r (Real.abs_cos_le_one z))
    (fun r z => abs_iteratedDeriv_const_mul_cos_le 4 _ z (Real.abs_sin_le_one r))
    x0 h z0 k hh hk i j ρ ζ hρ hζ hr

/-- the 3-d Cartesian Laplacian of `f(x, y, z) = sin x · cos y · sin z`: error at most `(h² + k² + l²)/12` -/
example (x0 h y0 k z0 l : ℝ) (hh : h ≠ 0) (hk : k ≠ 0) (hl : l ≠ 0) (i j m : Int) :
    |cartLaplace [h, k, l]
          (sampleAx3 (fun _ x y z => Real.sin x * (Real.cos y * Real.sin z)) x0 h y0 k z0 l) [] [i, j, m]
        - (iteratedDeriv 2 (fun s => Real.sin s * (Real.cos (y0 + (j:ℝ) * k) * Real.sin (z0 + (m:ℝ) * l))) (x0 + (i:ℝ) * h)
          + iteratedDeriv 2 (fun s => Real.sin (x0 + (i:ℝ) * h) * (Real.cos s * Real.sin (z0 + (m:ℝ) * l))) (y0 + (j:ℝ) * k)
          + iteratedDeriv 2 (fun s => Real.sin (x0 + (i:ℝ) * h) * (Real.cos (y0 + (j:ℝ) * k) * Real.sin s)) (z0 + (m:ℝ) * l))|
      ≤ 1 / 12 * h^2 + 1 / 12 * k^2 + 1 / 12 * l^2 := by
  have hcs : ∀ a b : ℝ, |Real.cos a * Real.sin b| ≤ 1 := fun a b => by
    rw [abs_mul]; exact mul_le_one₀ (Real.abs_cos_le_one a) (abs_nonneg _) (Real.abs_sin_le_one b)
  have hss : ∀ a b : ℝ, |Real.sin a * Real.sin b| ≤ 1 := fun a b => by
    rw [abs_mul]; exact mul_le_one₀ (Real.abs_sin_le_one a) (abs_nonneg _) (Real.abs_sin_le_one b)
  have hsc : ∀ a b : ℝ, |Real.sin a * Real.cos b| ≤ 1 := fun a b => by
    rw [abs_mul]; exact mul_le_one₀ (Real.abs_sin_le_one a) (abs_nonneg _) (Real.abs_cos_le_one b)
  refine cartLaplace3_smooth (fun _ x y z => Real.sin x * (Real.cos y * Real.sin z))
    (fun y z => Real.contDiff_sin.mul contDiff_const)
    (fun x z => contDiff_const.mul (Real.contDiff_cos.mul contDiff_const))
    (fun x y => contDiff_const.mul (contDiff_const.mul Real.contDiff_sin)) 1 1 1
    (fun x y z => abs_iteratedDeriv_sin_mul_const_le 4 _ x (hcs y z)) ?_ ?_
    x0 h y0 k z0 l hh hk hl i j m _ _ _ rfl rfl rfl
  · intro x y z
    have e : (fun s => Real.sin x * (Real.cos s * Real.sin z)) = fun s => (Real.sin x * Real.sin z) * Real.cos s := by
      funext s; ring
    show |iteratedDeriv 4 (fun s => Real.sin x * (Real.cos s * Real.sin z)) y| ≤ 1
    rw [e]; exact abs_iteratedDeriv_const_mul_cos_le 4 _ y (hss x z)
  · intro x y z
    have e : (fun s => Real.sin x * (Real.cos y * Real.sin s)) = fun s => Real.sin s * (Real.sin x * Real.cos y) := by
      funext s; ring
    show |iteratedDeriv 4 (fun s => Real.sin x * (Real.cos y * Real.sin s)) z| ≤ 1
    rw [e]; exact abs_iteratedDeriv_sin_mul_const_le 4 _ z (hsc x y)

end PdeVerif.Stencil
