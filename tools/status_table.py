#!/venv/bin/python
"""print the per-property status table (DESIGN.md section 11.1) from the Props files, harness modules and evidence"""
import glob, importlib, json, os, re, sys
HERE = os.path.dirname(os.path.dirname(os.path.abspath(__file__)))
sys.path.insert(0, HERE)
print("| id | level | theorems (audited) | model files | quick run: cases / executions compared with the model / monitor evaluations |")
print("|---|---|---|---|---|")
for n in range(1, 21):
    pid = f"C{n:02d}"
    mod = importlib.import_module(f"harness.{pid.lower()}")
    ev = json.load(open(os.path.join(HERE, "evidence", f"{pid}.json")))
    cov = ev["coverage"]
    props = [f"Props/{pid}.lean"] + [f"Props/{x}.lean" for x in getattr(mod, "EXTRA_PROP_FILES", [])]
    imports = set()
    for pf in props:
        for m in re.findall(r"^import PdeVerif\.((?:Model|Lemmas|Generated)\.\w+)", open(os.path.join(HERE, "lean/PdeVerif", pf)).read(), re.M):
            imports.add(m.replace(".", "/"))
    print(f"| {pid} | {getattr(mod, 'LEVEL', 'proof')} | {cov['discharged']}/{cov['obligations']} | {', '.join(sorted(imports))} | "
          f"{cov.get('evaluations')} / {cov.get('traces_validated_against_impl')} / {cov.get('monitor_evaluations_on_real_code')} |")
