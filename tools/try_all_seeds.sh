#!/bin/bash
# usage: tools/try_all_seeds.sh [jobs]   - every seeded change against the CURRENT /repo HEAD with its owning check
# (quick tier, seed 0); one line per seed in seeded/RESULTS.md.  Uses scratch worktrees of /repo (never /repo itself).
cd "$(dirname "$0")/.."
J=${1:-5}
head=$(git -C /repo log -1 --format=%h)
one(){
  s=$1; id=${s%%-*}
  out=$(tools/try_seed.sh seeded/$s $id 2>&1)
  if echo "$out" | grep -q "PATCH DOES NOT APPLY"; then echo "| $s | patch does not apply to /repo $head: obsolete after a later fix (see on_current_head / applies_to in meta.json) |"
  elif echo "$out" | grep -q "^VIOLATION.*no-failing-input-found"; then echo "| $s | VIOLATION no-failing-input-found |"
  elif echo "$out" | grep -q "^VIOLATION"; then n=$(echo "$out" | grep -c "^VIOLATION"); echo "| $s | VIOLATION with failing input ($n replay files) |"
  elif echo "$out" | grep -q "BROKEN"; then echo "| $s | BROKEN-CHECK |"
  else echo "| $s | not detected |"; fi
}
export -f one
{ echo "# Seeded changes against /repo $head (quick tier, seed 0, owning check only)"; echo; echo "| seed | outcome |"; echo "|---|---|";
  ls -d seeded/C* | xargs -n1 basename | xargs -P $J -I{} bash -c 'one {}' | sort; } > seeded/RESULTS.md
cat seeded/RESULTS.md | tail -80
