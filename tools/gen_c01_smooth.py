"""Writes lean/PdeVerif/Props/C01Smooth.lean and C01SmoothB.lean: consistency of every stencil of
`Model/Stencil.lean` on ALL sufficiently smooth real fields (Taylor's theorem with Lagrange remainder).

The generator only prints text: for every operator and output component it writes down
  * the *error tree*: stencil - continuum operator as a combination of the 1-d building-block errors
    (`d1_central_fun_taylor`, `d2_fun_taylor`, `d1_forward_fun_taylor`, ... proved once in the preamble)
    and of values of lower derivatives (conservative kernels),
  * the bound that the tree gives by the triangle inequality, factored as `coefficient * h^2`
    (`* |h|` for the one-sided variants),
  * the hypotheses (smoothness order and derivative bounds per component and axis) the tree uses.
Lean then PROVES (a) that the tree equals stencil - continuum (`simp only [model]; field_simp; ring`) and
(b) the bound (term built from the `abs_*_le_of` combinators), so a wrong tree or bound cannot slip through.
Hand-written Lean (preamble, corollaries, examples) is embedded verbatim below.
Run:  /venv/bin/python tools/gen_c01_smooth.py   (output is committed)."""
import os
import re

HERE = os.path.dirname(os.path.dirname(os.path.abspath(__file__)))
OUT_A = os.path.join(HERE, "lean", "PdeVerif", "Props", "C01Smooth.lean")
OUT_B = os.path.join(HERE, "lean", "PdeVerif", "Props", "C01SmoothB.lean")

# --------------------------------------------------------------------------------------------
# precedence-aware expression strings
ATOM, APP, MUL, ADD = 4, 3, 2, 1


class E:
    def __init__(self, s, prec):
        self.s, self.prec = s, prec

    def at(self, prec):
        return self.s if self.prec >= prec else f"({self.s})"

    def __str__(self):
        return self.s


def ident(s):
    return re.fullmatch(r"[\w₀-₉']+|\d+", s) is not None


def mk(s):
    """wrap a hand-written Lean term"""
    if isinstance(s, E):
        return s
    s = str(s)
    if ident(s) or (s.startswith("|") and s.endswith("|") and s.count("|") == 2):
        return E(s, ATOM)
    if s.startswith("(") and s.endswith(")") and _balanced(s[1:-1]):
        return E(s, ATOM)
    m = re.fullmatch(r"(.*)\^(\d+)", s)
    if m and (ident(m.group(1)) or (m.group(1).startswith("(") and m.group(1).endswith(")")
                                    and _balanced(m.group(1)[1:-1]))):
        return E(s, APP)     # a power of an atom: binds tighter than * and /
    return E(s, 0)


def _balanced(s):
    d = 0
    for ch in s:
        if ch == "(":
            d += 1
        elif ch == ")":
            d -= 1
            if d < 0:
                return False
    return d == 0


def eadd(a, b): return E(f"{a.at(ADD)} + {b.at(MUL)}", ADD)
def esub(a, b): return E(f"{a.at(ADD)} - {b.at(MUL)}", ADD)
def emul(a, b): return E(f"{a.at(MUL)} * {b.at(APP)}", MUL)
def ediv(a, b): return E(f"{a.at(MUL)} / {b.at(APP)}", MUL)
def eneg(a): return E(f"-{a.at(APP)}", ADD)
def eabs(a):
    t = a.s
    if t.startswith("(") and t.endswith(")") and _balanced(t[1:-1]):
        t = t[1:-1]
    return E(f"|{t}|", ATOM)
def epow(a, n): return E(f"{a.at(ATOM)}^{n}", ATOM)
def app(f, *xs): return E(" ".join([f] + [mk(x).at(ATOM) for x in xs]), APP)


# --------------------------------------------------------------------------------------------
# error-tree nodes: expression, bound (natural form), factored bound {H: coefficient}, proof term
class Node:
    def __init__(self, expr, bound, fact, proof):
        self.expr, self.bound, self.fact, self.proof = expr, bound, fact, proof


def _merge(fa, fb):
    out = dict(fa)
    for H, c in fb.items():
        out[H] = eadd(out[H], c) if H in out else c
    return out


def add(a, b):
    return Node(eadd(a.expr, b.expr), eadd(a.bound, b.bound), _merge(a.fact, b.fact),
                f"(abs_add_le_of {a.proof} {b.proof})")


def sub(a, b):
    return Node(esub(a.expr, b.expr), eadd(a.bound, b.bound), _merge(a.fact, b.fact),
                f"(abs_sub_le_of {a.proof} {b.proof})")


def neg(a):
    return Node(eneg(a.expr), a.bound, a.fact, f"(abs_neg_le_of {a.proof})")


def div(a, r):
    r = mk(r)
    return Node(ediv(a.expr, r), ediv(a.bound, eabs(r)), {H: ediv(c, eabs(r)) for H, c in a.fact.items()},
                f"(abs_div_le_of {a.proof} {r.at(ATOM)})")


def divnn(a, d, prf=None):
    d = mk(d)
    prf = prf or f"(by positivity : (0:ℝ) ≤ {d.s})"
    return Node(ediv(a.expr, d), ediv(a.bound, d), {H: ediv(c, d) for H, c in a.fact.items()},
                f"(abs_div_le_of_nonneg {a.proof} {prf})")


def mul(c, a):
    c = mk(c)
    return Node(emul(c, a.expr), emul(eabs(c), a.bound), {H: emul(eabs(c), x) for H, x in a.fact.items()},
                f"(abs_mul_le_of {c.at(ATOM)} {a.proof})")


def mulnn(c, a, prf=None):
    c = mk(c)
    prf = prf or (f"(by norm_num : (0:ℝ) ≤ {c.s})" if re.fullmatch(r"\d+", c.s) else f"(by positivity : (0:ℝ) ≤ {c.s})")
    return Node(emul(c, a.expr), emul(c, a.bound), {H: emul(c, x) for H, x in a.fact.items()},
                f"(abs_mul_le_of_nonneg {prf} {a.proof})")


def hsq(a, h="h"):
    """multiply by h^2 (moves an order-1 coefficient into the h^2 slot)"""
    c = mk(f"{h}^2")
    c = E(c.s, ATOM)
    fact = {}
    for H, x in a.fact.items():
        if H == "1":
            fact[f"{h}^2"] = x
        else:
            fact[H] = emul(c, x)
    return Node(emul(c, a.expr), emul(c, a.bound), fact,
                f"(abs_mul_le_of_nonneg (by positivity : (0:ℝ) ≤ {h}^2) {a.proof})")


def hmul(a, h="h"):
    """multiply by h (moves an order-1 coefficient into the |h| slot)"""
    c = mk(h)
    fact = {}
    for H, x in a.fact.items():
        if H == "1":
            fact[f"|{h}|"] = x
        else:
            fact[H] = emul(eabs(c), x)
    return Node(emul(c, a.expr), emul(eabs(c), a.bound), fact, f"(abs_mul_le_of {h} {a.proof})")


def val(e):
    e = mk(e)
    return Node(e, eabs(e), {"1": eabs(e)}, "(le_refl _)")


# --------------------------------------------------------------------------------------------
# grids: axes = list of (origin, spacing, index, point, letter)
class Grid:
    def __init__(self, axes, ftype, sample, slemmas):
        self.axes, self.ftype, self.sample, self.slemmas = axes, ftype, sample, slemmas

    @property
    def n(self):
        return len(self.axes)


AX1 = Grid([("x0", "h", "i", "ρ", "")], "List Int → ℝ → ℝ", "(sampleAx1 F x0 h)",
           ["sampleAx1_s", "sampleAx1_v", "sampleAx1_t"])
CYL = Grid([("x0", "h", "i", "ρ", "r"), ("z0", "k", "j", "ζ", "z")], "List Int → ℝ → ℝ → ℝ",
           "(sampleAx2 F x0 h z0 k)", ["sampleAx2_s", "sampleAx2_v", "sampleAx2_t"])
CART1 = Grid([("x0", "h", "i", "ξ", "")], "List Int → ℝ → ℝ", "(sampleAx1 F x0 h)",
             ["sampleAx1_s", "sampleAx1_v", "sampleAx1_t"])
CART2 = Grid([("x0", "h", "i", "ξ", "x"), ("y0", "k", "j", "η", "y")], "List Int → ℝ → ℝ → ℝ",
             "(sampleAx2 F x0 h y0 k)", ["sampleAx2_s", "sampleAx2_v", "sampleAx2_t"])
CART3 = Grid([("x0", "h", "i", "ξ", "x"), ("y0", "k", "j", "η", "y"), ("z0", "l", "m", "ζ", "z")],
             "List Int → ℝ → ℝ → ℝ → ℝ", "(sampleAx3 F x0 h y0 k z0 l)",
             ["sampleAx3_s", "sampleAx3_v", "sampleAx3_t"])

RAD = "(fun n => x0 + (n:ℝ) * h)"   # the radius function of a radial lattice


def suffix(comp):
    s = re.sub(r"[^\w]", "", comp.replace("(c:Int)", "c"))
    return ("_" + s) if s else ""


class Thm:
    """collects hypotheses while the trees of one theorem are built"""

    def __init__(self, grid):
        self.g = grid
        self.cd = {}      # (comp, axis) -> max order
        self.order = []   # first-use order of (comp, axis)
        self.bd = []      # (comp, axis, k)

    # ---- the restriction of component `comp` along `axis` through the lattice point
    def lam(self, comp, axis):
        g = self.g
        pts = [a[3] for a in g.axes]
        if axis == g.n - 1:
            return "(" + " ".join([f"F {comp}"] + pts[:-1]) + ")" if g.n > 1 else f"(F {comp})"
        args = [("s" if t == axis else pts[t]) for t in range(g.n)]
        return "(fun s => " + " ".join([f"F {comp}"] + args) + ")"

    def at(self, comp, axis, x):
        """value of the restriction at x (beta-reduced form)"""
        g = self.g
        pts = [a[3] for a in g.axes]
        args = [(x if t == axis else pts[t]) for t in range(g.n)]
        return app(f"F {comp}", *args)

    def here(self, comp):
        return self.at(comp, 0, self.g.axes[0][3])

    def D(self, k, comp, axis):
        """k-th partial derivative along `axis` at the lattice point"""
        return app(f"iteratedDeriv {k} {self.lam(comp, axis)}", self.g.axes[axis][3])

    def _names(self, comp, axis):
        return self.g.axes[axis][4] + suffix(comp)

    def need_cd(self, comp, axis, n):
        key = (comp, axis)
        if key not in self.cd:
            self.order.append(key)
            self.cd[key] = n
        self.cd[key] = max(self.cd[key], n)
        return f"%CD§{comp}§{axis}§{n}%"     # patched when the final order is known

    def need_bd(self, comp, axis, k):
        if (comp, axis, k) not in self.bd:
            self.bd.append((comp, axis, k))
        g = self.g
        nm = f"hM{k}{self._names(comp, axis)}"
        pts = [a[3] for a in g.axes]
        if g.n == 1:
            return f"M{k}{self._names(comp, axis)}", nm
        if axis == g.n - 1:
            return f"M{k}{self._names(comp, axis)}", "(" + " ".join([nm] + pts[:-1]) + ")"
        args = [("t" if t == axis else pts[t]) for t in range(g.n)]
        return f"M{k}{self._names(comp, axis)}", "(fun t => " + " ".join([nm] + args) + ")"

    def cd_proof(self, comp, axis, n):
        g = self.g
        N = self.cd[(comp, axis)]
        nm = f"hF{self._names(comp, axis)}"
        others = [a[3] for t, a in enumerate(g.axes) if t != axis]
        base = "(" + " ".join([nm] + others) + ")" if others else nm
        return base if n == N else f"(({base}).of_le (by norm_num))"

    def binders(self):
        g = self.g
        out = []
        letters = [a[4] or "y" for a in g.axes]
        for comp, axis in self.order:
            N = self.cd[(comp, axis)]
            nm = f"hF{self._names(comp, axis)}"
            others = [letters[t] for t in range(g.n) if t != axis]
            if axis == g.n - 1:
                fn = "(" + " ".join([f"F {comp}"] + others) + ")" if g.n > 1 else f"(F {comp})"
            else:
                args = [("s" if t == axis else letters[t]) for t in range(g.n)]
                fn = "(fun s => " + " ".join([f"F {comp}"] + args) + ")"
            q = f"∀ {' '.join(others)}, " if others else ""
            out.append(f"({nm} : {q}ContDiff ℝ {N} {fn})")
        ms = []
        for comp, axis, k in self.bd:
            M = f"M{k}{self._names(comp, axis)}"
            nm = f"hM{k}{self._names(comp, axis)}"
            others = [letters[t] for t in range(g.n) if t != axis]
            if axis == g.n - 1:
                fn = "(" + " ".join([f"F {comp}"] + others) + ")" if g.n > 1 else f"(F {comp})"
            else:
                args = [("s" if t == axis else letters[t]) for t in range(g.n)]
                fn = "(fun s => " + " ".join([f"F {comp}"] + args) + ")"
            ms.append(M)
            out.append(f"({nm} : ∀ {' '.join(letters)}, |iteratedDeriv {k} {fn} {letters[axis]}| ≤ {M})")
        if ms:
            out.insert(len(self.order), "(" + " ".join(ms) + " : ℝ)")
        return out

    # ---- atoms
    def _pt(self, axis):
        a = self.g.axes[axis]
        return a[3], a[1]

    def d1c(self, comp, axis=0):
        x, h = self._pt(axis)
        cd = self.need_cd(comp, axis, 3)
        M, hM = self.need_bd(comp, axis, 3)
        f = lambda t: self.at(comp, axis, t)
        expr = esub(ediv(esub(f(f"{x} + {h}"), f(f"{x} - {h}")), mk(f"(2 * {h})")), self.D(1, comp, axis))
        return Node(expr, mk(f"{M} * {h}^2 / 6"), {f"{h}^2": E(f"{M} / 6", MUL)},
                    f"(d1_central_fun_taylor {self.lam(comp, axis)} {cd} {M} {hM} {x} {h} h{h})")

    def d2(self, comp, axis=0):
        x, h = self._pt(axis)
        cd = self.need_cd(comp, axis, 4)
        M, hM = self.need_bd(comp, axis, 4)
        f = lambda t: self.at(comp, axis, t)
        num = eadd(esub(f(f"{x} + {h}"), emul(mk("2"), f(x))), f(f"{x} - {h}"))
        expr = esub(ediv(num, mk(f"({h} * {h})")), self.D(2, comp, axis))
        return Node(expr, mk(f"{M} * {h}^2 / 12"), {f"{h}^2": E(f"{M} / 12", MUL)},
                    f"(d2_fun_taylor {self.lam(comp, axis)} {cd} {M} {hM} {x} {h} h{h})")

    def d2b(self, comp, axis=0):
        """the second difference quotient itself, bounded by the bound of f''"""
        x, h = self._pt(axis)
        cd = self.need_cd(comp, axis, 2)
        M, hM = self.need_bd(comp, axis, 2)
        f = lambda t: self.at(comp, axis, t)
        num = eadd(esub(f(f"{x} + {h}"), emul(mk("2"), f(x))), f(f"{x} - {h}"))
        expr = ediv(num, mk(f"({h} * {h})"))
        return Node(expr, mk(M), {"1": mk(M)},
                    f"(d2_fun_bounded {self.lam(comp, axis)} {cd} {M} {hM} {x} {h} h{h})")

    def d1f(self, comp, axis=0):
        x, h = self._pt(axis)
        cd = self.need_cd(comp, axis, 2)
        M, hM = self.need_bd(comp, axis, 2)
        f = lambda t: self.at(comp, axis, t)
        expr = esub(ediv(esub(f(f"{x} + {h}"), f(x)), mk(h)), self.D(1, comp, axis))
        return Node(expr, mk(f"{M} * |{h}| / 2"), {f"|{h}|": E(f"{M} / 2", MUL)},
                    f"(d1_forward_fun_taylor {self.lam(comp, axis)} {cd} {M} {hM} {x} {h} h{h})")

    def d1b(self, comp, axis=0):
        x, h = self._pt(axis)
        cd = self.need_cd(comp, axis, 2)
        M, hM = self.need_bd(comp, axis, 2)
        f = lambda t: self.at(comp, axis, t)
        expr = esub(ediv(esub(f(x), f(f"{x} - {h}")), mk(h)), self.D(1, comp, axis))
        return Node(expr, mk(f"{M} * |{h}| / 2"), {f"|{h}|": E(f"{M} / 2", MUL)},
                    f"(d1_backward_fun_taylor {self.lam(comp, axis)} {cd} {M} {hM} {x} {h} h{h})")

    def d1sq(self, central, comp, axis=0):
        x, h = self._pt(axis)
        cd = self.need_cd(comp, axis, 3)
        M3, hM3 = self.need_bd(comp, axis, 3)
        f = lambda t: self.at(comp, axis, t)
        d1 = self.D(1, comp, axis)
        if central:
            t = esub(f(f"{x} + {h}"), f(f"{x} - {h}"))
            expr = esub(ediv(emul(t, t), mk(f"(4 * ({h} * {h}))")), epow(d1, 2))
            return Node(expr, mk(f"{M3} * {h}^2 / 6 * ({M3} * {h}^2 / 6 + 2 * |{d1}|)"),
                        {f"{h}^2": E(f"{M3} / 6 * ({M3} * {h}^2 / 6 + 2 * |{d1}|)", MUL)},
                        f"(d1sq_central_fun_taylor {self.lam(comp, axis)} {cd} _ {M3} {hM3} {x} {h} h{h} (le_refl _))")
        M2, hM2 = self.need_bd(comp, axis, 2)
        fw = esub(f(f"{x} + {h}"), f(x))
        bw = esub(f(x), f(f"{x} - {h}"))
        expr = esub(ediv(eadd(emul(fw, fw), emul(bw, bw)), mk(f"(2 * ({h} * {h}))")), epow(d1, 2))
        return Node(expr, mk(f"{M3} * {h}^2 / 6 * ({M3} * {h}^2 / 6 + 2 * |{d1}|) + {M2}^2 * {h}^2 / 4"),
                    {f"{h}^2": E(f"{M3} / 6 * ({M3} * {h}^2 / 6 + 2 * |{d1}|) + {M2}^2 / 4", ADD)},
                    f"(d1sq_onesided_fun_taylor {self.lam(comp, axis)} {cd} _ {M2} {M3} {hM2} {hM3} {x} {h} h{h} (le_refl _))")


# --------------------------------------------------------------------------------------------
def theorem(name, doc, grid, ops, comps, need_r=True, conservative=False, th=None, extra=None):
    """comps: list of (lhs, continuum, tree | None) - `None`: the stencil equals the continuum exactly.
    lhs/continuum are Lean strings; `th` the Thm used to build the trees."""
    g = grid
    out = [f"/-- {doc} -/"]
    sig = [f"(F : {g.ftype})"] + ([extra] if extra else []) + th.binders()
    axes = g.axes
    sig.append("(" + " ".join(f"{a[0]} {a[1]}" for a in axes) + " : ℝ)")
    sig += [f"(h{a[1]} : {a[1]} ≠ 0)" for a in axes]
    sig.append("(" + " ".join(a[2] for a in axes) + " : Int)")
    sig.append("(" + " ".join(a[3] for a in axes) + " : ℝ)")
    sig += [f"(h{a[3]} : {a[3]} = {a[0]} + ({a[2]}:ℝ) * {a[1]})" for a in axes]
    if need_r:
        sig.append(f"(hr : {axes[0][3]} ≠ 0)")
    # wrap the signature
    lines, cur = [], f"theorem {name}"
    for b in sig:
        if len(cur) + len(b) > 108:
            lines.append(cur)
            cur = "    " + b
        else:
            cur += " " + b
    lines.append(cur + " :")
    out += lines
    stmts = []
    for lhs, cont, tree in comps:
        if tree is None:
            stmts.append(f"{lhs} = {cont}")
        else:
            if "1" in tree.fact:
                raise ValueError(f"{name}: an order-0 term survives in the bound")
            pretty = " + ".join(f"{c.at(MUL)} * {H}" for H, c in tree.fact.items())
            stmts.append(f"|{lhs}\n        - ({cont})|\n      ≤ {pretty}")
    out.append("    " + " ∧\n    ".join(stmts) + " := by")
    for a in axes:
        o, s, n, p = a[:4]
        out.append(f"  have e0{n} : {o} + ({n}:ℝ) * {s} = {p} := h{p}.symm")
        out.append(f"  have e1{n} : {o} + (({n}:ℝ) + 1) * {s} = {p} + {s} := by rw [h{p}]; ring")
        out.append(f"  have e2{n} : {o} + (({n}:ℝ) - 1) * {s} = {p} - {s} := by rw [h{p}]; ring")
        out.append(f"  have e3{n} : {o} + (({n}:ℝ) + -1) * {s} = {p} - {s} := by rw [h{p}]; ring")
    es = ", ".join(f"e0{a[2]}, e1{a[2]}, e2{a[2]}, e3{a[2]}" for a in axes)
    if conservative:
        out.append("  have eV : ((ρ + h / 2) * (ρ + h / 2) * (ρ + h / 2) - (ρ - h / 2) * (ρ - h / 2) * (ρ - h / 2)) / 3")
        out.append("      = h * (h^2 + 12 * ρ^2) / 12 := by ring")
        out.append("  have hQ : h^2 + ρ^2 * 12 ≠ 0 := by positivity")
        out.append("  have hQ' : h^2 + 12 * ρ^2 ≠ 0 := by positivity")
        es += ", eV"
    script = [f"stencil_split [{ops}, {', '.join(g.slemmas)}] [{es}]"]
    if len(comps) > 1:
        out.append("  refine ⟨" + ", ".join("?_" for _ in comps) + "⟩")
    for lhs, cont, tree in comps:
        ind = "  · " if len(comps) > 1 else "  "
        cont_ind = "    " if len(comps) > 1 else "  "
        if tree is None:
            out.append(ind + script[0])
            out += [cont_ind + s for s in script[1:]]
            continue
        out.append(ind + f"have split : {lhs}")
        out.append(cont_ind + f"      - ({cont})")
        out.append(cont_ind + f"    = {tree.expr} := by")
        out += [cont_ind + "  " + s for s in script]
        out.append(cont_ind + "rw [split]")
        proof = tree.proof
        proof = re.sub(r"%CD§([^§%]*)§(\d+)§(\d+)%",
                       lambda mm: th.cd_proof(mm.group(1), int(mm.group(2)), int(mm.group(3))), proof)
        out.append(cont_ind + f"exact le_trans {proof}")
        out.append(cont_ind + "  (le_of_eq (by ring))")
    return "\n".join(out) + "\n"


# --------------------------------------------------------------------------------------------
# the operators
def one_axis():
    g = AX1
    S = g.sample
    T = []
    s, v0, v1 = "[]", "[0]", "[1]"
    Q = "(h^2 + 12 * ρ^2)"

    # ---------------- polar
    th = Thm(g)
    T.append(theorem(
        "polarLaplace_smooth",
        "**polar Laplacian** `f'' + f'/r` on every C4 radial field: error at most `(M4/12 + M3/(6|ρ|)) h²`", g,
        "polarLaplace",
        [(f"polarLaplace {RAD} h {S} i", f"{th.D(2, s, 0)} + {th.D(1, s, 0)} / ρ",
          add(th.d2(s), div(th.d1c(s), "ρ")))], th=th))

    for central, nm in ((True, "d1sq_smooth"), (False, "d1sq_onesided_smooth")):
        th = Thm(g)
        T.append(theorem(
            nm, "the model's squared first derivative (`gradient_squared` building block), "
            + ("`central=True`: error at most `(M3/6)(M3 h²/6 + 2|f'|) h²`" if central else
               "`central=False` (mean of the squared forward and backward differences): still second order, "
               "error at most `((M3/6)(M3 h²/6 + 2|f'|) + M2²/4) h²`"), g, "d1sq",
            [(f"d1sq {'true' if central else 'false'} h {S} [i] 0", f"({th.D(1, s, 0)})^2", th.d1sq(central, s, 0))],
            need_r=False, th=th))

    for fam in ("polar", "sph"):
        th = Thm(g)
        T.append(theorem(
            f"{fam}Gradient_smooth",
            f"**{'polar' if fam == 'polar' else 'spherical'} gradient** (central): radial component `f'` to second order, "
            "the angular component(s) vanish", g, f"{fam}Gradient",
            [(f"{fam}Gradient .central h {S} 0 i", f"{th.D(1, s, 0)}", th.d1c(s)),
             (f"{fam}Gradient .central h {S} 1 i", "0", None)]
            + ([(f"{fam}Gradient .central h {S} 2 i", "0", None)] if fam == "sph" else []),
            need_r=False, th=th))
        th = Thm(g)
        T.append(theorem(
            f"{fam}Gradient_onesided_smooth",
            f"{fam} gradient, `forward` and `backward` variants: first order, error at most `M2 |h|/2`", g,
            f"{fam}Gradient",
            [(f"{fam}Gradient .forward h {S} 0 i", f"{th.D(1, s, 0)}", th.d1f(s)),
             (f"{fam}Gradient .backward h {S} 0 i", f"{th.D(1, s, 0)}", th.d1b(s))],
            need_r=False, th=th))
        if fam == "polar":
            polar_rest(T, g, S)
    sph_rest(T, g, S, Q)
    return T


def polar_rest(T, g, S):
    v0, v1 = "[0]", "[1]"
    th = Thm(g)
    T.append(theorem(
        "polarDivergence_smooth",
        "**polar divergence** `v_r' + v_r/r` (components `(r, φ)`)", g, "polarDivergence",
        [(f"polarDivergence {RAD} h {S} i", f"{th.D(1, v0, 0)} + {th.here(v0)} / ρ", th.d1c(v0))], th=th))
    th = Thm(g)
    T.append(theorem(
        "polarVectorGradient_smooth",
        "**polar vector gradient**, all four components `out[i,j] = (∇v)_ij`: `∂_r v_r`, `-v_φ/r`, `∂_r v_φ`, `v_r/r`",
        g, "polarVectorGradient",
        [(f"polarVectorGradient {RAD} h {S} 0 0 i", f"{th.D(1, v0, 0)}", th.d1c(v0)),
         (f"polarVectorGradient {RAD} h {S} 0 1 i", f"-({th.here(v1)}) / ρ", None),
         (f"polarVectorGradient {RAD} h {S} 1 0 i", f"{th.D(1, v1, 0)}", th.d1c(v1)),
         (f"polarVectorGradient {RAD} h {S} 1 1 i", f"{th.here(v0)} / ρ", None)], th=th))
    th = Thm(g)
    T.append(theorem(
        "polarTensorDivergence_smooth",
        "**polar tensor divergence** `(∇·T)_i = ∂_j T_ij + curvature`: `r`: `∂_r T_rr + (T_rr - T_φφ)/r`, "
        "`φ`: `∂_r T_φr + (T_rφ + T_φr)/r`", g, "polarTensorDivergence",
        [(f"polarTensorDivergence {RAD} h {S} 0 i",
          f"{th.D(1, '[0, 0]', 0)} + ({th.here('[0, 0]')} - {th.here('[1, 1]')}) / ρ", th.d1c("[0, 0]")),
         (f"polarTensorDivergence {RAD} h {S} 1 i",
          f"{th.D(1, '[1, 0]', 0)} + ({th.here('[0, 1]')} + {th.here('[1, 0]')}) / ρ", th.d1c("[1, 0]"))], th=th))


def cons_div_tree(th, comp, extra=None):
    """conservative divergence of the radial function `comp` against `v' + 2v/r`:
    [(12ρ²+3h²) A1 + 6 ρ h² D2 + 2 h² v' - 2 h² v/ρ] / (h² + 12ρ²)"""
    t = add(mulnn("(12 * ρ^2 + 3 * h^2)", th.d1c(comp)), mulnn("6", mul("ρ", hsq(th.d2b(comp)))))
    t = add(t, mulnn("2", hsq(val(th.D(1, comp, 0)))))
    t = sub(t, mulnn("2", hsq(div(val(th.here(comp)), "ρ"))))
    if extra is not None:
        t = add(t, extra)
    return divnn(t, "(h^2 + 12 * ρ^2)")


def sph_rest(T, g, S, Q):
    s, v0 = "[]", "[0]"
    th = Thm(g)
    T.append(theorem(
        "sphLaplace_plain_smooth",
        "**plain spherical Laplacian** `f'' + 2f'/r`: error at most `(M4/12 + 2·M3/(6|ρ|)) h²`", g, "sphLaplace",
        [(f"sphLaplace false {RAD} h {S} i", f"{th.D(2, s, 0)} + 2 * {th.D(1, s, 0)} / ρ",
          add(th.d2(s), mulnn("2", div(th.d1c(s), "ρ"))))], th=th))
    th = Thm(g)
    tree = divnn(sub(add(add(mulnn("(12 * ρ^2 + 3 * h^2)", th.d2(s)), mulnn("24", mul("ρ", th.d1c(s)))),
                         mulnn("2", hsq(val(th.D(2, s, 0))))),
                     mulnn("2", hsq(div(val(th.D(1, s, 0)), "ρ")))), Q)
    T.append(theorem(
        "sphLaplace_conservative_smooth",
        "**conservative (flux form) spherical Laplacian** against `f'' + 2f'/r`: the error is "
        "`[(12ρ²+3h²) E₂ + 24 ρ E₁ + 2h² f'' - 2h² f'/ρ] / (h² + 12ρ²)` with the building-block errors `E₂`, `E₁`", g,
        "sphLaplace",
        [(f"sphLaplace true {RAD} h {S} i", f"{th.D(2, s, 0)} + 2 * {th.D(1, s, 0)} / ρ", tree)],
        conservative=True, th=th))
    # divergence
    th = Thm(g)
    T.append(theorem(
        "sphDivergence_plain_smooth", "**plain spherical divergence** `v_r' + 2 v_r/r` (central)", g, "sphDivergence",
        [(f"sphDivergence false .central {RAD} h {S} i", f"{th.D(1, v0, 0)} + 2 * {th.here(v0)} / ρ", th.d1c(v0))],
        th=th))
    th = Thm(g)
    T.append(theorem(
        "sphDivergence_plain_onesided_smooth", "plain spherical divergence, `forward`/`backward`: first order", g,
        "sphDivergence",
        [(f"sphDivergence false .forward {RAD} h {S} i", f"{th.D(1, v0, 0)} + 2 * {th.here(v0)} / ρ", th.d1f(v0)),
         (f"sphDivergence false .backward {RAD} h {S} i", f"{th.D(1, v0, 0)} + 2 * {th.here(v0)} / ρ", th.d1b(v0))],
        th=th))
    th = Thm(g)
    T.append(theorem(
        "sphDivergence_conservative_smooth",
        "**conservative spherical divergence** (central) against `v_r' + 2 v_r/r`: error "
        "`[(12ρ²+3h²) E₁ + 6 ρ h² D₂v + 2h² v' - 2h² v/ρ] / (h² + 12ρ²)`, `D₂v` the second difference quotient (`|D₂v| ≤ M2`)",
        g, "sphDivergence",
        [(f"sphDivergence true .central {RAD} h {S} i", f"{th.D(1, v0, 0)} + 2 * {th.here(v0)} / ρ",
          cons_div_tree(th, v0))], conservative=True, th=th))
    th = Thm(g)
    fwd = divnn(sub(add(mulnn("12", mulnn("(ρ + h / 2)^2", th.d1f(v0))),
                        hmul(mul("(12 * ρ + 2 * h)", val(th.D(1, v0, 0))))),
                    mulnn("2", hmul(mul("h", div(val(th.here(v0)), "ρ"))))), Q)
    bwd = divnn(sub(add(mulnn("12", mulnn("(ρ - h / 2)^2", th.d1b(v0))),
                        hmul(mul("(2 * h - 12 * ρ)", val(th.D(1, v0, 0))))),
                    mulnn("2", hmul(mul("h", div(val(th.here(v0)), "ρ"))))), Q)
    T.append(theorem(
        "sphDivergence_conservative_onesided_smooth",
        "conservative spherical divergence, `forward`/`backward` variants: first order (every term carries `|h|`)", g,
        "sphDivergence",
        [(f"sphDivergence true .forward {RAD} h {S} i", f"{th.D(1, v0, 0)} + 2 * {th.here(v0)} / ρ", fwd),
         (f"sphDivergence true .backward {RAD} h {S} i", f"{th.D(1, v0, 0)} + 2 * {th.here(v0)} / ρ", bwd)],
        conservative=True, th=th))
    # vector gradient
    th = Thm(g)
    zeros = [(a, b) for a in range(3) for b in range(3) if a != b]
    T.append(theorem(
        "sphVectorGradient_smooth",
        "**spherical vector gradient** of a radial field: `(∇v)_rr = v_r'` (second order), "
        "`(∇v)_θθ = (∇v)_φφ = v_r/r` (exact), all off-diagonal components vanish", g, "sphVectorGradient",
        [(f"sphVectorGradient .central {RAD} h {S} 0 0 i", f"{th.D(1, v0, 0)}", th.d1c(v0)),
         (f"sphVectorGradient .central {RAD} h {S} 1 1 i", f"{th.here(v0)} / ρ", None),
         (f"sphVectorGradient .central {RAD} h {S} 2 2 i", f"{th.here(v0)} / ρ", None)]
        + [(f"sphVectorGradient .central {RAD} h {S} {a} {b} i", "0", None) for a, b in zeros], th=th))
    th = Thm(g)
    T.append(theorem(
        "sphVectorGradient_onesided_smooth", "spherical vector gradient, `forward`/`backward`: `rr` component first order",
        g, "sphVectorGradient",
        [(f"sphVectorGradient .forward {RAD} h {S} 0 0 i", f"{th.D(1, v0, 0)}", th.d1f(v0)),
         (f"sphVectorGradient .backward {RAD} h {S} 0 0 i", f"{th.D(1, v0, 0)}", th.d1b(v0))], need_r=False, th=th))
    # tensor divergence
    a, b = "[0, 0]", "[2, 2]"
    th = Thm(g)
    T.append(theorem(
        "sphTensorDivergence_plain_smooth",
        "**plain spherical tensor divergence** (components `(r, θ, φ)`): `r`: `∂_r T_rr + 2 (T_rr - T_φφ)/r`, "
        "`θ`: `∂_r T_θr + 2 T_θr/r`, `φ`: `∂_r T_φr + (2 T_φr + T_rφ)/r`", g, "sphTensorDivergence",
        [(f"sphTensorDivergence false {RAD} h {S} 0 i",
          f"{th.D(1, a, 0)} + 2 * ({th.here(a)} - {th.here(b)}) / ρ", th.d1c(a)),
         (f"sphTensorDivergence false {RAD} h {S} 1 i",
          f"{th.D(1, '[1, 0]', 0)} + 2 * {th.here('[1, 0]')} / ρ", th.d1c("[1, 0]")),
         (f"sphTensorDivergence false {RAD} h {S} 2 i",
          f"{th.D(1, '[2, 0]', 0)} + (2 * {th.here('[2, 0]')} + {th.here('[0, 2]')}) / ρ", th.d1c("[2, 0]"))],
        th=th))
    th = Thm(g)
    T.append(theorem(
        "sphTensorDivergence_conservative_smooth",
        "**conservative spherical tensor divergence**, radial component, against `∂_r T_rr + 2 (T_rr - T_φφ)/r`", g,
        "sphTensorDivergence",
        [(f"sphTensorDivergence true {RAD} h {S} 0 i",
          f"{th.D(1, a, 0)} + 2 * ({th.here(a)} - {th.here(b)}) / ρ",
          cons_div_tree(th, a, extra=mulnn("2", hsq(div(val(th.here(b)), "ρ")))))], conservative=True, th=th))
    # double divergence
    cont = (f"{{D2a}} + 4 * {{D1a}} / ρ + 2 * {{a}} / ρ^2 - 2 * {{D1b}} / ρ - 2 * {{b}} / ρ^2")
    th = Thm(g)
    c = cont.format(D2a=th.D(2, a, 0), D1a=th.D(1, a, 0), a=th.here(a), D1b=th.D(1, b, 0), b=th.here(b))
    T.append(theorem(
        "sphTensorDoubleDivergence_plain_smooth",
        "**plain spherical tensor double divergence** `∇·(∇·T)` for `T = diag(T_rr, T_φφ, T_φφ)`: "
        "`T_rr'' + 4 T_rr'/r + 2 T_rr/r² - 2 T_φφ'/r - 2 T_φφ/r²`", g, "sphTensorDoubleDivergence",
        [(f"sphTensorDoubleDivergence false {RAD} h {S} i", c,
          sub(add(th.d2(a), mulnn("4", div(th.d1c(a), "ρ"))), mulnn("2", div(th.d1c(b), "ρ"))))], th=th))
    th = Thm(g)
    c = cont.format(D2a=th.D(2, a, 0), D1a=th.D(1, a, 0), a=th.here(a), D1b=th.D(1, b, 0), b=th.here(b))
    t = add(mulnn("(12 * ρ^2 + 9 * h^2)", th.d2(a)), mulnn("48", mul("ρ", th.d1c(a))))
    t = sub(t, mulnn("24", mul("ρ", th.d1c(b))))
    t = sub(t, mulnn("6", hsq(th.d2b(b))))
    t = add(t, mulnn("8", hsq(val(th.D(2, a, 0)))))
    t = sub(t, mulnn("4", hsq(div(val(th.D(1, a, 0)), "ρ"))))
    t = sub(t, mulnn("2", hsq(divnn(val(th.here(a)), "ρ^2"))))
    t = add(t, mulnn("2", hsq(div(val(th.D(1, b, 0)), "ρ"))))
    t = add(t, mulnn("2", hsq(divnn(val(th.here(b)), "ρ^2"))))
    T.append(theorem(
        "sphTensorDoubleDivergence_conservative_smooth",
        "**conservative spherical tensor double divergence** against the same continuum operator", g,
        "sphTensorDoubleDivergence",
        [(f"sphTensorDoubleDivergence true {RAD} h {S} i", c, divnn(t, Q))], conservative=True, th=th))


def two_axis_cyl():
    g = CYL
    S = g.sample
    T = []
    s = "[]"
    th = Thm(g)
    T.append(theorem(
        "cylLaplace_smooth",
        "**cylindrical Laplacian** `f_rr + f_r/r + f_zz` on every field whose restrictions to the axes are C4: "
        "error at most `(M4r/12 + M3r/(6|ρ|)) h² + (M4z/12) k²` (anisotropic spacings `h`, `k`)", g, "cylLaplace",
        [(f"cylLaplace {RAD} h k {S} i j", f"{th.D(2, s, 0)} + {th.D(1, s, 0)} / ρ + {th.D(2, s, 1)}",
          add(add(th.d2(s, 0), div(th.d1c(s, 0), "ρ")), th.d2(s, 1)))], th=th))
    th = Thm(g)
    T.append(theorem(
        "cylGradient_smooth", "**cylindrical gradient**, components `(r, z, φ)`: `∂_r f`, `∂_z f`, `0`", g,
        "cylGradient",
        [(f"cylGradient h k {S} 0 i j", f"{th.D(1, s, 0)}", th.d1c(s, 0)),
         (f"cylGradient h k {S} 1 i j", f"{th.D(1, s, 1)}", th.d1c(s, 1)),
         (f"cylGradient h k {S} 2 i j", "0", None)], need_r=False, th=th))
    for central, nm in ((True, "cylGradientSquared_smooth"), (False, "cylGradientSquared_onesided_smooth")):
        th = Thm(g)
        T.append(theorem(
            nm, "**cylindrical `gradient_squared`** `(∂_r f)² + (∂_z f)²`, "
            + ("`central=True`: the square of the central differences"
               if central else "`central=False` (mean of squared forward and backward differences): still second order"),
            g, "cylGradientSquared",
            [(f"cylGradientSquared {'true' if central else 'false'} h k {S} i j",
              f"({th.D(1, s, 0)})^2 + ({th.D(1, s, 1)})^2", add(th.d1sq(central, s, 0), th.d1sq(central, s, 1)))],
            need_r=False, th=th))
    th = Thm(g)
    T.append(theorem(
        "cylDivergence_smooth", "**cylindrical divergence** `v_r/r + ∂_r v_r + ∂_z v_z` (components `(r, z, φ)`)", g,
        "cylDivergence",
        [(f"cylDivergence {RAD} h k {S} i j", f"{th.here('[0]')} / ρ + {th.D(1, '[0]', 0)} + {th.D(1, '[1]', 1)}",
          add(th.d1c("[0]", 0), th.d1c("[1]", 1)))], th=th))
    th = Thm(g)
    comps = []
    for c1 in (0, 1, 2):
        comps.append((f"cylVectorGradient {RAD} h k {S} {c1} 0 i j", f"{th.D(1, f'[{c1}]', 0)}", th.d1c(f"[{c1}]", 0)))
        comps.append((f"cylVectorGradient {RAD} h k {S} {c1} 1 i j", f"{th.D(1, f'[{c1}]', 1)}", th.d1c(f"[{c1}]", 1)))
    comps.append((f"cylVectorGradient {RAD} h k {S} 0 2 i j", f"-({th.here('[2]')}) / ρ", None))
    comps.append((f"cylVectorGradient {RAD} h k {S} 1 2 i j", "0", None))
    comps.append((f"cylVectorGradient {RAD} h k {S} 2 2 i j", f"{th.here('[0]')} / ρ", None))
    T.append(theorem(
        "cylVectorGradient_smooth",
        "**cylindrical vector gradient**, all nine components `out[i,j] = (∇v)_ij` in the order `(r, z, φ)`: "
        "`∂_r v_i`, `∂_z v_i` to second order; `(∇v)_rφ = -v_φ/r`, `(∇v)_zφ = 0`, `(∇v)_φφ = v_r/r` exactly", g,
        "cylVectorGradient", comps, th=th))
    th = Thm(g)
    comps = []
    for c in (0, 1, 2):
        v = f"[{c}]"
        cont = f"{th.D(2, v, 0)} + {th.D(1, v, 0)} / ρ + {th.D(2, v, 1)}"
        if c != 1:
            cont += f" - {th.here(v)} / ρ^2"
        comps.append((f"cylVectorLaplace {RAD} h k {S} {c} i j", cont,
                      add(add(th.d2(v, 1), div(th.d1c(v, 0), "ρ")), th.d2(v, 0))))
    T.append(theorem(
        "cylVectorLaplace_smooth",
        "**cylindrical vector Laplacian**: `(Δv)_r = Δv_r - v_r/r²`, `(Δv)_z = Δv_z`, `(Δv)_φ = Δv_φ - v_φ/r²` with "
        "`Δ = ∂_rr + ∂_r/r + ∂_zz`; error at most `(M4r/12 + M3r/(6|ρ|)) h² + (M4z/12) k²`: second order at any fixed "
        "distance from the axis, first order in the cells adjoining it (`|ρ| ~ h`)", g, "cylVectorLaplace", comps, th=th))
    th = Thm(g)
    T.append(theorem(
        "cylTensorDivergence_smooth",
        "**cylindrical tensor divergence** `(∇·T)_i = ∂_j T_ij + curvature` in the order `(r, z, φ)`: "
        "`r`: `∂_z T_rz + ∂_r T_rr + (T_rr - T_φφ)/r`, `z`: `∂_z T_zz + ∂_r T_zr + T_zr/r`, "
        "`φ`: `∂_z T_φz + ∂_r T_φr + (T_rφ + T_φr)/r`", g, "cylTensorDivergence",
        [(f"cylTensorDivergence {RAD} h k {S} 0 i j",
          f"{th.D(1, '[0, 1]', 1)} + {th.D(1, '[0, 0]', 0)} + ({th.here('[0, 0]')} - {th.here('[2, 2]')}) / ρ",
          add(th.d1c("[0, 1]", 1), th.d1c("[0, 0]", 0))),
         (f"cylTensorDivergence {RAD} h k {S} 1 i j",
          f"{th.D(1, '[1, 1]', 1)} + {th.D(1, '[1, 0]', 0)} + {th.here('[1, 0]')} / ρ",
          add(th.d1c("[1, 1]", 1), th.d1c("[1, 0]", 0))),
         (f"cylTensorDivergence {RAD} h k {S} 2 i j",
          f"{th.D(1, '[2, 1]', 1)} + {th.D(1, '[2, 0]', 0)} + ({th.here('[0, 2]')} + {th.here('[2, 0]')}) / ρ",
          add(th.d1c("[2, 1]", 1), th.d1c("[2, 0]", 0)))], th=th))
    return T


def nsum(nodes):
    t = nodes[0]
    for x in nodes[1:]:
        t = add(t, x)
    return t


def cartesian():
    T = []
    s = "[]"
    grids = {1: CART1, 2: CART2, 3: CART3}
    sp = {1: "[i]", 2: "[i, j]", 3: "[i, j, m]"}
    dx = {1: "[h]", 2: "[h, k]", 3: "[h, k, l]"}
    # Laplacians
    for n in (1, 2, 3):
        g = grids[n]
        th = Thm(g)
        T.append(theorem(
            f"cartLaplace{n}_smooth",
            f"**Cartesian Laplacian on {n} ax{'is' if n == 1 else 'es'}** (anisotropic spacings): error at most "
            "`Σ_axes (M4/12) dx²`", g, "cartLaplace",
            [(f"cartLaplace {dx[n]} {g.sample} [] {sp[n]}", " + ".join(str(th.D(2, s, a)) for a in range(n)),
              nsum([th.d2(s, a) for a in range(n)]))], need_r=False, th=th))
    g = CART3
    S = g.sample
    th = Thm(g)
    T.append(theorem(
        "cartGradient_smooth", "**Cartesian gradient** (3 axes, central): component `c` is `∂_c f` to second order", g,
        "cartGradient",
        [(f"cartGradient .central {dx[3]} {S} [] {a} {sp[3]}", f"{th.D(1, s, a)}", th.d1c(s, a)) for a in range(3)],
        need_r=False, th=th))
    th = Thm(g)
    T.append(theorem(
        "cartGradient_onesided_smooth", "Cartesian gradient, `forward` and `backward` variants: first order", g,
        "cartGradient",
        [(f"cartGradient .forward {dx[3]} {S} [] {a} {sp[3]}", f"{th.D(1, s, a)}", th.d1f(s, a)) for a in range(3)]
        + [(f"cartGradient .backward {dx[3]} {S} [] {a} {sp[3]}", f"{th.D(1, s, a)}", th.d1b(s, a)) for a in range(3)],
        need_r=False, th=th))
    for central, nm in ((True, "cartGradientSquared_smooth"), (False, "cartGradientSquared_onesided_smooth")):
        th = Thm(g)
        T.append(theorem(
            nm, "**Cartesian `gradient_squared`** `Σ (∂_c f)²` (3 axes), "
            + ("`central=True`" if central else "`central=False`: still second order"), g, "cartGradientSquared",
            [(f"cartGradientSquared {'true' if central else 'false'} {dx[3]} {S} {sp[3]}",
              " + ".join(f"({th.D(1, s, a)})^2" for a in range(3)),
              nsum([th.d1sq(central, s, a) for a in range(3)]))], need_r=False, th=th))
    for n in (2, 3):
        g = grids[n]
        th = Thm(g)
        T.append(theorem(
            f"cartDivergence{n}_smooth", f"**Cartesian divergence on {n} axes** `Σ_c ∂_c v_c` (central)", g,
            "cartDivergence",
            [(f"cartDivergence .central {dx[n]} {g.sample} [] {sp[n]}",
              " + ".join(str(th.D(1, f"[{a}]", a)) for a in range(n)),
              nsum([th.d1c(f"[{a}]", a) for a in range(n)]))], need_r=False, th=th))
        th = Thm(g)
        T.append(theorem(
            f"cartDivergence{n}_onesided_smooth", f"Cartesian divergence on {n} axes, `forward`/`backward`: first order",
            g, "cartDivergence",
            [(f"cartDivergence .forward {dx[n]} {g.sample} [] {sp[n]}",
              " + ".join(str(th.D(1, f"[{a}]", a)) for a in range(n)),
              nsum([th.d1f(f"[{a}]", a) for a in range(n)])),
             (f"cartDivergence .backward {dx[n]} {g.sample} [] {sp[n]}",
              " + ".join(str(th.D(1, f"[{a}]", a)) for a in range(n)),
              nsum([th.d1b(f"[{a}]", a) for a in range(n)]))], need_r=False, th=th))
    g = CART3
    S = g.sample
    vc = "[(c:Int)]"
    th = Thm(g)
    T.append(theorem(
        "cartVectorGradient_smooth",
        "**Cartesian vector gradient** `out[c, a] = ∂_a v_c` (3 axes, every component index `c`)", g,
        "cartVectorGradient, cartGradient",
        [(f"cartVectorGradient .central {dx[3]} {S} c {a} {sp[3]}", f"{th.D(1, vc, a)}", th.d1c(vc, a))
         for a in range(3)], need_r=False, th=th, extra="(c : Nat)"))
    th = Thm(g)
    T.append(theorem(
        "cartVectorGradient_onesided_smooth", "Cartesian vector gradient, `forward`/`backward`: first order", g,
        "cartVectorGradient, cartGradient",
        [(f"cartVectorGradient .forward {dx[3]} {S} c {a} {sp[3]}", f"{th.D(1, vc, a)}", th.d1f(vc, a))
         for a in range(3)]
        + [(f"cartVectorGradient .backward {dx[3]} {S} c {a} {sp[3]}", f"{th.D(1, vc, a)}", th.d1b(vc, a))
           for a in range(3)], need_r=False, th=th, extra="(c : Nat)"))
    th = Thm(g)
    T.append(theorem(
        "cartVectorLaplace_smooth", "**Cartesian vector Laplacian** `out[c] = Δ v_c` (3 axes, every component `c`)", g,
        "cartVectorLaplace, cartLaplace",
        [(f"cartVectorLaplace {dx[3]} {S} c {sp[3]}", " + ".join(str(th.D(2, vc, a)) for a in range(3)),
          nsum([th.d2(vc, a) for a in range(3)]))], need_r=False, th=th, extra="(c : Nat)"))
    tc = lambda a: f"[(c:Int), {a}]"
    th = Thm(g)
    T.append(theorem(
        "cartTensorDivergence_smooth",
        "**Cartesian tensor divergence** `out[c] = Σ_a ∂_a T_ca` (3 axes, every component `c`)", g,
        "cartTensorDivergence, cartDivergence",
        [(f"cartTensorDivergence .central {dx[3]} {S} c {sp[3]}",
          " + ".join(str(th.D(1, tc(a), a)) for a in range(3)), nsum([th.d1c(tc(a), a) for a in range(3)]))],
        need_r=False, th=th, extra="(c : Nat)"))
    th = Thm(g)
    T.append(theorem(
        "cartTensorDivergence_onesided_smooth", "Cartesian tensor divergence, `forward`/`backward`: first order", g,
        "cartTensorDivergence, cartDivergence",
        [(f"cartTensorDivergence .forward {dx[3]} {S} c {sp[3]}",
          " + ".join(str(th.D(1, tc(a), a)) for a in range(3)), nsum([th.d1f(tc(a), a) for a in range(3)])),
         (f"cartTensorDivergence .backward {dx[3]} {S} c {sp[3]}",
          " + ".join(str(th.D(1, tc(a), a)) for a in range(3)), nsum([th.d1b(tc(a), a) for a in range(3)]))],
        need_r=False, th=th, extra="(c : Nat)"))
    return T


# --------------------------------------------------------------------------------------------
def read(name):
    with open(os.path.join(HERE, "tools", "c01_smooth_parts", name)) as fh:
        return fh.read()


def main():
    a = read("A_preamble.lean") + "\n" + "\n".join(one_axis()) + "\n" + read("A_tail.lean")
    b = read("B_preamble.lean") + "\n" + "\n".join(two_axis_cyl() + cartesian()) + "\n" + read("B_tail.lean")
    for path, txt in ((OUT_A, a), (OUT_B, b)):
        with open(path, "w") as fh:
            fh.write(txt)
        print("wrote", path, txt.count("\ntheorem "), "theorems")


if __name__ == "__main__":
    main()
