#!/venv/bin/python
"""(re)write lean/pins/PdeVerif.Props.<M>.json = {theorem name: statement hash} for the given Props modules
(all Props modules if none is given).  Run after a deliberate change of theorem statements; the pins are
committed, and every check compares them with the compiled environment."""
import glob, json, os, subprocess, sys
HERE = os.path.dirname(os.path.dirname(os.path.abspath(__file__)))
sys.path.insert(0, HERE)
from harness.common import lean
mods = sys.argv[1:] or sorted(os.path.basename(f)[:-5] for f in glob.glob(os.path.join(HERE, "lean/PdeVerif/Props/*.lean")))
full = [f"PdeVerif.Props.{m}" for m in mods]
ok, log, _ = lean.lake_build(full)
if not ok:
    sys.exit("lake build failed:\n" + log[-2000:])
os.makedirs(lean.PINS_DIR, exist_ok=True)
by = {}
for t in lean.env_theorems(full):
    if lean.AUTO_GENERATED.match(t["name"].split(".")[-1]):
        continue
    by.setdefault(t["module"], {})[t["name"]] = t["stmt"]
for m in full:
    with open(os.path.join(lean.PINS_DIR, m + ".json"), "w") as fh:
        json.dump(dict(sorted(by.get(m, {}).items())), fh, indent=0)
    print(m, len(by.get(m, {})))
