#!/venv/bin/python
"""refresh the generated tables of DESIGN.md (between <!-- X-begin --> and <!-- X-end --> markers)"""
import os, re, subprocess
HERE = os.path.dirname(os.path.dirname(os.path.abspath(__file__)))
p = os.path.join(HERE, "DESIGN.md")
s = open(p).read()
for name, tool in (("status-table", "status_table.py"), ("seed-table", "seed_table.py")):
    out = subprocess.run([os.path.join(HERE, "tools", tool)], capture_output=True, text=True, check=True).stdout
    b, e = f"<!-- {name}-begin -->", f"<!-- {name}-end -->"
    assert b in s and e in s, name
    s = s[:s.index(b) + len(b)] + "\n" + out + s[s.index(e):]
open(p, "w").write(s)
print("refreshed")
