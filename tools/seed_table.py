#!/venv/bin/python
"""print the markdown table of seeded changes (seeded/*/meta.json) for DESIGN.md section 11.3"""
import glob, json, os
HERE = os.path.dirname(os.path.dirname(os.path.abspath(__file__)))
print("| seed | what it breaks | needs | outcome of the checks |")
print("|---|---|---|---|")
for d in sorted(glob.glob(os.path.join(HERE, "seeded", "C*"))):
    m = json.load(open(os.path.join(d, "meta.json")))
    det = "; ".join(f"{k}: {v}" for k, v in m["detected_by"].items())
    print(f"| {os.path.basename(d)} | {m['breaks']} | {m['needs']} | {det} |")
