#!/bin/bash
# usage: tools/try_seed.sh <seed-dir containing patch.diff and demo.py> <check id> [more ids]
# applies the seeded change to a scratch worktree of /repo HEAD (never to /repo itself while other jobs use it),
# runs the demonstration on the clean and on the changed tree, then the given checks against the changed tree.
set -u
SD="$(cd "$1" && pwd)"; shift
ROOT="$(cd "$(dirname "$0")/.." && pwd)"   # the checkout this script belongs to (a worktree of /verif or /verif itself)
WT=/tmp/try_seed_$$
git -C /repo worktree add -q --detach $WT HEAD || exit 2
cd $WT
echo "== demo on unchanged tree"; /venv/bin/python $SD/demo.py > /tmp/try_seed_$$.clean.log 2>&1; echo "exit $?"
# (patch_head.diff = the same slip re-created on the current /repo HEAD, for seeds whose lines a later fix rewrote)
P=$SD/patch.diff; [ -f $SD/patch_head.diff ] && ! git apply --check $SD/patch.diff 2>/dev/null && P=$SD/patch_head.diff
git apply $P || { echo "PATCH DOES NOT APPLY"; git -C /repo worktree remove --force $WT; exit 2; }
echo "== demo on changed tree"; /venv/bin/python $SD/demo.py > /tmp/try_seed_$$.mut.log 2>&1; echo "exit $?"; tail -3 /tmp/try_seed_$$.mut.log
cd "$ROOT"
for id in "$@"; do
  echo "== ./check $id against the changed tree"
  VERIF_REPO=$WT ./check $id 2>&1 | grep -E "VIOLATION|KNOWN-FINDING|BROKEN|tier=" | head -6
done
git -C /repo worktree remove --force $WT
rm -f /tmp/try_seed_$$.*.log
