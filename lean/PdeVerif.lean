import PdeVerif.Drv.All
import PdeVerif.Props.C09
