import PdeVerif.Drv.All
import PdeVerif.Props.C09
import PdeVerif.Props.C02
import PdeVerif.Props.C01
import PdeVerif.Props.C05
import PdeVerif.Props.C12
import PdeVerif.Props.C18
import PdeVerif.Props.C16
