import PdeVerif.Drv.All
