import PdeVerif.Props.C06
import Mathlib.Algebra.Order.Archimedean.Basic
import Mathlib.Algebra.Order.BigOperators.Group.List
namespace PdeVerif.Solvers
open PdeVerif
set_option linter.unusedSectionVars false

section conv
variable {K : Type} [Field K] [CharZero K]

theorem implicit_increment (a dt u t : K) (k : Nat) :
    implicitCell (linear a) dt t u (k + 1) - implicitCell (linear a) dt t u k = (a * dt) ^ (k + 2) * u := by
  induction k with
  | zero => simp only [implicitCell, implicitIter, implicitPredict, linear]; ring
  | succ k ih =>
    have : implicitCell (linear a) dt t u (k + 1 + 1) - implicitCell (linear a) dt t u (k + 1)
        = a * dt * (implicitCell (linear a) dt t u (k + 1) - implicitCell (linear a) dt t u k) := by
      simp only [implicitCell, implicitIter, linear]; ring
    rw [this, ih]; ring

theorem implicit_residual (a dt u t : K) (k : Nat) :
    (1 - a * dt) * implicitCell (linear a) dt t u (k + 1) - u
      = -(a * dt) * (implicitCell (linear a) dt t u (k + 1) - implicitCell (linear a) dt t u k) := by
  rw [implicit_increment]
  have := implicit_iterates a dt u t (k + 1)
  linear_combination this

theorem cn_increment (α a dt u t : K) (k : Nat) :
    (1 - a * dt / 2) * (cnCell α (linear a) dt t u (k + 1) - cnCell α (linear a) dt t u k)
      = (α + (1 - α) * (a * dt / 2) - 1)
        * ((1 - a * dt / 2) * cnCell α (linear a) dt t u k - (1 + a * dt / 2) * u) := by
  simp only [cnCell, cnIter, linear]; push_cast; ring

theorem cn_residual (α a dt u t : K) (k : Nat) :
    (1 - (α + (1 - α) * (a * dt / 2)))
        * ((1 - a * dt / 2) * cnCell α (linear a) dt t u (k + 1) - (1 + a * dt / 2) * u)
      = -(α + (1 - α) * (a * dt / 2)) * (1 - a * dt / 2)
        * (cnCell α (linear a) dt t u (k + 1) - cnCell α (linear a) dt t u k) := by
  have h1 := cn_increment α a dt u t k
  have h2 : (1 - a * dt / 2) * cnCell α (linear a) dt t u (k + 1) - (1 + a * dt / 2) * u
      = (α + (1 - α) * (a * dt / 2))
        * ((1 - a * dt / 2) * cnCell α (linear a) dt t u k - (1 + a * dt / 2) * u) := by
    simp only [cnCell, cnIter, linear]; push_cast; ring
  linear_combination (1 - (α + (1 - α) * (a * dt / 2))) * h2 + (α + (1 - α) * (a * dt / 2)) * h1 - (α + (1 - α) * (a * dt / 2)) * h2 + (α + (1 - α) * (a * dt / 2)) * h2
end conv

section conv2
variable {K : Type} [Field K] [LinearOrder K] [IsStrictOrderedRing K] [FloorRing K]

theorem foldl_add_eq_sum (l : List K) (c : K) : l.foldl (· + ·) c = c + l.sum := by
  induction l generalizing c with
  | nil => simp
  | cons x xs ih => simp [ih, add_assoc]

/-- the mean squared difference of two states given cell-wise: `N * msq = Σ (F u - G u)^2` -/
theorem msqDiff_map (F G : K → K) (us : List K) :
    msqDiff (us.map F) (us.map G) = (us.map (fun u => (F u - G u) * (F u - G u))).sum / (us.length : K) := by
  unfold msqDiff
  rw [zipWith_map_map, foldl_add_eq_sum]
  simp [HasNormSq.nsq]

/-- a mean squared difference below `e` bounds every cell: `(F u - G u)^2 ≤ N * e` -/
theorem cell_sq_le_of_msqDiff_lt (F G : K → K) (us : List K) (e : K)
    (h : msqDiff (us.map F) (us.map G) < e) : ∀ u ∈ us, (F u - G u) ^ 2 ≤ (us.length : K) * e := by
  intro u hu
  have hN : (0 : K) < (us.length : K) := by
    have : 0 < us.length := List.length_pos_of_mem hu
    exact_mod_cast this
  rw [msqDiff_map, div_lt_iff₀ hN] at h
  have hmem : (F u - G u) * (F u - G u) ∈ us.map (fun u => (F u - G u) * (F u - G u)) :=
    List.mem_map.mpr ⟨u, hu, rfl⟩
  have hle := List.single_le_sum (l := us.map (fun u => (F u - G u) * (F u - G u)))
    (by intro x hx; obtain ⟨v, _, rfl⟩ := List.mem_map.mp hx; exact mul_self_nonneg _) _ hmem
  calc (F u - G u) ^ 2 = (F u - G u) * (F u - G u) := by ring
    _ ≤ _ := hle
    _ ≤ (us.length : K) * e := by linarith [mul_comm e (us.length : K)]

/-- **implicit Euler, "iterations converged"**: every cell `y` of a returned state satisfies the
implicit equation `(1 - z) y = u` up to the stopping threshold:
`((1 - z) y - u)^2 ≤ z^2 * N * maxerror^2` (`N` cells, `z = a dt`), i.e. for `z ≠ 1` the returned
value is within `|z|/|1-z| * sqrt N * maxerror` of `u/(1-z)`; no contraction hypothesis -/
theorem implicitStep_converged_close (a : K) (maxiter : Nat) (maxerror dt : K) (us : List K) (t : K)
    (ys : List K) (n : Nat) (h : implicitStep (linear a) maxiter maxerror dt us t = some (ys, n)) :
    List.Forall₂ (fun y u => ((1 - a * dt) * y - u) ^ 2 ≤ (a * dt) ^ 2 * ((us.length : K) * (maxerror * maxerror)))
      ys us := by
  obtain ⟨h1, _, hy, hconv, _⟩ := implicitStep_cells (linear a) maxiter maxerror dt us t ys n h
  obtain ⟨k, rfl⟩ : ∃ k, n = k + 1 := ⟨n - 1, by omega⟩
  simp only [Nat.add_sub_cancel] at hconv
  have hc := cell_sq_le_of_msqDiff_lt _ _ us _ hconv
  rw [hy, List.forall₂_map_left_iff]
  refine List.forall₂_same.mpr (fun u hu => ?_)
  rw [implicit_residual]
  have := hc u hu
  calc (-(a * dt) * (implicitCell (linear a) dt t u (k + 1) - implicitCell (linear a) dt t u k)) ^ 2
      = (a * dt) ^ 2 * (implicitCell (linear a) dt t u (k + 1) - implicitCell (linear a) dt t u k) ^ 2 := by ring
    _ ≤ _ := mul_le_mul_of_nonneg_left this (sq_nonneg _)

/-- the same with the distance to the converged value `u / (1 - z)` -/
theorem implicitStep_converged_distance (a : K) (maxiter : Nat) (maxerror dt : K) (us : List K) (t : K)
    (ys : List K) (n : Nat) (hz : 1 - a * dt ≠ 0)
    (h : implicitStep (linear a) maxiter maxerror dt us t = some (ys, n)) :
    List.Forall₂ (fun y u => (y - u / (1 - a * dt)) ^ 2
        ≤ (a * dt / (1 - a * dt)) ^ 2 * ((us.length : K) * (maxerror * maxerror))) ys us := by
  refine (implicitStep_converged_close a maxiter maxerror dt us t ys n h).imp ?_
  intro y u hyu
  have hpos : 0 < (1 - a * dt) ^ 2 := by positivity
  have e1 : (y - u / (1 - a * dt)) ^ 2 = ((1 - a * dt) * y - u) ^ 2 / (1 - a * dt) ^ 2 := by
    field_simp
  have e2 : (a * dt / (1 - a * dt)) ^ 2 * ((us.length : K) * (maxerror * maxerror))
      = (a * dt) ^ 2 * ((us.length : K) * (maxerror * maxerror)) / (1 - a * dt) ^ 2 := by
    field_simp
  rw [e1, e2]
  exact div_le_div_of_nonneg_right hyu hpos.le

/-- **Crank-Nicolson, "iterations converged"**: every cell `y` of a returned state satisfies the
Crank-Nicolson equation `(1 - z/2) y = (1 + z/2) u` up to the stopping threshold, for every explicit
fraction: with `q = α + (1-α) z/2`,
`((1 - q) ((1 - z/2) y - (1 + z/2) u))^2 ≤ (q (1 - z/2))^2 * N * maxerror^2` -/
theorem cnStep_converged_close (α a : K) (maxiter : Nat) (maxerror dt : K) (us : List K) (t : K)
    (ys : List K) (n : Nat) (h : cnStep α (linear a) maxiter maxerror dt us t = some (ys, n)) :
    List.Forall₂ (fun y u =>
        ((1 - (α + (1 - α) * (a * dt / 2))) * ((1 - a * dt / 2) * y - (1 + a * dt / 2) * u)) ^ 2
          ≤ ((α + (1 - α) * (a * dt / 2)) * (1 - a * dt / 2)) ^ 2 * ((us.length : K) * (maxerror * maxerror)))
      ys us := by
  obtain ⟨h1, _, hy, hconv⟩ := cnStep_cells α (linear a) maxiter maxerror dt us t ys n h
  obtain ⟨k, rfl⟩ : ∃ k, n = k + 1 := ⟨n - 1, by omega⟩
  simp only [Nat.add_sub_cancel] at hconv
  have hc := cell_sq_le_of_msqDiff_lt _ _ us _ hconv
  rw [hy, List.forall₂_map_left_iff]
  refine List.forall₂_same.mpr (fun u hu => ?_)
  rw [cn_residual]
  have := hc u hu
  calc (-(α + (1 - α) * (a * dt / 2)) * (1 - a * dt / 2)
          * (cnCell α (linear a) dt t u (k + 1) - cnCell α (linear a) dt t u k)) ^ 2
      = ((α + (1 - α) * (a * dt / 2)) * (1 - a * dt / 2)) ^ 2
          * (cnCell α (linear a) dt t u (k + 1) - cnCell α (linear a) dt t u k) ^ 2 := by ring
    _ ≤ _ := mul_le_mul_of_nonneg_left this (sq_nonneg _)

/-- an iteration count that passes the test within `maxiter` makes the loop return -/
theorem fixpointLoop_some_of_pass (it : List K → List K) (e : K) (m : Nat) (xs : List K) (n : Nat)
    (h : ∃ i < m, msqDiff (it^[i + 1] xs) (it^[i] xs) < e) : (fixpointLoop it e m xs n).isSome = true := by
  cases hr : fixpointLoop it e m xs n with
  | some r => rfl
  | none =>
    obtain ⟨i, hi, hp⟩ := h
    exact absurd hp (fixpointLoop_none it e m xs n hr i hi)

theorem exists_geometric_lt [Archimedean K] (r M e : K) (hr : r < 1) (hM : 0 ≤ M) (he : 0 < e) :
    ∃ i : Nat, r ^ i * M < e := by
  rcases eq_or_lt_of_le hM with h0 | hpos
  · exact ⟨0, by rw [← h0]; simpa using he⟩
  · obtain ⟨n, hn⟩ := exists_pow_lt_of_lt_one (div_pos he hpos) hr
    refine ⟨n, ?_⟩
    calc r ^ n * M < e / M * M := mul_lt_mul_of_pos_right hn hpos
      _ = e := by field_simp

theorem meanSq_nonneg (us : List K) : 0 ≤ (us.map (fun u => u * u)).sum / (us.length : K) := by
  apply div_nonneg
  · apply List.sum_nonneg
    intro x hx; obtain ⟨v, _, rfl⟩ := List.mem_map.mp hx; exact mul_self_nonneg _
  · positivity

/-- **contraction implies termination (implicit Euler)**: for `|z| < 1` and a positive threshold there
is an iteration bound `N₀` such that every `maxiter ≥ N₀` makes the step return a state (no
`ConvergenceError`), whatever the state -/
theorem implicitStep_terminates [Archimedean K] (a maxerror dt : K) (us : List K) (t : K)
    (hz : |a * dt| < 1) (he : 0 < maxerror) :
    ∃ N0 : Nat, ∀ maxiter, N0 ≤ maxiter →
      (implicitStep (linear a) maxiter maxerror dt us t).isSome = true := by
  set S : K := (us.map (fun u => u * u)).sum / (us.length : K) with hS
  have hS0 : 0 ≤ S := meanSq_nonneg us
  have hz2 : (a * dt) ^ 2 < 1 := by
    have := abs_nonneg (a * dt)
    rw [← sq_abs]; nlinarith
  -- the mean squared change of iteration i is z^(2(i+2)) * S
  have hmsq : ∀ i : Nat, msqDiff (us.map (fun u => implicitCell (linear a) dt t u (i + 1)))
      (us.map (fun u => implicitCell (linear a) dt t u i)) = ((a * dt) ^ 2) ^ i * (((a * dt) ^ 2) ^ 2 * S) := by
    intro i
    rw [msqDiff_map, hS, ← mul_div_assoc, ← mul_div_assoc, ← List.sum_map_mul_left, ← List.sum_map_mul_left]
    congr 2
    apply List.map_congr_left
    intro u _
    rw [implicit_increment]; ring
  obtain ⟨i, hi⟩ := exists_geometric_lt ((a * dt) ^ 2) (((a * dt) ^ 2) ^ 2 * S) (maxerror * maxerror)
    hz2 (mul_nonneg (sq_nonneg _) hS0) (mul_pos he he)
  refine ⟨i + 1, fun maxiter hm => ?_⟩
  unfold implicitStep
  apply fixpointLoop_some_of_pass
  refine ⟨i, by omega, ?_⟩
  rw [implicit_iterate_cells, implicit_iterate_cells, hmsq]
  exact hi

/-- the Crank-Nicolson iteration on `u' = a u` is affine with slope `q = α + (1-α) z/2`: successive
iterates differ by `q^k` times the first difference -/
theorem cn_increment_geometric (α a dt u t : K) (k : Nat) :
    cnCell α (linear a) dt t u (k + 1) - cnCell α (linear a) dt t u k
      = (α + (1 - α) * (a * dt / 2)) ^ k
        * (((α + (1 - α) * (a * dt / 2) - 1) * (α + (1 - α) * (1 + a * dt)) + (1 - α) * (1 + a * dt / 2)) * u) := by
  induction k with
  | zero => simp only [cnCell, cnIter, linear]; push_cast; ring
  | succ k ih =>
    have : cnCell α (linear a) dt t u (k + 1 + 1) - cnCell α (linear a) dt t u (k + 1)
        = (α + (1 - α) * (a * dt / 2)) * (cnCell α (linear a) dt t u (k + 1) - cnCell α (linear a) dt t u k) := by
      simp only [cnCell, cnIter, linear]; push_cast; ring
    rw [this, ih]; ring

/-- **contraction implies termination (Crank-Nicolson)**: for `|q| < 1`, `q = α + (1-α) z/2` -/
theorem cnStep_terminates [Archimedean K] (α a maxerror dt : K) (us : List K) (t : K)
    (hq : |α + (1 - α) * (a * dt / 2)| < 1) (he : 0 < maxerror) :
    ∃ N0 : Nat, ∀ maxiter, N0 ≤ maxiter →
      (cnStep α (linear a) maxiter maxerror dt us t).isSome = true := by
  obtain ⟨q, hqd⟩ : ∃ q : K, q = α + (1 - α) * (a * dt / 2) := ⟨_, rfl⟩
  obtain ⟨c0, hc0⟩ : ∃ c0 : K, c0 = (q - 1) * (α + (1 - α) * (1 + a * dt)) + (1 - α) * (1 + a * dt / 2) :=
    ⟨_, rfl⟩
  rw [← hqd] at hq
  set S : K := (us.map (fun u => u * u)).sum / (us.length : K) with hS
  have hS0 : 0 ≤ S := meanSq_nonneg us
  have hq2 : q ^ 2 < 1 := by
    have := abs_nonneg q
    rw [← sq_abs]; nlinarith
  have hmsq : ∀ i : Nat, msqDiff (us.map (fun u => cnCell α (linear a) dt t u (i + 1)))
      (us.map (fun u => cnCell α (linear a) dt t u i)) = (q ^ 2) ^ i * (c0 ^ 2 * S) := by
    intro i
    rw [msqDiff_map, hS, ← mul_div_assoc, ← mul_div_assoc, ← List.sum_map_mul_left, ← List.sum_map_mul_left]
    congr 2
    apply List.map_congr_left
    intro u _
    rw [cn_increment_geometric, ← hqd, hc0]; ring
  obtain ⟨i, hi⟩ := exists_geometric_lt (q ^ 2) (c0 ^ 2 * S) (maxerror * maxerror)
    hq2 (mul_nonneg (sq_nonneg _) hS0) (mul_pos he he)
  refine ⟨i + 1, fun maxiter hm => ?_⟩
  unfold cnStep
  apply fixpointLoop_some_of_pass
  refine ⟨i, by omega, ?_⟩
  rw [cn_iterate_cells, cn_iterate_cells, hmsq]
  exact hi

end conv2
end PdeVerif.Solvers
