import Lean
/-
Proof audit from the compiled environment (not from the source text): for every theorem declared in
the given modules print its name, the axioms it depends on (transitively) and a structural hash of its
statement.  usage: lake env lean --run AuditEnv.lean PdeVerif.Props.C09 [more modules]
Output: one JSON object per line  {"module":..,"name":..,"axioms":[..],"stmt":"<hash>"}
-/
open Lean

namespace AuditEnv

structure St where
  visited : NameSet := {}
  axioms  : Array Name := #[]

partial def collect (env : Environment) (c : Name) : StateM St Unit := do
  let s ← get
  if s.visited.contains c then return
  modify fun s => { s with visited := s.visited.insert c }
  match env.find? c with
  | some (.axiomInfo _)  => modify fun s => { s with axioms := s.axioms.push c }
  | some (.defnInfo v)   => v.type.getUsedConstants.forM (collect env) *> v.value.getUsedConstants.forM (collect env)
  | some (.thmInfo v)    => v.type.getUsedConstants.forM (collect env) *> v.value.getUsedConstants.forM (collect env)
  | some (.opaqueInfo v) => v.type.getUsedConstants.forM (collect env) *> v.value.getUsedConstants.forM (collect env)
  | some (.quotInfo _)   => pure ()
  | some (.ctorInfo v)   => v.type.getUsedConstants.forM (collect env)
  | some (.recInfo v)    => v.type.getUsedConstants.forM (collect env)
  | some (.inductInfo v) => v.type.getUsedConstants.forM (collect env) *> v.ctors.forM (collect env)
  | none                 => pure ()

def axiomsOf (env : Environment) (c : Name) : Array Name :=
  ((collect env c).run {}).2.axioms

def jsonStr (s : String) : String := (Json.str s).compress

end AuditEnv

open AuditEnv in
def main (args : List String) : IO UInt32 := do
  initSearchPath (← findSysroot)
  let mods := args.map String.toName
  let env ← importModules (mods.toArray.map fun m => { module := m }) {} (trustLevel := 1024) (loadExts := false)
  for m in mods do
    let some idx := env.getModuleIdx? m
      | IO.eprintln s!"module {m} not found"; return 2
    let names := env.header.moduleData[idx.toNat]!.constNames
    for n in names do
      if n.isInternal then continue
      if (env.getProjectionFnInfo? n).isSome then continue   -- fields of Prop-valued structures
      match env.find? n with
      | some (.thmInfo v) =>
        let ax := (axiomsOf env n).qsort (fun a b => a.toString < b.toString)
        let axs := ",".intercalate (ax.toList.map fun a => jsonStr a.toString)
        IO.println s!"\{\"module\":{jsonStr m.toString},\"name\":{jsonStr n.toString},\"axioms\":[{axs}],\"stmt\":\"{v.type.hash}-{(toString v.type).hash}\"}"
      | _ => pure ()
  return 0
