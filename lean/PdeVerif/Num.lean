/-
Number-type plumbing shared by all models (core Lean only, no Mathlib).

Model functions are polymorphic in the scalar type `K` through the standard notation
classes.  Three instantiations are used:
* core `Rat`   - exact evaluation by the driver (correspondence check),
* `Float`      - IEEE double replay of float edge cases (correspondence check),
* a Mathlib `Field K` (+ order, + floor) - in the proof files, where the same terms are
  the field operations so that `ring`/`field_simp`/`linarith` apply.
-/
namespace PdeVerif

/-- floor into the integers; instantiated by `Rat.floor`, `Float.floor`, `Int.floor`. -/
class HasFloor (K : Type) where
  floor : K → Int

instance : HasFloor Rat := ⟨Rat.floor⟩
instance : HasFloor Float := ⟨fun x => x.floor.toInt64.toInt⟩
instance : NatCast Float := ⟨Float.ofNat⟩
instance : IntCast Float := ⟨Float.ofInt⟩

section
variable {K : Type} [Add K] [Sub K] [Mul K] [Div K] [Neg K] [NatCast K] [IntCast K]
variable [LT K] [DecidableLT K] [LE K] [DecidableLE K] [HasFloor K]

/-- Python's `round` (round half to even), defined from `floor`. -/
def roundHE (x : K) : Int :=
  let f := HasFloor.floor x
  let r : K := x - (f : K)
  let half : K := ((1:Nat) : K) / ((2:Nat) : K)
  if r < half then f else if half < r then f + 1 else (if f % 2 = 0 then f else f + 1)

/-- `math.ceil` from floor: `-floor(-x)`. -/
def ceilI (x : K) : Int := - HasFloor.floor (-x)

end
end PdeVerif
