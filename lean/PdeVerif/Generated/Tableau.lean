/-
GENERATED FILE - do not edit.  Written by extractor E1 (harness/common/e1_tableau.py, called from
harness/c06.py `regenerate`) from the py-pde sources
  pde/solvers/runge_kutta.py, pde/solvers/adams_bashforth.py, pde/solvers/base.py,
  pde/backends/numba/_solvers.py
on every run of `./check C06`; rewritten only when the extracted constants change.
Every constant is the exact rational that the source applies (see the extractor for how the
coefficient of every stage is read off the update formulas).  Core Lean only.
-/
namespace PdeVerif.Generated

section
variable {K : Type} [Div K] [NatCast K] [IntCast K]

/-- the rational `p/q` in any number type.  At `Float` this is one correctly rounded division of
two exactly representable integers, i.e. the double Python obtains for the literal. -/
def ratK (p : Int) (q : Nat) : K := ((p : Int) : K) / ((q : Nat) : K)

/-! classical Runge-Kutta (RungeKuttaSolver._make_single_step_fixed_dt): stage matrix a_ij,
stage times c_i (fractions of dt), weights w_i -/
def rk4_c1 : K := ratK (0) 1
def rk4_a21 : K := ratK (1) 2
def rk4_c2 : K := ratK (1) 2
def rk4_a31 : K := ratK (0) 1
def rk4_a32 : K := ratK (1) 2
def rk4_c3 : K := ratK (1) 2
def rk4_a41 : K := ratK (0) 1
def rk4_a42 : K := ratK (0) 1
def rk4_a43 : K := ratK (1) 1
def rk4_c4 : K := ratK (1) 1
def rk4_w1 : K := ratK (1) 6
def rk4_w2 : K := ratK (1) 3
def rk4_w3 : K := ratK (1) 3
def rk4_w4 : K := ratK (1) 6

/-! Runge-Kutta-Fehlberg 4(5) (RungeKuttaSolver._make_single_step_error_estimate): stage times
a_i, stage matrix b_ij, weights c_i of the returned (4th order) state, weights r_i of the
error estimate -/
def rkf_a1 : K := ratK (0) 1
def rkf_a2 : K := ratK (1) 4
def rkf_b21 : K := ratK (1) 4
def rkf_a3 : K := ratK (3) 8
def rkf_b31 : K := ratK (3) 32
def rkf_b32 : K := ratK (9) 32
def rkf_a4 : K := ratK (12) 13
def rkf_b41 : K := ratK (1932) 2197
def rkf_b42 : K := ratK (-7200) 2197
def rkf_b43 : K := ratK (7296) 2197
def rkf_a5 : K := ratK (1) 1
def rkf_b51 : K := ratK (439) 216
def rkf_b52 : K := ratK (-8) 1
def rkf_b53 : K := ratK (3680) 513
def rkf_b54 : K := ratK (-845) 4104
def rkf_a6 : K := ratK (1) 2
def rkf_b61 : K := ratK (-8) 27
def rkf_b62 : K := ratK (2) 1
def rkf_b63 : K := ratK (-3544) 2565
def rkf_b64 : K := ratK (1859) 4104
def rkf_b65 : K := ratK (-11) 40
def rkf_c1 : K := ratK (25) 216
def rkf_c2 : K := ratK (0) 1
def rkf_c3 : K := ratK (1408) 2565
def rkf_c4 : K := ratK (2197) 4104
def rkf_c5 : K := ratK (-1) 5
def rkf_c6 : K := ratK (0) 1
def rkf_r1 : K := ratK (1) 360
def rkf_r2 : K := ratK (0) 1
def rkf_r3 : K := ratK (-128) 4275
def rkf_r4 : K := ratK (-2197) 75240
def rkf_r5 : K := ratK (1) 50
def rkf_r6 : K := ratK (2) 55

/-! Adams-Bashforth (adams_bashforth.py): weights of the current/previous rate, their time
offsets (fractions of dt) and the coefficient of dt*rate in the initial previous state -/
def ab2_w_cur : K := ratK (3) 2
def ab2_w_prev : K := ratK (-1) 2
def ab2_t_cur : K := ratK (0) 1
def ab2_t_prev : K := ratK (-1) 1
def ab2_init : K := ratK (-1) 1

/-! Adams-Bashforth, compiled loop (backends/numba/_solvers.py) -/
def ab2nb_w_cur : K := ratK (3) 2
def ab2nb_w_prev : K := ratK (-1) 2
def ab2nb_t_cur : K := ratK (0) 1
def ab2nb_t_prev : K := ratK (-1) 1
def ab2nb_init : K := ratK (-1) 1

/-! adaptive step-size controller (base.py: _make_dt_adjuster, AdaptiveSolverBase) -/
def ctl_small : K := ratK (11533) 20000000
def ctl_up : K := ratK (4) 1
def ctl_nan : K := ratK (1) 4
def ctl_safety : K := ratK (9) 10
def ctl_expo : K := ratK (-1) 5
def ctl_down : K := ratK (1) 10
def ctl_dt_min : K := ratK (1) 10000000000
def ctl_dt_max : K := ratK (10000000000) 1
def ctl_tolerance_default : K := ratK (1) 10000

end

/-- names and values of everything above (for the driver's self-description) -/
def table : List (String × Int × Nat) := [
  ("rk4_c1", 0, 1),
  ("rk4_a21", 1, 2),
  ("rk4_c2", 1, 2),
  ("rk4_a31", 0, 1),
  ("rk4_a32", 1, 2),
  ("rk4_c3", 1, 2),
  ("rk4_a41", 0, 1),
  ("rk4_a42", 0, 1),
  ("rk4_a43", 1, 1),
  ("rk4_c4", 1, 1),
  ("rk4_w1", 1, 6),
  ("rk4_w2", 1, 3),
  ("rk4_w3", 1, 3),
  ("rk4_w4", 1, 6),
  ("rkf_a1", 0, 1),
  ("rkf_a2", 1, 4),
  ("rkf_b21", 1, 4),
  ("rkf_a3", 3, 8),
  ("rkf_b31", 3, 32),
  ("rkf_b32", 9, 32),
  ("rkf_a4", 12, 13),
  ("rkf_b41", 1932, 2197),
  ("rkf_b42", -7200, 2197),
  ("rkf_b43", 7296, 2197),
  ("rkf_a5", 1, 1),
  ("rkf_b51", 439, 216),
  ("rkf_b52", -8, 1),
  ("rkf_b53", 3680, 513),
  ("rkf_b54", -845, 4104),
  ("rkf_a6", 1, 2),
  ("rkf_b61", -8, 27),
  ("rkf_b62", 2, 1),
  ("rkf_b63", -3544, 2565),
  ("rkf_b64", 1859, 4104),
  ("rkf_b65", -11, 40),
  ("rkf_c1", 25, 216),
  ("rkf_c2", 0, 1),
  ("rkf_c3", 1408, 2565),
  ("rkf_c4", 2197, 4104),
  ("rkf_c5", -1, 5),
  ("rkf_c6", 0, 1),
  ("rkf_r1", 1, 360),
  ("rkf_r2", 0, 1),
  ("rkf_r3", -128, 4275),
  ("rkf_r4", -2197, 75240),
  ("rkf_r5", 1, 50),
  ("rkf_r6", 2, 55),
  ("ab2_w_cur", 3, 2),
  ("ab2_w_prev", -1, 2),
  ("ab2_t_cur", 0, 1),
  ("ab2_t_prev", -1, 1),
  ("ab2_init", -1, 1),
  ("ab2nb_w_cur", 3, 2),
  ("ab2nb_w_prev", -1, 2),
  ("ab2nb_t_cur", 0, 1),
  ("ab2nb_t_prev", -1, 1),
  ("ab2nb_init", -1, 1),
  ("ctl_small", 11533, 20000000),
  ("ctl_up", 4, 1),
  ("ctl_nan", 1, 4),
  ("ctl_safety", 9, 10),
  ("ctl_expo", -1, 5),
  ("ctl_down", 1, 10),
  ("ctl_dt_min", 1, 10000000000),
  ("ctl_dt_max", 10000000000, 1),
  ("ctl_tolerance_default", 1, 10000)
]

end PdeVerif.Generated
