import PdeVerif.Lemmas.Interp
/-
C16, the weight clipping of the real code (`if w < 1e-15: w = 0`, the parameter `eps` of the model):
how far the interpolators / the compiled inserter with a clipping constant `0 ≤ eps ≤ 1/2` are from
the same functions with inert clipping (`eps = 0`, exact weights `1 - frac`, `frac`).

* the support indices and the accept / reject decision do not depend on `eps` at all,
* every weight is the clipped exact weight; the two exact weights of an axis sum to 1, so for
  `eps ≤ 1/2` at most one of them is clipped and the clipped weights sum to at least `1 - eps`
  (`ClipRel`, `axisData_clipRel`),
* the axis functional moves by at most `eps · M` when the values are bounded by `M`
  (`axisApply_clip_error`), nested over 2 / 3 axes by at most `2 eps M` / `3 eps M`.
-/
set_option linter.unusedSectionVars false
namespace PdeVerif.Interp
open PdeVerif

section
variable {K : Type} [Field K] [LinearOrder K] [IsStrictOrderedRing K] [FloorRing K]

/-- `a` is `a0` with both weights clipped at `eps`; `a0` carries exact convex weights -/
def ClipRel (eps : K) (a a0 : AxisData K) : Prop :=
  a.li = a0.li ∧ a.hi = a0.hi ∧ a.wl = clip eps a0.wl ∧ a.wh = clip eps a0.wh ∧
    a0.wl + a0.wh = 1 ∧ 0 ≤ a0.wl ∧ 0 ≤ a0.wh

/-- the axis data for any clipping constant are the exact ones (`eps = 0`) with clipped weights;
rejection does not depend on `eps` -/
theorem axisDataX_clipRel (eps : K) (ghost periodic : Bool) (size : Int) (x : K) :
    (axisDataX eps ghost periodic size x = none ∧ axisDataX 0 ghost periodic size x = none) ∨
    ∃ a a0, axisDataX eps ghost periodic size x = some a ∧
      axisDataX 0 ghost periodic size x = some a0 ∧ ClipRel eps a a0 := by
  obtain ⟨f0, f1, f2⟩ := frac_bounds x
  rw [axisDataX_eq eps, axisDataX_eq 0]
  cases selectIdx ghost periodic size ⌊x⌋ x with
  | none => left; exact ⟨rfl, rfl⟩
  | some p =>
    right
    refine ⟨_, _, rfl, rfl, rfl, rfl, ?_, ?_, ?_, ?_, ?_⟩
    · simp only [clip_of_nonpos (le_refl (0:K)) f2.le]
    · simp only [clip_of_nonpos (le_refl (0:K)) f0]
    · simp only [clip_of_nonpos (le_refl (0:K)) f2.le, clip_of_nonpos (le_refl (0:K)) f0]; ring
    · simp only [clip_of_nonpos (le_refl (0:K)) f2.le]; exact f2.le
    · simp only [clip_of_nonpos (le_refl (0:K)) f0]; exact f0

theorem axisData_clipRel (eps : K) (ghost cc : Bool) (ax : Axis K) (coord : K) :
    (axisData eps ghost cc ax coord = none ∧ axisData 0 ghost cc ax coord = none) ∨
    ∃ a a0, axisData eps ghost cc ax coord = some a ∧
      axisData 0 ghost cc ax coord = some a0 ∧ ClipRel eps a a0 :=
  axisDataX_clipRel eps ghost ax.periodic ax.size (cellCoord cc ax coord)

/-- the weights for a clipping constant `0 ≤ eps ≤ 1/2`: non-negative, at most the exact ones, and
together they lose at most `eps` -/
theorem ClipRel.weights {eps : K} {a a0 : AxisData K} (h : ClipRel eps a a0) (h0 : 0 ≤ eps)
    (h1 : eps ≤ 1/2) :
    0 ≤ a.wl ∧ a.wl ≤ a0.wl ∧ 0 ≤ a.wh ∧ a.wh ≤ a0.wh ∧
      (a0.wl - a.wl) + (a0.wh - a.wh) ≤ eps ∧ 1 - eps ≤ a.wl + a.wh ∧ a.wl + a.wh ≤ 1 := by
  obtain ⟨-, -, hl, hh, hs, pl, ph⟩ := h
  rw [hl, hh]
  unfold clip
  split_ifs with c1 c2 c2 <;> (try simp only [Nat.cast_zero]) <;>
    refine ⟨?_, ?_, ?_, ?_, ?_, ?_, ?_⟩ <;> linarith

/-- bound of the axis functional: non-negative weights with sum at most one -/
theorem axisApply_abs_le {a : AxisData K} (hl : 0 ≤ a.wl) (hh : 0 ≤ a.wh) (hs : a.wl + a.wh ≤ 1)
    (f : Int → K) {M : K} (hu : |f a.li| ≤ M) (hv : |f a.hi| ≤ M) : |axisApply a f| ≤ M := by
  unfold axisApply
  obtain ⟨u1, u2⟩ := abs_le.mp hu
  obtain ⟨v1, v2⟩ := abs_le.mp hv
  have hM : 0 ≤ M := le_trans (abs_nonneg _) hu
  rw [abs_le]
  constructor
  · nlinarith [mul_le_mul_of_nonneg_left u1 hl, mul_le_mul_of_nonneg_left v1 hh,
      mul_nonneg (sub_nonneg.mpr hs) hM]
  · nlinarith [mul_le_mul_of_nonneg_left u2 hl, mul_le_mul_of_nonneg_left v2 hh,
      mul_nonneg (sub_nonneg.mpr hs) hM]

/-- **clipping error of one axis**: the functional with clipped weights is within `eps · M` of
the exact one -/
theorem axisApply_clip_error {eps : K} {a a0 : AxisData K} (h : ClipRel eps a a0) (h0 : 0 ≤ eps)
    (h1 : eps ≤ 1/2) (f : Int → K) {M : K} (hu : |f a0.li| ≤ M) (hv : |f a0.hi| ≤ M) :
    |axisApply a f - axisApply a0 f| ≤ eps * M := by
  obtain ⟨wl0, wl1, wh0, wh1, hd, -, -⟩ := h.weights h0 h1
  obtain ⟨hli, hhi, -, -, -, -, -⟩ := h
  unfold axisApply
  rw [hli, hhi]
  obtain ⟨u1, u2⟩ := abs_le.mp hu
  obtain ⟨v1, v2⟩ := abs_le.mp hv
  have hM : 0 ≤ M := le_trans (abs_nonneg _) hu
  have dl : 0 ≤ a0.wl - a.wl := by linarith
  have dh : 0 ≤ a0.wh - a.wh := by linarith
  rw [abs_le]
  constructor
  · nlinarith [mul_le_mul_of_nonneg_left u2 dl, mul_le_mul_of_nonneg_left v2 dh,
      mul_nonneg (sub_nonneg.mpr hd) hM]
  · nlinarith [mul_le_mul_of_nonneg_left u1 dl, mul_le_mul_of_nonneg_left v1 dh,
      mul_nonneg (sub_nonneg.mpr hd) hM]

/-- the exact functional is a convex combination: it moves by at most `D` when both values do -/
theorem axisApply_diff_le {a0 : AxisData K} (hs : a0.wl + a0.wh = 1) (hl : 0 ≤ a0.wl)
    (hh : 0 ≤ a0.wh) (f g : Int → K) {D : K} (hu : |f a0.li - g a0.li| ≤ D)
    (hv : |f a0.hi - g a0.hi| ≤ D) : |axisApply a0 f - axisApply a0 g| ≤ D := by
  unfold axisApply
  obtain ⟨u1, u2⟩ := abs_le.mp hu
  obtain ⟨v1, v2⟩ := abs_le.mp hv
  rw [abs_le]
  constructor
  · nlinarith [mul_le_mul_of_nonneg_left u1 hl, mul_le_mul_of_nonneg_left v1 hh]
  · nlinarith [mul_le_mul_of_nonneg_left u2 hl, mul_le_mul_of_nonneg_left v2 hh]

/-- two nested axes: `2 eps M` -/
theorem nest2_clip_error {eps : K} {a a0 b b0 : AxisData K} (ha : ClipRel eps a a0)
    (hb : ClipRel eps b b0) (h0 : 0 ≤ eps) (h1 : eps ≤ 1/2) (F : Int → Int → K) {M : K}
    (hF : ∀ i, (i = a0.li ∨ i = a0.hi) → ∀ j, (j = b0.li ∨ j = b0.hi) → |F i j| ≤ M) :
    |axisApply a (fun i => axisApply b (F i)) - axisApply a0 (fun i => axisApply b0 (F i))|
      ≤ 2 * eps * M := by
  obtain ⟨bl0, -, bh0, -, -, -, bs⟩ := hb.weights h0 h1
  obtain ⟨bli, bhi, -, -, -, -, -⟩ := id hb
  obtain ⟨-, -, -, -, as0, al0, ah0⟩ := id ha
  -- the inner functional with clipped weights is bounded by M on the support of the outer axis
  have hg : ∀ i, (i = a0.li ∨ i = a0.hi) → |axisApply b (F i)| ≤ M := fun i hi =>
    axisApply_abs_le bl0 bh0 bs (F i) (by rw [bli]; exact hF i hi _ (Or.inl rfl))
      (by rw [bhi]; exact hF i hi _ (Or.inr rfl))
  have e1 := axisApply_clip_error ha h0 h1 (fun i => axisApply b (F i)) (hg _ (Or.inl rfl))
    (hg _ (Or.inr rfl))
  have hin : ∀ i, (i = a0.li ∨ i = a0.hi) → |axisApply b (F i) - axisApply b0 (F i)| ≤ eps * M :=
    fun i hi => axisApply_clip_error hb h0 h1 (F i) (hF i hi _ (Or.inl rfl)) (hF i hi _ (Or.inr rfl))
  have e2 := axisApply_diff_le as0 al0 ah0 (fun i => axisApply b (F i)) (fun i => axisApply b0 (F i))
    (hin _ (Or.inl rfl)) (hin _ (Or.inr rfl))
  obtain ⟨p1, p2⟩ := abs_le.mp e1
  obtain ⟨q1, q2⟩ := abs_le.mp e2
  rw [abs_le]
  constructor <;> linarith

/-- bound of two nested functionals with clipped weights -/
theorem nest2_abs_le {eps : K} {a a0 b b0 : AxisData K} (ha : ClipRel eps a a0)
    (hb : ClipRel eps b b0) (h0 : 0 ≤ eps) (h1 : eps ≤ 1/2) (F : Int → Int → K) {M : K}
    (hF : ∀ i, (i = a0.li ∨ i = a0.hi) → ∀ j, (j = b0.li ∨ j = b0.hi) → |F i j| ≤ M) :
    |axisApply a (fun i => axisApply b (F i))| ≤ M := by
  obtain ⟨al0, -, ah0, -, -, -, as⟩ := ha.weights h0 h1
  obtain ⟨bl0, -, bh0, -, -, -, bs⟩ := hb.weights h0 h1
  obtain ⟨ali, ahi, -, -, -, -, -⟩ := id ha
  obtain ⟨bli, bhi, -, -, -, -, -⟩ := id hb
  have hg : ∀ i, (i = a0.li ∨ i = a0.hi) → |axisApply b (F i)| ≤ M := fun i hi =>
    axisApply_abs_le bl0 bh0 bs (F i) (by rw [bli]; exact hF i hi _ (Or.inl rfl))
      (by rw [bhi]; exact hF i hi _ (Or.inr rfl))
  exact axisApply_abs_le al0 ah0 as _ (by rw [ali]; exact hg _ (Or.inl rfl))
    (by rw [ahi]; exact hg _ (Or.inr rfl))

/-- three nested axes: `3 eps M` -/
theorem nest3_clip_error {eps : K} {a a0 b b0 c c0 : AxisData K} (ha : ClipRel eps a a0)
    (hb : ClipRel eps b b0) (hc : ClipRel eps c c0) (h0 : 0 ≤ eps) (h1 : eps ≤ 1/2)
    (F : Int → Int → Int → K) {M : K}
    (hF : ∀ i, (i = a0.li ∨ i = a0.hi) → ∀ j, (j = b0.li ∨ j = b0.hi) →
      ∀ k, (k = c0.li ∨ k = c0.hi) → |F i j k| ≤ M) :
    |axisApply a (fun i => axisApply b (fun j => axisApply c (F i j)))
        - axisApply a0 (fun i => axisApply b0 (fun j => axisApply c0 (F i j)))| ≤ 3 * eps * M := by
  obtain ⟨-, -, -, -, as0, al0, ah0⟩ := id ha
  have hg : ∀ i, (i = a0.li ∨ i = a0.hi) →
      |axisApply b (fun j => axisApply c (F i j))| ≤ M := fun i hi =>
    nest2_abs_le hb hc h0 h1 (F i) (hF i hi)
  have e1 := axisApply_clip_error ha h0 h1 (fun i => axisApply b (fun j => axisApply c (F i j)))
    (hg _ (Or.inl rfl)) (hg _ (Or.inr rfl))
  have hin : ∀ i, (i = a0.li ∨ i = a0.hi) →
      |axisApply b (fun j => axisApply c (F i j)) - axisApply b0 (fun j => axisApply c0 (F i j))|
        ≤ 2 * eps * M := fun i hi => nest2_clip_error hb hc h0 h1 (F i) (hF i hi)
  have e2 := axisApply_diff_le as0 al0 ah0 (fun i => axisApply b (fun j => axisApply c (F i j)))
    (fun i => axisApply b0 (fun j => axisApply c0 (F i j))) (hin _ (Or.inl rfl)) (hin _ (Or.inr rfl))
  obtain ⟨p1, p2⟩ := abs_le.mp e1
  obtain ⟨q1, q2⟩ := abs_le.mp e2
  rw [abs_le]
  constructor <;> linarith

/-- both support indices of an accepted coordinate are cells of the array the interpolator works
on: `0 .. size-1`, in ghost-cell mode the padded array `0 .. size+1` -/
theorem axisData_indices_any {eps : K} {ghost cc : Bool} {ax : Axis K} (hs : 1 ≤ ax.size)
    {coord : K} {a : AxisData K} (h : axisData eps ghost cc ax coord = some a) :
    (0 ≤ a.li ∧ a.li < ax.size + 2 * shift ghost) ∧ (0 ≤ a.hi ∧ a.hi < ax.size + 2 * shift ghost) := by
  cases ghost
  · obtain ⟨l0, l1, h0, h1⟩ := axisDataX_indices hs h
    simp only [shift, Bool.false_eq_true, if_false]; omega
  · obtain ⟨l0, l1, h0, h1, -⟩ := axisDataX_indices_ghost hs h
    simp only [shift, if_true]; omega

/-! ### the compiled inserter through the mass an axis puts on a cell -/

/-- mass the axis data put on cell `i` (both weights when the two support points coincide) -/
def axisMass (a : AxisData K) (i : Int) : K := a.wl * ind a.li i + a.wh * ind a.hi i

theorem ind_cases (p i : Int) : (ind p i : K) = 0 ∨ (ind p i : K) = 1 := by
  unfold ind; split_ifs <;> simp

/-- clipping lowers the mass on a cell by at most `eps`; masses lie in `[0, 1]` -/
theorem axisMass_clip {eps : K} {a a0 : AxisData K} (h : ClipRel eps a a0) (h0 : 0 ≤ eps)
    (h1 : eps ≤ 1/2) (i : Int) :
    0 ≤ axisMass a i ∧ axisMass a i ≤ axisMass a0 i ∧ axisMass a0 i ≤ 1 ∧
      axisMass a0 i - axisMass a i ≤ eps := by
  obtain ⟨wl0, wl1, wh0, wh1, hd, -, -⟩ := h.weights h0 h1
  obtain ⟨hli, hhi, -, -, hs, pl, ph⟩ := h
  unfold axisMass
  rw [hli, hhi]
  rcases ind_cases (K := K) a0.li i with e1 | e1 <;> rcases ind_cases (K := K) a0.hi i with e2 | e2 <;>
    rw [e1, e2] <;> refine ⟨?_, ?_, ?_, ?_⟩ <;> linarith

/-- product of two masses under clipping -/
theorem mass2_clip {A A0 B B0 eps : K} (hA : 0 ≤ A ∧ A ≤ A0 ∧ A0 ≤ 1 ∧ A0 - A ≤ eps)
    (hB : 0 ≤ B ∧ B ≤ B0 ∧ B0 ≤ 1 ∧ B0 - B ≤ eps) :
    0 ≤ A * B ∧ A * B ≤ A0 * B0 ∧ A0 * B0 ≤ 1 ∧ A0 * B0 - A * B ≤ 2 * eps := by
  obtain ⟨a0, a1, a2, a3⟩ := hA
  obtain ⟨b0, b1, b2, b3⟩ := hB
  have hB0 : 0 ≤ B0 := le_trans b0 b1
  have hA0 : 0 ≤ A0 := le_trans a0 a1
  refine ⟨mul_nonneg a0 b0, mul_le_mul a1 b1 b0 hA0, ?_, ?_⟩
  · calc A0 * B0 ≤ 1 * 1 := mul_le_mul a2 b2 hB0 (by norm_num)
      _ = 1 := by ring
  · have e : A0 * B0 - A * B = (A0 - A) * B0 + A * (B0 - B) := by ring
    have t1 : (A0 - A) * B0 ≤ eps * 1 :=
      mul_le_mul a3 b2 hB0 (le_trans (sub_nonneg.mpr a1) a3)
    have t2 : A * (B0 - B) ≤ 1 * eps :=
      mul_le_mul (le_trans a1 a2) b3 (sub_nonneg.mpr b1) (by norm_num)
    rw [e]; linarith

/-- cell values after the compiled inserter, 1 axis -/
theorem insertComp1_cell {eps : K} {ax : Axis K} (vol data : Idx → K) {px : K} (amount : K)
    {a : AxisData K} (ha : axisData eps false false ax px = some a) :
    ∃ d, insertComp1 eps false ax vol data px amount = some d ∧
      ∀ i, d [i] = data [i] + axisMass a i * (amount / vol [i]) := by
  refine ⟨_, by unfold insertComp1; rw [ha], fun i => ?_⟩
  simp only [deposit_apply, volIdx_false, dep1]
  unfold axisMass; ring

/-- cell values after the compiled inserter, 2 axes -/
theorem insertComp2_cell {eps : K} {ax ay : Axis K} (vol data : Idx → K) {px py : K} (amount : K)
    {a b : AxisData K} (ha : axisData eps false false ax px = some a)
    (hb : axisData eps false false ay py = some b) :
    ∃ d, insertComp2 eps false ax ay vol data px py amount = some d ∧
      ∀ i j, d [i, j] = data [i, j] + axisMass a i * axisMass b j * (amount / vol [i, j]) := by
  refine ⟨_, by unfold insertComp2; rw [ha, hb], fun i j => ?_⟩
  simp only [deposit_apply, volIdx_false, dep2]
  unfold axisMass; ring

/-- cell values after the compiled inserter, 3 axes -/
theorem insertComp3_cell {eps : K} {ax ay az : Axis K} (vol data : Idx → K) {px py pz : K}
    (amount : K) {a b c : AxisData K} (ha : axisData eps false false ax px = some a)
    (hb : axisData eps false false ay py = some b) (hc : axisData eps false false az pz = some c) :
    ∃ d, insertComp3 eps false ax ay az vol data px py pz amount = some d ∧
      ∀ i j k, d [i, j, k] = data [i, j, k]
        + axisMass a i * axisMass b j * axisMass c k * (amount / vol [i, j, k]) := by
  refine ⟨_, by unfold insertComp3; rw [ha, hb, hc], fun i j k => ?_⟩
  simp only [deposit_apply, volIdx_false, dep3]
  unfold axisMass; ring

end
end PdeVerif.Interp
