import PdeVerif.Model.Mesh
import Mathlib.Data.Nat.ModEq
import Mathlib.Tactic.Ring
import Mathlib.Tactic.Linarith
/-
Helper lemmas about the mesh model (one axis): reference chunk sizes, offsets, slices,
the chunk containing a cell.
-/
namespace PdeVerif.Mesh

/-! ### reference formula -/

theorem cut_mono (num chunks : Nat) {i j : Nat} (h : i ≤ j) : cut num chunks i ≤ cut num chunks j :=
  Nat.div_le_div_right (Nat.mul_le_mul_right _ h)

theorem subdivide_length (num chunks : Nat) : (subdivide num chunks).length = chunks := by
  simp [subdivide]

theorem subdivide_prefix_sum (num chunks k : Nat) :
    (((List.range k).map fun i => cut num chunks (i + 1) - cut num chunks i).sum) = cut num chunks k := by
  induction k with
  | zero => simp [cut]
  | succ k ih =>
    rw [List.range_succ, List.map_append, List.sum_append, ih]
    have := cut_mono num chunks (Nat.le_add_right k 1)
    simp only [List.map_cons, List.map_nil, List.sum_cons, List.sum_nil]
    omega

/-- a chunk of the reference formula has `num / chunks` or `num / chunks + 1` cells -/
theorem cut_step (num chunks i : Nat) (hc : 0 < chunks) :
    num / chunks ≤ cut num chunks (i + 1) - cut num chunks i ∧
    cut num chunks (i + 1) - cut num chunks i ≤ num / chunks + 1 := by
  unfold cut
  have e : (i + 1) * num = i * num + num := by ring
  rw [e, Nat.add_div hc]
  generalize num / chunks = q
  generalize i * num / chunks = a
  split_ifs <;> omega

/-! ### offsets and slices -/

@[simp] theorem offset_zero (sizes : List Nat) : offset sizes 0 = 0 := by simp [offset]
@[simp] theorem offset_nil (i : Nat) : offset [] i = 0 := by simp [offset]
@[simp] theorem offset_cons_succ (s : Nat) (ss : List Nat) (i : Nat) :
    offset (s :: ss) (i + 1) = s + offset ss i := by simp [offset]
@[simp] theorem sizeAt_cons_zero (s : Nat) (ss : List Nat) : sizeAt (s :: ss) 0 = s := by simp [sizeAt]
@[simp] theorem sizeAt_cons_succ (s : Nat) (ss : List Nat) (i : Nat) : sizeAt (s :: ss) (i + 1) = sizeAt ss i := by
  simp [sizeAt]
@[simp] theorem sizeAt_nil (i : Nat) : sizeAt [] i = 0 := by simp [sizeAt]

theorem sizeAt_of_ge (sizes : List Nat) {i : Nat} (h : sizes.length ≤ i) : sizeAt sizes i = 0 := by
  simp [sizeAt, List.getD, List.getElem?_eq_none h]

theorem sizeAt_mem (sizes : List Nat) {i : Nat} (h : i < sizes.length) : sizeAt sizes i ∈ sizes := by
  simp [sizeAt, List.getD, List.getElem?_eq_getElem h]

theorem offset_succ (sizes : List Nat) (i : Nat) : offset sizes (i + 1) = offset sizes i + sizeAt sizes i := by
  induction sizes generalizing i with
  | nil => simp
  | cons s ss ih =>
    cases i with
    | zero => simp
    | succ i => simp [ih i]; omega

theorem offset_mono (sizes : List Nat) {i j : Nat} (h : i ≤ j) : offset sizes i ≤ offset sizes j := by
  induction h with
  | refl => exact Nat.le_refl _
  | step _ ih => rw [offset_succ]; omega

theorem offset_of_ge (sizes : List Nat) {i : Nat} (h : sizes.length ≤ i) : offset sizes i = sizes.sum := by
  simp [offset, List.take_of_length_le h]

theorem offset_length (sizes : List Nat) : offset sizes sizes.length = sizes.sum := offset_of_ge sizes (Nat.le_refl _)

theorem offset_le_sum (sizes : List Nat) (i : Nat) : offset sizes i ≤ sizes.sum := by
  rcases Nat.lt_or_ge i sizes.length with h | h
  · rw [← offset_length]; exact offset_mono sizes (Nat.le_of_lt h)
  · rw [offset_of_ge sizes h]

/-- the end of chunk `i` is at most the start of any later chunk -/
theorem offset_add_size_le (sizes : List Nat) {i j : Nat} (h : i < j) :
    offset sizes i + sizeAt sizes i ≤ offset sizes j := by
  rw [← offset_succ]; exact offset_mono sizes h

theorem offset_add_size_le_sum (sizes : List Nat) (i : Nat) : offset sizes i + sizeAt sizes i ≤ sizes.sum := by
  rw [← offset_succ]; exact offset_le_sum _ _

theorem slicesFrom_length (ghost : Bool) (last : Nat) (sizes : List Nat) :
    (slicesFrom ghost last sizes).length = sizes.length := by
  induction sizes generalizing last with
  | nil => simp [slicesFrom]
  | cons s ss ih => simp [slicesFrom, ih]

theorem slicesFrom_getD (ghost : Bool) (sizes : List Nat) (last i : Nat) (h : i < sizes.length) :
    (slicesFrom ghost last sizes).getD i (0, 0)
      = (last + offset sizes i, last + offset sizes i + sizeAt sizes i + gadd ghost) := by
  induction sizes generalizing last i with
  | nil => simp at h
  | cons s ss ih =>
    cases i with
    | zero => simp [slicesFrom]
    | succ i =>
      have h' : i < ss.length := by simpa using h
      simp only [slicesFrom, List.getD_cons_succ, ih (last + s) i h', offset_cons_succ, sizeAt_cons_succ]
      simp only [Nat.add_assoc]

/-- closed form of the slice of chunk `i` -/
theorem sliceAt_eq (ghost : Bool) (sizes : List Nat) (i : Nat) (h : i < sizes.length) :
    sliceAt ghost sizes i = (offset sizes i, offset sizes i + sizeAt sizes i + gadd ghost) := by
  have := slicesFrom_getD ghost sizes 0 i h
  simpa [sliceAt, slices1d] using this

theorem sliceAt_of_ge (ghost : Bool) (sizes : List Nat) (i : Nat) (h : sizes.length ≤ i) :
    sliceAt ghost sizes i = (0, 0) := by
  have h' : (slicesFrom ghost 0 sizes).length ≤ i := by rw [slicesFrom_length]; exact h
  simp [sliceAt, slices1d, List.getD, List.getElem?_eq_none h']

/-! ### one axis, data as a list (design appendix A.15) -/

theorem combine_extract_list_aux {α : Type} (sizes : List Nat) :
    ∀ (pre data : List α), data.length = sizes.sum →
      (extractAll (pre ++ data) (slicesFrom false pre.length sizes)).flatten = data := by
  induction sizes with
  | nil => intro pre data h; simp at h; simp [slicesFrom, extractAll, h]
  | cons s ss ih =>
    intro pre data h
    simp only [slicesFrom, extractAll, List.flatten_cons, gadd, Bool.false_eq_true, if_false, Nat.add_zero]
    have hs : s ≤ data.length := by simp at h; omega
    have e1 : ((pre ++ data).drop pre.length).take (pre.length + s - pre.length) = data.take s := by
      rw [List.drop_left]; congr 1; omega
    rw [e1]
    have e2 : pre ++ data = (pre ++ data.take s) ++ data.drop s := by
      rw [List.append_assoc, List.take_append_drop]
    have e3 : pre.length + s = (pre ++ data.take s).length := by
      simp [List.length_take, Nat.min_eq_left hs]
    rw [e2, e3, ih (pre ++ data.take s) (data.drop s) (by simp at h ⊢; omega)]
    exact List.take_append_drop s data

/-! ### the chunk that contains a cell -/

/-- index of the chunk containing cell `g` -/
def chunkOf : List Nat → Nat → Nat
  | [], _ => 0
  | s :: ss, g => if g < s then 0 else chunkOf ss (g - s) + 1

theorem chunkOf_spec (sizes : List Nat) (g : Nat) (h : g < sizes.sum) :
    chunkOf sizes g < sizes.length ∧ offset sizes (chunkOf sizes g) ≤ g ∧
      g < offset sizes (chunkOf sizes g) + sizeAt sizes (chunkOf sizes g) := by
  induction sizes generalizing g with
  | nil => simp at h
  | cons s ss ih =>
    unfold chunkOf
    split_ifs with hg
    · simp [hg]
    · have h' : g - s < ss.sum := by simp at h; omega
      obtain ⟨a, b, c⟩ := ih (g - s) h'
      simp only [List.length_cons, offset_cons_succ, sizeAt_cons_succ]
      omega

/-- two chunks that contain the same cell are the same chunk -/
theorem chunk_unique (sizes : List Nat) {i j g : Nat}
    (hi : offset sizes i ≤ g ∧ g < offset sizes i + sizeAt sizes i)
    (hj : offset sizes j ≤ g ∧ g < offset sizes j + sizeAt sizes j) : i = j := by
  rcases Nat.lt_trichotomy i j with h | h | h
  · have := offset_add_size_le sizes h; omega
  · exact h
  · have := offset_add_size_le sizes h; omega

end PdeVerif.Mesh
