import PdeVerif.Model.Interp
import PdeVerif.Lemmas.Basic
import Mathlib.Tactic.LinearCombination
import Mathlib.Algebra.BigOperators.Group.List.Basic
import Mathlib.Algebra.BigOperators.Ring.List
import Mathlib.Data.List.Nodup
import Mathlib.Data.List.Range
/-
Helper definitions and lemmas for C16 (`Props/C16.lean`): the branches of the index/weight
selection `axisDataX`, one axis in grid coordinates (centres, strips, periodic wrap, ghost strips,
convexity, affine exactness) expressed through the axis functional `axisApply`, the interpolators
written through `axisApply`, array/integral lemmas and the per-axis factorisation of the sums over
corner cells used by the insertion theorems.
-/
set_option linter.unusedSectionVars false
namespace PdeVerif.Interp
open PdeVerif

section
variable {K : Type} [Field K] [LinearOrder K] [IsStrictOrderedRing K] [FloorRing K]

theorem half_eq : (half : K) = 1 / 2 := by
  unfold half; push_cast; rfl

/-- ghost-cell shift of the indices -/
def shift (ghost : Bool) : Int := if ghost then 1 else 0

theorem clip_of_nonpos {eps w : K} (he : eps ≤ 0) (hw : 0 ≤ w) : clip eps w = w := by
  unfold clip; rw [if_neg (not_lt.mpr (le_trans he hw))]

theorem clip_nonneg {eps w : K} (hw : 0 ≤ w) : 0 ≤ clip eps w := by
  unfold clip; split_ifs <;> simp [hw]

theorem clip_le {eps w : K} (hw : 0 ≤ w) : clip eps w ≤ w := by
  unfold clip; split_ifs <;> simp [hw]

theorem clip_close {eps w : K} (hw : 0 ≤ w) :
    0 ≤ w - clip eps w ∧ w - clip eps w ≤ max eps 0 := by
  unfold clip; split_ifs with h
  · simp only [Nat.cast_zero, sub_zero]; exact ⟨hw, le_trans h.le (le_max_left _ _)⟩
  · simp

theorem clip_one {eps : K} (he : eps ≤ 1) : clip eps (1:K) = 1 := by
  unfold clip; rw [if_neg (not_lt.mpr he)]

theorem clip_zero {eps : K} : clip eps (0:K) = 0 := by
  unfold clip; split_ifs <;> simp

/-- `axisDataX` in closed form: the selected indices, shifted in ghost mode, with the clipped
weights `1 - frac x`, `frac x` -/
theorem axisDataX_eq (eps : K) (ghost periodic : Bool) (size : Int) (x : K) :
    axisDataX eps ghost periodic size x =
      (selectIdx ghost periodic size ⌊x⌋ x).map (fun p =>
        ⟨p.1 + shift ghost, p.2 + shift ghost, clip eps (1 - (x - ⌊x⌋)), clip eps (x - ⌊x⌋)⟩) := by
  unfold axisDataX shift
  simp only [floor_def, add_sub_cancel, Nat.cast_one]
  cases selectIdx ghost periodic size ⌊x⌋ x with
  | none => rfl
  | some p => cases ghost <;> simp

/-! ### the branches of `selectIdx` -/

theorem selectIdx_periodic (ghost : Bool) (size cl : Int) (s : K) :
    selectIdx ghost true size cl s = some (cl % size, (cl + 1) % size) := by
  unfold selectIdx; simp [Int.emod_add_emod]

theorem selectIdx_unfold_ng (size cl : Int) (s : K) :
    selectIdx false false size cl s =
      if (0:K) ≤ s ∧ s < (size : K) - 1 then some (cl, cl + 1)
      else if (size : K) - 1 ≤ s ∧ s ≤ (size : K) - 1/2 then some (cl, cl)
      else if -(1/2:K) ≤ s ∧ s ≤ 0 then some (cl + 1, cl + 1)
      else none := by
  unfold selectIdx
  simp only [half_eq, Nat.cast_zero, Nat.cast_one, Bool.false_eq_true, if_false]

theorem selectIdx_unfold_g (size cl : Int) (s : K) :
    selectIdx true false size cl s =
      if -(1/2:K) ≤ s ∧ s ≤ (size : K) - 1/2 then some (cl, cl + 1) else none := by
  unfold selectIdx
  simp only [half_eq, Bool.false_eq_true, if_false, if_true]

theorem selectIdx_ghost (size cl : Int) (s : K) (h1 : -(1/2) ≤ s) (h2 : s ≤ size - 1/2) :
    selectIdx true false size cl s = some (cl, cl + 1) := by
  rw [selectIdx_unfold_g, if_pos ⟨h1, h2⟩]

theorem selectIdx_bulk (size cl : Int) (s : K) (h1 : 0 ≤ s) (h2 : s < size - 1) :
    selectIdx false false size cl s = some (cl, cl + 1) := by
  rw [selectIdx_unfold_ng, if_pos ⟨h1, h2⟩]

theorem selectIdx_upper (size cl : Int) (s : K) (h1 : (size:K) - 1 ≤ s) (h2 : s ≤ size - 1/2) :
    selectIdx false false size cl s = some (cl, cl) := by
  rw [selectIdx_unfold_ng, if_neg (fun h => absurd h.2 (not_lt.mpr h1)), if_pos ⟨h1, h2⟩]

theorem selectIdx_lower (size cl : Int) (hs : 1 ≤ size) (s : K) (h1 : -(1/2) ≤ s) (h2 : s < 0) :
    selectIdx false false size cl s = some (cl + 1, cl + 1) := by
  have hs' : (1:K) ≤ size := by exact_mod_cast hs
  rw [selectIdx_unfold_ng, if_neg (fun h => absurd h.1 (not_le.mpr h2)),
    if_neg (fun h => by linarith [h.1]), if_pos ⟨h1, h2.le⟩]

theorem selectIdx_outside (ghost : Bool) (size cl : Int) (hs : 1 ≤ size) (s : K)
    (h : s < -(1/2) ∨ (size:K) - 1/2 < s) : selectIdx ghost false size cl s = none := by
  have hs' : (1:K) ≤ size := by exact_mod_cast hs
  cases ghost
  · rw [selectIdx_unfold_ng]
    rcases h with h | h
    · rw [if_neg (fun c => by linarith [c.1]), if_neg (fun c => by linarith [c.1]),
        if_neg (fun c => by linarith [c.1])]
    · rw [if_neg (fun c => by linarith [c.2]), if_neg (fun c => by linarith [c.2]),
        if_neg (fun c => by linarith [c.2])]
  · rw [selectIdx_unfold_g]
    rcases h with h | h
    · rw [if_neg (fun c => by linarith [c.1])]
    · rw [if_neg (fun c => by linarith [c.2])]

/-- on a non-periodic axis exactly the points of the closed domain are accepted -/
theorem selectIdx_isSome_iff (ghost : Bool) (size cl : Int) (hs : 1 ≤ size) (s : K) :
    (selectIdx ghost false size cl s).isSome ↔ (-(1/2) ≤ s ∧ s ≤ (size:K) - 1/2) := by
  have hs' : (1:K) ≤ size := by exact_mod_cast hs
  constructor
  · intro h
    by_contra hc
    have : s < -(1/2) ∨ (size:K) - 1/2 < s := by
      by_cases h1 : -(1/2) ≤ s
      · right; by_contra h2; exact hc ⟨h1, not_lt.mp h2⟩
      · left; exact not_le.mp h1
    rw [selectIdx_outside ghost size cl hs s this] at h
    exact absurd h (by simp)
  · rintro ⟨h1, h2⟩
    cases ghost
    · by_cases a : s < 0
      · rw [selectIdx_lower size cl hs s h1 a]; rfl
      · by_cases b : s < (size:K) - 1
        · rw [selectIdx_bulk size cl s (not_lt.mp a) b]; rfl
        · rw [selectIdx_upper size cl s (not_lt.mp b) h2]; rfl
    · rw [selectIdx_ghost size cl s h1 h2]; rfl

theorem frac_bounds (x : K) : 0 ≤ x - ⌊x⌋ ∧ x - ⌊x⌋ < 1 ∧ 0 < 1 - (x - ⌊x⌋) := by
  have h1 := Int.floor_le x
  have h2 := Int.lt_floor_add_one x
  refine ⟨by linarith, by linarith, by linarith⟩

/-- what every accepted point gets: indices from `selectIdx`, weights the clipped fractions -/
theorem axisDataX_some {eps : K} {ghost periodic : Bool} {size : Int} {x : K} {a : AxisData K}
    (h : axisDataX eps ghost periodic size x = some a) :
    ∃ p, selectIdx ghost periodic size ⌊x⌋ x = some p ∧ a.li = p.1 + shift ghost ∧
      a.hi = p.2 + shift ghost ∧ a.wl = clip eps (1 - (x - ⌊x⌋)) ∧ a.wh = clip eps (x - ⌊x⌋) := by
  rw [axisDataX_eq] at h
  cases hp : selectIdx ghost periodic size ⌊x⌋ x with
  | none => rw [hp] at h; exact absurd h (by simp)
  | some p =>
    rw [hp] at h
    simp only [Option.map_some, Option.some.injEq] at h
    subst h
    exact ⟨p, rfl, rfl, rfl, rfl, rfl⟩

/-- **weights**: with inert clipping (`eps ≤ 0`, exact arithmetic) the two weights are
non-negative and sum to one - in every branch (bulk, strips, periodic, ghost) -/
theorem axisDataX_weights {eps : K} (he : eps ≤ 0) {ghost periodic : Bool} {size : Int}
    {x : K} {a : AxisData K} (h : axisDataX eps ghost periodic size x = some a) :
    a.wl + a.wh = 1 ∧ 0 ≤ a.wl ∧ 0 ≤ a.wh := by
  obtain ⟨p, -, -, -, hl, hh⟩ := axisDataX_some h
  obtain ⟨f0, f1, f2⟩ := frac_bounds x
  rw [hl, hh, clip_of_nonpos he f2.le, clip_of_nonpos he f0]
  exact ⟨by ring, f2.le, f0⟩

/-- the weights for any clipping constant (the code uses `1e-15`): non-negative, sum at most one
and, for `eps ≤ 1/2`, at least `1 - max eps 0` -/
theorem axisDataX_weights_clipped {eps : K} {ghost periodic : Bool} {size : Int}
    {x : K} {a : AxisData K} (h : axisDataX eps ghost periodic size x = some a) :
    0 ≤ a.wl ∧ 0 ≤ a.wh ∧ a.wl + a.wh ≤ 1 ∧ (eps ≤ 1/2 → 1 - max eps 0 ≤ a.wl + a.wh) := by
  obtain ⟨p, -, -, -, hl, hh⟩ := axisDataX_some h
  obtain ⟨f0, f1, f2⟩ := frac_bounds x
  rw [hl, hh]
  refine ⟨clip_nonneg f2.le, clip_nonneg f0, ?_, ?_⟩
  · have := clip_le (eps := eps) f2.le
    have := clip_le (eps := eps) f0
    linarith
  · intro he
    have m0 : (0:K) ≤ max eps 0 := le_max_right _ _
    have m1 : eps ≤ max eps 0 := le_max_left _ _
    unfold clip
    split_ifs with c1 c2 c2 <;> (try simp only [Nat.cast_zero]) <;> linarith

/-- **indices**: without ghost cells both support points are cells of the grid -/
theorem axisDataX_indices {eps : K} {periodic : Bool} {size : Int} (hs : 1 ≤ size)
    {x : K} {a : AxisData K} (h : axisDataX eps false periodic size x = some a) :
    0 ≤ a.li ∧ a.li < size ∧ 0 ≤ a.hi ∧ a.hi < size := by
  obtain ⟨p, hp, hl, hh, -, -⟩ := axisDataX_some h
  simp only [shift, Bool.false_eq_true, if_false, add_zero] at hl hh
  rw [hl, hh]
  have h1 := Int.floor_le x
  have h2 := Int.lt_floor_add_one x
  have hs' : (1:K) ≤ size := by exact_mod_cast hs
  cases periodic
  · rw [selectIdx_unfold_ng] at hp
    split_ifs at hp with c1 c2 c3
    · cases hp
      have f0 : 0 ≤ ⌊x⌋ := Int.floor_nonneg.mpr c1.1
      have f1 : ⌊x⌋ < size - 1 := by
        have : ((⌊x⌋ : Int) : K) < ((size - 1 : Int) : K) := by push_cast; linarith [c1.2]
        exact_mod_cast this
      simp only; omega
    · cases hp
      have f0 : size - 1 ≤ ⌊x⌋ := by apply Int.le_floor.mpr; push_cast; exact c2.1
      have f1 : ⌊x⌋ < size := by
        have : ((⌊x⌋ : Int) : K) < (size : K) := by linarith [c2.2]
        exact_mod_cast this
      simp only; omega
    · cases hp
      have f0 : -1 ≤ ⌊x⌋ := by apply Int.le_floor.mpr; push_cast; linarith [c3.1]
      have f1 : ⌊x⌋ ≤ 0 := by
        have : ((⌊x⌋ : Int) : K) ≤ 0 := by linarith [c3.2]
        exact_mod_cast this
      -- `⌊x⌋ = 0` forces `x = 0`, which the first two branches catch (the second one when size = 1)
      by_cases hx0 : ⌊x⌋ = 0
      · exfalso
        have hx00 : x = 0 := le_antisymm c3.2 (by rw [hx0] at h1; simpa using h1)
        rw [hx00] at c1 c2
        have hsz : ¬ ((0:K) < size - 1) := fun hh => c1 ⟨le_refl _, hh⟩
        exact c2 ⟨by linarith [not_lt.mp hsz], by linarith⟩
      · simp only; omega
  · rw [selectIdx_periodic] at hp
    cases hp
    have hpos : (0:Int) < size := by omega
    exact ⟨Int.emod_nonneg _ (by omega), Int.emod_lt_of_pos _ hpos,
      Int.emod_nonneg _ (by omega), Int.emod_lt_of_pos _ hpos⟩

/-- **indices, ghost-cell mode**: the support points lie in the padded array `0 .. size+1`; on a
periodic axis only valid cells `1 .. size` are used -/
theorem axisDataX_indices_ghost {eps : K} {periodic : Bool} {size : Int} (hs : 1 ≤ size)
    {x : K} {a : AxisData K} (h : axisDataX eps true periodic size x = some a) :
    0 ≤ a.li ∧ a.li ≤ size + 1 ∧ 0 ≤ a.hi ∧ a.hi ≤ size + 1 ∧
      (periodic = true → 1 ≤ a.li ∧ a.li ≤ size ∧ 1 ≤ a.hi ∧ a.hi ≤ size) := by
  obtain ⟨p, hp, hl, hh, -, -⟩ := axisDataX_some h
  simp only [shift, if_true] at hl hh
  rw [hl, hh]
  have h1 := Int.floor_le x
  have h2 := Int.lt_floor_add_one x
  cases periodic
  · rw [selectIdx_unfold_g] at hp
    split_ifs at hp with c1
    cases hp
    have f0 : -1 ≤ ⌊x⌋ := by apply Int.le_floor.mpr; push_cast; linarith [c1.1]
    have f1 : ⌊x⌋ < size := by
      have : ((⌊x⌋ : Int) : K) < (size : K) := by linarith [c1.2]
      exact_mod_cast this
    simp only; refine ⟨by omega, by omega, by omega, by omega, by simp⟩
  · rw [selectIdx_periodic] at hp
    cases hp
    have hpos : (0:Int) < size := by omega
    have a1 := Int.emod_nonneg ⌊x⌋ (show size ≠ 0 by omega)
    have a2 := Int.emod_lt_of_pos ⌊x⌋ hpos
    have b1 := Int.emod_nonneg (⌊x⌋ + 1) (show size ≠ 0 by omega)
    have b2 := Int.emod_lt_of_pos (⌊x⌋ + 1) hpos
    simp only
    refine ⟨by omega, by omega, by omega, by omega, fun _ => ⟨by omega, by omega, by omega, by omega⟩⟩

/-! ### one axis in grid coordinates -/

/-- the one-axis interpolation functional: all interpolators use the axis data only through it -/
def axisApply (a : AxisData K) (f : Int → K) : K := a.wl * f a.li + a.wh * f a.hi

/-- coordinate of the centre of cell `i` -/
def centre (ax : Axis K) (i : Int) : K := ax.lo + ((i : K) + 1/2) * ax.dx

/-- upper end of the axis -/
def upperEnd (ax : Axis K) : K := ax.lo + (ax.size : K) * ax.dx

theorem cellCoord_grid (ax : Axis K) (coord : K) :
    cellCoord false ax coord = (coord - ax.lo) / ax.dx - 1/2 := by
  unfold cellCoord; simp [half_eq]

theorem cellCoord_at (ax : Axis K) (hdx : ax.dx ≠ 0) (i : Int) (t : K) :
    cellCoord false ax (centre ax i + t * ax.dx) = (i : K) + t := by
  rw [cellCoord_grid]; unfold centre; field_simp; ring

theorem floor_at (i : Int) {t : K} (h0 : 0 ≤ t) (h1 : t < 1) : ⌊(i : K) + t⌋ = i := by
  rw [Int.floor_intCast_add, Int.floor_eq_zero_iff.mpr ⟨h0, h1⟩, add_zero]

theorem axisDataX_at (eps : K) (ghost periodic : Bool) (size i : Int) {t : K} (h0 : 0 ≤ t)
    (h1 : t < 1) :
    axisDataX eps ghost periodic size ((i : K) + t) =
      (selectIdx ghost periodic size i ((i : K) + t)).map (fun p =>
        ⟨p.1 + shift ghost, p.2 + shift ghost, clip eps (1 - t), clip eps t⟩) := by
  rw [axisDataX_eq, floor_at i h0 h1, add_sub_cancel_left]

/-- **at a cell centre** the support is cell `i` with weight one (every mode, every branch: the
last cell of a non-periodic axis goes through the "upper strip" branch, a single cell as well);
holds for every clipping constant `eps ≤ 1`, in particular the `1e-15` of the code -/
theorem axisData_centre {eps : K} (he : eps ≤ 1) (ghost : Bool) (ax : Axis K) (hdx : ax.dx ≠ 0)
    (i : Int) (hi0 : 0 ≤ i) (hi1 : i < ax.size) :
    ∃ a, axisData eps ghost false ax (centre ax i) = some a ∧ a.li = i + shift ghost ∧
      a.wl = 1 ∧ a.wh = 0 := by
  have hx : cellCoord false ax (centre ax i) = (i : K) + 0 := by
    have := cellCoord_at ax hdx i 0; simpa using this
  unfold axisData
  rw [hx, axisDataX_at eps ghost ax.periodic ax.size i (le_refl 0) zero_lt_one]
  simp only [add_zero, sub_zero, clip_one he, clip_zero]
  have hiK0 : (0:K) ≤ i := by exact_mod_cast hi0
  have hiK1 : (i:K) ≤ (ax.size : K) - 1 := by
    have : ((i:Int):K) ≤ ((ax.size - 1 : Int) : K) := by exact_mod_cast (by omega : i ≤ ax.size - 1)
    push_cast at this; exact this
  cases hper : ax.periodic
  · cases ghost
    · by_cases hb : (i:K) < (ax.size : K) - 1
      · rw [selectIdx_bulk ax.size i (i:K) hiK0 hb]; exact ⟨_, rfl, rfl, rfl, rfl⟩
      · rw [selectIdx_upper ax.size i (i:K) (not_lt.mp hb) (by linarith)]
        exact ⟨_, rfl, rfl, rfl, rfl⟩
    · rw [selectIdx_ghost ax.size i (i:K) (by linarith) (by linarith)]
      exact ⟨_, rfl, rfl, rfl, rfl⟩
  · rw [selectIdx_periodic]
    refine ⟨_, rfl, ?_, rfl, rfl⟩
    simp only [Int.emod_eq_of_lt hi0 hi1]

theorem axisApply_centre {eps : K} (he : eps ≤ 1) (ghost : Bool) (ax : Axis K) (hdx : ax.dx ≠ 0)
    (i : Int) (hi0 : 0 ≤ i) (hi1 : i < ax.size) :
    ∃ a, axisData eps ghost false ax (centre ax i) = some a ∧
      ∀ f : Int → K, axisApply a f = f (i + shift ghost) := by
  obtain ⟨a, h, hl, hwl, hwh⟩ := axisData_centre he ghost ax hdx i hi0 hi1
  refine ⟨a, h, fun f => ?_⟩
  unfold axisApply; rw [hl, hwl, hwh]; ring

/-- **between two centres** `i` and `i+1` (both cells of the grid) the support is `(i, i+1)` with
weights `(1-t, t)`: in every mode (plain, periodic, ghost) -/
theorem axisData_between {eps : K} (he : eps ≤ 0) (ghost : Bool) (ax : Axis K) (hdx : ax.dx ≠ 0)
    (i : Int) (hi0 : 0 ≤ i) (hi1 : i + 1 < ax.size) {t : K} (h0 : 0 ≤ t) (h1 : t < 1) :
    axisData eps ghost false ax (centre ax i + t * ax.dx) =
      some ⟨i + shift ghost, i + 1 + shift ghost, 1 - t, t⟩ := by
  unfold axisData
  rw [cellCoord_at ax hdx, axisDataX_at eps ghost ax.periodic ax.size i h0 h1,
    clip_of_nonpos he h0, clip_of_nonpos he (by linarith : (0:K) ≤ 1 - t)]
  have hiK0 : (0:K) ≤ i := by exact_mod_cast hi0
  have hiK1 : (i:K) + 1 ≤ (ax.size : K) - 1 := by
    have : ((i + 1 : Int):K) ≤ ((ax.size - 1 : Int) : K) := by
      exact_mod_cast (by omega : i + 1 ≤ ax.size - 1)
    push_cast at this; exact this
  cases hper : ax.periodic
  · cases ghost
    · rw [selectIdx_bulk ax.size i _ (by linarith) (by linarith)]; rfl
    · rw [selectIdx_ghost ax.size i _ (by linarith) (by linarith)]; rfl
  · rw [selectIdx_periodic, Int.emod_eq_of_lt hi0 (by omega), Int.emod_eq_of_lt (by omega) hi1]; rfl

theorem axisApply_between {eps : K} (he : eps ≤ 0) (ghost : Bool) (ax : Axis K) (hdx : ax.dx ≠ 0)
    (i : Int) (hi0 : 0 ≤ i) (hi1 : i + 1 < ax.size) {t : K} (h0 : 0 ≤ t) (h1 : t < 1) :
    ∃ a, axisData eps ghost false ax (centre ax i + t * ax.dx) = some a ∧
      ∀ f : Int → K, axisApply a f = (1 - t) * f (i + shift ghost) + t * f (i + 1 + shift ghost) :=
  ⟨_, axisData_between he ghost ax hdx i hi0 hi1 h0 h1, fun _ => rfl⟩

/-- cell coordinate versus grid coordinate (positive spacing) -/
theorem cellCoord_ge_iff (ax : Axis K) (hdx : 0 < ax.dx) (coord c : K) :
    c ≤ cellCoord false ax coord ↔ ax.lo + (c + 1/2) * ax.dx ≤ coord := by
  rw [cellCoord_grid, le_sub_iff_add_le, le_div_iff₀ hdx]
  constructor <;> intro h <;> linarith

theorem cellCoord_le_iff (ax : Axis K) (hdx : 0 < ax.dx) (coord c : K) :
    cellCoord false ax coord ≤ c ↔ coord ≤ ax.lo + (c + 1/2) * ax.dx := by
  rw [cellCoord_grid, sub_le_iff_le_add, div_le_iff₀ hdx]
  constructor <;> intro h <;> linarith

theorem cellCoord_lt_iff (ax : Axis K) (hdx : 0 < ax.dx) (coord c : K) :
    cellCoord false ax coord < c ↔ coord < ax.lo + (c + 1/2) * ax.dx := by
  rw [← not_le, cellCoord_ge_iff ax hdx, not_le]

theorem cellCoord_gt_iff (ax : Axis K) (hdx : 0 < ax.dx) (coord c : K) :
    c < cellCoord false ax coord ↔ ax.lo + (c + 1/2) * ax.dx < coord := by
  rw [← not_le, cellCoord_le_iff ax hdx, not_le]

/-! ### outside / inside -/

/-- **outside is rejected** (non-periodic axis, with or without ghost cells): a coordinate below
the lower or above the upper end of the axis gives the out-of-bounds signal -/
theorem axisData_outside (eps : K) (ghost : Bool) (ax : Axis K) (hper : ax.periodic = false)
    (hs : 1 ≤ ax.size) (hdx : 0 < ax.dx) (coord : K)
    (h : coord < ax.lo ∨ upperEnd ax < coord) : axisData eps ghost false ax coord = none := by
  unfold axisData
  rw [axisDataX_eq, hper, selectIdx_outside ghost ax.size _ hs]; · rfl
  rcases h with h | h
  · left; rw [cellCoord_lt_iff ax hdx]; linarith
  · right; rw [cellCoord_gt_iff ax hdx]; unfold upperEnd at h; linarith

/-- **inside is accepted**: every coordinate of the closed interval `[lo, upperEnd]` is accepted -/
theorem axisData_inside (eps : K) (ghost : Bool) (ax : Axis K) (hper : ax.periodic = false)
    (hs : 1 ≤ ax.size) (hdx : 0 < ax.dx) (coord : K)
    (h1 : ax.lo ≤ coord) (h2 : coord ≤ upperEnd ax) :
    (axisData eps ghost false ax coord).isSome := by
  unfold axisData
  rw [axisDataX_eq, hper, Option.isSome_map, selectIdx_isSome_iff ghost ax.size _ hs]
  constructor
  · rw [cellCoord_ge_iff ax hdx]; linarith
  · rw [cellCoord_le_iff ax hdx]; unfold upperEnd at h2; linarith

/-- the two statements together: acceptance is exactly membership in the closed domain -/
theorem axisData_isSome_iff (eps : K) (ghost : Bool) (ax : Axis K) (hper : ax.periodic = false)
    (hs : 1 ≤ ax.size) (hdx : 0 < ax.dx) (coord : K) :
    (axisData eps ghost false ax coord).isSome ↔ (ax.lo ≤ coord ∧ coord ≤ upperEnd ax) := by
  constructor
  · intro h
    by_contra hc
    have : coord < ax.lo ∨ upperEnd ax < coord := by
      by_cases h1 : ax.lo ≤ coord
      · right; by_contra h2; exact hc ⟨h1, not_lt.mp h2⟩
      · left; exact not_le.mp h1
    rw [axisData_outside eps ghost ax hper hs hdx coord this] at h
    exact absurd h (by simp)
  · rintro ⟨h1, h2⟩; exact axisData_inside eps ghost ax hper hs hdx coord h1 h2

/-- a periodic axis accepts every coordinate -/
theorem axisData_periodic_isSome (eps : K) (ghost cc : Bool) (ax : Axis K) (hper : ax.periodic = true)
    (coord : K) : (axisData eps ghost cc ax coord).isSome := by
  unfold axisData
  rw [axisDataX_eq, hper, selectIdx_periodic]; rfl

/-! ### boundary strips (no ghost cells): nearest cell -/

theorem axisData_lower_strip {eps : K} (he : eps ≤ 0) (ax : Axis K) (hper : ax.periodic = false)
    (hs : 1 ≤ ax.size) (hdx : 0 < ax.dx) (coord : K) (h1 : ax.lo ≤ coord)
    (h2 : coord ≤ ax.lo + ax.dx / 2) :
    ∃ a, axisData eps false false ax coord = some a ∧ ∀ f : Int → K, axisApply a f = f 0 := by
  have hx1 : -(1/2 : K) ≤ cellCoord false ax coord := by rw [cellCoord_ge_iff ax hdx]; linarith
  have hx2 : cellCoord false ax coord ≤ 0 := by rw [cellCoord_le_iff ax hdx]; linarith
  rcases lt_or_eq_of_le hx2 with hlt | heq
  · -- strictly inside the strip: lower-boundary branch
    have hfl : ⌊cellCoord false ax coord⌋ = -1 := by
      rw [Int.floor_eq_iff]; push_cast; constructor <;> linarith
    have hsome : axisData eps false false ax coord = some
        ⟨0, 0, clip eps (1 - (cellCoord false ax coord - ((-1 : Int) : K))),
          clip eps (cellCoord false ax coord - ((-1 : Int) : K))⟩ := by
      unfold axisData
      rw [axisDataX_eq, hper, hfl, selectIdx_lower ax.size (-1) hs _ hx1 hlt]; rfl
    refine ⟨_, hsome, fun f => ?_⟩
    obtain ⟨hsum, -, -⟩ := axisDataX_weights he (show axisDataX eps false ax.periodic ax.size
      (cellCoord false ax coord) = some _ from hsome)
    unfold axisApply
    simp only at hsum ⊢
    rw [← add_mul, hsum, one_mul]
  · -- the centre of cell 0
    have hc : coord = centre ax 0 := by
      have := (cellCoord_le_iff ax hdx coord 0).mp heq.le
      have := (cellCoord_ge_iff ax hdx coord 0).mp heq.ge
      unfold centre; push_cast; linarith
    obtain ⟨a, h, hf⟩ := axisApply_centre (le_trans he zero_le_one) false ax hdx.ne' 0 (le_refl 0) (by omega)
    rw [← hc] at h
    exact ⟨a, h, fun f => by rw [hf f]; simp [shift]⟩

theorem axisData_upper_strip {eps : K} (he : eps ≤ 0) (ax : Axis K) (hper : ax.periodic = false)
    (_hs : 1 ≤ ax.size) (hdx : 0 < ax.dx) (coord : K) (h1 : upperEnd ax - ax.dx / 2 ≤ coord)
    (h2 : coord ≤ upperEnd ax) :
    ∃ a, axisData eps false false ax coord = some a ∧
      ∀ f : Int → K, axisApply a f = f (ax.size - 1) := by
  unfold upperEnd at h1 h2
  have hx1 : (ax.size : K) - 1 ≤ cellCoord false ax coord := by
    rw [cellCoord_ge_iff ax hdx]; linarith
  have hx2 : cellCoord false ax coord ≤ (ax.size : K) - 1/2 := by
    rw [cellCoord_le_iff ax hdx]; linarith
  have hfl : ⌊cellCoord false ax coord⌋ = ax.size - 1 := by
    rw [Int.floor_eq_iff]; push_cast; constructor <;> linarith
  have hsome : axisData eps false false ax coord = some
      ⟨ax.size - 1, ax.size - 1, clip eps (1 - (cellCoord false ax coord - ((ax.size - 1 : Int) : K))),
        clip eps (cellCoord false ax coord - ((ax.size - 1 : Int) : K))⟩ := by
    unfold axisData
    rw [axisDataX_eq, hper, hfl, selectIdx_upper ax.size _ _ hx1 hx2]; simp [shift]
  refine ⟨_, hsome, fun f => ?_⟩
  obtain ⟨hsum, -, -⟩ := axisDataX_weights he (show axisDataX eps false ax.periodic ax.size
    (cellCoord false ax coord) = some _ from hsome)
  unfold axisApply
  simp only at hsum ⊢
  rw [← add_mul, hsum, one_mul]

/-! ### periodic axes -/

/-- on a periodic axis the support is `(⌊x⌋ mod size, (⌊x⌋+1) mod size)` with the bulk weights -/
theorem axisData_periodic (eps : K) (ghost cc : Bool) (ax : Axis K) (hper : ax.periodic = true)
    (coord : K) :
    axisData eps ghost cc ax coord =
      (let x := cellCoord cc ax coord
       some ⟨⌊x⌋ % ax.size + shift ghost, (⌊x⌋ + 1) % ax.size + shift ghost,
        clip eps (1 - (x - ⌊x⌋)), clip eps (x - ⌊x⌋)⟩) := by
  unfold axisData
  rw [axisDataX_eq, hper, selectIdx_periodic]; rfl

/-- **periodic seam**: the value is the bulk formula `(1-t) f(⌊x⌋) + t f(⌊x⌋+1)` evaluated in the
unrolled periodic extension `k ↦ f (k mod size)` of the data -/
theorem axisApply_periodic {eps : K} (he : eps ≤ 0) (ghost cc : Bool) (ax : Axis K)
    (hper : ax.periodic = true) (coord : K) :
    ∃ a, axisData eps ghost cc ax coord = some a ∧ ∀ f : Int → K,
      let x := cellCoord cc ax coord
      let ext : Int → K := fun k => f (k % ax.size + shift ghost)
      axisApply a f = (1 - (x - ⌊x⌋)) * ext ⌊x⌋ + (x - ⌊x⌋) * ext (⌊x⌋ + 1) := by
  refine ⟨_, axisData_periodic eps ghost cc ax hper coord, fun f => ?_⟩
  obtain ⟨f0, f1, f2⟩ := frac_bounds (cellCoord cc ax coord)
  simp only [axisApply, clip_of_nonpos he f2.le, clip_of_nonpos he f0]

/-- moving the coordinate by one period does not change the axis data -/
theorem axisData_periodic_shift (eps : K) (ghost : Bool) (ax : Axis K) (hper : ax.periodic = true)
    (hdx : ax.dx ≠ 0) (coord : K) :
    axisData eps ghost false ax (coord + (ax.size : K) * ax.dx) = axisData eps ghost false ax coord := by
  have hx : cellCoord false ax (coord + (ax.size : K) * ax.dx)
      = cellCoord false ax coord + ((ax.size : Int) : K) := by
    rw [cellCoord_grid, cellCoord_grid]; field_simp; ring
  rw [axisData_periodic eps ghost false ax hper, axisData_periodic eps ghost false ax hper]
  simp only [hx, Int.floor_add_intCast, Int.add_emod_right]
  have : (⌊cellCoord false ax coord⌋ + ax.size + 1) % ax.size = (⌊cellCoord false ax coord⌋ + 1) % ax.size := by
    rw [show ⌊cellCoord false ax coord⌋ + ax.size + 1 = ⌊cellCoord false ax coord⌋ + 1 + ax.size by ring,
      Int.add_emod_right]
  rw [this]
  push_cast
  simp only [add_sub_add_right_eq_sub]

/-- across the seam: a point in the last half cell of a periodic axis is interpolated between the
last and the first cell -/
theorem axisData_seam {eps : K} (he : eps ≤ 0) (ghost : Bool) (ax : Axis K)
    (hper : ax.periodic = true) (hs : 1 ≤ ax.size) (hdx : ax.dx ≠ 0) {t : K} (h0 : 0 ≤ t) (h1 : t < 1) :
    axisData eps ghost false ax (centre ax (ax.size - 1) + t * ax.dx) =
      some ⟨ax.size - 1 + shift ghost, 0 + shift ghost, 1 - t, t⟩ := by
  rw [axisData_periodic eps ghost false ax hper]
  simp only [cellCoord_at ax hdx, floor_at _ h0 h1, add_sub_cancel_left,
    clip_of_nonpos he h0, clip_of_nonpos he (by linarith : (0:K) ≤ 1 - t)]
  rw [Int.emod_eq_of_lt (by omega) (by omega), show ax.size - 1 + 1 = ax.size by ring,
    Int.emod_self]

/-! ### ghost-cell mode next to a non-periodic boundary -/

/-- lower boundary, `coord = lo + τ·dx/2` with `0 ≤ τ ≤ 1` (from the face to the first centre):
the functional is `(1-τ)/2 · f 0 + (1+τ)/2 · f 1` (index 0 = ghost cell, 1 = first cell) -/
theorem axisApply_ghost_lower {eps : K} (he : eps ≤ 0) (ax : Axis K) (hper : ax.periodic = false)
    (hs : 1 ≤ ax.size) (hdx : ax.dx ≠ 0) {τ : K} (h0 : 0 ≤ τ) (h1 : τ ≤ 1) :
    ∃ a, axisData eps true false ax (ax.lo + τ * (ax.dx / 2)) = some a ∧
      ∀ f : Int → K, axisApply a f = (1 - τ) / 2 * f 0 + (1 + τ) / 2 * f 1 := by
  have hs' : (1:K) ≤ ax.size := by exact_mod_cast hs
  rcases lt_or_eq_of_le h1 with hlt | heq
  · have hx : cellCoord false ax (ax.lo + τ * (ax.dx / 2)) = ((-1 : Int) : K) + (1 + τ) / 2 := by
      rw [cellCoord_grid]; push_cast; field_simp; ring
    have t0 : (0:K) ≤ (1 + τ) / 2 := by linarith
    have t1 : (1 + τ) / 2 < (1:K) := by linarith
    refine ⟨⟨0, 1, 1 - (1 + τ) / 2, (1 + τ) / 2⟩, ?_, fun f => ?_⟩
    · unfold axisData
      rw [hx, axisDataX_at eps true ax.periodic ax.size (-1) t0 t1, hper,
        selectIdx_ghost ax.size (-1) _ (by push_cast; linarith) (by push_cast; linarith),
        clip_of_nonpos he t0, clip_of_nonpos he (by linarith : (0:K) ≤ 1 - (1 + τ) / 2)]
      simp [shift]
    · simp only [axisApply]; ring
  · subst heq
    obtain ⟨a, h, hf⟩ := axisApply_centre (le_trans he zero_le_one) true ax hdx 0 (le_refl 0) (by omega)
    have hc : centre ax 0 = ax.lo + 1 * (ax.dx / 2) := by unfold centre; push_cast; ring
    rw [hc] at h
    refine ⟨a, h, fun f => ?_⟩
    rw [hf f]; simp [shift]

/-- upper boundary, `coord = upperEnd - τ·dx/2`: `(1+τ)/2 · f size + (1-τ)/2 · f (size+1)`
(index `size` = last cell, `size+1` = ghost cell) -/
theorem axisApply_ghost_upper {eps : K} (he : eps ≤ 0) (ax : Axis K) (hper : ax.periodic = false)
    (hs : 1 ≤ ax.size) (hdx : ax.dx ≠ 0) {τ : K} (h0 : 0 ≤ τ) (h1 : τ ≤ 1) :
    ∃ a, axisData eps true false ax (upperEnd ax - τ * (ax.dx / 2)) = some a ∧
      ∀ f : Int → K, axisApply a f = (1 + τ) / 2 * f ax.size + (1 - τ) / 2 * f (ax.size + 1) := by
  have hs' : (1:K) ≤ ax.size := by exact_mod_cast hs
  rcases lt_or_eq_of_le h0 with hlt | heq
  · have hx : cellCoord false ax (upperEnd ax - τ * (ax.dx / 2))
        = ((ax.size - 1 : Int) : K) + (1 - τ) / 2 := by
      rw [cellCoord_grid]; unfold upperEnd; push_cast; field_simp; ring
    have t0 : (0:K) ≤ (1 - τ) / 2 := by linarith
    have t1 : (1 - τ) / 2 < (1:K) := by linarith
    refine ⟨⟨ax.size, ax.size + 1, 1 - (1 - τ) / 2, (1 - τ) / 2⟩, ?_, fun f => ?_⟩
    · unfold axisData
      rw [hx, axisDataX_at eps true ax.periodic ax.size (ax.size - 1) t0 t1, hper,
        selectIdx_ghost ax.size (ax.size - 1) _ (by push_cast; linarith) (by push_cast; linarith),
        clip_of_nonpos he t0, clip_of_nonpos he (by linarith : (0:K) ≤ 1 - (1 - τ) / 2)]
      simp [shift]
    · simp only [axisApply]; ring
  · subst heq
    -- on the face itself: `x = size - 1/2`
    have hx : cellCoord false ax (upperEnd ax - 0 * (ax.dx / 2))
        = ((ax.size - 1 : Int) : K) + 1 / 2 := by
      rw [cellCoord_grid]; unfold upperEnd; push_cast; field_simp; ring
    have t0 : (0:K) ≤ 1 / 2 := by norm_num
    have t1 : (1:K) / 2 < 1 := by norm_num
    refine ⟨⟨ax.size, ax.size + 1, 1 - 1 / 2, 1 / 2⟩, ?_, fun f => ?_⟩
    · unfold axisData
      rw [hx, axisDataX_at eps true ax.periodic ax.size (ax.size - 1) t0 t1, hper,
        selectIdx_ghost ax.size (ax.size - 1) _ (by push_cast; linarith) (by push_cast; linarith),
        clip_of_nonpos he t0, clip_of_nonpos he (by linarith : (0:K) ≤ 1 - 1 / 2)]
      simp [shift]
    · simp only [axisApply]; ring

/-! ### convex combination, affine exactness on one axis -/

theorem convex_bounds {wl wh u v m M : K} (hsum : wl + wh = 1) (hl : 0 ≤ wl) (hh : 0 ≤ wh)
    (hu : m ≤ u ∧ u ≤ M) (hv : m ≤ v ∧ v ≤ M) : m ≤ wl * u + wh * v ∧ wl * u + wh * v ≤ M := by
  have e : wh = 1 - wl := by linarith
  subst e
  constructor <;> nlinarith [mul_nonneg hl (sub_nonneg.mpr hu.1), mul_nonneg hh (sub_nonneg.mpr hv.1),
    mul_nonneg hl (sub_nonneg.mpr hu.2), mul_nonneg hh (sub_nonneg.mpr hv.2)]

/-- the axis functional never leaves the range of the values at the cells of the grid -/
theorem axisApply_range {eps : K} (he : eps ≤ 0) {cc : Bool} (ax : Axis K) (hs : 1 ≤ ax.size)
    {coord : K} {a : AxisData K} (h : axisData eps false cc ax coord = some a) (f : Int → K) {m M : K}
    (hf : ∀ i, 0 ≤ i → i < ax.size → m ≤ f i ∧ f i ≤ M) :
    m ≤ axisApply a f ∧ axisApply a f ≤ M := by
  obtain ⟨hsum, hl, hh⟩ := axisDataX_weights he h
  obtain ⟨l0, l1, h0, h1⟩ := axisDataX_indices hs h
  exact convex_bounds hsum hl hh (hf _ l0 l1) (hf _ h0 h1)

/-- ghost-cell mode: the range is taken over the padded array -/
theorem axisApply_range_ghost {eps : K} (he : eps ≤ 0) {cc : Bool} (ax : Axis K) (hs : 1 ≤ ax.size)
    {coord : K} {a : AxisData K} (h : axisData eps true cc ax coord = some a) (f : Int → K) {m M : K}
    (hf : ∀ i, 0 ≤ i → i ≤ ax.size + 1 → m ≤ f i ∧ f i ≤ M) :
    m ≤ axisApply a f ∧ axisApply a f ≤ M := by
  obtain ⟨hsum, hl, hh⟩ := axisDataX_weights he h
  obtain ⟨l0, l1, h0, h1, -⟩ := axisDataX_indices_ghost hs h
  exact convex_bounds hsum hl hh (hf _ l0 l1) (hf _ h0 h1)

/-- **affine data are reproduced exactly** between the first and the last cell centre -/
theorem axisApply_affine {eps : K} (he : eps ≤ 0) (ax : Axis K) (hs : 1 ≤ ax.size)
    (hdx : 0 < ax.dx) (coord : K) (h1 : centre ax 0 ≤ coord) (h2 : coord ≤ centre ax (ax.size - 1)) :
    ∃ a, axisData eps false false ax coord = some a ∧ ∀ (f : Int → K) (α β : K),
      (∀ i, 0 ≤ i → i < ax.size → f i = α + β * centre ax i) → axisApply a f = α + β * coord := by
  -- write coord = centre i + t dx with i = ⌊x⌋
  set x := cellCoord false ax coord with hxdef
  have hx0 : (0:K) ≤ x := by
    rw [hxdef, cellCoord_ge_iff ax hdx]; unfold centre at h1; push_cast at h1; linarith
  have hx1 : x ≤ (ax.size : K) - 1 := by
    rw [hxdef, cellCoord_le_iff ax hdx]; unfold centre at h2; push_cast at h2; linarith
  obtain ⟨f0, f1, -⟩ := frac_bounds x
  have hcoord : coord = centre ax ⌊x⌋ + (x - ⌊x⌋) * ax.dx := by
    rw [hxdef, cellCoord_grid]; unfold centre; field_simp; ring
  have hi0 : 0 ≤ ⌊x⌋ := Int.floor_nonneg.mpr hx0
  rcases lt_or_eq_of_le hx1 with hlt | heq
  · have hi1 : ⌊x⌋ + 1 < ax.size := by
      have : ((⌊x⌋ : Int) : K) < ((ax.size - 1 : Int) : K) := by
        push_cast; linarith [Int.floor_le x]
      have : ⌊x⌋ < ax.size - 1 := by exact_mod_cast this
      omega
    refine ⟨_, by rw [hcoord]; exact axisData_between he false ax hdx.ne' ⌊x⌋ hi0 hi1 f0 f1, ?_⟩
    intro f α β hf
    simp only [axisApply, shift, Bool.false_eq_true, if_false, add_zero]
    rw [hf _ hi0 (by omega), hf _ (by omega) hi1]
    conv_rhs => rw [hcoord]
    unfold centre; push_cast; ring
  · -- the centre of the last cell
    have hc : coord = centre ax (ax.size - 1) := by
      rw [hcoord]
      have hfl : ⌊x⌋ = ax.size - 1 := by
        rw [heq]
        have : (ax.size : K) - 1 = ((ax.size - 1 : Int) : K) := by push_cast; ring
        rw [this, Int.floor_intCast]
      rw [hfl, heq]; push_cast; ring
    obtain ⟨a, h, hfa⟩ := axisApply_centre (le_trans he zero_le_one) false ax hdx.ne' (ax.size - 1)
      (by omega) (by omega)
    rw [← hc] at h
    refine ⟨a, h, fun f α β hf => ?_⟩
    rw [hfa f]; simp only [shift, Bool.false_eq_true, if_false, add_zero]
    rw [hf _ (by omega) (by omega), hc]

/-! ### the interpolators through the axis functional -/

theorem interp1_some {eps : K} {ghost cc : Bool} {fill : Option K} {ax : Axis K} {data : Idx → K}
    {px : K} {a : AxisData K} (ha : axisData eps ghost cc ax px = some a) :
    interp1 eps ghost cc fill ax data px = some (axisApply a (fun i => data [i])) := by
  unfold interp1; rw [ha]; rfl

theorem interp1_none {eps : K} {ghost cc : Bool} {fill : Option K} {ax : Axis K} {data : Idx → K}
    {px : K} (ha : axisData eps ghost cc ax px = none) :
    interp1 eps ghost cc fill ax data px = fill := by
  unfold interp1; rw [ha]

theorem interp2_some {eps : K} {ghost cc : Bool} {fill : Option K} {ax ay : Axis K} {data : Idx → K}
    {px py : K} {a b : AxisData K} (ha : axisData eps ghost cc ax px = some a)
    (hb : axisData eps ghost cc ay py = some b) :
    interp2 eps ghost cc fill ax ay data px py
      = some (axisApply a (fun i => axisApply b (fun j => data [i, j]))) := by
  unfold interp2; rw [ha, hb]; simp only [axisApply]; congr 1; ring

theorem interp2_none {eps : K} {ghost cc : Bool} {fill : Option K} {ax ay : Axis K} {data : Idx → K}
    {px py : K} (h : axisData eps ghost cc ax px = none ∨ axisData eps ghost cc ay py = none) :
    interp2 eps ghost cc fill ax ay data px py = fill := by
  unfold interp2
  rcases h with h | h
  · rw [h]
  · rw [h]; cases axisData eps ghost cc ax px <;> rfl

theorem interp3_some {eps : K} {ghost cc : Bool} {fill : Option K} {ax ay az : Axis K}
    {data : Idx → K} {px py pz : K} {a b c : AxisData K}
    (ha : axisData eps ghost cc ax px = some a) (hb : axisData eps ghost cc ay py = some b)
    (hc : axisData eps ghost cc az pz = some c) :
    interp3 eps ghost cc fill ax ay az data px py pz
      = some (axisApply a (fun i => axisApply b (fun j => axisApply c (fun k => data [i, j, k])))) := by
  unfold interp3; rw [ha, hb, hc]; simp only [axisApply]; congr 1; ring

theorem interp3_none {eps : K} {ghost cc : Bool} {fill : Option K} {ax ay az : Axis K}
    {data : Idx → K} {px py pz : K}
    (h : axisData eps ghost cc ax px = none ∨ axisData eps ghost cc ay py = none ∨
      axisData eps ghost cc az pz = none) :
    interp3 eps ghost cc fill ax ay az data px py pz = fill := by
  unfold interp3
  rcases h with h | h | h
  · rw [h]
  · rw [h]; cases axisData eps ghost cc ax px <;> rfl
  · rw [h]; cases axisData eps ghost cc ax px <;> cases axisData eps ghost cc ay py <;> rfl

/-- nesting: a 2-axis interpolation is a 1-axis interpolation (along y) of x-interpolated rows -/
theorem interp2_nest {eps : K} {ghost cc : Bool} {fill : Option K} {ax ay : Axis K} {data : Idx → K}
    {px py : K} {a : AxisData K} (ha : axisData eps ghost cc ax px = some a) :
    interp2 eps ghost cc fill ax ay data px py
      = interp1 eps ghost cc fill ay (fun c => axisApply a (fun i => data (i :: c))) py := by
  cases hb : axisData eps ghost cc ay py with
  | none => rw [interp2_none (Or.inr hb), interp1_none hb]
  | some b => rw [interp2_some ha hb, interp1_some hb]; simp only [axisApply]; congr 1; ring

/-- nesting along the last axis -/
theorem interp2_nest' {eps : K} {ghost cc : Bool} {fill : Option K} {ax ay : Axis K} {data : Idx → K}
    {px py : K} {b : AxisData K} (hb : axisData eps ghost cc ay py = some b) :
    interp2 eps ghost cc fill ax ay data px py
      = interp1 eps ghost cc fill ax (fun c => axisApply b (fun j => data (c ++ [j]))) px := by
  cases ha : axisData eps ghost cc ax px with
  | none => rw [interp2_none (Or.inl ha), interp1_none ha]
  | some a => rw [interp2_some ha hb, interp1_some ha]; rfl

theorem interp3_nest {eps : K} {ghost cc : Bool} {fill : Option K} {ax ay az : Axis K}
    {data : Idx → K} {px py pz : K} {a : AxisData K} (ha : axisData eps ghost cc ax px = some a) :
    interp3 eps ghost cc fill ax ay az data px py pz
      = interp2 eps ghost cc fill ay az (fun c => axisApply a (fun i => data (i :: c))) py pz := by
  cases hb : axisData eps ghost cc ay py with
  | none => rw [interp3_none (Or.inr (Or.inl hb)), interp2_none (Or.inl hb)]
  | some b =>
    cases hc : axisData eps ghost cc az pz with
    | none => rw [interp3_none (Or.inr (Or.inr hc)), interp2_none (Or.inr hc)]
    | some c => rw [interp3_some ha hb hc, interp2_some hb hc]; simp only [axisApply]; congr 1; ring

/-- the linear interpolant between two values -/
def lerp (t u v : K) : K := (1 - t) * u + t * v


/-- a coordinate is outside an axis if the axis is not periodic and the coordinate is below the
lower or above the upper end -/
def outsideAxis (ax : Axis K) (p : K) : Prop :=
  ax.periodic = false ∧ (p < ax.lo ∨ upperEnd ax < p)

/-- a coordinate is inside an axis if the axis is periodic or the coordinate lies in `[lo, hi]` -/
def insideAxis (ax : Axis K) (p : K) : Prop :=
  ax.periodic = true ∨ (ax.lo ≤ p ∧ p ≤ upperEnd ax)

/-- a well-formed axis: at least one cell, positive spacing -/
def Axis.ok (ax : Axis K) : Prop := 1 ≤ ax.size ∧ 0 < ax.dx

theorem not_inside_iff_outside (ax : Axis K) (p : K) : ¬ insideAxis ax p ↔ outsideAxis ax p := by
  unfold insideAxis outsideAxis
  cases ax.periodic <;> simp only [Bool.false_eq_true, false_or, true_and, not_and_or, not_le,
    true_or, not_true_eq_false, false_and, reduceCtorEq]

theorem axisData_none_of_outside (eps : K) (ghost : Bool) {ax : Axis K} (hok : ax.ok) {p : K}
    (h : outsideAxis ax p) : axisData eps ghost false ax p = none :=
  axisData_outside eps ghost ax h.1 hok.1 hok.2 p h.2

theorem axisData_some_of_inside (eps : K) (ghost : Bool) {ax : Axis K} (hok : ax.ok) {p : K}
    (h : insideAxis ax p) : ∃ a, axisData eps ghost false ax p = some a := by
  apply Option.isSome_iff_exists.mp
  rcases h with h | h
  · exact axisData_periodic_isSome eps ghost false ax h p
  · cases hper : ax.periodic
    · exact axisData_inside eps ghost ax hper hok.1 hok.2 p h.1 h.2
    · exact axisData_periodic_isSome eps ghost false ax hper p


/-- within half a cell of the lower end of a non-periodic axis -/
def inLowerStrip (ax : Axis K) (p : K) : Prop :=
  ax.periodic = false ∧ ax.lo ≤ p ∧ p ≤ ax.lo + ax.dx / 2

/-- within half a cell of the upper end of a non-periodic axis -/
def inUpperStrip (ax : Axis K) (p : K) : Prop :=
  ax.periodic = false ∧ upperEnd ax - ax.dx / 2 ≤ p ∧ p ≤ upperEnd ax

theorem strip_lower {eps : K} (he : eps ≤ 0) {ax : Axis K} (hok : ax.ok) {p : K}
    (h : inLowerStrip ax p) :
    ∃ a, axisData eps false false ax p = some a ∧ ∀ f : Int → K, axisApply a f = f 0 :=
  axisData_lower_strip he ax h.1 hok.1 hok.2 p h.2.1 h.2.2

theorem strip_upper {eps : K} (he : eps ≤ 0) {ax : Axis K} (hok : ax.ok) {p : K}
    (h : inUpperStrip ax p) :
    ∃ a, axisData eps false false ax p = some a ∧ ∀ f : Int → K, axisApply a f = f (ax.size - 1) :=
  axisData_upper_strip he ax h.1 hok.1 hok.2 p h.2.1 h.2.2


theorem interp3_nest_y {eps : K} {ghost cc : Bool} {fill : Option K} {ax ay az : Axis K}
    {data : Idx → K} {px py pz : K} {b : AxisData K} (hb : axisData eps ghost cc ay py = some b) :
    interp3 eps ghost cc fill ax ay az data px py pz
      = interp2 eps ghost cc fill ax az
          (fun c => axisApply b (fun j => data (c.take 1 ++ j :: c.drop 1))) px pz := by
  cases ha : axisData eps ghost cc ax px with
  | none => rw [interp3_none (Or.inl ha), interp2_none (Or.inl ha)]
  | some a =>
    cases hc : axisData eps ghost cc az pz with
    | none => rw [interp3_none (Or.inr (Or.inr hc)), interp2_none (Or.inr hc)]
    | some c =>
      rw [interp3_some ha hb hc, interp2_some ha hc]
      simp only [axisApply, List.take_succ_cons, List.take_zero, List.drop_succ_cons, List.drop_zero,
        List.cons_append, List.nil_append]
      congr 1; ring

theorem interp3_nest_z {eps : K} {ghost cc : Bool} {fill : Option K} {ax ay az : Axis K}
    {data : Idx → K} {px py pz : K} {c : AxisData K} (hc : axisData eps ghost cc az pz = some c) :
    interp3 eps ghost cc fill ax ay az data px py pz
      = interp2 eps ghost cc fill ax ay (fun d => axisApply c (fun k => data (d ++ [k]))) px py := by
  cases ha : axisData eps ghost cc ax px with
  | none => rw [interp3_none (Or.inl ha), interp2_none (Or.inl ha)]
  | some a =>
    cases hb : axisData eps ghost cc ay py with
    | none => rw [interp3_none (Or.inr (Or.inl hb)), interp2_none (Or.inr hb)]
    | some b => rw [interp3_some ha hb hc, interp2_some ha hb]; rfl


/-- the value on the inward normal of a boundary face, `τ` = distance from the face in half cells:
at `τ = 0` the face value `(ghost + cell)/2` (which the boundary condition fixes, property C02),
at `τ = 1` the cell value, affine in between -/
def ghostLine (ghost cell τ : K) : K := (ghost + cell) / 2 + τ * (cell - (ghost + cell) / 2)

theorem ghostLine_face (g c : K) : ghostLine g c 0 = (g + c) / 2 := by unfold ghostLine; ring
theorem ghostLine_cell (g c : K) : ghostLine g c 1 = c := by unfold ghostLine; ring
/-- affine in `τ` -/
theorem ghostLine_affine (g c τ : K) :
    ghostLine g c τ = (1 - τ) * ghostLine g c 0 + τ * ghostLine g c 1 := by unfold ghostLine; ring
/-- Dirichlet ghost cell `2 v - cell`: the line starts at the imposed value `v` -/
theorem ghostLine_dirichlet (v c τ : K) : ghostLine (2 * v - c) c τ = v + τ * (c - v) := by
  unfold ghostLine; ring
/-- Neumann ghost cell `cell + d·dx` (outward derivative `d`): the line has slope `d` -/
theorem ghostLine_neumann (d dx c τ : K) :
    ghostLine (c + d * dx) c τ = c + d * (dx / 2) * (1 - τ) := by
  unfold ghostLine; ring


/-! ## arrays: `+=`, sums, integral -/

theorem sumK_eq_sum (l : List K) : sumK l = l.sum := by
  induction l with
  | nil => simp [sumK]
  | cons x xs ih => simp [sumK, ih]

theorem prodK_eq_prod (l : List K) : prodK l = l.prod := by
  induction l with
  | nil => simp [prodK]
  | cons x xs ih => simp [prodK, ih]

theorem deposit_apply (data : Idx → K) (c : Idx) (v : K) (c' : Idx) :
    deposit data c v c' = data c' + (if c' = c then v else 0) := by
  unfold deposit; split_ifs <;> simp

/-- one `+=` changes the weighted sum over any duplicate-free list of cells that contains the
target by `v * vol c` -/
theorem sum_deposit (l : List Idx) (hn : l.Nodup) (vol data : Idx → K) (c : Idx) (v : K) :
    (l.map (fun c' => deposit data c v c' * vol c')).sum
      = (l.map (fun c' => data c' * vol c')).sum + (if c ∈ l then v * vol c else 0) := by
  induction l with
  | nil => simp
  | cons x xs ih =>
    have hx : x ∉ xs := (List.nodup_cons.mp hn).1
    rw [List.map_cons, List.sum_cons, ih (List.nodup_cons.mp hn).2, List.map_cons, List.sum_cons,
      deposit_apply]
    by_cases hxc : x = c
    · subst hxc; simp only [hx, if_true, if_false, List.mem_cons, true_or]; ring
    · have : ¬ c = x := fun h => hxc h.symm
      simp only [hxc, this, if_false, false_or, List.mem_cons]; ring

theorem cells_nodup : ∀ shape : List Int, (cells shape).Nodup
  | [] => by simp [cells]
  | n :: ns => by
    unfold cells
    rw [List.nodup_flatMap]
    constructor
    · intro i _
      exact (cells_nodup ns).map (fun a b h => by simpa using h)
    · refine (List.nodup_range).pairwise_of_forall_ne ?_
      intro i _ j _ hij
      simp only [Function.onFun, List.disjoint_left, List.mem_map, not_exists, not_and]
      rintro c ⟨r, _, rfl⟩ r' _ h
      simp only [List.cons.injEq, Nat.cast_inj] at h
      exact hij h.1.symm

theorem mem_cells_iff : ∀ (shape : List Int) (c : Idx), c ∈ cells shape ↔ validIdx shape c = true
  | [], [] => by simp [cells, validIdx]
  | [], _ :: _ => by simp [cells, validIdx]
  | _ :: _, [] => by simp [cells, validIdx]
  | n :: ns, c :: cs => by
    simp only [cells, validIdx, List.mem_flatMap, List.mem_range, List.mem_map, List.cons.injEq,
      Bool.and_eq_true, decide_eq_true_eq, ← mem_cells_iff ns cs]
    constructor
    · rintro ⟨i, hi, r, hr, rfl, rfl⟩
      exact ⟨⟨by omega, by omega⟩, hr⟩
    · rintro ⟨⟨h0, h1⟩, hr⟩
      exact ⟨c.toNat, by omega, cs, hr, by omega, rfl⟩

theorem integral_eq (shape : List Int) (vol data : Idx → K) :
    integral shape vol data = ((cells shape).map (fun c => data c * vol c)).sum := by
  unfold integral; rw [sumK_eq_sum]

/-- `data[c] += v` on a cell of the grid raises the integral by `v · vol c` -/
theorem integral_deposit (shape : List Int) (vol data : Idx → K) (c : Idx) (v : K)
    (hc : validIdx shape c = true) :
    integral shape vol (deposit data c v) = integral shape vol data + v * vol c := by
  rw [integral_eq, integral_eq, sum_deposit _ (cells_nodup shape), if_pos ((mem_cells_iff shape c).mpr hc)]

theorem volIdx_false (n i : Int) : volIdx false n i = i := by
  unfold volIdx; simp

theorem validIdx1 {n c : Int} (h0 : 0 ≤ c) (h1 : c < n) : validIdx [n] [c] = true := by
  simp [validIdx, h0, h1]

theorem validIdx2 {n m c d : Int} (h0 : 0 ≤ c) (h1 : c < n) (h2 : 0 ≤ d) (h3 : d < m) :
    validIdx [n, m] [c, d] = true := by
  simp [validIdx, h0, h1, h2, h3]

theorem validIdx3 {n m l c d e : Int} (h0 : 0 ≤ c) (h1 : c < n) (h2 : 0 ≤ d) (h3 : d < m)
    (h4 : 0 ≤ e) (h5 : e < l) : validIdx [n, m, l] [c, d, e] = true := by
  simp [validIdx, h0, h1, h2, h3, h4, h5]

theorem integral_applyCells (shape : List Int) (vol : Idx → K) (total amount : K) :
    ∀ (cs : List (Idx × K)) (data : Idx → K), (∀ r ∈ cs, validIdx shape r.1 = true) →
      integral shape vol (applyCells total amount vol cs data)
        = integral shape vol data + (cs.map (fun r => r.2 * amount / (total * vol r.1) * vol r.1)).sum
  | [], data, _ => by simp [applyCells]
  | r :: rs, data, h => by
    rw [applyCells, integral_applyCells shape vol total amount rs _
      (fun r' hr' => h r' (List.mem_cons_of_mem _ hr')),
      integral_deposit shape vol data r.1 _ (h r List.mem_cons_self), List.map_cons, List.sum_cons]
    ring


/-! ## interpreted `insert` = compiled inserter: sums over the corner cells factorise per axis -/

/-- product of per-axis functions of an index tuple (0 when the lengths differ) -/
def prodPhi : List (Int → K) → Idx → K
  | [], [] => 1
  | φ :: φs, i :: is => φ i * prodPhi φs is
  | _, _ => 0

/-- indicator `[p = i]` -/
def ind (p i : Int) : K := if p = i then 1 else 0

/-- indicator of a valid index on an axis with `n` cells -/
def vind (n p : Int) : K := if 0 ≤ p ∧ p < n then 1 else 0

theorem sum_flatMap_corners (E : List (Int × K)) (rest : List (Idx × K)) (φ : Int → K)
    (g : Idx → K) :
    ((E.flatMap (fun cw => rest.map (fun r => (cw.1 :: r.1, cw.2 * r.2)))).map
        (fun r => r.2 * (match r.1 with | i :: is => φ i * g is | [] => 0))).sum
      = (E.map (fun cw => cw.2 * φ cw.1)).sum * (rest.map (fun r => r.2 * g r.1)).sum := by
  induction E with
  | nil => simp
  | cons cw E ih =>
    rw [List.flatMap_cons, List.map_append, List.sum_append, ih, List.map_cons, List.sum_cons,
      add_mul, List.map_map]
    congr 1
    rw [← List.sum_map_mul_left]
    congr 1
    apply List.map_congr_left
    intro r _
    simp only [Function.comp]
    ring

/-- the sum over all corner cells of `weight × (product of per-axis functions)` is the product of
the per-axis sums -/
theorem sum_corners_prodPhi : ∀ (Es : List (List (Int × K))) (φs : List (Int → K)),
    Es.length = φs.length →
    ((corners Es).map (fun r => r.2 * prodPhi φs r.1)).sum
      = (List.zipWith (fun E φ => (E.map (fun cw => cw.2 * φ cw.1)).sum) Es φs).prod
  | [], [], _ => by simp [corners, prodPhi]
  | [], _ :: _, h => by simp at h
  | _ :: _, [], h => by simp at h
  | E :: Es, φ :: φs, h => by
    have ih := sum_corners_prodPhi Es φs (by simpa using h)
    have hc : corners (E :: Es)
        = E.flatMap (fun cw => (corners Es).map (fun r => (cw.1 :: r.1, cw.2 * r.2))) := rfl
    rw [List.zipWith_cons_cons, List.prod_cons, ← ih, ← sum_flatMap_corners E (corners Es) φ (prodPhi φs),
      hc]
    congr 1
    apply List.map_congr_left
    intro r _
    cases r.1 <;> simp [prodPhi]

theorem prodPhi_ind : ∀ (c c' : Idx),
    prodPhi (c.map (fun ci => fun p => (ind p ci : K))) c' = if c' = c then 1 else 0
  | [], [] => by simp [prodPhi]
  | [], _ :: _ => by simp [prodPhi]
  | _ :: _, [] => by simp [prodPhi]
  | ci :: c, p :: c' => by
    rw [List.map_cons, prodPhi, prodPhi_ind c c']
    simp only [ind, List.cons.injEq]
    split_ifs <;> simp_all

theorem prodPhi_vind : ∀ (ns : List Int) (c : Idx),
    prodPhi (ns.map (fun n => fun p => (vind n p : K))) c = if validIdx ns c = true then 1 else 0
  | [], [] => by simp [prodPhi, validIdx]
  | [], _ :: _ => by simp [prodPhi, validIdx]
  | _ :: _, [] => by simp [prodPhi, validIdx]
  | n :: ns, p :: c => by
    rw [List.map_cons, prodPhi, prodPhi_vind ns c]
    simp only [vind, validIdx, Bool.and_eq_true, decide_eq_true_eq]
    split_ifs <;> simp_all

theorem sum_map_filter (l : List (Idx × K)) (p : Idx × K → Bool) (f : Idx × K → K) :
    ((l.filter p).map f).sum = (l.map (fun r => if p r = true then f r else 0)).sum := by
  induction l with
  | nil => simp
  | cons x xs ih =>
    rw [List.filter_cons]
    split_ifs with h <;> simp [h, ih]

theorem applyCells_apply (total amount : K) (vol : Idx → K) (c : Idx) :
    ∀ (cs : List (Idx × K)) (data : Idx → K),
      applyCells total amount vol cs data c
        = data c + (cs.map (fun r => if c = r.1 then r.2 * amount / (total * vol r.1) else 0)).sum
  | [], data => by simp [applyCells]
  | r :: rs, data => by
    rw [applyCells, applyCells_apply total amount vol c rs, deposit_apply, List.map_cons,
      List.sum_cons]
    ring

/-- value of a cell of the grid after the interpreted `insert`, in terms of the unfiltered corner
list: `data c + amount/(total·vol c) · Σ_{corner = c} weight` -/
theorem insertInterp_apply (axes : List (Axis K)) (vol data : Idx → K) (point : List K)
    (amount : K) (data' : Idx → K) (h : insertInterp axes vol data point amount = some data')
    (c : Idx) (hc : validIdx (axes.map (·.size)) c = true) :
    let Es := List.zipWith axisCorners axes point
    let total := ((corners Es).map (fun r => r.2 * prodPhi ((axes.map (·.size)).map
      (fun n => fun p => (vind n p : K))) r.1)).sum
    total ≠ 0 ∧
    data' c = data c + amount / (total * vol c) *
      ((corners Es).map (fun r => r.2 * prodPhi (c.map (fun ci => fun p => (ind p ci : K))) r.1)).sum := by
  intro Es total
  have htotal : sumK ((insertCells axes point).map (·.2)) = total := by
    rw [sumK_eq_sum]
    unfold insertCells
    rw [sum_map_filter]
    apply congrArg
    apply List.map_congr_left
    intro r _
    rw [prodPhi_vind]
    split_ifs <;> simp
  unfold insertInterp at h
  simp only [Nat.cast_zero, htotal] at h
  split_ifs at h with ht
  refine ⟨ht, ?_⟩
  rw [Option.some.injEq] at h
  rw [← h, applyCells_apply]
  congr 1
  unfold insertCells
  rw [sum_map_filter, ← List.sum_map_mul_left]
  apply congrArg
  apply List.map_congr_left
  intro r _
  rw [prodPhi_ind]
  by_cases hrc : c = r.1
  · subst hrc; simp [hc]; ring
  · have : ¬ r.1 = c := fun h => hrc h.symm
    simp [hrc, this]

theorem axisCorners_eq (ax : Axis K) (p : K) :
    axisCorners ax p =
      (let x := cellCoord false ax p
       if ax.periodic = true then [(⌊x⌋ % ax.size, 1 - (x - ⌊x⌋)), ((⌊x⌋ + 1) % ax.size, x - ⌊x⌋)]
       else [(⌊x⌋, 1 - (x - ⌊x⌋)), (⌊x⌋ + 1, x - ⌊x⌋)]) := by
  unfold axisCorners
  simp only [cellCoord_grid, half_eq, floor_def, Nat.cast_one]

/-- mass the corner candidates of one axis put on cell `i` -/
def muAxis (ax : Axis K) (p : K) (i : Int) : K :=
  ((axisCorners ax p).map (fun cw => cw.2 * ind cw.1 i)).sum

/-- total valid weight of one axis -/
def sAxis (ax : Axis K) (p : K) : K :=
  ((axisCorners ax p).map (fun cw => cw.2 * vind ax.size cw.1)).sum

/-- **one axis**: for a point inside the domain the valid weight is positive and the interpreted
candidates, renormalised by it, put on every cell of the grid the same mass as the compiled axis
data (whose boundary strips put both weights on the boundary cell) -/
theorem axis_interp_eq_compiled {eps : K} (he : eps ≤ 0) (ax : Axis K) (hok : ax.ok) (p : K)
    (hin : insideAxis ax p) :
    ∃ a, axisData eps false false ax p = some a ∧ 0 < sAxis ax p ∧
      ∀ i, 0 ≤ i → i < ax.size →
        muAxis ax p i = sAxis ax p * (a.wl * ind a.li i + a.wh * ind a.hi i) := by
  obtain ⟨hs, hdx⟩ := hok
  have hs' : (1:K) ≤ ax.size := by exact_mod_cast hs
  set x := cellCoord false ax p with hx
  obtain ⟨f0, f1, f2⟩ := frac_bounds x
  have hfl := Int.floor_le x
  have hfl' := Int.lt_floor_add_one x
  unfold muAxis sAxis
  rw [axisCorners_eq]
  simp only [← hx]
  cases hper : ax.periodic
  · -- non-periodic: the point lies in the closed domain
    have hin' : ax.lo ≤ p ∧ p ≤ upperEnd ax := by
      rcases hin with h | h
      · rw [hper] at h; exact absurd h (by simp)
      · exact h
    have hx1 : -(1/2 : K) ≤ x := by rw [hx, cellCoord_ge_iff ax hdx]; linarith [hin'.1]
    have hx2 : x ≤ (ax.size : K) - 1/2 := by
      rw [hx, cellCoord_le_iff ax hdx]; have := hin'.2; unfold upperEnd at this; linarith
    simp only [Bool.false_eq_true, if_false, List.map_cons, List.map_nil, List.sum_cons, List.sum_nil,
      add_zero]
    by_cases c1 : x < 0
    · -- lower strip
      have hfloor : ⌊x⌋ = -1 := by rw [Int.floor_eq_iff]; push_cast; constructor <;> linarith
      have hstrip : inLowerStrip ax p := by
        refine ⟨hper, hin'.1, ?_⟩
        have := (cellCoord_lt_iff ax hdx p 0).mp (hx ▸ c1); linarith
      obtain ⟨a, ha, hf⟩ := strip_lower he ⟨hs, hdx⟩ hstrip
      refine ⟨a, ha, ?_, ?_⟩
      · rw [hfloor]; simp only [vind]; norm_num
        rw [if_pos (by omega)]; push_cast at f0 ⊢; rw [hfloor] at f0; push_cast at f0; linarith
      · intro i hi0 hi1
        have := hf (fun q => ind q i); simp only [axisApply] at this
        rw [this, hfloor]
        have e1 : (ind (-1) i : K) = 0 := by unfold ind; rw [if_neg (by omega)]
        have e2 : (vind ax.size (-1) : K) = 0 := by unfold vind; rw [if_neg (by omega)]
        have e3 : (vind ax.size (-1 + 1) : K) = 1 := by unfold vind; rw [if_pos (by omega)]
        rw [e1, e2, e3]; norm_num
    · push Not at c1
      by_cases c2 : x < (ax.size : K) - 1
      · -- bulk
        have hi0 : 0 ≤ ⌊x⌋ := Int.floor_nonneg.mpr c1
        have hi1 : ⌊x⌋ + 1 < ax.size := by
          have : ((⌊x⌋ : Int) : K) < ((ax.size - 1 : Int) : K) := by push_cast; linarith
          have : ⌊x⌋ < ax.size - 1 := by exact_mod_cast this
          omega
        have hp : p = centre ax ⌊x⌋ + (x - ⌊x⌋) * ax.dx := by
          rw [hx, cellCoord_grid]; unfold centre; field_simp; ring
        have ha := axisData_between he false ax hdx.ne' ⌊x⌋ hi0 hi1 f0 f1
        rw [← hp] at ha
        refine ⟨_, ha, ?_, ?_⟩
        · have e1 : (vind ax.size ⌊x⌋ : K) = 1 := by unfold vind; rw [if_pos ⟨hi0, by omega⟩]
          have e2 : (vind ax.size (⌊x⌋ + 1) : K) = 1 := by unfold vind; rw [if_pos ⟨by omega, hi1⟩]
          rw [e1, e2]; linarith
        · intro i _ _
          have e1 : (vind ax.size ⌊x⌋ : K) = 1 := by unfold vind; rw [if_pos ⟨hi0, by omega⟩]
          have e2 : (vind ax.size (⌊x⌋ + 1) : K) = 1 := by unfold vind; rw [if_pos ⟨by omega, hi1⟩]
          rw [e1, e2]; simp only [shift, Bool.false_eq_true, if_false, add_zero]; ring
      · -- upper strip
        push Not at c2
        have hfloor : ⌊x⌋ = ax.size - 1 := by
          rw [Int.floor_eq_iff]; push_cast; constructor <;> linarith
        have hstrip : inUpperStrip ax p := by
          refine ⟨hper, ?_, hin'.2⟩
          have := (cellCoord_ge_iff ax hdx p ((ax.size : K) - 1)).mp (hx ▸ c2)
          unfold upperEnd; linarith
        obtain ⟨a, ha, hf⟩ := strip_upper he ⟨hs, hdx⟩ hstrip
        have e2 : (vind ax.size (ax.size - 1) : K) = 1 := by unfold vind; rw [if_pos (by omega)]
        have e3 : (vind ax.size (ax.size - 1 + 1) : K) = 0 := by unfold vind; rw [if_neg (by omega)]
        refine ⟨a, ha, ?_, ?_⟩
        · rw [hfloor, e2, e3]; push_cast; linarith
        · intro i hi0 hi1
          have := hf (fun q => ind q i); simp only [axisApply] at this
          rw [this, hfloor, e2, e3]
          have e1 : (ind (ax.size - 1 + 1) i : K) = 0 := by unfold ind; rw [if_neg (by omega)]
          rw [e1]; ring
  · -- periodic: both candidates are cells, total weight one
    have hpos : (0:Int) < ax.size := by omega
    have v1 : (vind ax.size (⌊x⌋ % ax.size) : K) = 1 := by
      unfold vind; rw [if_pos ⟨Int.emod_nonneg _ (by omega), Int.emod_lt_of_pos _ hpos⟩]
    have v2 : (vind ax.size ((⌊x⌋ + 1) % ax.size) : K) = 1 := by
      unfold vind; rw [if_pos ⟨Int.emod_nonneg _ (by omega), Int.emod_lt_of_pos _ hpos⟩]
    refine ⟨_, axisData_periodic eps false false ax hper p, ?_, ?_⟩
    · simp only [if_true, List.map_cons, List.map_nil, List.sum_cons, List.sum_nil, v1, v2]; linarith
    · intro i _ _
      simp only [if_true, List.map_cons, List.map_nil, List.sum_cons, List.sum_nil, v1, v2, ← hx,
        clip_of_nonpos he f2.le, clip_of_nonpos he f0, shift, Bool.false_eq_true, if_false, add_zero]
      ring

/-- total weight of the valid corner cells, written over the unfiltered corner list -/
def totalW (axes : List (Axis K)) (point : List K) : K :=
  ((corners (List.zipWith axisCorners axes point)).map (fun r => r.2 * prodPhi
    ((axes.map (·.size)).map (fun n => fun p => (vind n p : K))) r.1)).sum

theorem insertInterp_eq (axes : List (Axis K)) (vol data : Idx → K) (point : List K) (amount : K) :
    insertInterp axes vol data point amount =
      if totalW axes point = 0 then none
      else some (applyCells (totalW axes point) amount vol (insertCells axes point) data) := by
  have htotal : sumK ((insertCells axes point).map (·.2)) = totalW axes point := by
    rw [sumK_eq_sum]
    unfold insertCells totalW
    rw [sum_map_filter]
    apply congrArg
    apply List.map_congr_left
    intro r _
    rw [prodPhi_vind]
    split_ifs <;> simp
  unfold insertInterp
  simp only [Nat.cast_zero, htotal]

theorem totalW1 (ax : Axis K) (px : K) : totalW [ax] [px] = sAxis ax px := by
  unfold totalW
  rw [sum_corners_prodPhi _ _ (by simp)]
  simp [sAxis]

theorem totalW2 (ax ay : Axis K) (px py : K) : totalW [ax, ay] [px, py] = sAxis ax px * sAxis ay py := by
  unfold totalW
  rw [sum_corners_prodPhi _ _ (by simp)]
  simp [sAxis]

theorem totalW3 (ax ay az : Axis K) (px py pz : K) :
    totalW [ax, ay, az] [px, py, pz] = sAxis ax px * (sAxis ay py * sAxis az pz) := by
  unfold totalW
  rw [sum_corners_prodPhi _ _ (by simp)]
  simp [sAxis]

theorem dep1 (vol : Idx → K) (i p : Int) (w : K) :
    (if [i] = [p] then w / vol [p] else 0) = ind p i * (w / vol [i]) := by
  unfold ind
  by_cases h : p = i
  · subst h; simp
  · have : ¬ i = p := fun h' => h h'.symm
    simp [h, this]

theorem dep2 (vol : Idx → K) (i j p q : Int) (w : K) :
    (if [i, j] = [p, q] then w / vol [p, q] else 0) = ind p i * ind q j * (w / vol [i, j]) := by
  unfold ind
  by_cases h : p = i
  · by_cases h' : q = j
    · subst h; subst h'; simp
    · have : ¬ j = q := fun e => h' e.symm
      simp [h', this]
  · have : ¬ i = p := fun e => h e.symm
    simp [h, this]

theorem dep3 (vol : Idx → K) (i j k p q r : Int) (w : K) :
    (if [i, j, k] = [p, q, r] then w / vol [p, q, r] else 0)
      = ind p i * ind q j * ind r k * (w / vol [i, j, k]) := by
  unfold ind
  by_cases h : p = i
  · by_cases h' : q = j
    · by_cases h'' : r = k
      · subst h; subst h'; subst h''; simp
      · have : ¬ k = r := fun e => h'' e.symm
        simp [h'', this]
    · have : ¬ j = q := fun e => h' e.symm
      simp [h', this]
  · have : ¬ i = p := fun e => h e.symm
    simp [h, this]

/-- value of a cell of the grid after the interpreted `insert`, over the unfiltered corner list -/
theorem insertInterp_cell (axes : List (Axis K)) (vol data : Idx → K) (point : List K) (amount : K)
    (c : Idx) (hc : validIdx (axes.map (·.size)) c = true) :
    applyCells (totalW axes point) amount vol (insertCells axes point) data c
      = data c + amount / (totalW axes point * vol c) *
          ((corners (List.zipWith axisCorners axes point)).map
            (fun r => r.2 * prodPhi (c.map (fun ci => fun p => (ind p ci : K))) r.1)).sum := by
  rw [applyCells_apply]
  unfold insertCells
  rw [sum_map_filter, ← List.sum_map_mul_left]
  congr 1
  apply congrArg
  apply List.map_congr_left
  intro r _
  rw [prodPhi_ind]
  by_cases hrc : c = r.1
  · rw [← hrc]; simp [hc]; ring
  · have : ¬ r.1 = c := fun h => hrc h.symm
    simp [hrc, this]


end
end PdeVerif.Interp
