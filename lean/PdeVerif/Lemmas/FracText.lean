import PdeVerif.Model.Cache
import Mathlib.Tactic.Ring
import Mathlib.Tactic.Linarith
import Mathlib.Tactic.FieldSimp
import Mathlib.Algebra.Field.Rat
import Mathlib.Algebra.Order.Field.Basic
import Mathlib.Algebra.Order.Field.Rat
import Mathlib.Data.Rat.Cast.Defs
import Std.Data.String.ToNat
import Std.Data.String.ToInt
/-
`fracText m e` (Model/Cache.lean) models `str(fractions.Fraction(x))` for the dyadic number
`x = m * 2^e`.  Here: the text determines the exact value (`fracText_inj`) and is a function of
the exact value (`fracText_eq_of_val`), i.e. `fracText m e = fracText m' e'` iff the two
dyadic numbers are equal as rationals (`fracText_eq_iff`).
-/
namespace PdeVerif.Cache

/-- the exact value of the dyadic number `m * 2^e` -/
def dyadicVal (m e : Int) : ℚ := (m : ℚ) * (2 : ℚ) ^ e

/-- numerator and denominator printed by `fracText` -/
def fracParts (m e : Int) : Int × Nat :=
  if 0 ≤ e then (m * 2 ^ e.toNat, 1)
  else (m / 2 ^ (cancel2 e.natAbs m), 2 ^ (e.natAbs - cancel2 e.natAbs m))

/-- `str(Fraction)`: the numerator, or `numerator/denominator` when the denominator is not 1 -/
def render (pq : Int × Nat) : String :=
  if pq.2 = 1 then Int.repr pq.1 else Int.repr pq.1 ++ "/" ++ Nat.repr pq.2

theorem fracText_eq_render (m e : Int) : fracText m e = render (fracParts m e) := by
  unfold fracText fracParts render
  split <;> simp

/-! ### `cancel2` -/

theorem cancel2_le (k : Nat) (m : Int) : cancel2 k m ≤ k := by
  induction k generalizing m with
  | zero => simp [cancel2]
  | succ k ih =>
    simp only [cancel2]
    split
    · have := ih (m / 2); omega
    · omega

theorem cancel2_dvd (k : Nat) (m : Int) : (2 : Int) ^ (cancel2 k m) ∣ m := by
  induction k generalizing m with
  | zero => simp [cancel2]
  | succ k ih =>
    simp only [cancel2]
    split
    · rename_i h
      obtain ⟨c, hc⟩ := ih (m / 2)
      refine ⟨c, ?_⟩
      have h2 : m = 2 * (m / 2) := by omega
      rw [pow_succ, mul_comm _ (2 : Int), mul_assoc, ← hc]
      exact h2
    · simp

/-- after the cancellation either the whole `2^k` is gone or the numerator is odd -/
theorem cancel2_lowest (k : Nat) (m : Int) :
    cancel2 k m = k ∨ (m / 2 ^ (cancel2 k m)) % 2 = 1 := by
  induction k generalizing m with
  | zero => simp [cancel2]
  | succ k ih =>
    simp only [cancel2]
    split
    · rcases ih (m / 2) with h | h
      · left; omega
      · right
        have : m / 2 ^ (cancel2 k (m / 2) + 1) = m / 2 / 2 ^ (cancel2 k (m / 2)) := by
          rw [pow_succ, mul_comm, Int.ediv_ediv_of_nonneg (by norm_num)]
        rw [this]; exact h
    · right
      simp only [pow_zero, Int.ediv_one]
      omega

/-! ### the value of the printed fraction -/

/-- the printed fraction is `p / 2^a` in lowest terms and has the value of the number -/
theorem fracParts_spec (m e : Int) :
    ∃ a : Nat, (fracParts m e).2 = 2 ^ a ∧ (a = 0 ∨ (fracParts m e).1 % 2 = 1) ∧
      dyadicVal m e = ((fracParts m e).1 : ℚ) / (2 : ℚ) ^ a := by
  unfold fracParts dyadicVal
  split
  · rename_i he
    refine ⟨0, by simp, Or.inl rfl, ?_⟩
    obtain ⟨n, rfl⟩ := Int.eq_ofNat_of_zero_le he
    simp [zpow_natCast]
  · rename_i he
    have hk : e = -((e.natAbs : Nat) : Int) := by omega
    generalize e.natAbs = k at hk
    subst hk
    have hle := cancel2_le k m
    have hlow := cancel2_lowest k m
    obtain ⟨c, hc⟩ := cancel2_dvd k m
    generalize cancel2 k m = t at *
    subst hc
    have hp : 2 ^ t * c / 2 ^ t = c :=
      Int.mul_ediv_cancel_left _ (pow_ne_zero _ (by norm_num))
    refine ⟨k - t, rfl, ?_, ?_⟩
    · rcases hlow with h | h
      · left; omega
      · right; exact h
    · simp only [hp]
      rw [zpow_neg, zpow_natCast]
      have hpow : (2 : ℚ) ^ k = (2 : ℚ) ^ (k - t) * (2 : ℚ) ^ t := by
        rw [← pow_add]; congr 1; omega
      rw [hpow]
      push_cast
      field_simp

/-- a dyadic fraction in lowest terms is determined by its value -/
theorem lowest_unique {p p' : Int} {a b : Nat}
    (ha : a = 0 ∨ p % 2 = 1) (hb : b = 0 ∨ p' % 2 = 1)
    (h : (p : ℚ) / (2 : ℚ) ^ a = (p' : ℚ) / (2 : ℚ) ^ b) : p = p' ∧ a = b := by
  have hz : p * 2 ^ b = p' * 2 ^ a := by
    have : (p : ℚ) * (2 : ℚ) ^ b = (p' : ℚ) * (2 : ℚ) ^ a := by
      field_simp at h
      linarith
    exact_mod_cast this
  have key : ∀ {p p' : Int} {a b : Nat}, (b = 0 ∨ p' % 2 = 1) → a ≤ b →
      p * 2 ^ b = p' * 2 ^ a → p = p' ∧ a = b := by
    intro p p' a b hb hab hz
    obtain ⟨d, rfl⟩ := Nat.exists_eq_add_of_le hab
    have h2 : p * 2 ^ d = p' := by
      have h3 : (p * 2 ^ d) * 2 ^ a = p' * 2 ^ a := by rw [← hz]; ring
      exact Int.eq_of_mul_eq_mul_right (by positivity) h3
    cases d with
    | zero => simpa using h2
    | succ d =>
      exfalso
      have h4 : p' = 2 * (p * 2 ^ d) := by rw [← h2]; ring
      rcases hb with hb | hb <;> omega
  rcases Nat.le_total a b with hab | hab
  · exact key hb hab hz
  · obtain ⟨h1, h2⟩ := key ha hab hz.symm
    exact ⟨h1.symm, h2.symm⟩

/-! ### the printed text determines numerator and denominator -/

theorem slash_not_mem_natRepr (n : Nat) : '/' ∉ (Nat.repr n).toList := by
  intro h
  rw [Nat.toList_repr] at h
  have := Nat.isDigit_of_mem_toDigits (by decide) (by decide) h
  revert this; decide

theorem slash_not_mem_intRepr (i : Int) : '/' ∉ (Int.repr i).toList := by
  cases i with
  | ofNat n => exact slash_not_mem_natRepr n
  | negSucc n =>
    simp only [Int.repr, String.toList_append, List.mem_append, not_or]
    exact ⟨by decide, slash_not_mem_natRepr _⟩

/-- splitting a list at the first occurrence of `c` is unique -/
theorem split_first_unique {α : Type} {c : α} :
    ∀ {l₁ l₂ r₁ r₂ : List α}, l₁ ++ c :: r₁ = l₂ ++ c :: r₂ → c ∉ l₁ → c ∉ l₂ →
      l₁ = l₂ ∧ r₁ = r₂
  | [], [], _, _, h, _, _ => by simpa using h
  | [], y :: l₂, _, _, h, _, h2 => by
    simp only [List.nil_append, List.cons_append, List.cons.injEq] at h
    exact absurd (by rw [h.1]; exact List.mem_cons_self) h2
  | x :: l₁, [], _, _, h, h1, _ => by
    simp only [List.nil_append, List.cons_append, List.cons.injEq] at h
    exact absurd (by rw [← h.1]; exact List.mem_cons_self) h1
  | x :: l₁, y :: l₂, _, _, h, h1, h2 => by
    simp only [List.cons_append, List.cons.injEq] at h
    have := split_first_unique h.2 (fun hm => h1 (List.mem_cons_of_mem _ hm))
      (fun hm => h2 (List.mem_cons_of_mem _ hm))
    exact ⟨by rw [h.1, this.1], this.2⟩

theorem toList_frac (p : Int) (q : Nat) :
    (Int.repr p ++ "/" ++ Nat.repr q).toList = (Int.repr p).toList ++ '/' :: (Nat.repr q).toList := by
  simp [String.toList_append]

theorem render_inj {pq pq' : Int × Nat} (h : render pq = render pq') : pq = pq' := by
  obtain ⟨p, q⟩ := pq
  obtain ⟨p', q'⟩ := pq'
  unfold render at h
  simp only at h
  split at h <;> split at h
  · rename_i h1 h2
    rw [Int.repr_inj.mp h, h1, h2]
  · exfalso
    have hl := congrArg String.toList h
    rw [toList_frac] at hl
    apply slash_not_mem_intRepr p
    rw [hl]; simp
  · exfalso
    have hl := congrArg String.toList h
    rw [toList_frac] at hl
    apply slash_not_mem_intRepr p'
    rw [← hl]; simp
  · have hl := congrArg String.toList h
    rw [toList_frac, toList_frac] at hl
    obtain ⟨h1, h2⟩ := split_first_unique hl (slash_not_mem_intRepr p) (slash_not_mem_intRepr p')
    rw [Int.repr_inj.mp (String.toList_inj.mp h1), Nat.repr_inj.mp (String.toList_inj.mp h2)]

/-! ### main results -/

/-- MAIN: the text determines the value -/
theorem fracText_inj {m e m' e' : Int} (h : fracText m e = fracText m' e') :
    dyadicVal m e = dyadicVal m' e' := by
  rw [fracText_eq_render, fracText_eq_render] at h
  have hp := render_inj h
  obtain ⟨a, ha, _, hv⟩ := fracParts_spec m e
  obtain ⟨b, hb, _, hv'⟩ := fracParts_spec m' e'
  have hab : a = b := by
    have : (2 : Nat) ^ a = 2 ^ b := by rw [← ha, ← hb, hp]
    exact Nat.pow_right_injective (le_refl 2) this
  rw [hv, hv', hp, hab]

/-- the text is a function of the value -/
theorem fracText_eq_of_val {m e m' e' : Int} (h : dyadicVal m e = dyadicVal m' e') :
    fracText m e = fracText m' e' := by
  rw [fracText_eq_render, fracText_eq_render]
  obtain ⟨a, ha, hl, hv⟩ := fracParts_spec m e
  obtain ⟨b, hb, hl', hv'⟩ := fracParts_spec m' e'
  rw [hv, hv'] at h
  obtain ⟨h1, h2⟩ := lowest_unique hl hl' h
  congr 1
  exact Prod.ext h1 (by rw [ha, hb, h2])

/-- two dyadic numbers have the same text iff they are equal -/
theorem fracText_eq_iff {m e m' e' : Int} :
    fracText m e = fracText m' e' ↔ dyadicVal m e = dyadicVal m' e' :=
  ⟨fracText_inj, fracText_eq_of_val⟩

/-! ### examples -/

example : fracText 1 (-1) = "1/2" := by decide +kernel
example : fracText 2 (-1) = "1" := by decide +kernel
example : fracText 3 (-2) = "3/4" := by decide +kernel
example : fracText (-6) (-2) = "-3/2" := by decide +kernel
example : fracText 1 (-1) = fracText 2 (-2) := by decide +kernel

/-- `-1` and `-2` (which the builtin `hash` identifies) have different texts -/
example : fracText (-1) 0 ≠ fracText (-2) 0 := by
  intro h
  have := fracText_inj h
  norm_num [dyadicVal] at this

end PdeVerif.Cache
