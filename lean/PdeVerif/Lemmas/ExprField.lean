import PdeVerif.Model.Expr
import PdeVerif.Lemmas.Basic
/-
Bridge between the generic arithmetic of the expression model and Mathlib's field operations,
for plain numbers and for fields (`Fld ι K`, pointwise).  Shared by Props/C10 and Props/C11.
-/
set_option linter.unusedSectionVars false
namespace PdeVerif.Ex
open PdeVerif

section
variable {ι K : Type} [Field K]

@[simp] theorem zero_eq' : (zero : K) = 0 := by simp [zero]
@[simp] theorem one_eq' : (one : K) = 1 := by simp [one]

@[simp] theorem ofRat_eq' (q : Rat) : (ofRat q : K) = (q : K) := by
  unfold ofRat
  exact (Rat.cast_def q).symm

@[simp] theorem npow_eq' (x : K) (n : Nat) : npow x n = x ^ n := by
  induction n with
  | zero => simp [npow]
  | succ n ih => simp [npow, ih, pow_succ]

@[simp] theorem powInt_eq' (x : K) (n : Int) : powInt x n = x ^ n := by
  cases n with
  | ofNat k => simp [powInt]
  | negSucc k => simp [powInt, zpow_negSucc]


@[simp] theorem Fld.add_val (a b : Fld ι K) : (a + b).val = fun i => a.val i + b.val i := rfl
@[simp] theorem Fld.sub_val (a b : Fld ι K) : (a - b).val = fun i => a.val i - b.val i := rfl
@[simp] theorem Fld.mul_val (a b : Fld ι K) : (a * b).val = fun i => a.val i * b.val i := rfl
@[simp] theorem Fld.div_val (a b : Fld ι K) : (a / b).val = fun i => a.val i / b.val i := rfl
@[simp] theorem Fld.neg_val (a : Fld ι K) : (-a).val = fun i => - a.val i := rfl
@[simp] theorem Fld.natCast_val (n : Nat) : ((n : Fld ι K)).val = fun _ => (n : K) := rfl
@[simp] theorem Fld.intCast_val (n : Int) : ((n : Fld ι K)).val = fun _ => (n : K) := rfl

@[simp] theorem Fld.ofRat_val (q : Rat) : (ofRat q : Fld ι K).val = fun _ => (q : K) := by
  unfold ofRat
  simp only [Fld.div_val, Fld.intCast_val, Fld.natCast_val]
  funext _
  exact (Rat.cast_def q).symm

theorem Fld.npow_val (x : Fld ι K) (n : Nat) : (npow x n).val = fun i => x.val i ^ n := by
  induction n with
  | zero => funext i; simp [npow, one]
  | succ n ih => funext i; simp [npow, ih, pow_succ]

@[simp] theorem Fld.powInt_val (x : Fld ι K) (n : Int) :
    (powInt x n).val = fun i => x.val i ^ n := by
  cases n with
  | ofNat k => simp [powInt, Fld.npow_val]
  | negSucc k =>
    funext i
    simp [powInt, Fld.npow_val, one, zpow_negSucc]


@[simp] theorem liftTab_f0 (T : FunTab K) (c : String) :
    ((liftTab T : FunTab (Fld ι K)).f0 c).val = fun _ => T.f0 c := rfl
@[simp] theorem liftTab_f1 (T : FunTab K) (f : String) (x : Fld ι K) :
    ((liftTab T).f1 f x).val = fun i => T.f1 f (x.val i) := rfl
@[simp] theorem liftTab_f2 (T : FunTab K) (f : String) (x y : Fld ι K) :
    ((liftTab T).f2 f x y).val = fun i => T.f2 f (x.val i) (y.val i) := rfl
@[simp] theorem liftTab_heav (T : FunTab K) (x h : Fld ι K) :
    ((liftTab T).heav x h).val = fun i => T.heav (x.val i) (h.val i) := rfl
@[simp] theorem liftTab_cmp (T : FunTab K) (op : Cmp) (x y : Fld ι K) :
    ((liftTab T).cmp op x y).val = fun i => T.cmp op (x.val i) (y.val i) := rfl

end
end PdeVerif.Ex
