import PdeVerif.Lemmas.Mesh
/-
Helper lemmas about the mesh model, any number of axes: row-major ids, index boxes,
multi-index arithmetic.
-/
namespace PdeVerif.Mesh

@[simp] theorem inShape_nil_nil : inShape [] [] = true := by simp [inShape]
@[simp] theorem inShape_cons_cons (p n : Nat) (ps ns : List Nat) :
    inShape (p :: ps) (n :: ns) = (decide (p < n) && inShape ps ns) := by simp [inShape]
@[simp] theorem inShape_nil_cons (n : Nat) (ns : List Nat) : inShape [] (n :: ns) = false := by simp [inShape]
@[simp] theorem inShape_cons_nil (p : Nat) (ps : List Nat) : inShape (p :: ps) [] = false := by simp [inShape]

/-- `idx` is a valid multi-index for `shape` (same length, entries in range) -/
def InRange (idx shape : List Nat) : Prop := inShape idx shape = true

instance (idx shape : List Nat) : Decidable (InRange idx shape) := by unfold InRange; infer_instance

@[simp] theorem inRange_def (idx shape : List Nat) : InRange idx shape ↔ inShape idx shape = true := Iff.rfl

theorem InRange.length_eq {idx shape : List Nat} (h : InRange idx shape) : idx.length = shape.length := by
  induction idx generalizing shape with
  | nil => cases shape <;> simp_all
  | cons i is ih =>
    cases shape with
    | nil => simp at h
    | cons n ns => simp at h; simp [ih h.2]

/-! ### ravel / unravel -/

theorem unravel_length (shape : List Nat) (id : Nat) : (unravel shape id).length = shape.length := by
  induction shape generalizing id with
  | nil => simp [unravel]
  | cons n rest ih => simp [unravel, ih]

theorem unravel_inRange (shape : List Nat) (id : Nat) (h : id < shape.prod) : InRange (unravel shape id) shape := by
  induction shape generalizing id with
  | nil => simp [unravel]
  | cons n rest ih =>
    rw [List.prod_cons] at h
    have hP : 0 < rest.prod := by
      rcases Nat.eq_zero_or_pos rest.prod with h0 | h0
      · rw [h0] at h; omega
      · exact h0
    unfold unravel
    simp only [inRange_def, inShape_cons_cons, Bool.and_eq_true, decide_eq_true_eq]
    exact ⟨Nat.div_lt_of_lt_mul (by rw [Nat.mul_comm]; exact h), ih _ (Nat.mod_lt _ hP)⟩

theorem ravel_unravel (shape : List Nat) (id : Nat) (h : id < shape.prod) : ravel shape (unravel shape id) = id := by
  induction shape generalizing id with
  | nil => simp at h; simp [unravel, ravel, h]
  | cons n rest ih =>
    rw [List.prod_cons] at h
    have hP : 0 < rest.prod := by
      rcases Nat.eq_zero_or_pos rest.prod with h0 | h0
      · rw [h0] at h; omega
      · exact h0
    unfold unravel ravel
    rw [ih _ (Nat.mod_lt _ hP)]
    exact Nat.div_add_mod' id rest.prod

theorem ravel_lt {idx shape : List Nat} (h : InRange idx shape) : ravel shape idx < shape.prod := by
  induction idx generalizing shape with
  | nil => cases shape <;> simp_all [ravel]
  | cons i is ih =>
    cases shape with
    | nil => simp at h
    | cons n rest =>
      simp only [inRange_def, inShape_cons_cons, Bool.and_eq_true, decide_eq_true_eq] at h
      have ih' := ih h.2
      unfold ravel
      rw [List.prod_cons]
      calc i * rest.prod + ravel rest is < i * rest.prod + rest.prod := Nat.add_lt_add_left ih' _
        _ = (i + 1) * rest.prod := by rw [Nat.succ_mul]
        _ ≤ n * rest.prod := Nat.mul_le_mul_right _ h.1

theorem unravel_ravel {idx shape : List Nat} (h : InRange idx shape) : unravel shape (ravel shape idx) = idx := by
  induction idx generalizing shape with
  | nil => cases shape <;> simp_all [unravel]
  | cons i is ih =>
    cases shape with
    | nil => simp at h
    | cons n rest =>
      simp only [inRange_def, inShape_cons_cons, Bool.and_eq_true, decide_eq_true_eq] at h
      have hr := ravel_lt h.2
      have hP : 0 < rest.prod := by omega
      unfold ravel unravel
      have e1 : (i * rest.prod + ravel rest is) / rest.prod = i := by
        rw [Nat.add_comm, Nat.add_mul_div_right _ _ hP, Nat.div_eq_of_lt hr, Nat.zero_add]
      have e2 : (i * rest.prod + ravel rest is) % rest.prod = ravel rest is := by
        rw [Nat.add_comm, Nat.add_mul_mod_self_right, Nat.mod_eq_of_lt hr]
      rw [e1, e2, ih h.2]

/-- ids with the same multi-index are equal -/
theorem unravel_injective (shape : List Nat) {a b : Nat} (ha : a < shape.prod) (hb : b < shape.prod)
    (h : unravel shape a = unravel shape b) : a = b := by
  rw [← ravel_unravel shape a ha, ← ravel_unravel shape b hb, h]

/-! ### multi-index arithmetic -/

@[simp] theorem vadd_nil_left (b : List Nat) : vadd [] b = [] := by simp [vadd]
@[simp] theorem vadd_nil_right (a : List Nat) : vadd a [] = [] := by cases a <;> simp [vadd]
@[simp] theorem vadd_cons (a b : Nat) (as bs : List Nat) : vadd (a :: as) (b :: bs) = (a + b) :: vadd as bs := by
  simp [vadd]
@[simp] theorem vsub_nil_left (b : List Nat) : vsub [] b = [] := by simp [vsub]
@[simp] theorem vsub_nil_right (a : List Nat) : vsub a [] = [] := by cases a <;> simp [vsub]
@[simp] theorem vsub_cons (a b : Nat) (as bs : List Nat) : vsub (a :: as) (b :: bs) = (a - b) :: vsub as bs := by
  simp [vsub]

@[simp] theorem inBox_nil_nil : inBox [] [] = true := by simp [inBox]
@[simp] theorem inBox_cons_cons (a b g : Nat) (bx : List (Nat × Nat)) (gs : List Nat) :
    inBox ((a, b) :: bx) (g :: gs) = (decide (a ≤ g) && decide (g < b) && inBox bx gs) := by simp [inBox]
@[simp] theorem inBox_nil_cons (g : Nat) (gs : List Nat) : inBox [] (g :: gs) = false := by simp [inBox]
@[simp] theorem inBox_cons_nil (s : Nat × Nat) (bx : List (Nat × Nat)) : inBox (s :: bx) [] = false := by
  cases s; simp [inBox]

theorem inBox_length {bx : List (Nat × Nat)} {g : List Nat} (h : inBox bx g = true) : g.length = bx.length := by
  induction bx generalizing g with
  | nil => cases g <;> simp_all
  | cons s bx ih =>
    obtain ⟨a, b⟩ := s
    cases g with
    | nil => simp at h
    | cons g0 gs => simp at h; simp [ih h.2]

/-- a position inside a box is its start plus the offset in the box -/
theorem vadd_vsub_of_inBox {bx : List (Nat × Nat)} {g : List Nat} (h : inBox bx g = true) :
    vadd (starts bx) (vsub g (starts bx)) = g := by
  induction bx generalizing g with
  | nil => cases g <;> simp_all [starts]
  | cons s bx ih =>
    obtain ⟨a, b⟩ := s
    cases g with
    | nil => simp at h
    | cons g0 gs =>
      simp at h
      have := ih h.2
      simp only [starts, List.map_cons, vsub_cons, vadd_cons] at this ⊢
      rw [this]
      congr 1
      omega

theorem vsub_vadd_cancel (a p : List Nat) (h : a.length = p.length) : vsub (vadd a p) a = p := by
  induction a generalizing p with
  | nil => cases p <;> simp_all
  | cons x xs ih =>
    cases p with
    | nil => simp at h
    | cons y ys =>
      simp only [List.length_cons, Nat.add_right_cancel_iff] at h
      simp [ih ys h]

theorem vadd_assoc (a b c : List Nat) : vadd (vadd a b) c = vadd a (vadd b c) := by
  induction a generalizing b c with
  | nil => simp
  | cons x xs ih =>
    cases b with
    | nil => simp
    | cons y ys =>
      cases c with
      | nil => simp
      | cons z zs => simp [ih, Nat.add_assoc]

/-! ### boxes of a mesh -/

@[simp] theorem boxOf_cons_cons (ghost : Bool) (sizes : List Nat) (ax : List (List Nat)) (i : Nat) (is : List Nat) :
    boxOf ghost (sizes :: ax) (i :: is) = sliceAt ghost sizes i :: boxOf ghost ax is := by simp [boxOf]
@[simp] theorem boxOf_nil (ghost : Bool) (is : List Nat) : boxOf ghost [] is = [] := by simp [boxOf]
@[simp] theorem boxOf_nil_right (ghost : Bool) (ax : List (List Nat)) : boxOf ghost ax [] = [] := by
  cases ax <;> simp [boxOf]
@[simp] theorem subShapeOf_cons_cons (sizes : List Nat) (ax : List (List Nat)) (i : Nat) (is : List Nat) :
    subShapeOf (sizes :: ax) (i :: is) = sizeAt sizes i :: subShapeOf ax is := by simp [subShapeOf]
@[simp] theorem subShapeOf_nil (is : List Nat) : subShapeOf [] is = [] := by simp [subShapeOf]
@[simp] theorem subShapeOf_nil_right (ax : List (List Nat)) : subShapeOf ax [] = [] := by
  cases ax <;> simp [subShapeOf]

/-- the start corner of a box does not depend on the ghost-cell flag -/
theorem starts_boxOf (ghost : Bool) (axes : List (List Nat)) (idx : List Nat)
    (h : InRange idx (axes.map List.length)) :
    starts (boxOf ghost axes idx) = starts (boxOf false axes idx) := by
  induction axes generalizing idx with
  | nil => simp
  | cons sizes ax ih =>
    cases idx with
    | nil => simp
    | cons i is =>
      simp only [List.map_cons, inRange_def, inShape_cons_cons, Bool.and_eq_true, decide_eq_true_eq] at h
      simp only [boxOf_cons_cons, starts, List.map_cons] at ih ⊢
      rw [ih is h.2, sliceAt_eq ghost sizes i h.1, sliceAt_eq false sizes i h.1]

theorem starts_length (bx : List (Nat × Nat)) : (starts bx).length = bx.length := by simp [starts]

theorem boxOf_length (ghost : Bool) (axes : List (List Nat)) (idx : List Nat)
    (h : idx.length = axes.length) : (boxOf ghost axes idx).length = axes.length := by
  induction axes generalizing idx with
  | nil => simp
  | cons sizes ax ih =>
    cases idx with
    | nil => simp at h
    | cons i is => simp at h; simp [ih is h]

theorem subShapeOf_length (axes : List (List Nat)) (idx : List Nat)
    (h : idx.length = axes.length) : (subShapeOf axes idx).length = axes.length := by
  induction axes generalizing idx with
  | nil => simp
  | cons sizes ax ih =>
    cases idx with
    | nil => simp at h
    | cons i is => simp at h; simp [ih is h]

/-- every axis has at least one cell (follows from the contract when the axis has a chunk) -/
def Mesh.Pos (m : Mesh) : Prop := ∀ sizes ∈ m.axes, 0 < sizes.sum

instance (m : Mesh) : Decidable m.Pos := by unfold Mesh.Pos; infer_instance

theorem Mesh.pos_of_contract (m : Mesh) (h : ∀ sizes ∈ m.axes, sizes ≠ [] ∧ ∀ s ∈ sizes, 0 < s) : m.Pos := by
  intro sizes hs
  obtain ⟨hne, hpos⟩ := h sizes hs
  cases sizes with
  | nil => exact absurd rfl hne
  | cons a as => have := hpos a (List.mem_cons_self ..); simp; omega

/-- an axis that has a cell has positive length -/
theorem pos_of_inRange (axes : List (List Nat)) (g : List Nat) (hg : InRange g (axes.map List.sum)) :
    ∀ sizes ∈ axes, 0 < sizes.sum := by
  induction axes generalizing g with
  | nil => intro s hs; simp at hs
  | cons sz ax ih =>
    cases g with
    | nil => simp at hg
    | cons g0 gs =>
      simp only [List.map_cons, inRange_def, inShape_cons_cons, Bool.and_eq_true, decide_eq_true_eq] at hg
      intro s hs
      rcases List.mem_cons.1 hs with rfl | hs
      · omega
      · exact ih gs (by simpa using hg.2) s hs

theorem Mesh.dec_length (m : Mesh) : m.dec.length = m.axes.length := by simp [Mesh.dec]

theorem Mesh.box_length (m : Mesh) (ghost : Bool) (id : Nat) : (m.box ghost id).length = m.axes.length := by
  unfold Mesh.box Mesh.id2idx
  exact boxOf_length ghost m.axes _ (by rw [unravel_length, Mesh.dec_length])

theorem Mesh.subShape_length (m : Mesh) (id : Nat) : (m.subShape id).length = m.axes.length := by
  unfold Mesh.subShape Mesh.id2idx
  exact subShapeOf_length m.axes _ (by rw [unravel_length, Mesh.dec_length])

/-- every position of the (padded) base array lies in the box of some node -/
theorem exists_box (ghost : Bool) (axes : List (List Nat)) (hpos : ∀ sizes ∈ axes, 0 < sizes.sum)
    (g : List Nat) (hg : InRange g ((axes.map List.sum).map (· + gadd ghost))) :
    ∃ idx, InRange idx (axes.map List.length) ∧ inBox (boxOf ghost axes idx) g = true := by
  induction axes generalizing g with
  | nil =>
    cases g with
    | nil => exact ⟨[], by simp, by simp⟩
    | cons _ _ => simp at hg
  | cons sizes ax ih =>
    cases g with
    | nil => simp at hg
    | cons g0 gs =>
      simp only [List.map_cons, inRange_def, inShape_cons_cons, Bool.and_eq_true, decide_eq_true_eq] at hg
      obtain ⟨idx, h1, h2⟩ := ih (fun s hs => hpos s (List.mem_cons_of_mem _ hs)) gs hg.2
      have hs := hpos sizes (List.mem_cons_self ..)
      have hlt : g0 - gadd ghost < sizes.sum := by have := hg.1; omega
      obtain ⟨c1, c2, c3⟩ := chunkOf_spec sizes (g0 - gadd ghost) hlt
      refine ⟨chunkOf sizes (g0 - gadd ghost) :: idx, by simp only [inRange_def] at h1; simp [c1, h1], ?_⟩
      simp only [boxOf_cons_cons, sliceAt_eq ghost sizes _ c1, inBox_cons_cons, h2, Bool.and_true,
        Bool.and_eq_true, decide_eq_true_eq]
      constructor
      · omega
      · have := hg.1
        unfold gadd at *
        split_ifs at * <;> omega

/-- without ghost cells a position lies in the box of at most one node index -/
theorem box_unique (axes : List (List Nat)) (idx idx' g : List Nat)
    (h : InRange idx (axes.map List.length)) (h' : InRange idx' (axes.map List.length))
    (hb : inBox (boxOf false axes idx) g = true) (hb' : inBox (boxOf false axes idx') g = true) : idx = idx' := by
  induction axes generalizing idx idx' g with
  | nil =>
    cases idx with
    | cons _ _ => simp at h
    | nil =>
      cases idx' with
      | cons _ _ => simp at h'
      | nil => rfl
  | cons sizes ax ih =>
    cases idx with
    | nil => simp at h
    | cons i is =>
      cases idx' with
      | nil => simp at h'
      | cons i' is' =>
        cases g with
        | nil => simp at hb
        | cons g0 gs =>
          simp only [List.map_cons, inRange_def, inShape_cons_cons, Bool.and_eq_true, decide_eq_true_eq] at h h'
          simp only [boxOf_cons_cons, sliceAt_eq false sizes _ h.1, sliceAt_eq false sizes _ h'.1, inBox_cons_cons,
            Bool.and_eq_true, decide_eq_true_eq, gadd, Bool.false_eq_true, if_false, Nat.add_zero] at hb hb'
          have e1 : i = i' := chunk_unique sizes ⟨hb.1.1, hb.1.2⟩ ⟨hb'.1.1, hb'.1.2⟩
          have e2 := ih is is' gs h.2 h'.2 hb.2 hb'.2
          rw [e1, e2]

/-- a local index of the sub-array of a node lies in the node's box after shifting by the start -/
theorem inBox_vadd (ghost : Bool) (axes : List (List Nat)) (idx p : List Nat)
    (h : InRange idx (axes.map List.length))
    (hp : InRange p ((subShapeOf axes idx).map (· + gadd ghost))) :
    inBox (boxOf ghost axes idx) (vadd (starts (boxOf ghost axes idx)) p) = true := by
  induction axes generalizing idx p with
  | nil =>
    cases idx with
    | cons _ _ => simp at h
    | nil =>
      cases p with
      | nil => simp [starts]
      | cons _ _ => simp at hp
  | cons sizes ax ih =>
    cases idx with
    | nil => simp at h
    | cons i is =>
      simp only [List.map_cons, inRange_def, inShape_cons_cons, Bool.and_eq_true, decide_eq_true_eq] at h
      cases p with
      | nil => simp at hp
      | cons p0 ps =>
        simp only [subShapeOf_cons_cons, List.map_cons, inRange_def, inShape_cons_cons, Bool.and_eq_true, decide_eq_true_eq] at hp
        have := ih is ps h.2 hp.2
        simp only [starts] at this
        simp only [boxOf_cons_cons, sliceAt_eq ghost sizes i h.1, starts, List.map_cons, vadd_cons, inBox_cons_cons,
          this, Bool.and_true, Bool.and_eq_true, decide_eq_true_eq]
        omega

/-- the boxes stay inside the (padded) base array -/
theorem inRange_of_inBox (ghost : Bool) (axes : List (List Nat)) (idx g : List Nat)
    (h : InRange idx (axes.map List.length)) (hb : inBox (boxOf ghost axes idx) g = true) :
    InRange g ((axes.map List.sum).map (· + gadd ghost)) := by
  induction axes generalizing idx g with
  | nil =>
    cases idx with
    | cons _ _ => simp at h
    | nil =>
      cases g with
      | nil => simp
      | cons _ _ => simp at hb
  | cons sizes ax ih =>
    cases idx with
    | nil => simp at h
    | cons i is =>
      simp only [List.map_cons, inRange_def, inShape_cons_cons, Bool.and_eq_true, decide_eq_true_eq] at h
      cases g with
      | nil => simp at hb
      | cons g0 gs =>
        simp only [boxOf_cons_cons, sliceAt_eq ghost sizes i h.1, inBox_cons_cons, Bool.and_eq_true,
          decide_eq_true_eq] at hb
        have h3 := ih is gs h.2 hb.2
        simp only [inRange_def] at h3
        simp only [List.map_cons, inRange_def, inShape_cons_cons, Bool.and_eq_true, decide_eq_true_eq, h3, and_true]
        have := offset_add_size_le_sum sizes i
        omega

/-! ### `List.set` on multi-indices -/

theorem set_getD_self (l : List Nat) (i d : Nat) : l.set i (l.getD i d) = l := by
  induction l generalizing i with
  | nil => simp
  | cons x xs ih =>
    cases i with
    | zero => simp
    | succ i => simp only [List.getD_cons_succ, List.set_cons_succ, ih i]

theorem getD_set_self (l : List Nat) (i v d : Nat) (h : i < l.length) : (l.set i v).getD i d = v := by
  induction l generalizing i with
  | nil => simp at h
  | cons x xs ih =>
    cases i with
    | zero => simp
    | succ i =>
      simp only [List.length_cons, Nat.add_lt_add_iff_right] at h
      simp only [List.set_cons_succ, List.getD_cons_succ]; exact ih i h

theorem inRange_set {idx shape : List Nat} (h : InRange idx shape) (axis v : Nat) (hv : v < shape.getD axis 0) :
    InRange (idx.set axis v) shape := by
  induction idx generalizing shape axis with
  | nil => cases shape <;> simp_all
  | cons i is ih =>
    cases shape with
    | nil => simp at h
    | cons n ns =>
      simp only [inRange_def, inShape_cons_cons, Bool.and_eq_true, decide_eq_true_eq] at h
      cases axis with
      | zero => simp at hv; simp [hv, h.2]
      | succ axis =>
        simp at hv
        have := ih (shape := ns) (by simpa using h.2) axis hv
        simp only [inRange_def] at this
        simp [h.1, this]

theorem inRange_getD {idx shape : List Nat} (h : InRange idx shape) (axis : Nat) (hax : axis < shape.length) :
    idx.getD axis 0 < shape.getD axis 0 := by
  induction idx generalizing shape axis with
  | nil => cases shape <;> simp_all
  | cons i is ih =>
    cases shape with
    | nil => simp at h
    | cons n ns =>
      simp only [inRange_def, inShape_cons_cons, Bool.and_eq_true, decide_eq_true_eq] at h
      cases axis with
      | zero => simpa using h.1
      | succ axis =>
        simp at hax
        simpa using ih (shape := ns) (by simpa using h.2) axis hax

/-! ### sub-array shapes and stencil reads -/

theorem sliceShape_boxOf (ghost : Bool) (axes : List (List Nat)) (idx : List Nat)
    (h : InRange idx (axes.map List.length)) :
    sliceShape ((axes.map List.sum).map (· + gadd ghost)) (boxOf ghost axes idx)
      = (subShapeOf axes idx).map (· + gadd ghost) := by
  induction axes generalizing idx with
  | nil => cases idx <;> simp [sliceShape]
  | cons sizes ax ih =>
    cases idx with
    | nil => simp at h
    | cons i is =>
      simp only [List.map_cons, inRange_def, inShape_cons_cons, Bool.and_eq_true, decide_eq_true_eq] at h
      have := ih is (by simpa using h.2)
      simp only [List.map_cons, boxOf_cons_cons, sliceShape, subShapeOf_cons_cons, this, sliceAt_eq ghost sizes i h.1]
      congr 1
      have := offset_add_size_le_sum sizes i
      unfold sliceLen
      simp only
      omega

/-- shape of the extracted sub-array: the sub-grid's shape (plus the ghost layers) -/
theorem Mesh.extract_shape {α : Type} (m : Mesh) (ghost : Bool) (data : Arr α) (hd : data.shape = m.arrShape ghost)
    {id : Nat} (hid : id < m.len) :
    (m.extract ghost data id).shape = (m.subShape id).map (· + gadd ghost) := by
  unfold Mesh.extract Arr.slice Mesh.box Mesh.subShape
  simp only [hd, Mesh.arrShape, Mesh.shape]
  exact sliceShape_boxOf ghost m.axes _ (unravel_inRange m.dec id hid)

theorem inRange_vsub_of_inBox (axes : List (List Nat)) (idx g : List Nat)
    (h : InRange idx (axes.map List.length)) (hb : inBox (boxOf false axes idx) g = true) :
    InRange (vsub g (starts (boxOf false axes idx))) (subShapeOf axes idx) := by
  induction axes generalizing idx g with
  | nil =>
    cases idx with
    | cons _ _ => simp at h
    | nil => cases g <;> simp_all [starts]
  | cons sizes ax ih =>
    cases idx with
    | nil => simp at h
    | cons i is =>
      simp only [List.map_cons, inRange_def, inShape_cons_cons, Bool.and_eq_true, decide_eq_true_eq] at h
      cases g with
      | nil => simp at hb
      | cons g0 gs =>
        simp only [boxOf_cons_cons, sliceAt_eq false sizes i h.1, inBox_cons_cons, Bool.and_eq_true,
          decide_eq_true_eq, gadd, Bool.false_eq_true, if_false, Nat.add_zero] at hb
        have := ih is gs (by simpa using h.2) hb.2
        simp only [inRange_def, starts] at this
        simp only [boxOf_cons_cons, sliceAt_eq false sizes i h.1, starts, List.map_cons, vsub_cons,
          subShapeOf_cons_cons, inRange_def, inShape_cons_cons, this, Bool.and_true, decide_eq_true_eq]
        omega

/-- a cell of a sub-grid plus a stencil offset `0..2` stays inside the padded sub-array -/
theorem inRange_vadd_offs (shape p d : List Nat) (hp : InRange p shape) (hd : InRange d (shape.map fun _ => 3)) :
    InRange (vadd p d) (shape.map (· + 2)) := by
  induction shape generalizing p d with
  | nil =>
    cases p with
    | nil => simp
    | cons _ _ => simp at hp
  | cons n ns ih =>
    cases p with
    | nil => simp at hp
    | cons p0 ps =>
      cases d with
      | nil => simp at hd
      | cons d0 ds =>
        simp only [List.map_cons, inRange_def, inShape_cons_cons, Bool.and_eq_true, decide_eq_true_eq] at hp hd
        have := ih ps ds (by simpa using hp.2) (by simpa using hd.2)
        simp only [inRange_def] at this
        simp only [vadd_cons, List.map_cons, inRange_def, inShape_cons_cons, this, Bool.and_true, decide_eq_true_eq]
        omega

theorem readAll_congr {α : Type} (f g : List Nat → Option α) (reads : List (List Nat))
    (h : ∀ d ∈ reads, f d = g d) : readAll f reads = readAll g reads := by
  induction reads with
  | nil => rfl
  | cons d ds ih =>
    unfold readAll
    rw [h d (List.mem_cons_self ..), ih (fun e he => h e (List.mem_cons_of_mem _ he))]

theorem readAll_isSome {α : Type} (f : List Nat → Option α) (reads : List (List Nat))
    (h : ∀ d ∈ reads, (f d).isSome = true) : (readAll f reads).isSome = true := by
  induction reads with
  | nil => rfl
  | cons d ds ih =>
    unfold readAll
    have h1 := h d (List.mem_cons_self ..)
    have h2 := ih (fun e he => h e (List.mem_cons_of_mem _ he))
    cases hf : f d with
    | none => rw [hf] at h1; simp at h1
    | some x =>
      cases hr : readAll f ds with
      | none => rw [hr] at h2; simp at h2
      | some xs => simp

/-! ### start corners of neighbouring boxes -/

theorem vadd_set_set (s q : List Nat) (axis o r : Nat) :
    vadd (s.set axis o) (q.set axis r) = (vadd s q).set axis (o + r) := by
  induction s generalizing q axis with
  | nil => simp
  | cons x xs ih =>
    cases q with
    | nil => simp
    | cons y ys =>
      cases axis with
      | zero => simp
      | succ axis => simp [ih]

theorem starts_boxOf_set (ghost : Bool) (axes : List (List Nat)) (idx : List Nat) (axis k' : Nat)
    (h : InRange idx (axes.map List.length)) (hax : axis < axes.length) (hk : k' < (axes.getD axis []).length) :
    starts (boxOf ghost axes (idx.set axis k')) = (starts (boxOf ghost axes idx)).set axis (offset (axes.getD axis []) k') := by
  induction axes generalizing idx axis with
  | nil => simp at hax
  | cons sizes ax ih =>
    cases idx with
    | nil => simp at h
    | cons i is =>
      simp only [List.map_cons, inRange_def, inShape_cons_cons, Bool.and_eq_true, decide_eq_true_eq] at h
      cases axis with
      | zero =>
        simp only [List.getD_cons_zero] at hk
        simp [starts, sliceAt_eq ghost sizes k' hk]
      | succ axis =>
        simp only [List.length_cons, Nat.add_lt_add_iff_right] at hax
        simp only [List.getD_cons_succ] at hk ⊢
        have := ih is axis (by simpa using h.2) hax hk
        simp only [starts] at this
        simp [starts, this]

theorem starts_boxOf_getD (ghost : Bool) (axes : List (List Nat)) (idx : List Nat) (axis : Nat)
    (h : InRange idx (axes.map List.length)) (hax : axis < axes.length) :
    (starts (boxOf ghost axes idx)).getD axis 0 = offset (axes.getD axis []) (idx.getD axis 0) := by
  induction axes generalizing idx axis with
  | nil => simp at hax
  | cons sizes ax ih =>
    cases idx with
    | nil => simp at h
    | cons i is =>
      simp only [List.map_cons, inRange_def, inShape_cons_cons, Bool.and_eq_true, decide_eq_true_eq] at h
      cases axis with
      | zero => simp [starts, sliceAt_eq ghost sizes i h.1]
      | succ axis =>
        simp only [List.length_cons, Nat.add_lt_add_iff_right] at hax
        have := ih is axis (by simpa using h.2) hax
        simp only [starts] at this
        simpa [starts] using this

theorem subShapeOf_getD (axes : List (List Nat)) (idx : List Nat) (axis : Nat)
    (h : InRange idx (axes.map List.length)) (hax : axis < axes.length) :
    (subShapeOf axes idx).getD axis 0 = sizeAt (axes.getD axis []) (idx.getD axis 0) := by
  induction axes generalizing idx axis with
  | nil => simp at hax
  | cons sizes ax ih =>
    cases idx with
    | nil => simp at h
    | cons i is =>
      simp only [List.map_cons, inRange_def, inShape_cons_cons, Bool.and_eq_true, decide_eq_true_eq] at h
      cases axis with
      | zero => simp
      | succ axis =>
        simp only [List.length_cons, Nat.add_lt_add_iff_right] at hax
        simpa using ih is axis (by simpa using h.2) hax

theorem vadd_set (s q : List Nat) (axis v : Nat) :
    vadd s (q.set axis v) = (vadd s q).set axis (s.getD axis 0 + v) := by
  calc vadd s (q.set axis v) = vadd (s.set axis (s.getD axis 0)) (q.set axis v) := by rw [set_getD_self]
    _ = (vadd s q).set axis (s.getD axis 0 + v) := vadd_set_set s q axis _ v

/-! ### neighbours -/

/-- the decision of `get_neighbor` along one axis: the neighbour's index along the axis -/
def nbStep (size k : Nat) (per upper : Bool) : Option Nat :=
  if size = 1 then none
  else if upper then
    if k < size - 1 then some (k + 1) else if per then some 0 else none
  else
    if k > 0 then some (k - 1) else if per then some (size - 1) else none

theorem neighbor_eq_nbStep (m : Mesh) (axis : Nat) (upper : Bool) (id : Nat) :
    neighbor m axis upper id
      = (nbStep (m.dec.getD axis 0) ((m.id2idx id).getD axis 0) (m.periodic.getD axis false) upper).map
          (fun k' => m.idx2id ((m.id2idx id).set axis k')) := by
  unfold neighbor nbStep
  cases upper <;> simp only [Bool.false_eq_true, if_false, if_true] <;> split_ifs <;> rfl

theorem nbStep_lt {size k k' : Nat} {per upper : Bool} (hk : k < size) (h : nbStep size k per upper = some k') :
    k' < size := by
  unfold nbStep at h
  split_ifs at h <;> simp at h <;> omega

theorem nbStep_symm {size k k' : Nat} {per : Bool} (hk : k < size) (hk' : k' < size) :
    nbStep size k per true = some k' ↔ nbStep size k' per false = some k := by
  unfold nbStep
  simp only [if_true, Bool.false_eq_true, if_false]
  split_ifs <;> simp <;> omega

/-- the neighbour index wraps around: `k+1 mod size` upwards, `k-1 mod size` downwards -/
theorem nbStep_mod {size k k' : Nat} {per upper : Bool} (hk : k < size) (h : nbStep size k per upper = some k') :
    k' = if upper then (k + 1) % size else (k + size - 1) % size := by
  unfold nbStep at h
  cases upper
  · simp only [Bool.false_eq_true, if_false] at h ⊢
    split_ifs at h with h1 h2 h3
    · simp only [Option.some.injEq] at h
      have e : k + size - 1 = (k - 1) + size := by omega
      rw [e, Nat.add_mod_right, Nat.mod_eq_of_lt (by omega)]; omega
    · simp only [Option.some.injEq] at h
      have e : k + size - 1 = size - 1 := by omega
      rw [e, Nat.mod_eq_of_lt (by omega)]; omega
  · simp only [if_true] at h ⊢
    split_ifs at h with h1 h2 h3
    · simp only [Option.some.injEq] at h
      rw [Nat.mod_eq_of_lt (by omega)]; omega
    · simp only [Option.some.injEq] at h
      have e : k + 1 = size := by omega
      rw [e, Nat.mod_self]; omega

theorem nbStep_none_iff (size k : Nat) (per upper : Bool) :
    nbStep size k per upper = none ↔
      size = 1 ∨ (per = false ∧ if upper then ¬ k < size - 1 else k = 0) := by
  unfold nbStep
  cases upper <;> cases per <;> simp only [Bool.false_eq_true, if_false, if_true] <;> split_ifs <;> simp <;> omega

theorem ravel_eq_iff (shape : List Nat) (x : List Nat) (b : Nat) (hx : InRange x shape) (hb : b < shape.prod) :
    ravel shape x = b ↔ x = unravel shape b := by
  constructor
  · intro h; rw [← h, unravel_ravel hx]
  · intro h; rw [h, ravel_unravel shape b hb]

theorem neighbor_some_iff (m : Mesh) (axis : Nat) (upper : Bool) (a b : Nat) (ha : a < m.len) (hb : b < m.len)
    (hax : axis < m.axes.length) :
    neighbor m axis upper a = some b ↔
      ∃ k', nbStep (m.dec.getD axis 0) ((m.id2idx a).getD axis 0) (m.periodic.getD axis false) upper = some k' ∧
        m.id2idx b = (m.id2idx a).set axis k' := by
  have hia := unravel_inRange m.dec a ha
  have hka := inRange_getD hia axis (by rw [Mesh.dec_length]; exact hax)
  rw [neighbor_eq_nbStep, Option.map_eq_some_iff]
  constructor
  · rintro ⟨k', h1, h2⟩
    refine ⟨k', h1, ?_⟩
    have hv : InRange ((m.id2idx a).set axis k') m.dec := inRange_set hia axis _ (nbStep_lt hka h1)
    exact ((ravel_eq_iff m.dec _ b hv hb).1 h2).symm
  · rintro ⟨k', h1, h2⟩
    refine ⟨k', h1, ?_⟩
    have hv : InRange ((m.id2idx a).set axis k') m.dec := inRange_set hia axis _ (nbStep_lt hka h1)
    exact (ravel_eq_iff m.dec _ b hv hb).2 h2.symm

theorem nbStep_seam {size k k' : Nat} {per upper : Bool} (h : nbStep size k per upper = some k')
    (hend : if upper then ¬ k < size - 1 else k = 0) : per = true := by
  unfold nbStep at h
  cases upper <;> simp only [Bool.false_eq_true, if_false, if_true] at h hend <;> split_ifs at h <;> simp_all <;> omega

theorem boxOf_getD (ghost : Bool) (axes : List (List Nat)) (idx : List Nat) (axis : Nat)
    (h : InRange idx (axes.map List.length)) (hax : axis < axes.length) :
    (boxOf ghost axes idx).getD axis (0, 0) = sliceAt ghost (axes.getD axis []) (idx.getD axis 0) := by
  induction axes generalizing idx axis with
  | nil => simp at hax
  | cons sizes ax ih =>
    cases idx with
    | nil => simp at h
    | cons i is =>
      simp only [List.map_cons, inRange_def, inShape_cons_cons, Bool.and_eq_true, decide_eq_true_eq] at h
      cases axis with
      | zero => simp
      | succ axis =>
        simp only [List.length_cons, Nat.add_lt_add_iff_right] at hax
        simp only [boxOf_cons_cons, List.getD_cons_succ]
        exact ih is axis (by simpa using h.2) hax

end PdeVerif.Mesh
