import PdeVerif.Num
import Mathlib.Algebra.Field.Basic
import Mathlib.Tactic.Ring
import Mathlib.Tactic.FieldSimp
import Mathlib.Tactic.Linarith
import Mathlib.Algebra.Order.Floor.Ring
import Mathlib.Algebra.Order.Field.Basic
/-
Bridge between the generic model classes and Mathlib's algebraic hierarchy.
-/
namespace PdeVerif

section
variable {K : Type} [Field K] [LinearOrder K] [IsStrictOrderedRing K] [FloorRing K]

/-- in a floor ring the model's `floor` is `Int.floor` -/
instance instHasFloorOfFloorRing : HasFloor K := ⟨Int.floor⟩

theorem floor_def (x : K) : HasFloor.floor x = Int.floor x := rfl

theorem ceilI_eq_ceil (x : K) : ceilI x = Int.ceil x := by
  unfold ceilI
  rw [floor_def, ← Int.ceil_neg, neg_neg]

/-- `roundHE` is within 1/2 of its argument -/
theorem roundHE_close (x : K) : |x - (roundHE x : K)| ≤ 1/2 := by
  unfold roundHE
  simp only [floor_def]
  have h1 := Int.floor_le x
  have h2 := Int.lt_floor_add_one x
  push_cast
  split_ifs with ha hb hc
  · rw [abs_le]; constructor <;> linarith
  · push_cast; rw [abs_le]; constructor <;> linarith
  · rw [abs_le]; push_neg at ha hb; constructor <;> linarith
  · push_cast; rw [abs_le]; push_neg at ha hb; constructor <;> linarith

end
end PdeVerif
