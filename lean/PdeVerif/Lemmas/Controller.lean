import PdeVerif.Model.Controller
import PdeVerif.Lemmas.Basic
import Mathlib.Tactic.Push
import Mathlib.Tactic.Positivity
/-
Helper lemmas about the controller model (`Model/Controller.lean`) shared by the property files
C07 and C08: rounding, the fixed stepper, the case analysis of one loop iteration and the
invariant principle for the main loop.
-/
set_option linter.unusedSectionVars false
set_option linter.unusedVariables false

namespace PdeVerif.Controller
open PdeVerif

section
variable {K : Type} [Field K] [LinearOrder K] [IsStrictOrderedRing K] [FloorRing K]
variable {S σ : Type}

/-! ### round half even -/

theorem roundHE_le_add_half (x : K) : ((roundHE x : Int) : K) ≤ x + 1 / 2 := by
  have h := roundHE_close x
  rw [abs_le] at h
  linarith [h.1]

theorem roundHE_ge_sub_half (x : K) : x - 1 / 2 ≤ ((roundHE x : Int) : K) := by
  have h := roundHE_close x
  rw [abs_le] at h
  linarith [h.2]

/-- the half-even rule itself: at an exact tie the even neighbour is taken -/
theorem roundHE_tie (f : Int) : roundHE ((f : K) + 1 / 2) = if f % 2 = 0 then f else f + 1 := by
  unfold roundHE
  simp only [floor_def]
  have hf : Int.floor ((f : K) + 1 / 2) = f := by
    rw [Int.floor_eq_iff]; constructor <;> norm_num
  rw [hf]
  have e : (f : K) + 1 / 2 - (f : K) = ((1 : Nat) : K) / ((2 : Nat) : K) := by push_cast; ring
  rw [e]
  simp

theorem roundHE_lt_of_lt (x : K) (n : Int) (h : x < n + 1 / 2) : roundHE x ≤ n := by
  have h1 := roundHE_le_add_half x
  have : ((roundHE x : Int) : K) < ((n + 1 : Int) : K) := by push_cast; linarith
  have := Int.cast_lt.mp this
  omega

theorem roundHE_gt_of_gt (x : K) (n : Int) (h : (n : K) - 1 / 2 < x) : n ≤ roundHE x := by
  have h1 := roundHE_ge_sub_half x
  have : ((n - 1 : Int) : K) < ((roundHE x : Int) : K) := by push_cast; linarith
  have := Int.cast_lt.mp this
  omega

/-- **rounding stability**: any quotient within 1/2 of the integer `N` rounds to `N` -/
theorem roundHE_eq_of_abs_lt (x : K) (N : Int) (h : |x - N| < 1 / 2) : roundHE x = N := by
  rw [abs_lt] at h
  have h1 := roundHE_lt_of_lt x N (by linarith [h.2])
  have h2 := roundHE_gt_of_gt x N (by linarith [h.1])
  omega

theorem roundHE_intCast (n : Int) : roundHE (n : K) = n :=
  roundHE_eq_of_abs_lt _ _ (by simp)

/-! ### the fixed stepper -/

theorem one_le_nsteps (t s dt : K) : 1 ≤ nsteps t s dt := by
  unfold nsteps
  have : (1 : Int) ≤ max 1 (roundHE ((s - t) / dt)) := le_max_left _ _
  omega

theorem nsteps_cast (t s dt : K) :
    ((nsteps t s dt : Nat) : Int) = max 1 (roundHE ((s - t) / dt)) := by
  unfold nsteps
  have : (1 : Int) ≤ max 1 (roundHE ((s - t) / dt)) := le_max_left _ _
  omega

/-- no overshoot: a target less than `m + 1/2` steps away (`m ≥ 1`) is reached in at most `m` steps -/
theorem nsteps_le (t s dt : K) (m : Nat) (hm : 1 ≤ m) (h : (s - t) / dt < (m : K) + 1 / 2) :
    nsteps t s dt ≤ m := by
  have h1 : roundHE ((s - t) / dt) ≤ (m : Int) := roundHE_lt_of_lt _ _ (by push_cast; exact h)
  have h2 := nsteps_cast t s dt
  have : max 1 (roundHE ((s - t) / dt)) ≤ (m : Int) := max_le (by omega) h1
  omega

/-- a target at least `m - 1/2` steps away needs at least `m` steps -/
theorem le_nsteps (t s dt : K) (m : Nat) (h : (m : K) - 1 / 2 < (s - t) / dt) : m ≤ nsteps t s dt := by
  have h1 : (m : Int) ≤ roundHE ((s - t) / dt) := roundHE_gt_of_gt _ _ (by push_cast; exact h)
  have h2 := nsteps_cast t s dt
  have : roundHE ((s - t) / dt) ≤ max 1 (roundHE ((s - t) / dt)) := le_max_right _ _
  omega

/-- the value returned by the fixed stepper is `t_start + steps*dt` -/
theorem stepperTime_eq (tS dt : K) (n : Nat) (hn : 1 ≤ n) : stepperTime tS dt n = tS + n * dt := by
  unfold stepperTime
  have : ((n - 1 : Nat) : K) = (n : K) - 1 := by
    rw [Nat.cast_sub hn]; simp
  rw [this]; ring

theorem stepN_zero (step : S → K → S) (dt tS : K) (i : Nat) (u : S) : stepN step dt tS 0 i u = u := rfl

theorem stepN_succ (step : S → K → S) (dt tS : K) (n i : Nat) (u : S) :
    stepN step dt tS (n + 1) i u = stepN step dt tS n (i + 1) (step u (tS + ((i : Nat) : K) * dt)) := rfl

/-- the times of the step loop are lattice times: starting a segment at `t0 + k*dt` -/
theorem stepN_shift (step : S → K → S) (dt t0 : K) (k : Nat) :
    ∀ (n i : Nat) (u : S), stepN step dt (t0 + k * dt) n i u = stepN step dt t0 n (k + i) u := by
  intro n
  induction n with
  | zero => intro i u; rfl
  | succ n ih =>
    intro i u
    rw [stepN_succ, stepN_succ]
    have e : t0 + (k : K) * dt + ((i : Nat) : K) * dt = t0 + (((k + i : Nat)) : K) * dt := by
      push_cast; ring
    rw [e, ih (i + 1)]
    rfl

theorem stepN_add (step : S → K → S) (dt t0 : K) :
    ∀ (m n i : Nat) (u : S),
      stepN step dt t0 (m + n) i u = stepN step dt t0 n (i + m) (stepN step dt t0 m i u) := by
  intro m
  induction m with
  | zero => intro n i u; simp [stepN]
  | succ m ih =>
    intro n i u
    have : m + 1 + n = (m + n) + 1 := by omega
    rw [this, stepN_succ, stepN_succ, ih n (i + 1)]
    have : i + 1 + m = i + (m + 1) := by omega
    rw [this]

/-! ### one iteration of the main loop: the three cases -/

/-- the `handle` call of the main loop at the loop state `st` -/
def mainHandle (c : Cfg K S σ) (st : LState K S σ) :=
  handleAll c.nxt (half * c.dt) st.t st.u 0 st.trs

/-- the loop state after a continuing iteration -/
def advance (c : Cfg K S σ) (st : LState K S σ) : LState K S σ :=
  let h := mainHandle c st
  let n := nsteps st.t (clip (nextAction h.1) c.tEnd) c.dt
  { t := stepperTime st.t c.dt n, u := stepN c.step c.dt st.t n 0 st.u, steps := st.steps + n,
    trs := h.1, trace := st.trace ++ h.2.1, iters := st.iters + 1 }

/-- the loop state after an iteration whose handle raised -/
def halted (c : Cfg K S σ) (st : LState K S σ) : LState K S σ :=
  { st with trs := (mainHandle c st).1, trace := st.trace ++ (mainHandle c st).2.1 }

theorem iterOnce_cases (c : Cfg K S σ) (st : LState K S σ) :
    (¬ st.t < c.tEnd - c.eps * c.dt ∧ iterOnce c st = (st, some .final)) ∨
    (st.t < c.tEnd - c.eps * c.dt ∧ ∃ r, (mainHandle c st).2.2 = some r ∧
        iterOnce c st = (halted c st, some (.stopped r))) ∨
    (st.t < c.tEnd - c.eps * c.dt ∧ (mainHandle c st).2.2 = none ∧
        iterOnce c st = (advance c st, none)) := by
  by_cases hc : st.t < c.tEnd - c.eps * c.dt
  · right
    cases he : (mainHandle c st).2.2 with
    | some r =>
      left
      refine ⟨hc, r, rfl, ?_⟩
      unfold iterOnce
      rw [if_pos hc]
      unfold mainHandle at he
      simp only [he]
      rfl
    | none =>
      right
      refine ⟨hc, rfl, ?_⟩
      unfold iterOnce
      rw [if_pos hc]
      unfold mainHandle at he
      simp only [he]
      rfl
  · left
    exact ⟨hc, by unfold iterOnce; rw [if_neg hc]⟩

/-- **invariant principle**: a predicate preserved by one pass through the loop body holds for
the state the loop ends in (for every amount of fuel) -/
theorem loop_invariant (c : Cfg K S σ) (P : LState K S σ → Prop)
    (hP : ∀ st, P st → P (iterOnce c st).1) :
    ∀ (fuel : Nat) (st : LState K S σ), P st → P (loop c fuel st).1 := by
  intro fuel
  induction fuel with
  | zero => intro st h; exact h
  | succ n ih =>
    intro st h
    unfold loop
    have h1 := hP st h
    cases hi : iterOnce c st with
    | mk st' oe =>
      rw [hi] at h1
      cases oe with
      | none => exact ih st' h1
      | some e => exact h1

/-- invariants only have to be checked for the two state-changing cases -/
theorem loop_invariant' (c : Cfg K S σ) (P : LState K S σ → Prop)
    (hadv : ∀ st, P st → st.t < c.tEnd - c.eps * c.dt → (mainHandle c st).2.2 = none → P (advance c st))
    (hhalt : ∀ st, P st → st.t < c.tEnd - c.eps * c.dt → ∀ r, (mainHandle c st).2.2 = some r →
      P (halted c st)) :
    ∀ (fuel : Nat) (st : LState K S σ), P st → P (loop c fuel st).1 := by
  apply loop_invariant
  intro st h
  rcases iterOnce_cases c st with ⟨_, e⟩ | ⟨hc, r, hr, e⟩ | ⟨hc, hn, e⟩
  · rw [e]; exact h
  · rw [e]; exact hhalt st h hc r hr
  · rw [e]; exact hadv st h hc hn

/-- how the loop was left, read off the final state -/
theorem loop_exit_final (c : Cfg K S σ) :
    ∀ (fuel : Nat) (st : LState K S σ), (loop c fuel st).2 = .final →
      ¬ (loop c fuel st).1.t < c.tEnd - c.eps * c.dt := by
  intro fuel
  induction fuel with
  | zero => intro st h; simp [loop] at h
  | succ n ih =>
    intro st h
    unfold loop at h ⊢
    rcases iterOnce_cases c st with ⟨hc, e⟩ | ⟨hc, r, hr, e⟩ | ⟨hc, hn, e⟩
    · rw [e]; exact hc
    · rw [e] at h; simp at h
    · rw [e] at h ⊢; exact ih _ h

end
end PdeVerif.Controller
