import PdeVerif.Model.Controller
import PdeVerif.Lemmas.Basic
import Mathlib.Tactic.Push
import Mathlib.Tactic.Positivity
/-
Helper lemmas about the controller model (`Model/Controller.lean`) shared by the property files
C07 and C08: rounding, the fixed stepper, the case analysis of one loop iteration and the
invariant principle for the main loop.
-/
set_option linter.unusedSectionVars false
set_option linter.unusedVariables false

namespace PdeVerif.Controller
open PdeVerif

section
variable {K : Type} [Field K] [LinearOrder K] [IsStrictOrderedRing K] [FloorRing K]
variable {S σ : Type}

/-! ### round half even -/

theorem roundHE_le_add_half (x : K) : ((roundHE x : Int) : K) ≤ x + 1 / 2 := by
  have h := roundHE_close x
  rw [abs_le] at h
  linarith [h.1]

theorem roundHE_ge_sub_half (x : K) : x - 1 / 2 ≤ ((roundHE x : Int) : K) := by
  have h := roundHE_close x
  rw [abs_le] at h
  linarith [h.2]

/-- the half-even rule itself: at an exact tie the even neighbour is taken -/
theorem roundHE_tie (f : Int) : roundHE ((f : K) + 1 / 2) = if f % 2 = 0 then f else f + 1 := by
  unfold roundHE
  simp only [floor_def]
  have hf : Int.floor ((f : K) + 1 / 2) = f := by
    rw [Int.floor_eq_iff]; constructor <;> norm_num
  rw [hf]
  have e : (f : K) + 1 / 2 - (f : K) = ((1 : Nat) : K) / ((2 : Nat) : K) := by push_cast; ring
  rw [e]
  simp

theorem roundHE_lt_of_lt (x : K) (n : Int) (h : x < n + 1 / 2) : roundHE x ≤ n := by
  have h1 := roundHE_le_add_half x
  have : ((roundHE x : Int) : K) < ((n + 1 : Int) : K) := by push_cast; linarith
  have := Int.cast_lt.mp this
  omega

theorem roundHE_gt_of_gt (x : K) (n : Int) (h : (n : K) - 1 / 2 < x) : n ≤ roundHE x := by
  have h1 := roundHE_ge_sub_half x
  have : ((n - 1 : Int) : K) < ((roundHE x : Int) : K) := by push_cast; linarith
  have := Int.cast_lt.mp this
  omega

/-- **rounding stability**: any quotient within 1/2 of the integer `N` rounds to `N` -/
theorem roundHE_eq_of_abs_lt (x : K) (N : Int) (h : |x - N| < 1 / 2) : roundHE x = N := by
  rw [abs_lt] at h
  have h1 := roundHE_lt_of_lt x N (by linarith [h.2])
  have h2 := roundHE_gt_of_gt x N (by linarith [h.1])
  omega

theorem roundHE_intCast (n : Int) : roundHE (n : K) = n :=
  roundHE_eq_of_abs_lt _ _ (by simp)

/-! ### the fixed stepper -/

theorem one_le_nsteps (t s dt : K) : 1 ≤ nsteps t s dt := by
  unfold nsteps
  have : (1 : Int) ≤ max 1 (roundHE ((s - t) / dt)) := le_max_left _ _
  omega

theorem nsteps_cast (t s dt : K) :
    ((nsteps t s dt : Nat) : Int) = max 1 (roundHE ((s - t) / dt)) := by
  unfold nsteps
  have : (1 : Int) ≤ max 1 (roundHE ((s - t) / dt)) := le_max_left _ _
  omega

/-- no overshoot: a target less than `m + 1/2` steps away (`m ≥ 1`) is reached in at most `m` steps -/
theorem nsteps_le (t s dt : K) (m : Nat) (hm : 1 ≤ m) (h : (s - t) / dt < (m : K) + 1 / 2) :
    nsteps t s dt ≤ m := by
  have h1 : roundHE ((s - t) / dt) ≤ (m : Int) := roundHE_lt_of_lt _ _ (by push_cast; exact h)
  have h2 := nsteps_cast t s dt
  have : max 1 (roundHE ((s - t) / dt)) ≤ (m : Int) := max_le (by omega) h1
  omega

/-- a target at least `m - 1/2` steps away needs at least `m` steps -/
theorem le_nsteps (t s dt : K) (m : Nat) (h : (m : K) - 1 / 2 < (s - t) / dt) : m ≤ nsteps t s dt := by
  have h1 : (m : Int) ≤ roundHE ((s - t) / dt) := roundHE_gt_of_gt _ _ (by push_cast; exact h)
  have h2 := nsteps_cast t s dt
  have : roundHE ((s - t) / dt) ≤ max 1 (roundHE ((s - t) / dt)) := le_max_right _ _
  omega

/-- the value returned by the fixed stepper is `t_start + steps*dt` -/
theorem stepperTime_eq (tS dt : K) (n : Nat) (hn : 1 ≤ n) : stepperTime tS dt n = tS + n * dt := by
  unfold stepperTime
  have : ((n - 1 : Nat) : K) = (n : K) - 1 := by
    rw [Nat.cast_sub hn]; simp
  rw [this]; ring

theorem stepN_zero (step : S → K → S) (dt tS : K) (i : Nat) (u : S) : stepN step dt tS 0 i u = u := rfl

theorem stepN_succ (step : S → K → S) (dt tS : K) (n i : Nat) (u : S) :
    stepN step dt tS (n + 1) i u = stepN step dt tS n (i + 1) (step u (tS + ((i : Nat) : K) * dt)) := rfl

/-- the times of the step loop are lattice times: starting a segment at `t0 + k*dt` -/
theorem stepN_shift (step : S → K → S) (dt t0 : K) (k : Nat) :
    ∀ (n i : Nat) (u : S), stepN step dt (t0 + k * dt) n i u = stepN step dt t0 n (k + i) u := by
  intro n
  induction n with
  | zero => intro i u; rfl
  | succ n ih =>
    intro i u
    rw [stepN_succ, stepN_succ]
    have e : t0 + (k : K) * dt + ((i : Nat) : K) * dt = t0 + (((k + i : Nat)) : K) * dt := by
      push_cast; ring
    rw [e, ih (i + 1)]
    rfl

theorem stepN_add (step : S → K → S) (dt t0 : K) :
    ∀ (m n i : Nat) (u : S),
      stepN step dt t0 (m + n) i u = stepN step dt t0 n (i + m) (stepN step dt t0 m i u) := by
  intro m
  induction m with
  | zero => intro n i u; simp [stepN]
  | succ m ih =>
    intro n i u
    have : m + 1 + n = (m + n) + 1 := by omega
    rw [this, stepN_succ, stepN_succ, ih n (i + 1)]
    have : i + 1 + m = i + (m + 1) := by omega
    rw [this]

/-! ### one iteration of the main loop: the three cases -/

/-- the `handle` call of the main loop at the loop state `st` -/
def mainHandle (c : Cfg K S σ) (st : LState K S σ) :=
  handleAll c.nxt (half * c.dt) st.t st.u 0 st.trs

/-- the loop state after a continuing iteration -/
def advance (c : Cfg K S σ) (st : LState K S σ) : LState K S σ :=
  let h := mainHandle c st
  let n := nsteps st.t (clip (nextAction h.1) c.tEnd) c.dt
  { t := stepperTime st.t c.dt n, u := stepN c.step c.dt st.t n 0 st.u, steps := st.steps + n,
    trs := h.1, trace := st.trace ++ h.2.1, iters := st.iters + 1 }

/-- the loop state after an iteration whose handle raised -/
def halted (c : Cfg K S σ) (st : LState K S σ) : LState K S σ :=
  { st with trs := (mainHandle c st).1, trace := st.trace ++ (mainHandle c st).2.1 }

theorem iterOnce_cases (c : Cfg K S σ) (st : LState K S σ) :
    (¬ st.t < c.tEnd - c.eps * c.dt ∧ iterOnce c st = (st, some .final)) ∨
    (st.t < c.tEnd - c.eps * c.dt ∧ ∃ r, (mainHandle c st).2.2 = some r ∧
        iterOnce c st = (halted c st, some (.stopped r))) ∨
    (st.t < c.tEnd - c.eps * c.dt ∧ (mainHandle c st).2.2 = none ∧
        iterOnce c st = (advance c st, none)) := by
  by_cases hc : st.t < c.tEnd - c.eps * c.dt
  · right
    cases he : (mainHandle c st).2.2 with
    | some r =>
      left
      refine ⟨hc, r, rfl, ?_⟩
      unfold iterOnce
      rw [if_pos hc]
      unfold mainHandle at he
      simp only [he]
      rfl
    | none =>
      right
      refine ⟨hc, rfl, ?_⟩
      unfold iterOnce
      rw [if_pos hc]
      unfold mainHandle at he
      simp only [he]
      rfl
  · left
    exact ⟨hc, by unfold iterOnce; rw [if_neg hc]⟩

/-- **invariant principle**: a predicate preserved by one pass through the loop body holds for
the state the loop ends in (for every amount of fuel) -/
theorem loop_invariant (c : Cfg K S σ) (P : LState K S σ → Prop)
    (hP : ∀ st, P st → P (iterOnce c st).1) :
    ∀ (fuel : Nat) (st : LState K S σ), P st → P (loop c fuel st).1 := by
  intro fuel
  induction fuel with
  | zero => intro st h; exact h
  | succ n ih =>
    intro st h
    unfold loop
    have h1 := hP st h
    cases hi : iterOnce c st with
    | mk st' oe =>
      rw [hi] at h1
      cases oe with
      | none => exact ih st' h1
      | some e => exact h1

/-- invariants only have to be checked for the two state-changing cases -/
theorem loop_invariant' (c : Cfg K S σ) (P : LState K S σ → Prop)
    (hadv : ∀ st, P st → st.t < c.tEnd - c.eps * c.dt → (mainHandle c st).2.2 = none → P (advance c st))
    (hhalt : ∀ st, P st → st.t < c.tEnd - c.eps * c.dt → ∀ r, (mainHandle c st).2.2 = some r →
      P (halted c st)) :
    ∀ (fuel : Nat) (st : LState K S σ), P st → P (loop c fuel st).1 := by
  apply loop_invariant
  intro st h
  rcases iterOnce_cases c st with ⟨_, e⟩ | ⟨hc, r, hr, e⟩ | ⟨hc, hn, e⟩
  · rw [e]; exact h
  · rw [e]; exact hhalt st h hc r hr
  · rw [e]; exact hadv st h hc hn

/-- how the loop was left, read off the final state -/
theorem loop_exit_final (c : Cfg K S σ) :
    ∀ (fuel : Nat) (st : LState K S σ), (loop c fuel st).2 = .final →
      ¬ (loop c fuel st).1.t < c.tEnd - c.eps * c.dt := by
  intro fuel
  induction fuel with
  | zero => intro st h; simp [loop] at h
  | succ n ih =>
    intro st h
    unfold loop at h ⊢
    rcases iterOnce_cases c st with ⟨hc, e⟩ | ⟨hc, r, hr, e⟩ | ⟨hc, hn, e⟩
    · rw [e]; exact hc
    · rw [e] at h; simp at h
    · rw [e] at h ⊢; exact ih _ h

end
end PdeVerif.Controller

namespace PdeVerif.Controller
open PdeVerif

section
variable {K : Type} [Field K] [LinearOrder K] [IsStrictOrderedRing K] [FloorRing K]
variable {S σ : Type}

/-! ### `TrackerCollection.handle` in closed form -/

/-- what `handle` raises is the tracker's behaviour at its current call number, for every class -/
theorem handle_err (tr : Tracker K S σ) (t : K) (u : S) :
    (tr.handle t u).2 = tr.stopAt tr.calls t u := by
  unfold Tracker.handle
  cases tr.kind <;> cases tr.stopAt tr.calls t u <;> rfl

/-- the tracker after it was handled at `t`: recorded, call counted, interrupt advanced -/
def served (nxt : σ → K → σ × Option K) (t : K) (u : S) (tr : Tracker K S σ) : Tracker K S σ :=
  { (tr.handle t u).1 with sched := (nxt tr.sched t).1, due := (nxt tr.sched t).2 }

/-- trackers after a `handle` of the collection: exactly the due ones were served -/
theorem handleAll_trackers (nxt : σ → K → σ × Option K) (atol t : K) (u : S) :
    ∀ (trs : List (Tracker K S σ)) (i : Nat), (handleAll nxt atol t u i trs).1 =
      trs.map (fun tr => if isDue tr.due atol t then served nxt t u tr else tr) := by
  intro trs
  induction trs with
  | nil => intro i; rfl
  | cons tr rest ih =>
    intro i
    unfold handleAll
    split_ifs with hd
    · simp only [List.map_cons, hd, if_true, ih (i + 1)]; rfl
    · simp only [List.map_cons, hd, ih (i + 1)]; rfl

/-- the calls made by a `handle` of the collection: every due tracker, in list order, at `(t, u)` -
whether or not some of them raise -/
theorem handleAll_events (nxt : σ → K → σ × Option K) (atol t : K) (u : S) :
    ∀ (trs : List (Tracker K S σ)) (i : Nat), (handleAll nxt atol t u i trs).2.1 =
      ((trs.zipIdx i).filter (fun p => isDue p.1.due atol t)).map (fun p => (p.2, t, u)) := by
  intro trs
  induction trs with
  | nil => intro i; rfl
  | cons tr rest ih =>
    intro i
    unfold handleAll
    rw [List.zipIdx_cons]
    split_ifs with hd
    · simp only [List.filter_cons, hd, if_true, List.map_cons, ih (i + 1)]
    · simp only [List.filter_cons, hd, ih (i + 1)]; rfl

theorem lastErr_none (x : Option StopReq) : lastErr none x = x := by cases x <;> rfl

theorem lastErr_some_getLast (r : StopReq) (l : List StopReq) :
    lastErr (some r) l.getLast? = (r :: l).getLast? := by
  cases l with
  | nil => rfl
  | cons a l =>
    rw [List.getLast?_cons_cons]
    cases h : (a :: l).getLast? with
    | none => simp at h
    | some x => rfl

/-- the exception a `handle` of the collection re-raises: the one of the last due tracker that
raised -/
theorem handleAll_err (nxt : σ → K → σ × Option K) (atol t : K) (u : S) :
    ∀ (trs : List (Tracker K S σ)) (i : Nat), (handleAll nxt atol t u i trs).2.2 =
      ((trs.filter (fun tr => isDue tr.due atol t)).filterMap
        (fun tr => tr.stopAt tr.calls t u)).getLast? := by
  intro trs
  induction trs with
  | nil => intro i; rfl
  | cons tr rest ih =>
    intro i
    unfold handleAll
    split_ifs with hd
    · simp only [List.filter_cons, hd, if_true, ih (i + 1), handle_err]
      cases hs : tr.stopAt tr.calls t u with
      | none => simp only [List.filterMap_cons, hs, lastErr_none]
      | some r => simp only [List.filterMap_cons, hs, lastErr_some_getLast]
    · simp only [List.filter_cons, hd, ih (i + 1)]; rfl

theorem handleAll_length (nxt : σ → K → σ × Option K) (atol t : K) (u : S)
    (trs : List (Tracker K S σ)) (i : Nat) : (handleAll nxt atol t u i trs).1.length = trs.length := by
  rw [handleAll_trackers]; simp

/-! ### the result of the main loop: how it can end -/

/-- **master lemma for the main loop.**  For a predicate `P` of loop-head states that is preserved
by a continuing iteration, the loop ends in one of three ways: regularly at a head state
satisfying `P` where the loop condition fails; out of fuel at a head state satisfying `P`; or
inside the body at a head state `st'` satisfying `P` whose `handle` raised, in the state
`halted c st'`. -/
theorem loop_result (c : Cfg K S σ) (P : LState K S σ → Prop)
    (hadv : ∀ st, P st → st.t < c.tEnd - c.eps * c.dt → (mainHandle c st).2.2 = none → P (advance c st)) :
    ∀ (fuel : Nat) (st : LState K S σ), P st →
      ((loop c fuel st).2 = .final ∧ P (loop c fuel st).1 ∧
          ¬ (loop c fuel st).1.t < c.tEnd - c.eps * c.dt) ∨
      ((loop c fuel st).2 = .fuel ∧ P (loop c fuel st).1) ∨
      (∃ st' r, P st' ∧ st'.t < c.tEnd - c.eps * c.dt ∧ (mainHandle c st').2.2 = some r ∧
          loop c fuel st = (halted c st', .stopped r)) := by
  intro fuel
  induction fuel with
  | zero => intro st h; right; left; exact ⟨rfl, h⟩
  | succ n ih =>
    intro st h
    unfold loop
    rcases iterOnce_cases c st with ⟨hc, e⟩ | ⟨hc, r, hr, e⟩ | ⟨hc, hn, e⟩
    · rw [e]; left; exact ⟨rfl, h, hc⟩
    · rw [e]; right; right; exact ⟨st, r, h, hc, hr, rfl⟩
    · rw [e]; exact ih _ (hadv st h hc hn)

end
end PdeVerif.Controller

namespace PdeVerif.Controller
open PdeVerif

section
variable {K : Type} [Field K] [LinearOrder K] [IsStrictOrderedRing K] [FloorRing K]
variable {S σ : Type}

/-! ### accounting invariant, final handle (shared by C07 and C08) -/

/-- the run reached the `else:` branch of the main loop (possibly stopped by the final handle) -/
def Exit.reachedEnd : Exit → Prop
  | .final => True
  | .finalStopped _ => True
  | _ => False

/-- the number of steps after which the loop condition `t < t_end - eps*dt` fails:
`⌈(t_end - t_start)/dt - eps⌉` (0 for an empty or negative range) -/
def finalStepCount (c : Cfg K S σ) : Nat :=
  (Int.ceil ((c.tEnd - c.tStart) / c.dt - c.eps)).toNat

/-- the state after `n` steps: step `i` is applied at time `t_start + i*dt` -/
def stateAfter (c : Cfg K S σ) (u0 : S) (n : Nat) : S := stepN c.step c.dt c.tStart n 0 u0

/-- start of the main loop -/
def initState (c : Cfg K S σ) (u0 : S) (trs : List (Tracker K S σ)) : LState K S σ :=
  { t := c.tStart, u := u0, steps := 0, trs := trs, trace := [], iters := 0 }

/-- accounting invariant of the loop: time on the step lattice, state = iterate -/
structure Acc (c : Cfg K S σ) (u0 : S) (st : LState K S σ) : Prop where
  lattice : st.t = c.tStart + st.steps * c.dt
  iterate : st.u = stateAfter c u0 st.steps

theorem acc_init (c : Cfg K S σ) (u0 : S) (trs : List (Tracker K S σ)) :
    Acc c u0 (initState c u0 trs) :=
  ⟨by simp [initState], rfl⟩

theorem acc_advance (c : Cfg K S σ) (u0 : S) (st : LState K S σ) (h : Acc c u0 st) :
    Acc c u0 (advance c st) := by
  obtain ⟨h1, h2⟩ := h
  have hn := one_le_nsteps st.t (clip (nextAction (mainHandle c st).1) c.tEnd) c.dt
  constructor
  · show stepperTime st.t c.dt _ = c.tStart + ((st.steps + _ : Nat) : K) * c.dt
    rw [stepperTime_eq _ _ _ hn, h1]; push_cast; ring
  · show stepN c.step c.dt st.t _ 0 st.u = stateAfter c u0 (st.steps + _)
    unfold stateAfter at h2 ⊢
    rw [h1, stepN_shift, h2, stepN_add]
    simp

theorem acc_halted (c : Cfg K S σ) (u0 : S) (st : LState K S σ) (h : Acc c u0 st) :
    Acc c u0 (halted c st) := ⟨h.1, h.2⟩

theorem loop_acc (c : Cfg K S σ) (u0 : S) (fuel : Nat) (st : LState K S σ) (h : Acc c u0 st) :
    Acc c u0 (loop c fuel st).1 :=
  loop_invariant' c (Acc c u0) (fun st h _ _ => acc_advance c u0 st h)
    (fun st h _ _ _ => acc_halted c u0 st h) fuel st h

/-! ### the final handle and finalize do not touch time, state and step count -/

theorem finalHandle_t (c : Cfg K S σ) (p : LState K S σ × Exit) : (finalHandle c p).1.t = p.1.t := by
  rcases p with ⟨st, e⟩; cases e <;> rfl

theorem finalHandle_u (c : Cfg K S σ) (p : LState K S σ × Exit) : (finalHandle c p).1.u = p.1.u := by
  rcases p with ⟨st, e⟩; cases e <;> rfl

theorem finalHandle_steps (c : Cfg K S σ) (p : LState K S σ × Exit) :
    (finalHandle c p).1.steps = p.1.steps := by
  rcases p with ⟨st, e⟩; cases e <;> rfl

/-- the main loop itself never produces the `finalStopped` exit -/
theorem loop_ne_finalStopped (c : Cfg K S σ) (r : StopReq) :
    ∀ (fuel : Nat) (st : LState K S σ), (loop c fuel st).2 ≠ .finalStopped r := by
  intro fuel
  induction fuel with
  | zero => intro st; simp [loop]
  | succ n ih =>
    intro st
    unfold loop
    rcases iterOnce_cases c st with ⟨_, e⟩ | ⟨hc, r', hr, e⟩ | ⟨hc, hn, e⟩
    · rw [e]; simp
    · rw [e]; simp
    · rw [e]; exact ih _

theorem finalHandle_reachedEnd (c : Cfg K S σ) (p : LState K S σ × Exit)
    (hp : ∀ r, p.2 ≠ .finalStopped r) : (finalHandle c p).2.reachedEnd ↔ p.2 = .final := by
  rcases p with ⟨st, e⟩
  cases e with
  | final =>
    simp only [finalHandle, iff_true]
    cases (handleAll c.nxt (c.eps * c.dt) st.t st.u 0 st.trs).2.2 <;> trivial
  | stopped r => simp [finalHandle, Exit.reachedEnd]
  | finalStopped r => exact absurd rfl (hp r)
  | fuel => simp [finalHandle, Exit.reachedEnd]

theorem finalHandle_fuel (c : Cfg K S σ) (p : LState K S σ × Exit) :
    (finalHandle c p).2 = .fuel ↔ p.2 = .fuel := by
  rcases p with ⟨st, e⟩
  cases e with
  | final =>
    simp only [finalHandle]
    cases (handleAll c.nxt (c.eps * c.dt) st.t st.u 0 st.trs).2.2 <;> simp
  | stopped r => simp [finalHandle]
  | finalStopped r => simp [finalHandle]
  | fuel => simp [finalHandle]

theorem clip_le (a : Option K) (tEnd : K) : clip a tEnd ≤ tEnd := by
  unfold clip
  cases a with
  | none => exact le_refl _
  | some x => simp only; split_ifs with h <;> [exact le_refl _; exact not_lt.mp h]

/-- the loop condition on the lattice: `k` is below the final step count -/
theorem cond_iff_lt (c : Cfg K S σ) (hdt : 0 < c.dt) (k : Nat) :
    c.tStart + (k : K) * c.dt < c.tEnd - c.eps * c.dt ↔
      (k : Int) < Int.ceil ((c.tEnd - c.tStart) / c.dt - c.eps) := by
  rw [Int.lt_ceil]
  have e : (c.tEnd - c.tStart) / c.dt - c.eps = (c.tEnd - c.tStart - c.eps * c.dt) / c.dt := by
    field_simp
  rw [e, lt_div_iff₀ hdt]
  push_cast
  constructor <;> intro h <;> linarith


end
end PdeVerif.Controller

namespace PdeVerif.Controller
open PdeVerif

section
variable {K : Type} [Field K] [LinearOrder K] [IsStrictOrderedRing K] [FloorRing K]
variable {S σ : Type}

/-! ### the shape of a whole run -/

/-- the final `handle` (tolerance `stepper_atol`) at the loop state `st` -/
def finalH (c : Cfg K S σ) (st : LState K S σ) :=
  handleAll c.nxt (c.eps * c.dt) st.t st.u 0 st.trs

/-- the three ways a run can end, described through the last loop-head state `st` -/
def RunShape (c : Cfg K S σ) (R : Result K S σ) (st : LState K S σ) : Prop :=
  (R.exit = .fuel ∧ R.trace = st.trace ∧ R.trackers = finalizeAll st.trs) ∨
  (¬ st.t < c.tEnd - c.eps * c.dt ∧ R.trace = st.trace ++ (finalH c st).2.1 ∧
      R.trackers = finalizeAll (finalH c st).1 ∧
      R.exit = (match (finalH c st).2.2 with
        | some r => Exit.finalStopped r
        | none => Exit.final)) ∨
  (st.t < c.tEnd - c.eps * c.dt ∧ ∃ r, (mainHandle c st).2.2 = some r ∧ R.exit = .stopped r ∧
      R.trace = st.trace ++ (mainHandle c st).2.1 ∧ R.trackers = finalizeAll (mainHandle c st).1)

/-- **shape of a run.**  For every predicate `P` of loop-head states that holds initially and is
preserved by continuing iterations there is a head state `st` with `P st` from which the run
ended: time, state and step count of the result are those of `st`, and trace, trackers and exit
are obtained by the final handle (`else:` branch), by the raising handle (`except`), or not at
all (fuel). -/
theorem run_shape (c : Cfg K S σ) (P : LState K S σ → Prop)
    (hadv : ∀ st, P st → st.t < c.tEnd - c.eps * c.dt → (mainHandle c st).2.2 = none → P (advance c st))
    (u0 : S) (trs : List (Tracker K S σ)) (fuel : Nat) (h0 : P (initState c u0 trs)) :
    ∃ st : LState K S σ, P st ∧ (runFuel c u0 trs fuel).tFinal = st.t ∧
      (runFuel c u0 trs fuel).state = st.u ∧ (runFuel c u0 trs fuel).steps = st.steps ∧
      RunShape c (runFuel c u0 trs fuel) st := by
  have key := loop_result c P hadv fuel (initState c u0 trs) h0
  rcases hp : loop c fuel (initState c u0 trs) with ⟨st, e⟩
  have hp' : loop c fuel { t := c.tStart, u := u0, steps := 0, trs := trs, trace := [], iters := 0 }
      = (st, e) := hp
  rw [hp] at key
  rcases key with ⟨hf, hP, hc⟩ | ⟨hf, hP⟩ | ⟨st', r, hP, hc, hr, he⟩
  · simp only at hf hP hc
    subst hf
    refine ⟨st, hP, ?_, ?_, ?_, ?_⟩
    · simp only [runFuel, hp', finalHandle]
    · simp only [runFuel, hp', finalHandle]
    · simp only [runFuel, hp', finalHandle]
    · right; left
      refine ⟨hc, ?_, ?_, ?_⟩
      · simp only [runFuel, hp', finalHandle, finalH]
      · simp only [runFuel, hp', finalHandle, finalH]
      · simp only [runFuel, hp', finalHandle, finalH]
        cases (handleAll c.nxt (c.eps * c.dt) st.t st.u 0 st.trs).2.2 <;> rfl
  · simp only at hf hP
    subst hf
    refine ⟨st, hP, ?_, ?_, ?_, ?_⟩
    · simp only [runFuel, hp', finalHandle]
    · simp only [runFuel, hp', finalHandle]
    · simp only [runFuel, hp', finalHandle]
    · left
      refine ⟨?_, ?_, ?_⟩
      · simp only [runFuel, hp', finalHandle]
      · simp only [runFuel, hp', finalHandle]
      · simp only [runFuel, hp', finalHandle]
  · obtain ⟨h1, h2⟩ := Prod.mk.inj he
    subst h1 h2
    refine ⟨st', hP, ?_, ?_, ?_, ?_⟩
    · simp only [runFuel, hp', finalHandle]; rfl
    · simp only [runFuel, hp', finalHandle]; rfl
    · simp only [runFuel, hp', finalHandle]; rfl
    · right; right
      refine ⟨hc, r, hr, ?_, ?_, ?_⟩
      · simp only [runFuel, hp', finalHandle]
      · simp only [runFuel, hp', finalHandle]; rfl
      · simp only [runFuel, hp', finalHandle]; rfl

/-- the calls of one `handle` of the collection are made in list order at the same `(t, u)` -/
theorem handleAll_events_sorted (nxt : σ → K → σ × Option K) (atol t : K) (u : S) :
    ∀ (trs : List (Tracker K S σ)) (i : Nat),
      ((handleAll nxt atol t u i trs).2.1).Pairwise (fun a b => a.1 < b.1) ∧
      ∀ e ∈ (handleAll nxt atol t u i trs).2.1, i ≤ e.1 ∧ e.1 < i + trs.length ∧ e.2.1 = t ∧ e.2.2 = u := by
  intro trs
  induction trs with
  | nil => intro i; simp [handleAll]
  | cons tr rest ih =>
    intro i
    obtain ⟨h1, h2⟩ := ih (i + 1)
    unfold handleAll
    split_ifs with hd
    · simp only [List.pairwise_cons, List.mem_cons, List.length_cons]
      refine ⟨⟨?_, h1⟩, ?_⟩
      · intro e he
        have := (h2 e he).1
        show i < e.1
        omega
      · intro e he
        rcases he with rfl | he
        · exact ⟨le_refl _, by omega, rfl, rfl⟩
        · obtain ⟨a, b, c', d⟩ := h2 e he
          exact ⟨by omega, by omega, c', d⟩
    · simp only [List.length_cons]
      refine ⟨h1, ?_⟩
      intro e he
      obtain ⟨a, b, c', d⟩ := h2 e he
      exact ⟨by omega, by omega, c', d⟩

end
end PdeVerif.Controller

namespace PdeVerif.Controller
open PdeVerif

section
variable {K : Type} [Field K] [LinearOrder K] [IsStrictOrderedRing K] [FloorRing K]
variable {S σ : Type}

/-! ### positional facts: the tracker at list position `j` and its calls -/

/-- times of the calls of the tracker at list position `j` -/
def callsOf (j : Nat) (trace : List (Event K S)) : List K :=
  (trace.filter (fun e => e.1 = j)).map (fun e => e.2.1)

/-- states shown to the tracker at list position `j` -/
def seenBy (j : Nat) (trace : List (Event K S)) : List S :=
  (trace.filter (fun e => e.1 = j)).map (fun e => e.2.2)

theorem callsOf_append (j : Nat) (a b : List (Event K S)) :
    callsOf j (a ++ b) = callsOf j a ++ callsOf j b := by
  unfold callsOf; rw [List.filter_append, List.map_append]

theorem seenBy_append (j : Nat) (a b : List (Event K S)) :
    seenBy j (a ++ b) = seenBy j a ++ seenBy j b := by
  unfold seenBy; rw [List.filter_append, List.map_append]

theorem filter_idx_nil_of_lt (j : Nat) (ev : List (Event K S)) (h : ∀ e ∈ ev, j < e.1) :
    ev.filter (fun e => e.1 = j) = [] := by
  rw [List.filter_eq_nil_iff]
  intro e he
  have := h e he
  simp only [decide_eq_true_eq]
  omega

theorem handleAll_cons_events (nxt : σ → K → σ × Option K) (atol t : K) (u : S) (i : Nat)
    (tr0 : Tracker K S σ) (rest : List (Tracker K S σ)) :
    (handleAll nxt atol t u i (tr0 :: rest)).2.1 =
      if isDue tr0.due atol t then (i, t, u) :: (handleAll nxt atol t u (i + 1) rest).2.1
      else (handleAll nxt atol t u (i + 1) rest).2.1 := by
  conv_lhs => unfold handleAll
  split_ifs <;> rfl

/-- the calls made to the tracker at position `j` by one `handle` of the collection: one call at
`(t, u)` if it is due, none otherwise -/
theorem handleAll_filter_idx (nxt : σ → K → σ × Option K) (atol t : K) (u : S) :
    ∀ (trs : List (Tracker K S σ)) (i j : Nat) (tr : Tracker K S σ), trs[j]? = some tr →
      (handleAll nxt atol t u i trs).2.1.filter (fun e => e.1 = i + j) =
        if isDue tr.due atol t then [(i + j, t, u)] else [] := by
  intro trs
  induction trs with
  | nil => intro i j tr h; simp at h
  | cons tr0 rest ih =>
    intro i j tr h
    have hrest := (handleAll_events_sorted nxt atol t u rest (i + 1)).2
    rw [handleAll_cons_events]
    cases j with
    | zero =>
      simp only [List.getElem?_cons_zero, Option.some.injEq] at h
      subst h
      have hnil : (handleAll nxt atol t u (i + 1) rest).2.1.filter (fun e => e.1 = i + 0) = [] := by
        apply filter_idx_nil_of_lt
        intro e he
        have := (hrest e he).1
        omega
      by_cases hd : isDue tr0.due atol t = true
      · rw [if_pos hd, if_pos hd, List.filter_cons, hnil]
        simp
      · rw [if_neg hd, if_neg hd]; exact hnil
    | succ j =>
      simp only [List.getElem?_cons_succ] at h
      have key := ih (i + 1) j tr h
      have e : i + 1 + j = i + (j + 1) := by omega
      rw [e] at key
      by_cases hd : isDue tr0.due atol t = true
      · rw [if_pos hd, List.filter_cons]
        have hne : ¬ (i = i + (j + 1)) := by omega
        simp only [hne, decide_false, Bool.false_eq_true, if_false]
        exact key
      · rw [if_neg hd]; exact key

theorem handleAll_callsOf (nxt : σ → K → σ × Option K) (atol t : K) (u : S)
    (trs : List (Tracker K S σ)) (j : Nat) (tr : Tracker K S σ) (h : trs[j]? = some tr) :
    callsOf j (handleAll nxt atol t u 0 trs).2.1 = if isDue tr.due atol t then [t] else [] := by
  unfold callsOf
  have := handleAll_filter_idx nxt atol t u trs 0 j tr h
  rw [Nat.zero_add] at this
  rw [this]
  split_ifs <;> rfl

theorem handleAll_seenBy (nxt : σ → K → σ × Option K) (atol t : K) (u : S)
    (trs : List (Tracker K S σ)) (j : Nat) (tr : Tracker K S σ) (h : trs[j]? = some tr) :
    seenBy j (handleAll nxt atol t u 0 trs).2.1 = if isDue tr.due atol t then [u] else [] := by
  unfold seenBy
  have := handleAll_filter_idx nxt atol t u trs 0 j tr h
  rw [Nat.zero_add] at this
  rw [this]
  split_ifs <;> rfl

/-- the tracker at position `j` after one `handle` of the collection -/
theorem handleAll_getElem? (nxt : σ → K → σ × Option K) (atol t : K) (u : S)
    (trs : List (Tracker K S σ)) (i j : Nat) (tr : Tracker K S σ) (h : trs[j]? = some tr) :
    (handleAll nxt atol t u i trs).1[j]? =
      some (if isDue tr.due atol t then served nxt t u tr else tr) := by
  rw [handleAll_trackers, List.getElem?_map, h]; rfl

/-! ### the next action time is not later than any pending time -/

theorem optMin_le_left (a : K) (b : Option K) : ∃ x, optMin (some a) b = some x ∧ x ≤ a := by
  cases b with
  | none => exact ⟨a, rfl, le_refl _⟩
  | some b =>
    show ∃ x, some (if b < a then b else a) = some x ∧ x ≤ a
    split_ifs with h
    · exact ⟨b, rfl, h.le⟩
    · exact ⟨a, rfl, le_refl _⟩

theorem optMin_le_right (a : Option K) (b : K) : ∃ x, optMin a (some b) = some x ∧ x ≤ b := by
  cases a with
  | none => exact ⟨b, rfl, le_refl _⟩
  | some a =>
    show ∃ x, some (if b < a then b else a) = some x ∧ x ≤ b
    split_ifs with h
    · exact ⟨b, rfl, le_refl _⟩
    · exact ⟨a, rfl, not_lt.mp h⟩

theorem nextAction_le (trs : List (Tracker K S σ)) :
    ∀ tr ∈ trs, ∀ d, tr.due = some d → ∃ a, nextAction trs = some a ∧ a ≤ d := by
  induction trs with
  | nil => intro tr h; simp at h
  | cons tr0 rest ih =>
    intro tr h d hd
    unfold nextAction
    rcases List.mem_cons.mp h with rfl | h
    · rw [hd]; exact optMin_le_left d _
    · obtain ⟨a, ha, hle⟩ := ih tr h d hd
      rw [ha]
      obtain ⟨x, hx, hxa⟩ := optMin_le_right tr0.due a
      exact ⟨x, hx, le_trans hxa hle⟩

/-- the target of the stepper is not beyond any pending action time -/
theorem clip_nextAction_le (trs : List (Tracker K S σ)) (tEnd : K) (tr : Tracker K S σ) (h : tr ∈ trs)
    (d : K) (hd : tr.due = some d) : clip (nextAction trs) tEnd ≤ d := by
  obtain ⟨a, ha, hle⟩ := nextAction_le trs tr h d hd
  rw [ha]
  unfold clip
  simp only
  split_ifs with h1
  · exact le_trans h1.le hle
  · exact hle

/-- without trackers (or with exhausted schedules only) the stepper goes for `t_end` -/
theorem clip_none (tEnd : K) : clip (none : Option K) tEnd = tEnd := rfl

/-! ### the step window (appendix A.4) -/

theorem half_mul (x : K) : (half : K) * x = x / 2 := by
  unfold half; push_cast; ring

/-- stepping from `t` towards a target `s` that is not beyond a pending time `p ≥ t + dt/2` lands
at most `dt/2` beyond `p` (and at least one step further) -/
theorem nsteps_window (t s dt p : K) (hdt : 0 < dt) (hs : s ≤ p) (hp : t + dt / 2 ≤ p) :
    t + (nsteps t s dt : K) * dt ≤ p + dt / 2 := by
  have hc := nsteps_cast t s dt
  rcases le_or_gt (roundHE ((s - t) / dt)) 1 with h1 | h1
  · have : nsteps t s dt = 1 := by
      have : max 1 (roundHE ((s - t) / dt)) = 1 := max_eq_left h1
      omega
    rw [this]; push_cast; linarith
  · have hn : ((nsteps t s dt : Nat) : Int) = roundHE ((s - t) / dt) := by
      rw [hc]; exact max_eq_right (by omega)
    have hK : ((nsteps t s dt : Nat) : K) = ((roundHE ((s - t) / dt) : Int) : K) := by
      have := congrArg (fun z : Int => (z : K)) hn
      simpa using this
    rw [hK]
    have h := roundHE_le_add_half ((s - t) / dt)
    have : ((roundHE ((s - t) / dt) : Int) : K) * dt ≤ ((s - t) / dt + 1 / 2) * dt :=
      mul_le_mul_of_nonneg_right h hdt.le
    have e : ((s - t) / dt + 1 / 2) * dt = (s - t) + dt / 2 := by field_simp
    linarith

/-- a target at least `dt/2` ahead is approached to within `dt/2` from below as well -/
theorem nsteps_window_lower (t s dt : K) (hdt : 0 < dt) :
    s - dt / 2 ≤ t + (nsteps t s dt : K) * dt ∨ (nsteps t s dt = 1) := by
  have hc := nsteps_cast t s dt
  rcases le_or_gt (roundHE ((s - t) / dt)) 1 with h1 | h1
  · right
    have : max 1 (roundHE ((s - t) / dt)) = 1 := max_eq_left h1
    omega
  · left
    have hn : ((nsteps t s dt : Nat) : Int) = roundHE ((s - t) / dt) := by
      rw [hc]; exact max_eq_right (by omega)
    have hK : ((nsteps t s dt : Nat) : K) = ((roundHE ((s - t) / dt) : Int) : K) := by
      have := congrArg (fun z : Int => (z : K)) hn
      simpa using this
    rw [hK]
    have h := roundHE_ge_sub_half ((s - t) / dt)
    have : ((s - t) / dt - 1 / 2) * dt ≤ ((roundHE ((s - t) / dt) : Int) : K) * dt :=
      mul_le_mul_of_nonneg_right h hdt.le
    have e : ((s - t) / dt - 1 / 2) * dt = (s - t) - dt / 2 := by field_simp
    linarith

end
end PdeVerif.Controller

namespace PdeVerif.Controller
open PdeVerif

section
variable {K : Type} [Field K] [LinearOrder K] [IsStrictOrderedRing K] [FloorRing K]
variable {S σ : Type}

/-! ### the step count of a run that reaches the end of the loop (shared by C07 and C08) -/

/-- every pass through the loop body takes at least one step -/
theorem advance_progress (c : Cfg K S σ) (st : LState K S σ) :
    st.steps + 1 ≤ (advance c st).steps := by
  have hn := one_le_nsteps st.t (clip (nextAction (mainHandle c st).1) c.tEnd) c.dt
  show st.steps + 1 ≤ st.steps + _
  omega

/-- one pass through the loop body never steps beyond the final step count, whatever the
trackers ask for -/
theorem bound_advance (c : Cfg K S σ) (hdt : 0 < c.dt) (he1 : c.eps < 1 / 2)
    (st : LState K S σ) (hl : st.t = c.tStart + st.steps * c.dt)
    (hc : st.t < c.tEnd - c.eps * c.dt) : (advance c st).steps ≤ finalStepCount c := by
  set x := (c.tEnd - c.tStart) / c.dt - c.eps with hx
  have hk : (st.steps : Int) < Int.ceil x := by
    rw [hl] at hc; exact (cond_iff_lt c hdt st.steps).mp hc
  have hN : ((finalStepCount c : Nat) : Int) = Int.ceil x := by
    unfold finalStepCount; rw [← hx]; omega
  have hle : x ≤ (Int.ceil x : K) := Int.le_ceil x
  have hT : c.tEnd - c.tStart ≤ ((Int.ceil x : K) + c.eps) * c.dt := by
    have : (c.tEnd - c.tStart) / c.dt ≤ (Int.ceil x : K) + c.eps := by linarith
    exact (div_le_iff₀ hdt).mp this
  set s := clip (nextAction (mainHandle c st).1) c.tEnd with hs
  have hsle : s ≤ c.tEnd := clip_le _ _
  obtain ⟨m, hm⟩ : ∃ m : Nat, (m : Int) = Int.ceil x - st.steps := ⟨(Int.ceil x - st.steps).toNat, by omega⟩
  have hm1 : 1 ≤ m := by omega
  have hmK : (m : K) = (Int.ceil x : K) - (st.steps : K) := by
    have : ((m : Int) : K) = ((Int.ceil x - (st.steps : Int) : Int) : K) := by rw [hm]
    push_cast at this; exact this
  have hlt : (s - st.t) / c.dt < (m : K) + 1 / 2 := by
    rw [div_lt_iff₀ hdt, hmK, hl]
    nlinarith
  have hn := nsteps_le st.t s c.dt m hm1 hlt
  show st.steps + nsteps st.t s c.dt ≤ finalStepCount c
  omega

/-- accounting invariant together with the bound -/
def Bounded (c : Cfg K S σ) (u0 : S) (st : LState K S σ) : Prop :=
  Acc c u0 st ∧ st.steps ≤ finalStepCount c

theorem loop_bounded (c : Cfg K S σ) (hdt : 0 < c.dt) (he1 : c.eps < 1 / 2) (u0 : S) (fuel : Nat)
    (st : LState K S σ) (h : Bounded c u0 st) : Bounded c u0 (loop c fuel st).1 := by
  refine loop_invariant' c (Bounded c u0) ?_ ?_ fuel st h
  · intro st ⟨ha, _⟩ hc _
    exact ⟨acc_advance c u0 st ha, bound_advance c hdt he1 st ha.1 hc⟩
  · intro st ⟨ha, hb⟩ _ _ _
    exact ⟨acc_halted c u0 st ha, hb⟩

/-- the run never takes more steps than `⌈T/dt - eps⌉`, on every path and for
every tracker list and schedule -/
theorem run_no_overshoot (c : Cfg K S σ) (hdt : 0 < c.dt) (he1 : c.eps < 1 / 2) (u0 : S)
    (trs : List (Tracker K S σ)) (fuel : Nat) :
    (runFuel c u0 trs fuel).steps ≤ finalStepCount c := by
  show (finalHandle c _).1.steps ≤ _
  rw [finalHandle_steps]
  exact (loop_bounded c hdt he1 u0 fuel _ ⟨acc_init c u0 trs, Nat.zero_le _⟩).2

/-- the loop ends regularly exactly at the final step count -/
theorem loop_final_steps (c : Cfg K S σ) (hdt : 0 < c.dt) (he1 : c.eps < 1 / 2) (u0 : S) (fuel : Nat)
    (st : LState K S σ) (h : Bounded c u0 st) (hf : (loop c fuel st).2 = .final) :
    (loop c fuel st).1.steps = finalStepCount c := by
  obtain ⟨ha, hb⟩ := loop_bounded c hdt he1 u0 fuel st h
  have hc := loop_exit_final c fuel st hf
  rw [ha.1, cond_iff_lt c hdt] at hc
  unfold finalStepCount at hb ⊢
  omega


/-- a run that reaches the end of the loop has taken exactly `⌈T/dt - eps⌉` steps -/
theorem run_steps_of_reachedEnd (c : Cfg K S σ) (hdt : 0 < c.dt) (he1 : c.eps < 1 / 2) (u0 : S)
    (trs : List (Tracker K S σ)) (fuel : Nat) (h : (runFuel c u0 trs fuel).exit.reachedEnd) :
    (runFuel c u0 trs fuel).steps = finalStepCount c := by
  have h' : (finalHandle c (loop c fuel (initState c u0 trs))).2.reachedEnd := h
  rw [finalHandle_reachedEnd c _ (fun r => loop_ne_finalStopped c r _ _)] at h'
  show (finalHandle c _).1.steps = _
  rw [finalHandle_steps]
  exact loop_final_steps c hdt he1 u0 fuel _ ⟨acc_init c u0 trs, Nat.zero_le _⟩ h'

theorem run_tFinal_lattice (c : Cfg K S σ) (u0 : S) (trs : List (Tracker K S σ)) (fuel : Nat) :
    (runFuel c u0 trs fuel).tFinal = c.tStart + (runFuel c u0 trs fuel).steps * c.dt := by
  show (finalHandle c _).1.t = c.tStart + ((finalHandle c _).1.steps : K) * c.dt
  rw [finalHandle_t, finalHandle_steps]
  exact (loop_acc c u0 fuel _ (acc_init c u0 trs)).1

theorem finalStepCount_whole (c : Cfg K S σ) (hdt : 0 < c.dt) (he0 : 0 < c.eps) (he1 : c.eps < 1 / 2)
    (N : Nat) (hN : c.tEnd - c.tStart = N * c.dt) : finalStepCount c = N := by
  unfold finalStepCount
  have e : (c.tEnd - c.tStart) / c.dt - c.eps = (N : K) - c.eps := by
    rw [hN]; field_simp
  rw [e]
  have : Int.ceil ((N : K) - c.eps) = (N : Int) := by
    rw [Int.ceil_eq_iff]; push_cast; constructor <;> linarith
  rw [this]; simp

/-- a whole range ends exactly at `t_end` -/
theorem run_tFinal_whole (c : Cfg K S σ) (hdt : 0 < c.dt) (he0 : 0 < c.eps) (he1 : c.eps < 1 / 2)
    (N : Nat) (hN : c.tEnd - c.tStart = N * c.dt) (u0 : S) (trs : List (Tracker K S σ)) (fuel : Nat)
    (h : (runFuel c u0 trs fuel).exit.reachedEnd) : (runFuel c u0 trs fuel).tFinal = c.tEnd := by
  rw [run_tFinal_lattice, run_steps_of_reachedEnd c hdt he1 u0 trs fuel h,
    finalStepCount_whole c hdt he0 he1 N hN]
  linarith

end
end PdeVerif.Controller

namespace PdeVerif.Controller
section
variable {K S σ : Type}
/-- a tracker that never asks to stop (read-only observer) -/
def Tracker.ReadOnly (tr : Tracker K S σ) : Prop := ∀ n t u, tr.stopAt n t u = none
end
end PdeVerif.Controller
