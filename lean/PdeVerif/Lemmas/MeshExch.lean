import PdeVerif.Lemmas.MeshNd
/-
Helper lemmas about the ghost-cell exchange of the mesh model: positions of a padded sub-array
(valid cells, faces, corners), plus-shaped stencil reads.
-/
namespace PdeVerif.Mesh

@[simp] theorem sgn_false {α : Type} [Neg α] (v : α) : sgn false v = v := rfl
@[simp] theorem sgn_true {α : Type} [Neg α] (v : α) : sgn true v = -v := rfl

@[simp] theorem interiorAll_nil_nil : interiorAll [] [] = true := by simp [interiorAll]
@[simp] theorem interiorAll_cons_cons (n q : Nat) (ns qs : List Nat) :
    interiorAll (n :: ns) (q :: qs) = (decide (1 ≤ q) && decide (q ≤ n) && interiorAll ns qs) := by simp [interiorAll]
@[simp] theorem interiorAll_nil_cons (q : Nat) (qs : List Nat) : interiorAll [] (q :: qs) = false := by simp [interiorAll]
@[simp] theorem interiorAll_cons_nil (n : Nat) (ns : List Nat) : interiorAll (n :: ns) [] = false := by simp [interiorAll]

@[simp] theorem interiorExcept_nil_nil (a : Nat) : interiorExcept a [] [] = true := by cases a <;> simp [interiorExcept]
@[simp] theorem interiorExcept_zero_cons (n q : Nat) (ns qs : List Nat) :
    interiorExcept 0 (n :: ns) (q :: qs) = interiorAll ns qs := by simp [interiorExcept]
@[simp] theorem interiorExcept_succ_cons (a n q : Nat) (ns qs : List Nat) :
    interiorExcept (a + 1) (n :: ns) (q :: qs) = (decide (1 ≤ q) && decide (q ≤ n) && interiorExcept a ns qs) := by
  simp [interiorExcept]
@[simp] theorem interiorExcept_nil_cons (a q : Nat) (qs : List Nat) : interiorExcept a [] (q :: qs) = false := by
  cases a <;> simp [interiorExcept]
@[simp] theorem interiorExcept_cons_nil (a n : Nat) (ns : List Nat) : interiorExcept a (n :: ns) [] = false := by
  cases a <;> simp [interiorExcept]

/-- a valid cell of the sub-grid is a position of its padded array -/
theorem interiorAll_inRange {shape q : List Nat} (h : interiorAll shape q = true) : InRange q (shape.map (· + 2)) := by
  induction shape generalizing q with
  | nil => cases q <;> simp_all
  | cons n ns ih =>
    cases q with
    | nil => simp at h
    | cons q0 qs =>
      simp only [interiorAll_cons_cons, Bool.and_eq_true, decide_eq_true_eq] at h
      have := ih h.2
      simp only [inRange_def] at this
      simp only [List.map_cons, inRange_def, inShape_cons_cons, this, Bool.and_true, decide_eq_true_eq]
      omega

theorem interiorAll_getD {shape q : List Nat} (h : interiorAll shape q = true) (j : Nat) (hj : j < shape.length) :
    1 ≤ q.getD j 0 ∧ q.getD j 0 ≤ shape.getD j 0 := by
  induction shape generalizing q j with
  | nil => simp at hj
  | cons n ns ih =>
    cases q with
    | nil => simp at h
    | cons q0 qs =>
      simp only [interiorAll_cons_cons, Bool.and_eq_true, decide_eq_true_eq] at h
      cases j with
      | zero => simpa using h.1
      | succ j => simpa using ih h.2 j (by simpa using hj)

/-- all coordinates but the one of `axis` address valid cells -/
theorem interiorExcept_getD {shape q : List Nat} {axis : Nat} (h : interiorExcept axis shape q = true) (j : Nat)
    (hj : j < shape.length) (hne : j ≠ axis) : 1 ≤ q.getD j 0 ∧ q.getD j 0 ≤ shape.getD j 0 := by
  induction shape generalizing q j axis with
  | nil => simp at hj
  | cons n ns ih =>
    cases q with
    | nil => simp at h
    | cons q0 qs =>
      cases axis with
      | zero =>
        simp only [interiorExcept_zero_cons] at h
        cases j with
        | zero => exact absurd rfl hne
        | succ j => simpa using interiorAll_getD h j (by simpa using hj)
      | succ axis =>
        simp only [interiorExcept_succ_cons, Bool.and_eq_true, decide_eq_true_eq] at h
        cases j with
        | zero => simpa using h.1
        | succ j => simpa using ih h.2 j (by simpa using hj) (by omega)

theorem interiorAll_imp_except {shape q : List Nat} (axis : Nat) (h : interiorAll shape q = true) :
    interiorExcept axis shape q = true := by
  induction shape generalizing q axis with
  | nil => cases q <;> simp_all
  | cons n ns ih =>
    cases q with
    | nil => simp at h
    | cons q0 qs =>
      simp only [interiorAll_cons_cons, Bool.and_eq_true, decide_eq_true_eq] at h
      cases axis with
      | zero => simpa using h.2
      | succ axis => simp [h.1.1, h.1.2, ih axis h.2]

/-- putting a valid index at `axis` makes the position a valid cell -/
theorem interiorExcept_set {shape q : List Nat} {axis : Nat} (h : interiorExcept axis shape q = true) (v : Nat)
    (h1 : 1 ≤ v) (h2 : v ≤ shape.getD axis 0) : interiorAll shape (q.set axis v) = true := by
  induction shape generalizing q axis with
  | nil => cases q <;> simp_all
  | cons n ns ih =>
    cases q with
    | nil => simp at h
    | cons q0 qs =>
      cases axis with
      | zero =>
        simp only [interiorExcept_zero_cons] at h
        simp only [List.getD_cons_zero] at h2
        simp [h, h1, h2]
      | succ axis =>
        simp only [interiorExcept_succ_cons, Bool.and_eq_true, decide_eq_true_eq] at h
        simp only [List.getD_cons_succ] at h2
        simp [h.1.1, h.1.2, ih h.2 h2]

/-- the transversal condition does not look at the shape along `axis` -/
theorem interiorExcept_set_shape (shape q : List Nat) (axis v : Nat) :
    interiorExcept axis (shape.set axis v) q = interiorExcept axis shape q := by
  induction shape generalizing q axis with
  | nil => simp
  | cons n ns ih =>
    cases q with
    | nil => cases axis <;> simp
    | cons q0 qs =>
      cases axis with
      | zero => simp
      | succ axis => simp [ih]

/-- a position in a ghost face is a position of the padded array -/
theorem interiorExcept_inRange {shape q : List Nat} {axis : Nat} (h : interiorExcept axis shape q = true)
    (hq : q.getD axis 0 < shape.getD axis 0 + 2) : InRange q (shape.map (· + 2)) := by
  induction shape generalizing q axis with
  | nil => cases q <;> simp_all
  | cons n ns ih =>
    cases q with
    | nil => simp at h
    | cons q0 qs =>
      cases axis with
      | zero =>
        simp only [interiorExcept_zero_cons] at h
        simp only [List.getD_cons_zero] at hq
        have := interiorAll_inRange h
        simp only [inRange_def] at this
        simp [this, hq]
      | succ axis =>
        simp only [interiorExcept_succ_cons, Bool.and_eq_true, decide_eq_true_eq] at h
        simp only [List.getD_cons_succ] at hq
        have := ih h.2 hq
        simp only [inRange_def] at this
        simp only [List.map_cons, inRange_def, inShape_cons_cons, this, Bool.and_true, decide_eq_true_eq]
        omega

theorem onFace_inRange {shape q : List Nat} {axis : Nat} {upper : Bool} (h : onFace shape axis upper q = true) :
    InRange q (shape.map (· + 2)) := by
  unfold onFace at h
  simp only [Bool.and_eq_true, decide_eq_true_eq] at h
  refine interiorExcept_inRange h.1.2 ?_
  rw [h.2]; unfold mpiWrite; split_ifs <;> omega

theorem subShapeOf_set (axes : List (List Nat)) (idx : List Nat) (axis k' : Nat)
    (h : InRange idx (axes.map List.length)) :
    subShapeOf axes (idx.set axis k') = (subShapeOf axes idx).set axis (sizeAt (axes.getD axis []) k') := by
  induction axes generalizing idx axis with
  | nil => simp
  | cons sizes ax ih =>
    cases idx with
    | nil => simp at h
    | cons i is =>
      simp only [List.map_cons, inRange_def, inShape_cons_cons, Bool.and_eq_true, decide_eq_true_eq] at h
      cases axis with
      | zero => simp
      | succ axis => simp [ih is axis (by simpa using h.2)]

/-! ### plus-shaped reads -/

/-- a cell of the sub-grid shifted by a plus-shaped offset is a valid cell of the padded
sub-array or lies in exactly one ghost face - never in a corner or an edge -/
theorem plus_read_position (shape p d : List Nat) (hp : InRange p shape) (hd : plusOffset d = true)
    (hlen : d.length = shape.length) :
    interiorAll shape (vadd p d) = true ∨ ∃ axis upper, onFace shape axis upper (vadd p d) = true := by
  induction shape generalizing p d with
  | nil =>
    cases p with
    | nil => left; simp
    | cons _ _ => simp at hp
  | cons n ns ih =>
    cases p with
    | nil => simp at hp
    | cons p0 ps =>
      cases d with
      | nil => simp at hlen
      | cons d0 ds =>
        simp only [inRange_def, inShape_cons_cons, Bool.and_eq_true, decide_eq_true_eq] at hp
        simp only [List.length_cons, Nat.add_right_cancel_iff] at hlen
        unfold plusOffset at hd
        simp only [Bool.or_eq_true, Bool.and_eq_true, decide_eq_true_eq, List.all_eq_true] at hd
        -- all-ones tail: the rest of the position is interior
        have ones : (∀ x ∈ ds, x = 1) → interiorAll ns (vadd ps ds) = true := by
          intro hall
          clear ih hd
          induction ns generalizing ps ds with
          | nil => cases ps <;> simp_all
          | cons n' ns' ih' =>
            cases ps with
            | nil => simp at hp
            | cons p1 ps' =>
              cases ds with
              | nil => simp at hlen
              | cons d1 ds' =>
                have hp2 := hp.2
                simp only [inShape_cons_cons, Bool.and_eq_true, decide_eq_true_eq] at hp2
                have e : d1 = 1 := hall d1 (List.mem_cons_self ..)
                subst e
                have := ih' ps' ds' ⟨hp.1, hp2.2⟩ (by simpa using hlen) (fun x hx => hall x (List.mem_cons_of_mem _ hx))
                simp only [vadd_cons, interiorAll_cons_cons, this, Bool.and_true, Bool.and_eq_true, decide_eq_true_eq]
                omega
        rcases hd with ⟨h1, hrest⟩ | ⟨h2, hall⟩
        · -- this coordinate is the cell itself
          subst h1
          rcases ih ps ds hp.2 hrest hlen with hin | ⟨axis, upper, hf⟩
          · left
            simp only [vadd_cons, interiorAll_cons_cons, hin, Bool.and_true, Bool.and_eq_true, decide_eq_true_eq]
            omega
          · right
            refine ⟨axis + 1, upper, ?_⟩
            unfold onFace at hf ⊢
            simp only [Bool.and_eq_true, decide_eq_true_eq] at hf
            simp only [vadd_cons, List.length_cons, interiorExcept_succ_cons, List.getD_cons_succ, Bool.and_eq_true,
              decide_eq_true_eq]
            exact ⟨⟨by omega, ⟨by omega, by omega⟩, hf.1.2⟩, hf.2⟩
        · have hin := ones (fun x hx => by simpa using hall x hx)
          rcases Nat.lt_or_ge d0 1 with c | c
          · -- lower ghost layer or valid, depending on p0
            have : d0 = 0 := by omega
            subst this
            rcases Nat.eq_zero_or_pos p0 with rfl | hpos
            · right
              refine ⟨0, false, ?_⟩
              unfold onFace mpiWrite
              simp [hin]
            · left
              simp only [vadd_cons, interiorAll_cons_cons, hin, Bool.and_true, Bool.and_eq_true, decide_eq_true_eq]
              omega
          · rcases Nat.lt_or_ge d0 2 with c2 | c2
            · left
              have : d0 = 1 := by omega
              subst this
              simp only [vadd_cons, interiorAll_cons_cons, hin, Bool.and_true, Bool.and_eq_true, decide_eq_true_eq]
              omega
            · have : d0 = 2 := by omega
              subst this
              rcases Nat.lt_or_ge (p0 + 1) n with c3 | c3
              · left
                simp only [vadd_cons, interiorAll_cons_cons, hin, Bool.and_true, Bool.and_eq_true, decide_eq_true_eq]
                omega
              · right
                refine ⟨0, true, ?_⟩
                unfold onFace mpiWrite
                simp only [vadd_cons, List.length_cons, interiorExcept_zero_cons, hin, List.getD_cons_zero, if_true,
                  Bool.and_true, Bool.and_eq_true, decide_eq_true_eq]
                omega

end PdeVerif.Mesh
