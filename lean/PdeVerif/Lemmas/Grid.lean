import PdeVerif.Model.Grid
import PdeVerif.Model.Volume
import PdeVerif.Lemmas.Basic
import Mathlib.Algebra.BigOperators.Intervals
import Mathlib.Algebra.BigOperators.Field
/-
Generic lemmas about the discretisation of an axis and about `sumN` (shared by the properties that
import `Model/Grid.lean` and `Model/Volume.lean`: C12, C05, ...).
-/
set_option linter.unusedSectionVars false
namespace PdeVerif.Grids
open PdeVerif

section
variable {K : Type} [Field K] [LinearOrder K] [IsStrictOrderedRing K] [FloorRing K]

theorem half_eq : (half : K) = 1 / 2 := by unfold half; push_cast; rfl

/-- the faces the volume code uses (`rs ± dr/2`) are the grid lines `lo + i dx` -/
theorem cellLo_eq_face (lo hi : K) (n i : ℕ) : cellLo lo hi n i = face lo hi n i := by
  unfold cellLo face centre; rw [half_eq]; ring

theorem cellHi_eq_face (lo hi : K) (n i : ℕ) : cellHi lo hi n i = face lo hi n (i + 1) := by
  unfold cellHi face centre; rw [half_eq]; push_cast; ring

theorem face_zero (lo hi : K) (n : ℕ) : face lo hi n 0 = lo := by
  unfold face; simp

theorem face_last (lo hi : K) (n : ℕ) (hn : n ≠ 0) : face lo hi n n = hi := by
  have : (n : K) ≠ 0 := Nat.cast_ne_zero.mpr hn
  unfold face dx; field_simp; ring

theorem dx_pos (lo hi : K) (n : ℕ) (h : lo < hi) (hn : n ≠ 0) : 0 < dx lo hi n := by
  have : (0 : K) < n := Nat.cast_pos.mpr (Nat.pos_of_ne_zero hn)
  unfold dx; exact div_pos (sub_pos.mpr h) this

theorem sumN_eq_sum (n : ℕ) (f : ℕ → K) : sumN n f = ∑ i ∈ Finset.range n, f i := by
  induction n with
  | zero => simp [sumN]
  | succ n ih => rw [sumN, ih, Finset.sum_range_succ]

theorem sumN_congr (n : ℕ) (f g : ℕ → K) (h : ∀ i < n, f i = g i) : sumN n f = sumN n g := by
  rw [sumN_eq_sum, sumN_eq_sum]
  exact Finset.sum_congr rfl fun i hi => h i (Finset.mem_range.mp hi)

theorem sumN_mul (n : ℕ) (f : ℕ → K) (c : K) : sumN n (fun i => f i * c) = sumN n f * c := by
  rw [sumN_eq_sum, sumN_eq_sum, Finset.sum_mul]

theorem sumN_add (n : ℕ) (f g : ℕ → K) : sumN n (fun i => f i + g i) = sumN n f + sumN n g := by
  rw [sumN_eq_sum, sumN_eq_sum, sumN_eq_sum, Finset.sum_add_distrib]

theorem sumN_comm (n m : ℕ) (f : ℕ → ℕ → K) :
    sumN n (fun i => sumN m (fun j => f i j)) = sumN m (fun j => sumN n (fun i => f i j)) := by
  simp only [sumN_eq_sum]
  exact Finset.sum_comm

/-- telescoping sum -/
theorem sumN_telescope (n : ℕ) (F : ℕ → K) : sumN n (fun i => F (i + 1) - F i) = F n - F 0 := by
  rw [sumN_eq_sum, Finset.sum_range_sub]

end
end PdeVerif.Grids
