import PdeVerif.Lemmas.MeshNd
import PdeVerif.Lemmas.Basic
/-
Helper lemmas about the geometry of the sub-grids (bounds from the cell-bound lattice).
-/
namespace PdeVerif.Mesh
section bounds
variable {K : Type} [Field K] [LinearOrder K] [IsStrictOrderedRing K]

/-- lattice point in closed form -/
def lat (lo hi : K) (n k : Nat) : K := lo + (k : K) * ((hi - lo) / (n : K))

theorem lattice_eq_lat (lo hi : K) (n k : Nat) (hn : 0 < n) : lattice lo hi n k = lat lo hi n k := by
  unfold lattice lat
  split_ifs with h
  · subst h
    have : (k : K) ≠ 0 := by exact_mod_cast (Nat.pos_iff_ne_zero.1 hn)
    field_simp; ring
  · rfl

theorem boundsFrom_length (lo hi : K) (n start : Nat) (sizes : List Nat) :
    (boundsFrom lo hi n start sizes).length = sizes.length := by
  induction sizes generalizing start with
  | nil => simp [boundsFrom]
  | cons s ss ih => simp [boundsFrom, ih]

theorem boundsFrom_getD (lo hi : K) (n : Nat) (sizes : List Nat) (start i : Nat) (d : K × K) (h : i < sizes.length) :
    (boundsFrom lo hi n start sizes).getD i d
      = (lattice lo hi n (start + offset sizes i), lattice lo hi n (start + offset sizes (i + 1))) := by
  induction sizes generalizing start i with
  | nil => simp at h
  | cons s ss ih =>
    cases i with
    | zero => simp [boundsFrom, offset_succ]
    | succ i =>
      have h' : i < ss.length := by simpa using h
      simp only [boundsFrom, List.getD_cons_succ, ih (start + s) i h', offset_cons_succ]
      simp only [Nat.add_assoc]

/-- bounds of chunk `i`: the lattice points number `offset i` and `offset (i+1)` -/
theorem bounds1d_getD (lo hi : K) (sizes : List Nat) (hpos : 0 < sizes.sum) (i : Nat) (d : K × K) (h : i < sizes.length) :
    (bounds1d lo hi sizes).getD i d
      = (lat lo hi sizes.sum (offset sizes i), lat lo hi sizes.sum (offset sizes (i + 1))) := by
  have hN : (sizes.sum : K) ≠ 0 := by exact_mod_cast (Nat.pos_iff_ne_zero.1 hpos)
  unfold bounds1d
  split_ifs with h1
  · have hi : i = 0 := by omega
    subst hi
    have e : offset sizes 1 = sizes.sum := by rw [← h1, offset_length]
    simp only [List.getD_cons_zero, offset_zero, e]
    unfold lat
    refine Prod.ext ?_ ?_
    · simp
    · simp only; field_simp; ring
  · rw [boundsFrom_getD lo hi _ sizes 0 i d h]
    simp only [Nat.zero_add, lattice_eq_lat _ _ _ _ hpos]

end bounds
end PdeVerif.Mesh
