import PdeVerif.Model.Heap
import Mathlib.Tactic.Set
/-
Helper lemmas about the heap model (`Model/Heap.lean`): the store as a function of
`(buffer, cell)`, the well-formedness invariant, and the effect summary `Eff` of a state
change together with its composition law.  Used by `Props/C15.lean`.
-/
namespace PdeVerif.Heap

variable {K : Type}

/-! ### store -/
namespace Store

@[simp] theorem next_alloc (s : Store K) (c : List (Option K)) (d : DType) :
    (s.alloc c d).next = s.next + 1 := by
  simp [alloc, next]

theorem read_alloc_lt (s : Store K) (c : List (Option K)) (d : DType) {b : Nat} (i : Nat)
    (hb : b < s.next) : (s.alloc c d).read b i = s.read b i := by
  unfold next at hb
  simp [alloc, read, List.getElem?_append, hb]

theorem read_alloc_new (s : Store K) (c : List (Option K)) (d : DType) (i : Nat) :
    (s.alloc c d).read s.next i = (c[i]?).join := by
  simp [alloc, read, next, List.getElem?_append]

theorem size_alloc_lt (s : Store K) (c : List (Option K)) (d : DType) {b : Nat}
    (hb : b < s.next) : (s.alloc c d).size b = s.size b := by
  unfold next at hb
  simp [alloc, size, List.getElem?_append, hb]

theorem size_alloc_new (s : Store K) (c : List (Option K)) (d : DType) :
    (s.alloc c d).size s.next = c.length := by
  simp [alloc, size, next, List.getElem?_append]

@[simp] theorem next_update (s : Store K) (b : Nat) (f : Nat → Option K → Option K) :
    (s.update b f).next = s.next := by
  simp [update, next]

@[simp] theorem size_update (s : Store K) (b : Nat) (f : Nat → Option K → Option K) (b' : Nat) :
    (s.update b f).size b' = s.size b' := by
  simp only [update, size, List.getElem?_modify]
  cases h : s.bufs[b']? with
  | none => simp
  | some B => by_cases hb : b = b' <;> simp [hb]

theorem read_lt_size (s : Store K) (b i : Nat) (h : s.size b ≤ i) : s.read b i = none := by
  unfold read
  unfold size at h
  cases hB : s.bufs[b]? with
  | none => rfl
  | some B => simp [hB] at h; simp [List.getElem?_eq_none h]

theorem read_update (s : Store K) (b : Nat) (f : Nat → Option K → Option K) (b' i : Nat) :
    (s.update b f).read b' i =
      if b' = b ∧ i < s.size b then f i (s.read b i) else s.read b' i := by
  simp only [update, read, size, List.getElem?_modify]
  cases hB : s.bufs[b']? with
  | none =>
    by_cases hb : b' = b
    · subst hb; simp [hB]
    · simp [hb]
  | some B =>
    by_cases hb : b' = b
    · subst hb
      simp only [hB, Option.map_eq_map, Option.map_some, if_true, true_and, List.getElem?_mapIdx]
      by_cases hi : i < B.cells.length
      · simp [hi, List.getElem?_eq_getElem hi]
      · simp [hi, List.getElem?_eq_none (Nat.le_of_not_lt hi)]
    · have : ¬ b = b' := fun h => hb h.symm
      simp [hb, this]

theorem read_update_other (s : Store K) (b : Nat) (f : Nat → Option K → Option K) {b' : Nat}
    (i : Nat) (h : b' ≠ b) : (s.update b f).read b' i = s.read b' i := by
  rw [read_update]; simp [h]

theorem length_readView (s : Store K) (v : View) (h : v.off + v.len ≤ s.size v.buf) :
    (s.readView v).length = v.len := by
  unfold readView
  unfold size at h
  cases hB : s.bufs[v.buf]? with
  | none => simp [hB] at h; simp; omega
  | some B => simp [hB] at h; simp; omega

theorem getElem?_readView (s : Store K) (v : View) (p : Nat) (hp : p < v.len)
    (h : v.off + v.len ≤ s.size v.buf) :
    (s.readView v)[p]? = some (s.read v.buf (v.off + p)) := by
  unfold readView read
  unfold size at h
  cases hB : s.bufs[v.buf]? with
  | none => simp [hB] at h; omega
  | some B =>
    simp [hB] at h
    have : v.off + p < B.cells.length := by omega
    simp [List.getElem?_take, hp, List.getElem?_drop, List.getElem?_eq_getElem this]

/-- what is read through a view only depends on the cells of the view -/
theorem readView_congr (s t : Store K) (v : View)
    (hs : v.off + v.len ≤ s.size v.buf) (ht : t.size v.buf = s.size v.buf)
    (h : ∀ i, v.off ≤ i → i < v.off + v.len → t.read v.buf i = s.read v.buf i) :
    t.readView v = s.readView v := by
  apply List.ext_getElem?
  intro p
  by_cases hp : p < v.len
  · rw [getElem?_readView s v p hp hs, getElem?_readView t v p hp (by omega)]
    rw [h _ (by omega) (by omega)]
  · have h1 := length_readView s v hs
    have h2 := length_readView t v (by omega)
    rw [List.getElem?_eq_none (by omega), List.getElem?_eq_none (by omega)]

end Store

/-! ### views -/

/-- `v` lies inside `w` -/
def View.Sub (v w : View) : Prop := v.buf = w.buf ∧ w.off ≤ v.off ∧ v.off + v.len ≤ w.off + w.len

theorem View.overlaps_false_of_buf_ne {v w : View} (h : v.buf ≠ w.buf) : v.overlaps w = false := by
  simp [View.overlaps, h]

/-- overlapping views have a common cell -/
theorem View.overlaps_iff (v w : View) :
    v.overlaps w = true ↔ ∃ b i, v.Mem b i ∧ w.Mem b i := by
  unfold View.overlaps View.Mem
  constructor
  · intro h
    simp only [Bool.and_eq_true, beq_iff_eq, decide_eq_true_eq] at h
    obtain ⟨⟨⟨⟨hb, h1⟩, h2⟩, h3⟩, h4⟩ := h
    refine ⟨v.buf, max v.off w.off, ⟨rfl, by omega, by omega⟩, ⟨hb, by omega, by omega⟩⟩
  · rintro ⟨b, i, ⟨rfl, h1, h2⟩, ⟨hb, h3, h4⟩⟩
    simp only [Bool.and_eq_true, beq_iff_eq, decide_eq_true_eq]
    refine ⟨⟨⟨⟨hb, by omega⟩, by omega⟩, by omega⟩, by omega⟩

theorem View.overlaps_comm (v w : View) : v.overlaps w = w.overlaps v := by
  rw [Bool.eq_iff_iff, View.overlaps_iff, View.overlaps_iff]
  constructor <;> (rintro ⟨b, i, h1, h2⟩; exact ⟨b, i, h2, h1⟩)

/-! ### well-formed states and effect summaries -/

/-- allocation invariant: every live view lies inside a buffer that has been allocated -/
def WF (s : State K) : Prop :=
  ∀ (i : Nat) (o : Obj), s.objs[i]? = some o →
    o.view.buf < s.store.next ∧ o.view.off + o.view.len ≤ s.store.size o.view.buf

theorem wf_empty : WF ({} : State K) := by
  intro i o h; simp [State.objs] at h

/-- Summary of a state change `s ⟶ s'`:
* `W b i`: cells of *old* buffers that may have been written,
* `M i`: old objects that may have been re-linked (they then look at a *fresh* buffer),
* `S`: new objects may be sub-views of old objects (otherwise they all own fresh buffers). -/
structure Eff (s s' : State K) (W : Nat → Nat → Prop) (M : Nat → Prop) (S : Prop) : Prop where
  next_le : s.store.next ≤ s'.store.next
  size_eq : ∀ b, b < s.store.next → s'.store.size b = s.store.size b
  frame : ∀ b i, b < s.store.next → ¬ W b i → s'.store.read b i = s.store.read b i
  len_le : s.objs.length ≤ s'.objs.length
  old : ∀ (i : Nat) (o : Obj), s.objs[i]? = some o → ∃ o' : Obj, s'.objs[i]? = some o' ∧
    (o' = o ∨ (M i ∧ o' = { o with view := o'.view } ∧ o'.view.len = o.view.len ∧
      s.store.next ≤ o'.view.buf))
  new : ∀ (i : Nat) (o' : Obj), s.objs.length ≤ i → s'.objs[i]? = some o' →
    s.store.next ≤ o'.view.buf ∨ (S ∧ ∃ (j : Nat) (o : Obj), s.objs[j]? = some o ∧ o'.view.Sub o.view)
  disj : ∀ (i j : Nat) (oi oj : Obj), i ≠ j → i < s.objs.length → j < s.objs.length →
    s'.objs[i]? = some oi → s'.objs[j]? = some oj →
    s.store.next ≤ oi.view.buf → s.store.next ≤ oj.view.buf → oi.view.overlaps oj.view = false
  wf : WF s'

theorem Eff.refl {s : State K} (h : WF s) : Eff s s (fun _ _ => False) (fun _ => False) False where
  next_le := Nat.le_refl _
  size_eq := fun _ _ => rfl
  frame := fun _ _ _ _ => rfl
  len_le := Nat.le_refl _
  old := fun i o ho => ⟨o, ho, Or.inl rfl⟩
  new := fun i o' hi ho => by
    have := (List.getElem?_eq_none hi : s.objs[i]? = none); rw [this] at ho; cases ho
  disj := fun i j oi oj _ hi hj hoi _ hbi _ => by
    have := (h i oi hoi).1; omega
  wf := h

theorem Eff.mono {s s' : State K} {W W' : Nat → Nat → Prop} {M M' : Nat → Prop} {S S' : Prop}
    (h : Eff s s' W M S) (hW : ∀ b i, b < s.store.next → W b i → W' b i)
    (hM : ∀ i, i < s.objs.length → M i → M' i) (hS : S → S') : Eff s s' W' M' S' where
  next_le := h.next_le
  size_eq := h.size_eq
  frame := fun b i hb hw => h.frame b i hb (fun w => hw (hW b i hb w))
  len_le := h.len_le
  old := fun i o ho => by
    obtain ⟨o', h1, h2⟩ := h.old i o ho
    refine ⟨o', h1, ?_⟩
    rcases h2 with h2 | ⟨hm, h2⟩
    · exact Or.inl h2
    · have hi : i < s.objs.length := by
        rcases Nat.lt_or_ge i s.objs.length with hlt | hge
        · exact hlt
        · rw [List.getElem?_eq_none hge] at ho; cases ho
      exact Or.inr ⟨hM i hi hm, h2⟩
  new := fun i o' hi ho => by
    rcases h.new i o' hi ho with h1 | ⟨hs, h1⟩
    · exact Or.inl h1
    · exact Or.inr ⟨hS hs, h1⟩
  disj := h.disj
  wf := h.wf

theorem View.Sub.trans {u v w : View} (h1 : u.Sub v) (h2 : v.Sub w) : u.Sub w := by
  unfold View.Sub at *
  omega

theorem lt_length_of_getElem? {α : Type} {l : List α} {i : Nat} {a : α} (h : l[i]? = some a) :
    i < l.length := by
  rcases Nat.lt_or_ge i l.length with hlt | hge
  · exact hlt
  · rw [List.getElem?_eq_none hge] at h; cases h

/-- effects compose -/
theorem Eff.trans {s s₁ s₂ : State K} {W₁ W₂ : Nat → Nat → Prop} {M₁ M₂ : Nat → Prop}
    {S₁ S₂ : Prop} (hwf : WF s) (h1 : Eff s s₁ W₁ M₁ S₁) (h2 : Eff s₁ s₂ W₂ M₂ S₂) :
    Eff s s₂ (fun b i => W₁ b i ∨ W₂ b i) (fun i => M₁ i ∨ M₂ i) (S₁ ∨ S₂) where
  next_le := Nat.le_trans h1.next_le h2.next_le
  size_eq := fun b hb => by
    rw [h2.size_eq b (Nat.lt_of_lt_of_le hb h1.next_le), h1.size_eq b hb]
  frame := fun b i hb hw => by
    rw [h2.frame b i (Nat.lt_of_lt_of_le hb h1.next_le) (fun w => hw (Or.inr w)),
      h1.frame b i hb (fun w => hw (Or.inl w))]
  len_le := Nat.le_trans h1.len_le h2.len_le
  old := fun i o ho => by
    obtain ⟨o₁, ho₁, c1⟩ := h1.old i o ho
    obtain ⟨o₂, ho₂, c2⟩ := h2.old i o₁ ho₁
    refine ⟨o₂, ho₂, ?_⟩
    rcases c2 with rfl | ⟨m2, e2, l2, f2⟩
    · rcases c1 with rfl | ⟨m1, e1, l1, f1⟩
      · exact Or.inl rfl
      · exact Or.inr ⟨Or.inl m1, e1, l1, f1⟩
    · have hn := h1.next_le
      rcases c1 with rfl | ⟨m1, e1, l1, f1⟩
      · exact Or.inr ⟨Or.inr m2, e2, l2, by omega⟩
      · refine Or.inr ⟨Or.inr m2, ?_, by omega, by omega⟩
        rw [e2, e1]
  new := fun i o₂ hi ho₂ => by
    have hn := h1.next_le
    rcases Nat.lt_or_ge i s₁.objs.length with hlt | hge
    · -- created by the first change, then possibly moved by the second
      obtain ⟨o₁, ho₁⟩ : ∃ o₁, s₁.objs[i]? = some o₁ := ⟨s₁.objs[i], List.getElem?_eq_getElem hlt⟩
      obtain ⟨o₂', ho₂', c2⟩ := h2.old i o₁ ho₁
      rw [ho₂] at ho₂'; cases ho₂'
      rcases c2 with rfl | ⟨_, _, _, f2⟩
      · rcases h1.new i _ hi ho₁ with f | ⟨hs, r⟩
        · exact Or.inl f
        · exact Or.inr ⟨Or.inl hs, r⟩
      · exact Or.inl (by omega)
    · rcases h2.new i o₂ hge ho₂ with f | ⟨hs, j, oj, hoj, hsub⟩
      · exact Or.inl (by omega)
      · -- a sub-view of an object of the intermediate state
        rcases Nat.lt_or_ge j s.objs.length with hj | hj
        · obtain ⟨o, ho⟩ : ∃ o, s.objs[j]? = some o := ⟨s.objs[j], List.getElem?_eq_getElem hj⟩
          obtain ⟨o₁, ho₁, c1⟩ := h1.old j o ho
          rw [hoj] at ho₁; cases ho₁
          rcases c1 with rfl | ⟨_, _, _, f1⟩
          · exact Or.inr ⟨Or.inr hs, j, _, ho, hsub⟩
          · exact Or.inl (by rw [hsub.1]; exact f1)
        · rcases h1.new j oj hj hoj with f | ⟨hs1, j', o', ho', hsub'⟩
          · exact Or.inl (by rw [hsub.1]; exact f)
          · exact Or.inr ⟨Or.inr hs, j', o', ho', hsub.trans hsub'⟩
  disj := fun i j o₂i o₂j hij hi hj hoi hoj fi fj => by
    have hn := h1.next_le
    obtain ⟨oi, hoi0⟩ : ∃ o, s.objs[i]? = some o := ⟨s.objs[i], List.getElem?_eq_getElem hi⟩
    obtain ⟨oj, hoj0⟩ : ∃ o, s.objs[j]? = some o := ⟨s.objs[j], List.getElem?_eq_getElem hj⟩
    obtain ⟨o₁i, ho₁i, _⟩ := h1.old i oi hoi0
    obtain ⟨o₁j, ho₁j, _⟩ := h1.old j oj hoj0
    obtain ⟨x, hx, ci⟩ := h2.old i o₁i ho₁i
    obtain ⟨y, hy, cj⟩ := h2.old j o₁j ho₁j
    rw [hoi] at hx; cases hx
    rw [hoj] at hy; cases hy
    have hi1 := lt_length_of_getElem? ho₁i
    have hj1 := lt_length_of_getElem? ho₁j
    rcases ci with rfl | ⟨_, _, _, gi⟩ <;> rcases cj with rfl | ⟨_, _, _, gj⟩
    · exact h1.disj i j _ _ hij hi hj ho₁i ho₁j fi fj
    · have := (h1.wf i _ ho₁i).1
      exact View.overlaps_false_of_buf_ne (by omega)
    · have := (h1.wf j _ ho₁j).1
      exact View.overlaps_false_of_buf_ne (by omega)
    · exact h2.disj i j _ _ hij hi1 hj1 hoi hoj gi gj
  wf := h2.wf

/-! ### the primitive state changes -/

theorem getElem?_append_singleton_ge {α : Type} {l : List α} {a b : α} {i : Nat}
    (hi : l.length ≤ i) (h : (l ++ [a])[i]? = some b) : i = l.length ∧ b = a := by
  rw [List.getElem?_append_right hi] at h
  rcases Nat.eq_zero_or_pos (i - l.length) with h0 | hpos
  · rw [h0] at h; simp at h; exact ⟨by omega, h.symm⟩
  · rw [List.getElem?_eq_none (by simp only [List.length_singleton]; omega)] at h; cases h

theorem eff_pushObj {s : State K} (hwf : WF s) (o : Obj) (j : Nat) (oj : Obj)
    (hj : s.objs[j]? = some oj) (hsub : o.view.Sub oj.view) :
    Eff s (s.pushObj o) (fun _ _ => False) (fun _ => False) True where
  next_le := Nat.le_refl _
  size_eq := fun _ _ => rfl
  frame := fun _ _ _ _ => rfl
  len_le := by simp [State.pushObj]
  old := fun i o' ho => ⟨o', by
    simp only [State.pushObj]
    rw [List.getElem?_append_left (lt_length_of_getElem? ho)]; exact ho, Or.inl rfl⟩
  new := fun i o' hi ho => by
    obtain ⟨_, rfl⟩ := getElem?_append_singleton_ge hi ho
    exact Or.inr ⟨trivial, j, oj, hj, hsub⟩
  disj := fun i j' oi oj' _ hi hj' hoi _ fi _ => by
    simp only [State.pushObj] at hoi
    rw [List.getElem?_append_left hi] at hoi
    have := (hwf i oi hoi).1
    change s.store.next ≤ oi.view.buf at fi
    omega
  wf := fun i o' ho => by
    simp only [State.pushObj] at ho ⊢
    rcases Nat.lt_or_ge i s.objs.length with hlt | hge
    · rw [List.getElem?_append_left hlt] at ho; exact hwf i o' ho
    · obtain ⟨_, rfl⟩ := getElem?_append_singleton_ge hge ho
      have := hwf j oj hj
      unfold View.Sub at hsub
      rw [hsub.1]; omega

theorem eff_allocObj {s : State K} (hwf : WF s) (cells : List (Option K)) (dt : DType) (o : Obj) :
    Eff s (s.allocObj cells dt o) (fun _ _ => False) (fun _ => False) False where
  next_le := by simp [State.allocObj]
  size_eq := fun b hb => by simp only [State.allocObj]; exact Store.size_alloc_lt _ _ _ hb
  frame := fun b i hb _ => by simp only [State.allocObj]; exact Store.read_alloc_lt _ _ _ _ hb
  len_le := by simp [State.allocObj]
  old := fun i o' ho => ⟨o', by
    simp only [State.allocObj]
    rw [List.getElem?_append_left (lt_length_of_getElem? ho)]; exact ho, Or.inl rfl⟩
  new := fun i o' hi ho => by
    simp only [State.allocObj] at ho
    obtain ⟨_, rfl⟩ := getElem?_append_singleton_ge hi ho
    exact Or.inl (Nat.le_refl _)
  disj := fun i j' oi oj' _ hi hj' hoi _ fi _ => by
    simp only [State.allocObj] at hoi
    rw [List.getElem?_append_left hi] at hoi
    have := (hwf i oi hoi).1
    omega
  wf := fun i o' ho => by
    simp only [State.allocObj] at ho ⊢
    rcases Nat.lt_or_ge i s.objs.length with hlt | hge
    · rw [List.getElem?_append_left hlt] at ho
      have := hwf i o' ho
      rw [Store.size_alloc_lt _ _ _ this.1, Store.next_alloc]
      omega
    · obtain ⟨_, rfl⟩ := getElem?_append_singleton_ge hge ho
      simp only [Store.next_alloc, Store.size_alloc_new]
      omega

/-- index and view of the object created by `allocObj` -/
theorem allocObj_new (s : State K) (cells : List (Option K)) (dt : DType) (o : Obj) :
    (s.allocObj cells dt o).objs[s.objs.length]? =
      some { o with view := ⟨s.store.next, 0, cells.length⟩ } := by
  simp [State.allocObj]

theorem allocObj_length (s : State K) (cells : List (Option K)) (dt : DType) (o : Obj) :
    (s.allocObj cells dt o).objs.length = s.objs.length + 1 := by
  simp [State.allocObj]

theorem eff_writeSel {s : State K} (hwf : WF s) (v : View) (sel : Nat → Bool)
    (g : Nat → Option K → Option K) :
    Eff s (s.writeSel v sel g) (fun b i => v.Mem b i ∧ sel (i - v.off) = true)
      (fun _ => False) False where
  next_le := by simp [State.writeSel]
  size_eq := fun b _ => by simp [State.writeSel]
  frame := fun b i _ hw => by
    simp only [State.writeSel, Store.read_update]
    split
    · rename_i h
      split
      · rename_i h2
        exact absurd ⟨⟨h.1, h2.1, h2.2.1⟩, h2.2.2⟩ hw
      · rw [h.1]
    · rfl
  len_le := Nat.le_refl _
  old := fun i o ho => ⟨o, ho, Or.inl rfl⟩
  new := fun i o' hi ho => by
    simp only [State.writeSel] at ho
    rw [List.getElem?_eq_none hi] at ho; cases ho
  disj := fun i j oi oj _ _ _ hoi _ fi _ => by
    simp only [State.writeSel] at hoi fi
    have := (hwf i oi hoi).1
    omega
  wf := fun i o ho => by
    simp only [State.writeSel] at ho ⊢
    simpa using hwf i o ho

/-! ### lookups -/

theorem getObj_ok {s : State K} {h : Nat} {o : Obj} (e : getObj s h = .ok o) : s.objs[h]? = some o := by
  unfold getObj at e
  split at e
  · rename_i o' ho; cases e; exact ho
  · cases e

theorem getObjs_ok {s : State K} : ∀ {hs : List Nat} {os : List Obj}, getObjs s hs = .ok os →
    os.length = hs.length ∧
      ∀ (k h : Nat), hs[k]? = some h → ∃ o : Obj, os[k]? = some o ∧ s.objs[h]? = some o := by
  intro hs
  induction hs with
  | nil => intro os e; simp [getObjs] at e; subst e; simp
  | cons h hs ih =>
    intro os e
    unfold getObjs at e
    split at e
    · rename_i o os' h1 h2
      cases e
      obtain ⟨hl, hk⟩ := ih h2
      refine ⟨by simp [hl], ?_⟩
      intro k h' hk'
      cases k with
      | zero => simp at hk'; subst hk'; exact ⟨o, by simp, getObj_ok h1⟩
      | succ k => simp at hk'; simpa using hk k h' hk'
    · cases e
    · cases e

/-! ### `[make(f) for f in fields]` -/

theorem eff_mapEach (mk : Store K → Obj → List (Option K) × DType) :
    ∀ (os : List Obj) (s : State K), WF s →
      Eff s (mapEach mk s os).1 (fun _ _ => False) (fun _ => False) False ∧
      (mapEach mk s os).2 = List.range' s.objs.length os.length ∧
      (mapEach mk s os).1.objs.length = s.objs.length + os.length := by
  intro os
  induction os with
  | nil => intro s hwf; exact ⟨Eff.refl hwf, by simp [mapEach], by simp [mapEach]⟩
  | cons o os ih =>
    intro s hwf
    have e1 := eff_allocObj hwf (mk s.store o).1 (mk s.store o).2 { o with members := [] }
    obtain ⟨e2, h2, h3⟩ := ih _ e1.wf
    refine ⟨?_, ?_, ?_⟩
    · exact (Eff.trans hwf e1 e2).mono (fun _ _ _ h => h.elim id id) (fun _ _ h => h.elim id id)
        (fun h => h.elim id id)
    · simp only [mapEach, h2, allocObj_length, List.length_cons]
      rw [List.range'_succ]
    · simp only [mapEach, h3, allocObj_length, List.length_cons]; omega

/-! ### linking members to the collection buffer -/

theorem relinkAll_store (b : Nat) : ∀ (ms ls : List Nat) (s : State K) (off : Nat),
    (relinkAll s b ms ls off).store = s.store := by
  intro ms
  induction ms with
  | nil => intro ls s off; cases ls <;> rfl
  | cons m ms ih =>
    intro ls s off
    cases ls with
    | nil => rfl
    | cons l ls => simp only [relinkAll]; rw [ih]; rfl

theorem relinkAll_length (b : Nat) : ∀ (ms ls : List Nat) (s : State K) (off : Nat),
    (relinkAll s b ms ls off).objs.length = s.objs.length := by
  intro ms
  induction ms with
  | nil => intro ls s off; cases ls <;> rfl
  | cons m ms ih =>
    intro ls s off
    cases ls with
    | nil => rfl
    | cons l ls => simp only [relinkAll]; rw [ih]; simp [State.relink]

theorem relinkAll_not_mem (b : Nat) : ∀ (ms ls : List Nat) (s : State K) (off i : Nat), i ∉ ms →
    (relinkAll s b ms ls off).objs[i]? = s.objs[i]? := by
  intro ms
  induction ms with
  | nil => intro ls s off i _; cases ls <;> rfl
  | cons m ms ih =>
    intro ls s off i hi
    cases ls with
    | nil => rfl
    | cons l ls =>
      simp only [relinkAll]
      rw [ih _ _ _ _ (fun h => hi (List.mem_cons_of_mem _ h))]
      have : m ≠ i := fun h => hi (h ▸ List.mem_cons_self)
      simp [State.relink, List.getElem?_modify, this]

theorem relinkAll_mem (b : Nat) : ∀ (ms ls : List Nat) (s : State K) (off : Nat), ms.Nodup →
    ls.length = ms.length → ∀ k (hk : k < ms.length) (hk' : k < ls.length),
    (relinkAll s b ms ls off).objs[ms[k]]? =
      (s.objs[ms[k]]?).map (fun o => { o with view := ⟨b, off + (ls.take k).sum, ls[k]⟩ }) := by
  intro ms
  induction ms with
  | nil => intro ls s off _ _ k hk; simp at hk
  | cons m ms ih =>
    intro ls s off hnd hl k hk hk'
    cases ls with
    | nil => simp at hk'
    | cons l ls =>
      simp only [relinkAll]
      rw [List.nodup_cons] at hnd
      cases k with
      | zero =>
        simp only [List.getElem_cons_zero, List.take_zero, List.sum_nil, Nat.add_zero]
        rw [relinkAll_not_mem _ _ _ _ _ _ hnd.1]
        simp [State.relink, List.getElem?_modify]
      | succ k =>
        simp only [List.getElem_cons_succ, List.take_succ_cons, List.sum_cons]
        have hk2 : k < ms.length := by simpa using hk
        have hk3 : k < ls.length := by simpa using hk'
        rw [ih ls _ _ hnd.2 (by simpa using hl) k hk2 hk3]
        have : m ≠ ms[k] := fun h => hnd.1 (h ▸ List.getElem_mem hk2)
        simp [State.relink, List.getElem?_modify, this, Nat.add_assoc]

theorem sum_take_le_sum_take (l : List Nat) {a b : Nat} (h : a ≤ b) :
    (l.take a).sum ≤ (l.take b).sum := by
  induction l generalizing a b with
  | nil => simp
  | cons x xs ih =>
    cases a with
    | zero => simp
    | succ a =>
      cases b with
      | zero => omega
      | succ b => simp only [List.take_succ_cons, List.sum_cons]; have := ih (a := a) (b := b) (by omega); omega

theorem sum_take_succ (l : List Nat) (k : Nat) (hk : k < l.length) :
    (l.take (k + 1)).sum = (l.take k).sum + l[k] := by
  induction l generalizing k with
  | nil => simp at hk
  | cons x xs ih =>
    cases k with
    | zero => simp
    | succ k =>
      simp only [List.take_succ_cons, List.sum_cons, List.getElem_cons_succ]
      rw [ih k (by simpa using hk)]; omega

theorem sum_take_le_sum (l : List Nat) (a : Nat) : (l.take a).sum ≤ l.sum := by
  have := sum_take_le_sum_take l (a := a) (b := max a l.length) (Nat.le_max_left _ _)
  rwa [List.take_of_length_le (Nat.le_max_right _ _)] at this

/-- Collection `c` and its members share memory with the documented layout: the members look at
consecutive blocks of the collection's view, in order, without gaps, covering it exactly
(`lens` are the lengths of the member blocks). -/
def Linked (s : State K) (c : Nat) : Prop :=
  ∃ oc : Obj, s.objs[c]? = some oc ∧ ∃ lens : List Nat,
    lens.length = oc.members.length ∧ lens.sum = oc.view.len ∧
    ∀ (k m : Nat), oc.members[k]? = some m → ∃ om : Obj, s.objs[m]? = some om ∧
      lens[k]? = some om.view.len ∧
      om.view = ⟨oc.view.buf, oc.view.off + (lens.take k).sum, om.view.len⟩

variable [DCast K]

theorem eff_linkColl {s s' : State K} (hwf : WF s) {ms : List Nat} (hnd : ms.Nodup) {g : Nat}
    {src : Option (View × DType)} {dt : Option DType} (h : linkFrom s ms g src dt = .ok s') :
    Eff s s' (fun _ _ => False) (fun i => i ∈ ms) False ∧
    s'.objs.length = s.objs.length + 1 ∧ Linked s' s.objs.length ∧
    ∃ oc : Obj, s'.objs[s.objs.length]? = some oc ∧ oc.cls = .coll ∧ oc.members = ms ∧
      oc.grid = g ∧ oc.view.buf = s.store.next ∧
      ∃ os : List Obj, getObjs s ms = .ok os ∧ os ≠ [] ∧ oc.ncomp = (os.map (·.ncomp)).sum ∧
        oc.view.len = (os.map (·.view.len)).sum ∧
        ∀ o ∈ os, o.grid = g ∧ o.cls ≠ .coll ∧ o.cls ≠ .raw := by
  unfold linkFrom at h
  split at h
  · cases h
  rename_i os hget
  obtain ⟨hl, hk⟩ := getObjs_ok hget
  split at h
  · cases h
  rename_i hne
  split at h
  · cases h
  rename_i hgrid
  split at h
  · cases h
  rename_i hnest
  -- abbreviations
  simp only at h
  generalize hdt : collDType s os src dt = dtOut at h
  generalize hcells : collCells s os src dtOut = cells at h
  split at h
  · cases h
  rename_i hF5
  simp only [Except.ok.injEq] at h
  generalize hc : ({ cls := Cls.coll, grid := g, ncomp := (os.map (·.ncomp)).sum,
                     view := ⟨0, 0, 0⟩, members := ms } : Obj) = c at h
  have e1 := eff_allocObj hwf cells dtOut c
  set s1 := s.allocObj cells dtOut c with hs1
  set lens := os.map (·.view.len) with hlens
  have hll : lens.length = ms.length := by simp [hlens, hl]
  have F1 : s'.store = s1.store := by rw [← h]; exact relinkAll_store _ _ _ _ _
  have F2 : s'.objs.length = s.objs.length + 1 := by
    rw [← h, relinkAll_length, hs1, allocObj_length]
  have F3 : ∀ i, i ∉ ms → s'.objs[i]? = s1.objs[i]? := by
    intro i hi; rw [← h]; exact relinkAll_not_mem _ _ _ _ _ _ hi
  -- the members are objects of `s`
  have hmem : ∀ (k : Nat) (hk' : k < ms.length), ∃ o : Obj, os[k]? = some o ∧
      s.objs[ms[k]]? = some o ∧ lens[k]? = some o.view.len := by
    intro k hk'
    obtain ⟨o, h1, h2⟩ := hk k ms[k] (List.getElem?_eq_getElem hk')
    exact ⟨o, h1, h2, by simp [hlens, h1]⟩
  have hlt : ∀ i, i ∈ ms → i < s.objs.length := by
    intro i hi
    obtain ⟨k, hk', rfl⟩ := List.getElem_of_mem hi
    obtain ⟨o, _, h2, _⟩ := hmem k hk'
    exact lt_length_of_getElem? h2
  have F4 : ∀ (k : Nat) (hk' : k < ms.length), ∃ o : Obj, s.objs[ms[k]]? = some o ∧
      lens[k]? = some o.view.len ∧
      s'.objs[ms[k]]? = some { o with view := ⟨s.store.next, (lens.take k).sum, o.view.len⟩ } := by
    intro k hk'
    obtain ⟨o, _, h2, h3⟩ := hmem k hk'
    refine ⟨o, h2, h3, ?_⟩
    have hk'' : k < lens.length := by omega
    rw [← h, relinkAll_mem _ _ _ _ _ hnd hll k hk' hk'']
    have : s1.objs[ms[k]]? = some o := by
      rw [hs1]; simp only [State.allocObj]
      rw [List.getElem?_append_left (lt_length_of_getElem? h2)]; exact h2
    rw [this]
    have : lens[k] = o.view.len := by
      have := List.getElem?_eq_getElem hk''; rw [h3] at this; exact (Option.some.inj this).symm
    simp [this]
  -- the slices of the members tile the new array
  have F5 : cells.length = lens.sum := by
    simpa using hF5
  have hnew : s'.objs[s.objs.length]? =
      some { c with view := ⟨s.store.next, 0, cells.length⟩ } := by
    rw [F3 _ (fun hi => Nat.lt_irrefl _ (hlt _ hi)), hs1]; exact allocObj_new _ _ _ _
  have hstore_next : s'.store.next = s.store.next + 1 := by rw [F1, hs1]; simp [State.allocObj]
  have hblock : ∀ k, k < lens.length → (lens.take k).sum + lens[k]! ≤ lens.sum := by
    intro k hk'
    have := sum_take_succ lens k hk'
    have h2 := sum_take_le_sum lens (k + 1)
    rw [getElem!_pos lens k hk']; omega
  refine ⟨?_, F2, ?_, ?_⟩
  · -- effect summary
    refine ⟨by omega, ?_, ?_, by omega, ?_, ?_, ?_, ?_⟩
    · intro b hb; rw [F1]; exact e1.size_eq b hb
    · intro b i hb _; rw [F1]; exact e1.frame b i hb (fun f => f)
    · -- old objects
      intro i o ho
      by_cases hi : i ∈ ms
      · obtain ⟨k, hk', rfl⟩ := List.getElem_of_mem hi
        obtain ⟨o', h2, _, h4⟩ := F4 k hk'
        rw [ho] at h2; cases h2
        exact ⟨_, h4, Or.inr ⟨hi, rfl, rfl, Nat.le_refl _⟩⟩
      · refine ⟨o, ?_, Or.inl rfl⟩
        rw [F3 i hi]
        obtain ⟨o', h1, h2⟩ := e1.old i o ho
        rcases h2 with rfl | ⟨f, _⟩
        · exact h1
        · exact f.elim
    · -- new objects
      intro i o' hi ho'
      have : i ∉ ms := fun hm => by have := hlt i hm; omega
      rw [F3 i this] at ho'
      exact e1.new i o' hi ho'
    · -- two re-linked members never overlap
      intro i j oi oj hij hi hj hoi hoj fi fj
      have hmi : i ∈ ms := by
        apply Classical.byContradiction; intro hn
        rw [F3 i hn] at hoi
        obtain ⟨o, ho⟩ : ∃ o, s.objs[i]? = some o := ⟨_, List.getElem?_eq_getElem hi⟩
        obtain ⟨o', h1, h2⟩ := e1.old i o ho
        rw [hoi] at h1; cases h1
        rcases h2 with rfl | ⟨f, _⟩
        · have := (hwf i _ ho).1; omega
        · exact f.elim
      have hmj : j ∈ ms := by
        apply Classical.byContradiction; intro hn
        rw [F3 j hn] at hoj
        obtain ⟨o, ho⟩ : ∃ o, s.objs[j]? = some o := ⟨_, List.getElem?_eq_getElem hj⟩
        obtain ⟨o', h1, h2⟩ := e1.old j o ho
        rw [hoj] at h1; cases h1
        rcases h2 with rfl | ⟨f, _⟩
        · have := (hwf j _ ho).1; omega
        · exact f.elim
      obtain ⟨k, hk', rfl⟩ := List.getElem_of_mem hmi
      obtain ⟨l, hl', rfl⟩ := List.getElem_of_mem hmj
      obtain ⟨o1, _, g1, h1⟩ := F4 k hk'
      obtain ⟨o2, _, g2, h2⟩ := F4 l hl'
      rw [hoi] at h1; cases h1
      rw [hoj] at h2; cases h2
      have hkl : k ≠ l := fun e => hij (by subst e; rfl)
      have hk2 : k < lens.length := by omega
      have hl2 : l < lens.length := by omega
      have e1' : lens[k] = o1.view.len := by
        have := List.getElem?_eq_getElem hk2; rw [g1] at this; exact (Option.some.inj this).symm
      have e2' : lens[l] = o2.view.len := by
        have := List.getElem?_eq_getElem hl2; rw [g2] at this; exact (Option.some.inj this).symm
      simp only [View.overlaps, Bool.and_eq_false_iff, decide_eq_false_iff_not]
      rcases Nat.lt_or_gt_of_ne hkl with hlt' | hlt'
      · have a := sum_take_succ lens k hk2
        have b := sum_take_le_sum_take lens (a := k + 1) (b := l) hlt'
        left; left; right; omega
      · have a := sum_take_succ lens l hl2
        have b := sum_take_le_sum_take lens (a := l + 1) (b := k) hlt'
        left; left; left; right; omega
    · -- allocation invariant
      intro i o ho
      rw [hstore_next]
      by_cases hi : i ∈ ms
      · obtain ⟨k, hk', rfl⟩ := List.getElem_of_mem hi
        obtain ⟨o', _, g1, h4⟩ := F4 k hk'
        rw [ho] at h4; cases h4
        have hk2 : k < lens.length := by omega
        have e1' : lens[k] = o'.view.len := by
          have := List.getElem?_eq_getElem hk2; rw [g1] at this; exact (Option.some.inj this).symm
        have hb := hblock k hk2
        rw [getElem!_pos lens k hk2] at hb
        have hsz : s'.store.size s.store.next = cells.length := by
          rw [F1, hs1]; exact Store.size_alloc_new _ _ _
        simp only [hsz]
        exact ⟨by omega, by omega⟩
      · rw [F3 i hi] at ho
        have := e1.wf i o ho
        rw [F1]
        have hn : s1.store.next = s.store.next + 1 := by rw [hs1]; simp [State.allocObj]
        rw [hn] at this
        exact this
  · -- layout
    refine ⟨_, hnew, lens, ?_, ?_, ?_⟩
    · rw [← hc]; exact hll
    · simp only; exact F5.symm
    · intro k m hkm
      have hmem' : ms[k]? = some m := by rw [← hc] at hkm; exact hkm
      have hk' : k < ms.length := lt_length_of_getElem? hmem'
      have hm : ms[k] = m := by
        have := List.getElem?_eq_getElem hk'; rw [hmem'] at this; exact (Option.some.inj this).symm
      obtain ⟨o, _, g1, h4⟩ := F4 k hk'
      rw [hm] at h4
      exact ⟨_, h4, g1, by simp⟩
  · refine ⟨_, hnew, by rw [← hc], by rw [← hc], by rw [← hc], rfl, os, hget, ?_, by rw [← hc],
      by simp only; rw [F5], ?_⟩
    · intro e; subst e; simp at hne
    · intro o ho
      simp only [List.any_eq_true, bne_iff_ne, ne_eq, not_exists, not_and, Decidable.not_not,
        Bool.or_eq_true, beq_iff_eq] at hgrid hnest
      exact ⟨hgrid o ho, fun e => hnest o ho (Or.inl e), fun e => hnest o ho (Or.inr e)⟩

/-! ### composite constructions -/

/-- the last object of `s'` is new and, if it is a collection, it is linked to its members -/
def ResultOK (s s' : State K) : Prop :=
  s.objs.length < s'.objs.length ∧
    ∀ oc : Obj, s'.objs[lastId s']? = some oc → oc.cls = .coll → Linked s' (lastId s')

theorem mem_range'_ge {a n i : Nat} (h : i ∈ List.range' a n) : a ≤ i := by
  rw [List.mem_range'_1] at h; exact h.1

/-- `[make(f) for f in fields]` followed by `FieldCollection(those, copy_fields=False)` -/
theorem eff_mapEach_link {s s' : State K} (hwf : WF s)
    (mk : Store K → Obj → List (Option K) × DType) (os : List Obj) {g : Nat}
    {src : Option (View × DType)} {dt : Option DType}
    (h : linkFrom (mapEach mk s os).1 (mapEach mk s os).2 g src dt = .ok s') :
    Eff s s' (fun _ _ => False) (fun _ => False) False ∧ ResultOK s s' := by
  obtain ⟨e1, h2, h3⟩ := eff_mapEach mk os s hwf
  have hnd : (mapEach mk s os).2.Nodup := by rw [h2]; exact List.nodup_range'
  obtain ⟨e2, l2, lk, oc, hoc, _⟩ := eff_linkColl e1.wf hnd h
  refine ⟨?_, ?_, ?_⟩
  · refine (Eff.trans hwf e1 e2).mono (fun _ _ _ h => h.elim id id) ?_ (fun h => h.elim id id)
    intro i hi hm
    rcases hm with f | hm
    · exact f
    · rw [h2] at hm; have := mem_range'_ge hm; omega
  · omega
  · intro oc' hoc' _
    have : lastId s' = (mapEach mk s os).1.objs.length := by unfold lastId; omega
    rw [this]; exact lk

theorem eff_mkColl {s s' : State K} (hwf : WF s) {hs : List Nat} {cp : Bool} {dt : Option DType}
    (h : mkColl s hs cp dt = .ok s') :
    Eff s s' (fun _ _ => False) (fun i => cp = false ∧ hs.Nodup ∧ i ∈ hs) False ∧
      ResultOK s s' := by
  unfold mkColl at h
  split at h
  · cases h
  · cases h
  · rename_i hd tl os hget
    simp only at h
    split at h
    · cases h
    split at h
    · cases h
    split at h
    · cases h
    split at h
    · -- the fields are copied first
      obtain ⟨e, r⟩ := eff_mapEach_link hwf mkCopy os h
      exact ⟨e.mono (fun _ _ _ f => f) (fun _ _ f => f.elim) id, r⟩
    · rename_i hcp
      have hcp' : cp = false ∧ (hd :: tl).Nodup := by
        simp only [Bool.or_eq_true, Bool.not_eq_true', decide_eq_false_iff_not, not_or,
          Bool.not_eq_true, Decidable.not_not] at hcp
        exact hcp
      obtain ⟨e2, l2, lk, _⟩ := eff_linkColl hwf hcp'.2 h
      refine ⟨e2.mono (fun _ _ _ f => f) (fun i _ hm => ⟨hcp'.1, hcp'.2, hm⟩) id, by omega, ?_⟩
      intro oc' _ _
      have : lastId s' = s.objs.length := by unfold lastId; omega
      rw [this]; exact lk

theorem eff_copyAny {s s' : State K} (hwf : WF s) {o : Obj} {dt : Option DType}
    (h : copyAny s o dt = .ok s') :
    Eff s s' (fun _ _ => False) (fun _ => False) False ∧ ResultOK s s' ∧
      (o.cls ≠ .coll → s' = copyField s o dt) := by
  unfold copyAny at h
  have field : s' = copyField s o dt → o.cls ≠ .coll →
      Eff s s' (fun _ _ => False) (fun _ => False) False ∧ ResultOK s s' ∧
        (o.cls ≠ .coll → s' = copyField s o dt) := by
    intro hs' hc
    subst hs'
    refine ⟨eff_allocObj hwf _ _ _, ⟨by simp [copyField, allocObj_length], ?_⟩, fun _ => rfl⟩
    intro oc hoc hcls
    have : lastId (copyField s o dt) = s.objs.length := by
      simp [lastId, copyField, allocObj_length]
    rw [this, copyField, allocObj_new] at hoc
    cases hoc
    exact absurd hcls hc
  split at h
  · cases h
  · unfold copyColl at h
    split at h
    · cases h
    · obtain ⟨e, r⟩ := eff_mapEach_link hwf mkCopy _ h
      exact ⟨e, r, fun hc => absurd (by assumption) hc⟩
  · rename_i h1 h2
    cases h
    exact field rfl (fun hc => h2 hc)

/-- writing through the (fresh) result of a construction does not touch old memory -/
theorem eff_write_result {s s1 : State K} (hwf : WF s)
    (e1 : Eff s s1 (fun _ _ => False) (fun _ => False) False) (r1 : ResultOK s s1) {r : Obj}
    (hr : getObj s1 (lastId s1) = .ok r) (sel : Nat → Bool) (g : Nat → Option K → Option K) :
    Eff s (s1.writeSel r.view sel g) (fun _ _ => False) (fun _ => False) False ∧
      ResultOK s (s1.writeSel r.view sel g) := by
  have hr' := getObj_ok hr
  have hfresh : s.store.next ≤ r.view.buf := by
    have hl : s.objs.length ≤ lastId s1 := by unfold lastId; have := r1.1; omega
    rcases e1.new _ r hl hr' with f | ⟨f, _⟩
    · exact f
    · exact f.elim
  refine ⟨?_, r1.1, ?_⟩
  · refine (Eff.trans hwf e1 (eff_writeSel e1.wf r.view sel g)).mono ?_ (fun _ _ h => h.elim id id)
      (fun h => h.elim id id)
    intro b i hb hw
    rcases hw with f | ⟨⟨hm, _⟩, _⟩
    · exact f
    · omega
  · intro oc hoc hcls
    exact r1.2 oc hoc hcls

/-! ### shape invariant -/

/-- the padded array of a field object consists of `ncomp` blocks of one padded grid each -/
def Shaped (G : List Grid) (o : Obj) : Prop :=
  o.cls = .raw ∨ ∃ g : Grid, G[o.grid]? = some g ∧ o.view.len = o.ncomp * g.mask.length

def SameShape (o o' : Obj) : Prop :=
  o'.cls = o.cls ∧ o'.grid = o.grid ∧ o'.ncomp = o.ncomp ∧ o'.view.len = o.view.len

theorem Shaped.of_same {G : List Grid} {o o' : Obj} (h : Shaped G o) (e : SameShape o o') :
    Shaped G o' := by
  obtain ⟨e1, e2, e3, e4⟩ := e
  rcases h with h | ⟨g, h1, h2⟩
  · exact Or.inl (by rw [e1, h])
  · exact Or.inr ⟨g, by rw [e2, h1], by rw [e3, e4, h2]⟩

/-- the members of object `oc` (a collection) are data fields on the grid of `oc` -/
def MembersOK (s : State K) (oc : Obj) : Prop :=
  ∀ m ∈ oc.members, ∃ om : Obj, s.objs[m]? = some om ∧ om.grid = oc.grid ∧ om.cls ≠ .coll ∧
    om.cls ≠ .raw

/-- invariant of all reachable states: allocation invariant, shapes, collection members -/
structure Inv (G : List Grid) (s : State K) : Prop where
  wf : WF s
  shaped : ∀ (i : Nat) (o : Obj), s.objs[i]? = some o → Shaped G o
  coll : ∀ (c : Nat) (oc : Obj), s.objs[c]? = some oc → MembersOK s oc

theorem inv_empty (G : List Grid) : Inv G ({} : State K) :=
  ⟨wf_empty, fun i o h => by simp at h, fun c oc h => by simp at h⟩

/-- the objects created by a state change are well shaped -/
def NewOK (G : List Grid) (s s' : State K) : Prop :=
  ∀ (i : Nat) (o' : Obj), s.objs.length ≤ i → s'.objs[i]? = some o' → Shaped G o' ∧ MembersOK s' o'

theorem Eff.sameShape {s s' : State K} {W : Nat → Nat → Prop} {M : Nat → Prop} {S : Prop}
    (e : Eff s s' W M S) {i : Nat} {o : Obj} (ho : s.objs[i]? = some o) :
    ∃ o' : Obj, s'.objs[i]? = some o' ∧ SameShape o o' ∧ o'.members = o.members := by
  obtain ⟨o', h1, h2⟩ := e.old i o ho
  refine ⟨o', h1, ?_⟩
  rcases h2 with rfl | ⟨_, h3, h4, _⟩
  · exact ⟨⟨rfl, rfl, rfl, rfl⟩, rfl⟩
  · rw [h3]; exact ⟨⟨rfl, rfl, rfl, by rw [h3] at h4; exact h4⟩, rfl⟩

theorem MembersOK.of_eff {s s' : State K} {W : Nat → Nat → Prop} {M : Nat → Prop} {S : Prop}
    (e : Eff s s' W M S) {oc oc' : Obj} (h : MembersOK s oc) (hm : oc'.members = oc.members)
    (hg : oc'.grid = oc.grid) : MembersOK s' oc' := by
  intro m hmem
  rw [hm] at hmem
  obtain ⟨om, h1, h2, h3, h4⟩ := h m hmem
  obtain ⟨om', g1, ⟨c1, c2, _, _⟩, _⟩ := e.sameShape h1
  exact ⟨om', g1, by rw [c2, h2, hg], by rw [c1]; exact h3, by rw [c1]; exact h4⟩

theorem inv_of_eff {G : List Grid} {s s' : State K} {W : Nat → Nat → Prop} {M : Nat → Prop}
    {S : Prop} (hi : Inv G s) (e : Eff s s' W M S) (hn : NewOK G s s') : Inv G s' where
  wf := e.wf
  shaped := fun i o' ho' => by
    rcases Nat.lt_or_ge i s.objs.length with hlt | hge
    · obtain ⟨o, ho⟩ : ∃ o, s.objs[i]? = some o := ⟨_, List.getElem?_eq_getElem hlt⟩
      obtain ⟨o'', h1, h2, _⟩ := e.sameShape ho
      rw [ho'] at h1; cases h1
      exact (hi.shaped i o ho).of_same h2
    · exact (hn i o' hge ho').1
  coll := fun c oc' hoc' => by
    rcases Nat.lt_or_ge c s.objs.length with hlt | hge
    · obtain ⟨oc, hoc⟩ : ∃ o, s.objs[c]? = some o := ⟨_, List.getElem?_eq_getElem hlt⟩
      obtain ⟨o'', h1, h2, h3⟩ := e.sameShape hoc
      rw [hoc'] at h1; cases h1
      exact (hi.coll c oc hoc).of_eff e h3 h2.2.1
    · exact (hn c oc' hge hoc').2

theorem NewOK.trans {G : List Grid} {s s₁ s₂ : State K} {W : Nat → Nat → Prop} {M : Nat → Prop}
    {S : Prop} (h1 : NewOK G s s₁) (e2 : Eff s₁ s₂ W M S) (h2 : NewOK G s₁ s₂) :
    NewOK G s s₂ := by
  intro i o₂ hi ho₂
  rcases Nat.lt_or_ge i s₁.objs.length with hlt | hge
  · obtain ⟨o₁, ho₁⟩ : ∃ o, s₁.objs[i]? = some o := ⟨_, List.getElem?_eq_getElem hlt⟩
    obtain ⟨o', g1, g2, g3⟩ := e2.sameShape ho₁
    rw [ho₂] at g1; cases g1
    obtain ⟨a, b⟩ := h1 i o₁ hi ho₁
    exact ⟨a.of_same g2, b.of_eff e2 g3 g2.2.1⟩
  · exact h2 i o₂ hge ho₂

theorem NewOK.none {G : List Grid} {s s' : State K} (h : s'.objs.length = s.objs.length) :
    NewOK G s s' := by
  intro i o' hi ho'
  have := lt_length_of_getElem? ho'
  omega

theorem newOK_allocObj {G : List Grid} (s : State K) (cells : List (Option K)) (dt : DType)
    (o : Obj) (hm : o.members = [])
    (hs : o.cls = .raw ∨ ∃ g : Grid, G[o.grid]? = some g ∧ cells.length = o.ncomp * g.mask.length) :
    NewOK G s (s.allocObj cells dt o) := by
  intro i o' hi ho'
  simp only [State.allocObj] at ho'
  obtain ⟨_, rfl⟩ := getElem?_append_singleton_ge hi ho'
  refine ⟨?_, ?_⟩
  · rcases hs with h | ⟨g, h1, h2⟩
    · exact Or.inl h
    · exact Or.inr ⟨g, h1, h2⟩
  · intro m hmem; simp only [hm] at hmem; cases hmem

theorem newOK_pushObj {G : List Grid} (s : State K) (o : Obj) (hm : o.members = [])
    (hs : Shaped G o) : NewOK G s (s.pushObj o) := by
  intro i o' hi ho'
  simp only [State.pushObj] at ho'
  obtain ⟨_, rfl⟩ := getElem?_append_singleton_ge hi ho'
  exact ⟨hs, by intro m hmem; simp only [hm] at hmem; cases hmem⟩

theorem newOK_mapEach {G : List Grid} (mk : Store K → Obj → List (Option K) × DType)
    (hmk : ∀ (st : Store K) (o : Obj), o.view.off + o.view.len ≤ st.size o.view.buf →
      (mk st o).1.length = o.view.len) :
    ∀ (os : List Obj) (s : State K), WF s →
      (∀ o ∈ os, Shaped G o ∧ o.view.buf < s.store.next ∧
        o.view.off + o.view.len ≤ s.store.size o.view.buf) →
      NewOK G s (mapEach mk s os).1 := by
  intro os
  induction os with
  | nil => intro s _ _; exact NewOK.none rfl
  | cons o os ih =>
    intro s hwf hos
    obtain ⟨hsh, hb, hsz⟩ := hos o List.mem_cons_self
    have e1 := eff_allocObj hwf (mk s.store o).1 (mk s.store o).2 { o with members := [] }
    have n1 : NewOK G s (s.allocObj (mk s.store o).1 (mk s.store o).2 { o with members := [] }) := by
      refine newOK_allocObj s _ _ _ rfl ?_
      rcases hsh with h | ⟨g, h1, h2⟩
      · exact Or.inl h
      · exact Or.inr ⟨g, h1, by rw [hmk _ _ hsz]; exact h2⟩
    have hos' : ∀ o' ∈ os, Shaped G o' ∧
        o'.view.buf < (s.allocObj (mk s.store o).1 (mk s.store o).2 { o with members := [] }).store.next ∧
        o'.view.off + o'.view.len ≤
          (s.allocObj (mk s.store o).1 (mk s.store o).2 { o with members := [] }).store.size o'.view.buf := by
      intro o' ho'
      obtain ⟨a, b, c⟩ := hos o' (List.mem_cons_of_mem _ ho')
      refine ⟨a, Nat.lt_of_lt_of_le b e1.next_le, ?_⟩
      rw [e1.size_eq _ b]; exact c
    obtain ⟨e2, _, _⟩ := eff_mapEach mk os _ e1.wf
    exact n1.trans e2 (ih _ e1.wf hos')

theorem sum_map_mul (l : List Obj) (n : Nat) (h : ∀ o ∈ l, o.view.len = o.ncomp * n) :
    (l.map (·.view.len)).sum = (l.map (·.ncomp)).sum * n := by
  induction l with
  | nil => simp
  | cons x xs ih =>
    simp only [List.map_cons, List.sum_cons, Nat.add_mul]
    rw [ih (fun o ho => h o (List.mem_cons_of_mem _ ho)), h x List.mem_cons_self]

theorem newOK_linkColl {G : List Grid} {s s' : State K} (hi : Inv G s) {ms : List Nat}
    (hnd : ms.Nodup) {g : Nat} {src : Option (View × DType)} {dt : Option DType}
    (h : linkFrom s ms g src dt = .ok s') : NewOK G s s' := by
  obtain ⟨e, hlen, _, oc, hoc, hcls, hmem, hg, _, os, hget, hne, hnc, hvl, hos⟩ :=
    eff_linkColl hi.wf hnd h
  obtain ⟨hl, hk⟩ := getObjs_ok hget
  intro i o' hi' ho'
  have hi2 : i = s.objs.length := by have := lt_length_of_getElem? ho'; omega
  subst hi2
  rw [hoc] at ho'; cases ho'
  -- every gathered object is an object of `s`
  have hobj : ∀ o ∈ os, ∃ m, m ∈ ms ∧ s.objs[m]? = some o := by
    intro o ho
    obtain ⟨k, hko⟩ := List.mem_iff_getElem?.mp ho
    have hk' : k < ms.length := by rw [← hl]; exact lt_length_of_getElem? hko
    obtain ⟨o2, h1, h2⟩ := hk k ms[k] (List.getElem?_eq_getElem hk')
    rw [hko] at h1; cases h1
    exact ⟨ms[k], List.getElem_mem hk', h2⟩
  refine ⟨Or.inr ?_, ?_⟩
  · -- shape of the collection
    obtain ⟨o0, ho0⟩ : ∃ o0, o0 ∈ os := by
      cases os with
      | nil => exact absurd rfl hne
      | cons x xs => exact ⟨x, List.mem_cons_self⟩
    obtain ⟨m0, _, hm0⟩ := hobj o0 ho0
    obtain ⟨g0, hnc0, hnr0⟩ := hos o0 ho0
    rcases hi.shaped m0 o0 hm0 with hr | ⟨gr, hgr, _⟩
    · exact absurd hr hnr0
    refine ⟨gr, by rw [hg, ← g0]; exact hgr, ?_⟩
    rw [hvl, hnc]
    apply sum_map_mul
    intro o ho
    obtain ⟨m, _, hm⟩ := hobj o ho
    obtain ⟨g1, _, hnr⟩ := hos o ho
    rcases hi.shaped m o hm with hr | ⟨gr', hgr', hlen'⟩
    · exact absurd hr hnr
    · rw [g1, ← g0, hgr] at hgr'; cases hgr'; exact hlen'
  · -- members
    intro m hm
    rw [hmem] at hm
    obtain ⟨k, hk', rfl⟩ := List.getElem_of_mem hm
    obtain ⟨o, h1, h2⟩ := hk k ms[k] (List.getElem?_eq_getElem hk')
    have ho : o ∈ os := List.mem_iff_getElem?.mpr ⟨k, h1⟩
    obtain ⟨g1, hnc1, hnr1⟩ := hos o ho
    obtain ⟨o2, c1, ⟨d1, d2, _, _⟩, _⟩ := e.sameShape h2
    exact ⟨o2, c1, by rw [d2, g1, hg], by rw [d1]; exact hnc1, by rw [d1]; exact hnr1⟩

/-! ### the operations -/

section
variable [Add K] [Sub K] [Mul K] [Div K] [Neg K] [NatCast K]

/-- cells of buffers existing before the operation that the operation may write -/
def foot (G : List Grid) (s : State K) : Op K → Nat → Nat → Prop
  | .writeData h _, b, i => ∃ o : Obj, s.objs[h]? = some o ∧ o.validCell G b i
  | .writeFull h _, b, i => ∃ o : Obj, s.objs[h]? = some o ∧ o.view.Mem b i
  | .writeCell h p _, b, i => ∃ o : Obj, s.objs[h]? = some o ∧ o.view.Mem b i ∧ i = o.view.off + p
  | .setGhosts h _, b, i => ∃ o : Obj, s.objs[h]? = some o ∧ o.view.Mem b i ∧
      validSel G o (i - o.view.off) = false
  | .inplace _ a _, b, i => ∃ o : Obj, s.objs[a]? = some o ∧ o.validCell G b i
  | .applyOperator h _ _ out _, b, i =>
      (∃ o : Obj, s.objs[h]? = some o ∧ o.view.Mem b i ∧ validSel G o (i - o.view.off) = false) ∨
      (∃ (j : Nat) (oj : Obj), out = some j ∧ s.objs[j]? = some oj ∧ oj.validCell G b i)
  | .applyFn _ out _, b, i =>
      ∃ (j : Nat) (oj : Obj), out = some j ∧ s.objs[j]? = some oj ∧ oj.validCell G b i
  | _, _, _ => False

/-- objects existing before the operation that the operation may re-link (to a fresh buffer):
the fields handed to `FieldCollection(fields, copy_fields=False)` - unless some of them are
identical, which forces a copy (collection.py:92-95) -/
def moved : Op K → Nat → Prop
  | .mkColl hs cp _, i => cp = false ∧ hs.Nodup ∧ i ∈ hs
  | _, _ => False

/-- operations whose result may be a view of existing memory -/
def subviewing : Op K → Prop
  | .component _ _ => True
  | .tcomponent _ _ _ => True
  | _ => False

theorem eff_componentAt {s s' : State K} (hwf : WF s) {h : Nat} {o : Obj}
    (ho : s.objs[h]? = some o) {c : Nat} (hs : componentAt s o c = .ok s') :
    Eff s s' (fun _ _ => False) (fun _ => False) True ∧ ResultOK s s' := by
  unfold componentAt at hs
  split at hs
  · rename_i hcond
    cases hs
    simp only [Bool.and_eq_true, decide_eq_true_eq] at hcond
    have hsub : (compObj o c).view.Sub o.view := by
      refine ⟨rfl, by simp [compObj], ?_⟩
      have h1 : (c + 1) * (o.view.len / o.ncomp) ≤ o.ncomp * (o.view.len / o.ncomp) :=
        Nat.mul_le_mul_right _ hcond.2
      have h2 : o.ncomp * (o.view.len / o.ncomp) ≤ o.view.len := Nat.mul_div_le _ _
      have h3 : (c + 1) * (o.view.len / o.ncomp) =
          c * (o.view.len / o.ncomp) + o.view.len / o.ncomp := Nat.succ_mul _ _
      simp only [compObj]
      omega
    refine ⟨eff_pushObj hwf _ h o ho hsub, by simp [State.pushObj], ?_⟩
    intro oc hoc hcls
    have : lastId (s.pushObj (compObj o c)) = s.objs.length := by simp [lastId, State.pushObj]
    rw [this] at hoc
    simp [State.pushObj] at hoc
    subst hoc
    cases hcls
  · cases hs

theorem eff_copyThenWrite {G : List Grid} {s s' : State K} (hwf : WF s) {src : Obj}
    {dt : Option DType} {g : State K → Obj → Nat → Option K → Option K}
    (h : copyThenWrite G s src dt g = .ok s') :
    Eff s s' (fun _ _ => False) (fun _ => False) False ∧ ResultOK s s' := by
  unfold copyThenWrite at h
  split at h
  · cases h
  rename_i s1 hc
  split at h
  · cases h
  rename_i r hr
  cases h
  obtain ⟨e1, r1, _⟩ := eff_copyAny hwf hc
  exact eff_write_result hwf e1 r1 hr _ _

theorem ResultOK.of_field {s : State K} (cells : List (Option K)) (dt : DType) (o : Obj)
    (hc : o.cls ≠ .coll) : ResultOK s (s.allocObj cells dt o) := by
  refine ⟨by simp [allocObj_length], ?_⟩
  intro oc hoc hcls
  have : lastId (s.allocObj cells dt o) = s.objs.length := by simp [lastId, allocObj_length]
  rw [this, allocObj_new] at hoc
  cases hoc
  exact absurd hcls hc

theorem eff_mkField {G : List Grid} {s s' : State K} (hwf : WF s) {cls : Cls} {g : Nat}
    {dt : Option DType} {cplx : Bool} {init : Init K}
    (h : mkField G s cls g dt cplx init = .ok s') :
    Eff s s' (fun _ _ => False) (fun _ => False) False ∧ ResultOK s s' := by
  simp only [mkField] at h
  split at h
  · cases h
  split at h
  · cases h
  rename_i gr _ hcls
  have hc : cls ≠ .coll := by
    intro e; subst e; simp at hcls
  split at h <;> cases h <;>
    exact ⟨eff_allocObj hwf _ _ _, ResultOK.of_field _ _ _ hc⟩

/-- nothing was created: the clause about the result is void -/
def NoNew (s s' : State K) : Prop := s'.objs.length = s.objs.length

/-- **master lemma**: the effect summary of every operation -/
theorem step_spec (G : List Grid) {s s' : State K} (hwf : WF s) {op : Op K}
    (h : step G s op = .ok s') :
    Eff s s' (foot G s op) (moved op) (subviewing op) ∧ (NoNew s s' ∨ ResultOK s s') := by
  cases op with
  | mkField cls g dt cplx init =>
    simp only [step] at h
    obtain ⟨e, r⟩ := eff_mkField hwf h
    exact ⟨e.mono (fun _ _ _ f => f.elim) (fun _ _ f => f.elim) (fun f => f.elim), Or.inr r⟩
  | writeData hd vals =>
    simp only [step] at h
    split at h
    · cases h
    rename_i o ho
    cases h
    refine ⟨(eff_writeSel hwf _ _ _).mono ?_ (fun _ _ f => f.elim) id, Or.inl rfl⟩
    intro b i _ hw
    exact ⟨o, getObj_ok ho, hw.1, hw.2⟩
  | writeFull hd vals =>
    simp only [step] at h
    split at h
    · cases h
    rename_i o ho
    cases h
    refine ⟨(eff_writeSel hwf _ _ _).mono ?_ (fun _ _ f => f.elim) id, Or.inl rfl⟩
    intro b i _ hw
    exact ⟨o, getObj_ok ho, hw.1⟩
  | writeCell hd p v =>
    simp only [step] at h
    split at h
    · cases h
    rename_i o ho
    cases h
    refine ⟨(eff_writeSel hwf _ _ _).mono ?_ (fun _ _ f => f.elim) id, Or.inl rfl⟩
    intro b i _ hw
    refine ⟨o, getObj_ok ho, hw.1, ?_⟩
    have h2 := hw.2
    have h1 := hw.1.2.1
    simp only [beq_iff_eq] at h2
    omega
  | setGhosts hd vals =>
    simp only [step] at h
    split at h
    · cases h
    rename_i o ho
    cases h
    refine ⟨(eff_writeSel hwf _ _ _).mono ?_ (fun _ _ f => f.elim) id, Or.inl rfl⟩
    intro b i _ hw
    refine ⟨o, getObj_ok ho, hw.1, ?_⟩
    simpa using hw.2
  | component hd c =>
    simp only [step] at h
    split at h
    · cases h
    rename_i o ho
    obtain ⟨e, r⟩ := eff_componentAt hwf (getObj_ok ho) h
    exact ⟨e.mono (fun _ _ _ f => f.elim) (fun _ _ f => f.elim) (fun _ => trivial), Or.inr r⟩
  | tcomponent hd i j =>
    simp only [step] at h
    split at h
    · cases h
    rename_i o ho
    split at h
    · cases h
    split at h
    · obtain ⟨e, r⟩ := eff_componentAt hwf (getObj_ok ho) h
      exact ⟨e.mono (fun _ _ _ f => f.elim) (fun _ _ f => f.elim) (fun _ => trivial), Or.inr r⟩
    · cases h
  | mkColl hs cp dt =>
    simp only [step] at h
    obtain ⟨e, r⟩ := eff_mkColl hwf h
    exact ⟨e.mono (fun _ _ _ f => f.elim) (fun _ _ f => f) (fun f => f.elim), Or.inr r⟩
  | slice c idx =>
    simp only [step] at h
    split at h
    · cases h
    split at h
    · obtain ⟨e, r⟩ := eff_mkColl hwf h
      exact ⟨e.mono (fun _ _ _ f => f.elim) (fun _ _ f => by simp at f) (fun f => f.elim), Or.inr r⟩
    · cases h
  | append c hs =>
    simp only [step] at h
    split at h
    · cases h
    · cases h
    · split at h
      · obtain ⟨e, r⟩ := eff_mkColl hwf h
        exact ⟨e.mono (fun _ _ _ f => f.elim) (fun _ _ f => by simp at f) (fun f => f.elim),
          Or.inr r⟩
      · cases h
  | copy hd dt =>
    simp only [step] at h
    split at h
    · cases h
    obtain ⟨e, r, _⟩ := eff_copyAny hwf h
    exact ⟨e.mono (fun _ _ _ f => f.elim) (fun _ _ f => f.elim) (fun f => f.elim), Or.inr r⟩
  | deepcopy hd =>
    simp only [step, deepcopy] at h
    split at h
    · cases h
    rename_i o ho
    split at h
    · cases h
    split at h
    · split at h
      · cases h
      · obtain ⟨e, r⟩ := eff_mapEach_link hwf _ _ h
        exact ⟨e.mono (fun _ _ _ f => f.elim) (fun _ _ f => f.elim) (fun f => f.elim), Or.inr r⟩
    · rename_i hcoll
      cases h
      have hc : o.cls ≠ .coll := by intro e; simp [e] at hcoll
      exact ⟨(eff_allocObj hwf _ _ _).mono (fun _ _ _ f => f.elim) (fun _ _ f => f.elim)
        (fun f => f.elim), Or.inr (ResultOK.of_field _ _ _ hc)⟩
  | neg hd =>
    simp only [step, negate] at h
    split at h
    · cases h
    rename_i o ho
    split at h
    · cases h
    split at h
    · split at h
      · cases h
      · obtain ⟨e, r⟩ := eff_mapEach_link hwf _ _ h
        exact ⟨e.mono (fun _ _ _ f => f.elim) (fun _ _ f => f.elim) (fun f => f.elim), Or.inr r⟩
    · rename_i hcoll
      cases h
      have hc : o.cls ≠ .coll := by intro e; simp [e] at hcoll
      exact ⟨(eff_allocObj hwf _ _ _).mono (fun _ _ _ f => f.elim) (fun _ _ f => f.elim)
        (fun f => f.elim), Or.inr (ResultOK.of_field _ _ _ hc)⟩
  | binop bop a b =>
    simp only [step, binop] at h
    split at h
    · cases h
    split at h
    · cases h
    split at h
    · split at h
      · cases h
      obtain ⟨e, r⟩ := eff_copyThenWrite hwf h
      exact ⟨e.mono (fun _ _ _ f => f.elim) (fun _ _ f => f.elim) (fun f => f.elim), Or.inr r⟩
    · split at h
      · cases h
      split at h
      · cases h
      split at h
      · cases h
      split at h
      · cases h
      split at h
      · cases h
      obtain ⟨e, r⟩ := eff_copyThenWrite hwf h
      exact ⟨e.mono (fun _ _ _ f => f.elim) (fun _ _ f => f.elim) (fun f => f.elim), Or.inr r⟩
  | inplace bop a b =>
    simp only [step, inplace] at h
    split at h
    · cases h
    rename_i oa hoa
    split at h
    · cases h
    have key : ∀ g, s' = s.writeSel oa.view (validSel G oa) g →
        Eff s s' (foot G s (.inplace bop a b)) (moved (.inplace bop a b))
          (subviewing (.inplace bop a b)) ∧ (NoNew s s' ∨ ResultOK s s') := by
      intro g hs'
      subst hs'
      refine ⟨(eff_writeSel hwf _ _ _).mono ?_ (fun _ _ f => f.elim) id, Or.inl rfl⟩
      intro b i _ hw
      exact ⟨oa, getObj_ok hoa, hw.1, hw.2⟩
    split at h
    · split at h
      · cases h
      · cases h; exact key _ rfl
    · split at h
      · cases h
      split at h
      · cases h
      split at h
      · cases h
      split at h
      · cases h
      split at h
      · cases h
      cases h; exact key _ rfl
  | storeFrame hd into =>
    simp only [step] at h
    split at h
    · cases h
    split at h
    · cases h
    cases h
    exact ⟨(eff_allocObj hwf _ _ _).mono (fun _ _ _ f => f.elim) (fun _ _ f => f.elim)
      (fun f => f.elim), Or.inr (ResultOK.of_field _ _ _ (by simp))⟩
  | loadFrame t f =>
    simp only [step] at h
    split at h
    · cases h
    · cases h
    · split at h
      · cases h
      obtain ⟨e, r⟩ := eff_copyThenWrite hwf h
      exact ⟨e.mono (fun _ _ _ f => f.elim) (fun _ _ f => f.elim) (fun f => f.elim), Or.inr r⟩
  | applyOperator hd ghosts outCls out vals =>
    simp only [step] at h
    split at h
    · cases h
    rename_i o ho
    split at h
    · cases h
    -- the boundary condition: virtual points of the operand
    have e1 := eff_writeSel hwf o.view (fun p => !validSel G o p) (fun p old =>
      match ghosts[p]? with | some (some x) => some x | _ => old)
    have hW1 : ∀ b i, (o.view.Mem b i ∧ (!validSel G o (i - o.view.off)) = true) →
        foot G s (.applyOperator hd ghosts outCls out vals) b i := by
      intro b i hw
      exact Or.inl ⟨o, getObj_ok ho, hw.1, by simpa using hw.2⟩
    split at h
    · -- a new field holds the result
      obtain ⟨e2, r2⟩ := eff_mkField e1.wf h
      refine ⟨(Eff.trans hwf e1 e2).mono ?_ (fun _ _ f => f.elim id id) (fun f => f.elim id id),
        Or.inr ⟨?_, ?_⟩⟩
      · intro b i _ hw
        rcases hw with hw | hw
        · exact hW1 b i hw
        · exact hw.elim
      · have := r2.1; simpa [State.writeSel] using this
      · exact r2.2
    · rename_i j
      split at h
      · cases h
      rename_i oj hoj
      split at h
      · cases h
      split at h
      · cases h
      cases h
      have e2 := eff_writeSel e1.wf oj.view (validSel G oj) (fun p old =>
        match vals[p]? with | some x => some x | none => old)
      refine ⟨(Eff.trans hwf e1 e2).mono ?_ (fun _ _ f => f.elim id id) (fun f => f.elim id id),
        Or.inl rfl⟩
      intro b i _ hw
      rcases hw with hw | hw
      · exact hW1 b i hw
      · exact Or.inr ⟨j, oj, rfl, getObj_ok hoj, hw.1, hw.2⟩
  | derive hd cls cplx vals =>
    simp only [step] at h
    split at h
    · cases h
    split at h
    · cases h
    obtain ⟨e, r⟩ := eff_mkField hwf h
    exact ⟨e.mono (fun _ _ _ f => f.elim) (fun _ _ f => f.elim) (fun f => f.elim), Or.inr r⟩
  | applyFn hd out vals =>
    simp only [step] at h
    split at h
    · cases h
    rename_i o ho
    split at h
    · cases h
    split at h
    · obtain ⟨e, r⟩ := eff_copyThenWrite hwf h
      exact ⟨e.mono (fun _ _ _ f => f.elim) (fun _ _ f => f.elim) (fun f => f.elim), Or.inr r⟩
    · rename_i j
      split at h
      · cases h
      rename_i oj hoj
      split at h
      · cases h
      split at h
      · cases h
      cases h
      refine ⟨(eff_writeSel hwf _ _ _).mono ?_ (fun _ _ f => f.elim) id, Or.inl rfl⟩
      intro b i _ hw
      exact ⟨j, oj, rfl, getObj_ok hoj, hw.1, hw.2⟩

theorem inplace_eq' {G : List Grid} {s s' : State K} {bop : BinOp} {a : Nat} {b : Operand K}
    (hs : step G s (.inplace bop a b) = .ok s') :
    ∃ (oa : Obj) (g : Nat → Option K → Option K), s.objs[a]? = some oa ∧
      s' = s.writeSel oa.view (validSel G oa) g := by
  simp only [step, inplace] at hs
  split at hs
  · cases hs
  rename_i oa hoa
  split at hs
  · cases hs
  split at hs
  · split at hs
    · cases hs
    · cases hs; exact ⟨oa, _, getObj_ok hoa, rfl⟩
  · split at hs
    · cases hs
    split at hs
    · cases hs
    split at hs
    · cases hs
    split at hs
    · cases hs
    split at hs
    · cases hs
    cases hs; exact ⟨oa, _, getObj_ok hoa, rfl⟩

/-! ### every operation preserves the invariant -/

theorem hmk_copy (st : Store K) (o : Obj) (h : o.view.off + o.view.len ≤ st.size o.view.buf) :
    (mkCopy st o).1.length = o.view.len := Store.length_readView st o.view h

omit [Add K] [Sub K] [Mul K] [Div K] [NatCast K] in
theorem hmk_neg (G : List Grid) (st : Store K) (o : Obj)
    (h : o.view.off + o.view.len ≤ st.size o.view.buf) : (mkNeg G st o).1.length = o.view.len := by
  simp only [mkNeg, List.length_mapIdx]; exact Store.length_readView st o.view h

theorem newOK_mapEach_link {G : List Grid} {s s' : State K} (hi : Inv G s)
    (mk : Store K → Obj → List (Option K) × DType)
    (hmk : ∀ (st : Store K) (o : Obj), o.view.off + o.view.len ≤ st.size o.view.buf →
      (mk st o).1.length = o.view.len)
    (os : List Obj) (hos : ∀ o ∈ os, ∃ m : Nat, s.objs[m]? = some o) {g : Nat}
    {src : Option (View × DType)} {dt : Option DType}
    (h : linkFrom (mapEach mk s os).1 (mapEach mk s os).2 g src dt = .ok s') : NewOK G s s' := by
  have n1 : NewOK G s (mapEach mk s os).1 := by
    refine newOK_mapEach mk hmk os s hi.wf ?_
    intro o ho
    obtain ⟨m, hm⟩ := hos o ho
    exact ⟨hi.shaped m o hm, (hi.wf m o hm).1, (hi.wf m o hm).2⟩
  obtain ⟨e1, h2, _⟩ := eff_mapEach mk os s hi.wf
  have hi1 := inv_of_eff hi e1 n1
  have hnd : (mapEach mk s os).2.Nodup := by rw [h2]; exact List.nodup_range'
  obtain ⟨e2, _⟩ := eff_linkColl e1.wf hnd h
  exact n1.trans e2 (newOK_linkColl hi1 hnd h)

theorem getObjs_mem {s : State K} {hs : List Nat} {os : List Obj} (h : getObjs s hs = .ok os) :
    ∀ o ∈ os, ∃ m : Nat, s.objs[m]? = some o := by
  obtain ⟨hl, hk⟩ := getObjs_ok h
  intro o ho
  obtain ⟨k, hko⟩ := List.mem_iff_getElem?.mp ho
  have hk' : k < hs.length := by rw [← hl]; exact lt_length_of_getElem? hko
  obtain ⟨o2, h1, h2⟩ := hk k hs[k] (List.getElem?_eq_getElem hk')
  rw [hko] at h1; cases h1
  exact ⟨hs[k], h2⟩

theorem newOK_mkColl {G : List Grid} {s s' : State K} (hi : Inv G s) {hs : List Nat} {cp : Bool}
    {dt : Option DType} (h : mkColl s hs cp dt = .ok s') : NewOK G s s' := by
  unfold mkColl at h
  split at h
  · cases h
  · cases h
  · rename_i hd tl os hget
    simp only at h
    split at h
    · cases h
    split at h
    · cases h
    split at h
    · cases h
    split at h
    · exact newOK_mapEach_link hi mkCopy hmk_copy os (getObjs_mem hget) h
    · rename_i hcp
      have hcp' : cp = false ∧ (hd :: tl).Nodup := by
        simp only [Bool.or_eq_true, Bool.not_eq_true', decide_eq_false_iff_not, not_or,
          Bool.not_eq_true, Decidable.not_not] at hcp
        exact hcp
      exact newOK_linkColl hi hcp'.2 h

theorem newOK_copyAny {G : List Grid} {s s' : State K} (hi : Inv G s) {o : Obj} {m : Nat}
    (ho : s.objs[m]? = some o) {dt : Option DType} (h : copyAny s o dt = .ok s') :
    NewOK G s s' := by
  unfold copyAny at h
  split at h
  · cases h
  · unfold copyColl at h
    split at h
    · cases h
    · rename_i os hget
      exact newOK_mapEach_link hi mkCopy hmk_copy os (getObjs_mem hget) h
  · cases h
    refine newOK_allocObj s _ _ _ rfl ?_
    rcases hi.shaped m o ho with hr | ⟨g, h1, h2⟩
    · exact Or.inl hr
    · exact Or.inr ⟨g, h1, by
        rw [length_castCells, Store.length_readView _ _ (hi.wf m o ho).2]; exact h2⟩

theorem newOK_copyThenWrite {G : List Grid} {s s' : State K} (hi : Inv G s) {src : Obj} {m : Nat}
    (ho : s.objs[m]? = some src) {dt : Option DType}
    {g : State K → Obj → Nat → Option K → Option K} (h : copyThenWrite G s src dt g = .ok s') :
    NewOK G s s' := by
  unfold copyThenWrite at h
  split at h
  · cases h
  rename_i s1 hc
  split at h
  · cases h
  cases h
  obtain ⟨e1, _, _⟩ := eff_copyAny hi.wf hc
  exact (newOK_copyAny hi ho hc).trans (eff_writeSel e1.wf _ _ _) (NewOK.none rfl)

theorem binopSrc_mem {s : State K} {op : BinOp} {oa ob osrc : Obj}
    (h : binopSrc s op oa ob = .ok osrc) : osrc = oa ∨ osrc = ob := by
  unfold binopSrc at h
  split at h
  · split at h
    · cases h
    split at h
    · cases h
    · cases h; exact Or.inl rfl
  split at h
  · split at h
    · cases h
    · cases h; exact Or.inr rfl
  · split at h
    · cases h
    · cases h; exact Or.inl rfl

theorem newOK_mkField {G : List Grid} {s s' : State K} {cls : Cls} {g : Nat}
    {dt : Option DType} {cplx : Bool} {init : Init K}
    (h : mkField G s cls g dt cplx init = .ok s') : NewOK G s s' := by
  simp only [mkField] at h
  split at h
  · cases h
  rename_i gr hgr
  split at h
  · cases h
  split at h <;> cases h <;>
    exact newOK_allocObj s _ _ _ rfl (Or.inr ⟨gr, hgr, by simp⟩)

theorem newOK_componentAt {G : List Grid} {s s' : State K} (hi : Inv G s) {hd : Nat} {o : Obj}
    (ho : s.objs[hd]? = some o) {c : Nat} (h : componentAt s o c = .ok s') : NewOK G s s' := by
  unfold componentAt at h
  split at h
  · rename_i hcond
    cases h
    simp only [Bool.and_eq_true, decide_eq_true_eq, Bool.or_eq_true, beq_iff_eq] at hcond
    refine newOK_pushObj s _ rfl ?_
    rcases hi.shaped hd o ho with hr | ⟨g, h1, h2⟩
    · rcases hcond.1 with e | e <;> rw [e] at hr <;> cases hr
    · refine Or.inr ⟨g, h1, ?_⟩
      simp only [compObj, Nat.one_mul]
      rw [h2, Nat.mul_div_cancel_left _ (by omega : 0 < o.ncomp)]
  · cases h

/-- the objects created by any operation are well shaped -/
theorem newOK_step (G : List Grid) {s s' : State K} (hi : Inv G s) {op : Op K}
    (h : step G s op = .ok s') : NewOK G s s' := by
  cases op with
  | mkField cls g dt cplx init =>
    simp only [step] at h
    exact newOK_mkField h
  | writeData hd vals =>
    simp only [step] at h
    split at h
    · cases h
    cases h; exact NewOK.none rfl
  | writeFull hd vals =>
    simp only [step] at h
    split at h
    · cases h
    cases h; exact NewOK.none rfl
  | writeCell hd p v =>
    simp only [step] at h
    split at h
    · cases h
    cases h; exact NewOK.none rfl
  | setGhosts hd vals =>
    simp only [step] at h
    split at h
    · cases h
    cases h; exact NewOK.none rfl
  | component hd c =>
    simp only [step] at h
    split at h
    · cases h
    rename_i o ho
    exact newOK_componentAt hi (getObj_ok ho) h
  | tcomponent hd i j =>
    simp only [step] at h
    split at h
    · cases h
    rename_i o ho
    split at h
    · cases h
    split at h
    · exact newOK_componentAt hi (getObj_ok ho) h
    · cases h
  | mkColl hs cp dt =>
    simp only [step] at h
    exact newOK_mkColl hi h
  | slice c idx =>
    simp only [step] at h
    split at h
    · cases h
    split at h
    · exact newOK_mkColl hi h
    · cases h
  | append c hs =>
    simp only [step] at h
    split at h
    · cases h
    · cases h
    · split at h
      · exact newOK_mkColl hi h
      · cases h
  | copy hd dt =>
    simp only [step] at h
    split at h
    · cases h
    rename_i o ho
    exact newOK_copyAny hi (getObj_ok ho) h
  | deepcopy hd =>
    simp only [step, deepcopy] at h
    split at h
    · cases h
    rename_i o ho
    split at h
    · cases h
    split at h
    · split at h
      · cases h
      · rename_i os hget
        exact newOK_mapEach_link hi mkCopy hmk_copy os (getObjs_mem hget) h
    · cases h
      refine newOK_allocObj s _ _ _ rfl ?_
      rcases hi.shaped hd o (getObj_ok ho) with hr | ⟨g, h1, h2⟩
      · exact Or.inl hr
      · exact Or.inr ⟨g, h1, by
          rw [length_castCells, Store.length_readView _ _ (hi.wf hd o (getObj_ok ho)).2]; exact h2⟩
  | neg hd =>
    simp only [step, negate] at h
    split at h
    · cases h
    rename_i o ho
    split at h
    · cases h
    split at h
    · split at h
      · cases h
      · rename_i os hget
        exact newOK_mapEach_link hi (mkNeg G) (hmk_neg G) os (getObjs_mem hget) h
    · cases h
      refine newOK_allocObj s _ _ _ rfl ?_
      rcases hi.shaped hd o (getObj_ok ho) with hr | ⟨g, h1, h2⟩
      · exact Or.inl hr
      · exact Or.inr ⟨g, h1, by rw [hmk_neg G _ _ (hi.wf hd o (getObj_ok ho)).2]; exact h2⟩
  | binop bop a b =>
    simp only [step, binop] at h
    split at h
    · cases h
    rename_i oa hoa
    split at h
    · cases h
    split at h
    · split at h
      · cases h
      exact newOK_copyThenWrite hi (getObj_ok hoa) h
    · split at h
      · cases h
      rename_i ob hob
      split at h
      · cases h
      split at h
      · cases h
      rename_i osrc hsrc
      split at h
      · cases h
      split at h
      · cases h
      rcases binopSrc_mem hsrc with rfl | rfl
      · exact newOK_copyThenWrite hi (getObj_ok hoa) h
      · exact newOK_copyThenWrite hi (getObj_ok hob) h
  | inplace bop a b =>
    obtain ⟨oa, g, _, rfl⟩ := inplace_eq' h
    exact NewOK.none rfl
  | storeFrame hd into =>
    simp only [step] at h
    split at h
    · cases h
    split at h
    · cases h
    cases h
    exact newOK_allocObj s _ _ _ rfl (Or.inl rfl)
  | loadFrame t f =>
    simp only [step] at h
    split at h
    · cases h
    · cases h
    · rename_i ot fr hot hfr
      split at h
      · cases h
      exact newOK_copyThenWrite hi (getObj_ok hot) h
  | applyOperator hd ghosts outCls out vals =>
    simp only [step] at h
    split at h
    · cases h
    rename_i o ho
    split at h
    · cases h
    have e1 := eff_writeSel hi.wf o.view (fun p => !validSel G o p) (fun p old =>
      match ghosts[p]? with | some (some x) => some x | _ => old)
    split at h
    · have n2 := newOK_mkField h
      obtain ⟨e2, _⟩ := eff_mkField e1.wf h
      exact NewOK.trans (s₁ := s.writeSel o.view (fun p => !validSel G o p) (fun p old =>
        match ghosts[p]? with | some (some x) => some x | _ => old)) (NewOK.none rfl) e2 n2
    · split at h
      · cases h
      split at h
      · cases h
      split at h
      · cases h
      cases h; exact NewOK.none rfl
  | derive hd cls cplx vals =>
    simp only [step] at h
    split at h
    · cases h
    split at h
    · cases h
    exact newOK_mkField h
  | applyFn hd out vals =>
    simp only [step] at h
    split at h
    · cases h
    rename_i o ho
    split at h
    · cases h
    split at h
    · exact newOK_copyThenWrite hi (getObj_ok ho) h
    · split at h
      · cases h
      split at h
      · cases h
      split at h
      · cases h
      cases h; exact NewOK.none rfl

/-! ### `data` is a live view of the padded array (clause (a) of C15)

The code keeps the array returned by `field.data` in an attribute of its own (`_data_valid`);
the model records from which array it was carved (`State.dviews`).  `DataLive`: for every object
that array is the object's current padded array.  Every primitive that creates an object or gives
it another array (`pushObj`, `allocObj`, `relink` = the setter of `_data_full`, base.py:147-176)
sets both, so the invariant holds after every operation. -/

def DataLive (s : State K) : Prop := s.dviews = s.objs.map (·.view)

theorem dataLive_empty : DataLive ({} : State K) := rfl

theorem dataLive_pushObj {s : State K} (h : DataLive s) (o : Obj) : DataLive (s.pushObj o) := by
  unfold DataLive at *; simp [State.pushObj, h]

theorem dataLive_allocObj {s : State K} (h : DataLive s) (cells : List (Option K)) (dt : DType)
    (o : Obj) : DataLive (s.allocObj cells dt o) := by
  unfold DataLive at *; simp [State.allocObj, h]

theorem dataLive_relink {s : State K} (h : DataLive s) (m : Nat) (v : View) :
    DataLive (s.relink m v) := by
  unfold DataLive at *
  simp only [State.relink, h]
  apply List.ext_getElem?
  intro i
  simp only [List.getElem?_modify, List.getElem?_map]
  by_cases him : m = i
  · subst him; cases s.objs[m]? <;> simp
  · simp [him]

theorem dataLive_writeSel {s : State K} (h : DataLive s) (v : View) (sel : Nat → Bool)
    (g : Nat → Option K → Option K) : DataLive (s.writeSel v sel g) := h

theorem dataLive_mapEach (mk : Store K → Obj → List (Option K) × DType) :
    ∀ (os : List Obj) (s : State K), DataLive s → DataLive (mapEach mk s os).1
  | [], _, h => h
  | o :: os, s, h => by
    simp only [mapEach]
    exact dataLive_mapEach mk os _ (dataLive_allocObj h _ _ _)

theorem dataLive_relinkAll (b : Nat) : ∀ (ms ls : List Nat) (s : State K) (off : Nat),
    DataLive s → DataLive (relinkAll s b ms ls off)
  | [], _, _, _, h => by simpa [relinkAll] using h
  | _ :: _, [], _, _, h => by simpa [relinkAll] using h
  | m :: ms, l :: ls, s, off, h => by
    simp only [relinkAll]
    exact dataLive_relinkAll b ms ls _ _ (dataLive_relink h _ _)

theorem dataLive_linkFrom {s s' : State K} (h : DataLive s) {ms : List Nat} {g : Nat}
    {src : Option (View × DType)} {dt : Option DType} (hs : linkFrom s ms g src dt = .ok s') :
    DataLive s' := by
  unfold linkFrom at hs
  split at hs
  · cases hs
  split at hs
  · cases hs
  split at hs
  · cases hs
  split at hs
  · cases hs
  simp only at hs
  split at hs
  · cases hs
  cases hs
  exact dataLive_relinkAll _ _ _ _ _ (dataLive_allocObj h _ _ _)

theorem dataLive_mkColl {s s' : State K} (h : DataLive s) {hs : List Nat} {cp : Bool}
    {dt : Option DType} (e : mkColl s hs cp dt = .ok s') : DataLive s' := by
  unfold mkColl at e
  split at e
  · cases e
  · cases e
  · simp only at e
    split at e
    · cases e
    split at e
    · cases e
    split at e
    · cases e
    split at e
    · exact dataLive_linkFrom (dataLive_mapEach _ _ _ h) e
    · exact dataLive_linkFrom h e

theorem dataLive_copyAny {s s' : State K} (h : DataLive s) {o : Obj} {dt : Option DType}
    (e : copyAny s o dt = .ok s') : DataLive s' := by
  unfold copyAny at e
  split at e
  · cases e
  · unfold copyColl at e
    split at e
    · cases e
    · exact dataLive_linkFrom (dataLive_mapEach _ _ _ h) e
  · cases e; exact dataLive_allocObj h _ _ _

theorem dataLive_copyThenWrite {G : List Grid} {s s' : State K} (h : DataLive s) {src : Obj}
    {dt : Option DType} {g : State K → Obj → Nat → Option K → Option K}
    (e : copyThenWrite G s src dt g = .ok s') : DataLive s' := by
  unfold copyThenWrite at e
  split at e
  · cases e
  rename_i s1 hc
  split at e
  · cases e
  cases e
  exact dataLive_writeSel (dataLive_copyAny h hc) _ _ _

theorem dataLive_mkField {G : List Grid} {s s' : State K} (h : DataLive s) {cls : Cls} {g : Nat}
    {dt : Option DType} {cplx : Bool} {init : Init K}
    (e : mkField G s cls g dt cplx init = .ok s') : DataLive s' := by
  simp only [mkField] at e
  split at e
  · cases e
  split at e
  · cases e
  split at e <;> cases e <;> exact dataLive_allocObj h _ _ _

theorem dataLive_componentAt {s s' : State K} (h : DataLive s) {o : Obj} {c : Nat}
    (e : componentAt s o c = .ok s') : DataLive s' := by
  unfold componentAt at e
  split at e
  · cases e; exact dataLive_pushObj h _
  · cases e

/-- **clause (a), one step**: every operation keeps `data` linked to the padded array -/
theorem dataLive_step (G : List Grid) {s s' : State K} (h : DataLive s) {op : Op K}
    (e : step G s op = .ok s') : DataLive s' := by
  cases op with
  | mkField cls g dt cplx init => simp only [step] at e; exact dataLive_mkField h e
  | writeData hd vals =>
    simp only [step] at e
    split at e
    · cases e
    cases e; exact dataLive_writeSel h _ _ _
  | writeFull hd vals =>
    simp only [step] at e
    split at e
    · cases e
    cases e; exact dataLive_writeSel h _ _ _
  | writeCell hd p v =>
    simp only [step] at e
    split at e
    · cases e
    cases e; exact dataLive_writeSel h _ _ _
  | setGhosts hd vals =>
    simp only [step] at e
    split at e
    · cases e
    cases e; exact dataLive_writeSel h _ _ _
  | component hd c =>
    simp only [step] at e
    split at e
    · cases e
    exact dataLive_componentAt h e
  | tcomponent hd i j =>
    simp only [step] at e
    split at e
    · cases e
    split at e
    · cases e
    split at e
    · exact dataLive_componentAt h e
    · cases e
  | mkColl hs cp dt => simp only [step] at e; exact dataLive_mkColl h e
  | slice c idx =>
    simp only [step] at e
    split at e
    · cases e
    split at e
    · exact dataLive_mkColl h e
    · cases e
  | append c hs =>
    simp only [step] at e
    split at e
    · cases e
    · cases e
    · split at e
      · exact dataLive_mkColl h e
      · cases e
  | copy hd dt =>
    simp only [step] at e
    split at e
    · cases e
    exact dataLive_copyAny h e
  | deepcopy hd =>
    simp only [step, deepcopy] at e
    split at e
    · cases e
    split at e
    · cases e
    split at e
    · split at e
      · cases e
      · exact dataLive_linkFrom (dataLive_mapEach _ _ _ h) e
    · cases e; exact dataLive_allocObj h _ _ _
  | neg hd =>
    simp only [step, negate] at e
    split at e
    · cases e
    split at e
    · cases e
    split at e
    · split at e
      · cases e
      · exact dataLive_linkFrom (dataLive_mapEach _ _ _ h) e
    · cases e; exact dataLive_allocObj h _ _ _
  | binop bop a b =>
    simp only [step, binop] at e
    split at e
    · cases e
    split at e
    · cases e
    split at e
    · split at e
      · cases e
      exact dataLive_copyThenWrite h e
    · split at e
      · cases e
      split at e
      · cases e
      split at e
      · cases e
      split at e
      · cases e
      split at e
      · cases e
      exact dataLive_copyThenWrite h e
  | inplace bop a b =>
    obtain ⟨oa, g, _, rfl⟩ := inplace_eq' e
    exact dataLive_writeSel h _ _ _
  | storeFrame hd into =>
    simp only [step] at e
    split at e
    · cases e
    split at e
    · cases e
    cases e; exact dataLive_allocObj h _ _ _
  | loadFrame t f =>
    simp only [step] at e
    split at e
    · cases e
    · cases e
    · split at e
      · cases e
      exact dataLive_copyThenWrite h e
  | applyOperator hd ghosts outCls out vals =>
    simp only [step] at e
    split at e
    · cases e
    split at e
    · cases e
    split at e
    · exact dataLive_mkField (dataLive_writeSel h _ _ _) e
    · split at e
      · cases e
      split at e
      · cases e
      split at e
      · cases e
      cases e; exact dataLive_writeSel (dataLive_writeSel h _ _ _) _ _ _
  | derive hd cls cplx vals =>
    simp only [step] at e
    split at e
    · cases e
    split at e
    · cases e
    exact dataLive_mkField h e
  | applyFn hd out vals =>
    simp only [step] at e
    split at e
    · cases e
    split at e
    · cases e
    split at e
    · exact dataLive_copyThenWrite h e
    · split at e
      · cases e
      split at e
      · cases e
      split at e
      · cases e
      cases e; exact dataLive_writeSel h _ _ _

/-- **the invariant is preserved by every operation** -/
theorem inv_step (G : List Grid) {s s' : State K} (hi : Inv G s) {op : Op K}
    (h : step G s op = .ok s') : Inv G s' :=
  inv_of_eff hi (step_spec G hi.wf h).1 (newOK_step G hi h)

end

end PdeVerif.Heap
