import PdeVerif.Json
import PdeVerif.Model.Serialize
import PdeVerif.Model.GridCache
/-
Driver of the C14 model: every handler evaluates the definitions of `PdeVerif.Serialize` (the ones
the theorems of `Props/C14.lean` are about) at `Rat` (mode "Q", exact) or `Float` (mode "F", the
same IEEE operations in the same order as the package performs on the bounds).

Value trees travel as JSON: `null`, `true/false`, an integer number (`Val.nat`), a text "p/q" or
"b:<bits>" (`Val.num`), `{"s": text}` (`Val.str`), an array (`Val.list`) and
`{"o": [[key, value], ...]}` (`Val.obj`, key order kept).

The data of fields travels as positions only: entry `i` of the array handed to the package is the
atom `i`; an atom remembers whether a conversion to a real dtype was applied to it (`real`), `-1`
stands for a zero written by the constructor.
-/
namespace PdeVerif.Drv.C14
open Lean PdeVerif PdeVerif.Grids PdeVerif.Serialize

/-- number codec of a mode -/
structure Codec (K : Type) where
  get : Json → Except String K
  put : K → Json

def codecQ : Codec Rat := ⟨getQ, jQ⟩
def codecF : Codec Float := ⟨getF, jF⟩

structure Atom where
  id : Int
  real : Bool

instance : Inhabited Atom := ⟨⟨-1, false⟩⟩

/-- numpy `astype`: converting to a real dtype drops an imaginary part; the values the harness
uses are exactly representable in every dtype involved, so nothing else changes -/
def castAtom (dt : DType) (a : Atom) : Atom := if dt.isComplex then a else { a with real := true }

def jAtom (a : Atom) : Json := Json.arr #[toJson a.id, toJson a.real]

def errName : Err → String
  | .keyError => "KeyError" | .valueError => "ValueError" | .dimensionError => "DimensionError"
  | .typeError => "TypeError" | .runtimeError => "RuntimeError" | .indexError => "IndexError"
  | .assertionError => "AssertionError" | .attributeError => "AttributeError" | .unsupported => "unsupported"

def clsTag : GridClass → String
  | .unit => "unit" | .cartesian => "cartesian" | .polar => "polar"
  | .spherical => "spherical" | .cylindrical => "cylindrical"

def parseCls (s : String) : Except String GridClass :=
  match s with
  | "unit" => pure .unit
  | "cartesian" => pure .cartesian
  | "polar" => pure .polar
  | "spherical" => pure .spherical
  | "cylindrical" => pure .cylindrical
  | _ => throw s!"unknown grid class {s}"

def parseFCls (s : String) : Except String FieldClass :=
  match s with
  | "scalar" => pure .scalar
  | "vector" => pure .vector
  | "tensor2" => pure .tensor2
  | _ => throw s!"unknown field class {s}"

def fclsTag : FieldClass → String
  | .scalar => "scalar" | .vector => "vector" | .tensor2 => "tensor2"

def parseDType (s : String) : Except String DType :=
  match DType.ofStr s with
  | some d => pure d
  | none => throw s!"unknown dtype {s}"

def optStr (j : Json) (k : String) : Except String (Option String) :=
  match fldOpt j k with
  | none | some .null => pure none
  | some (.str s) => pure (some s)
  | some v => throw s!"expected string or null for {k}, got {v.compress}"

def jOptStr : Option String → Json
  | none => Json.null
  | some s => Json.str s

section
variable {K : Type} (cd : Codec K)

partial def getVal (j : Json) : Except String (Val K) :=
  match j with
  | .null => pure .null
  | .bool b => pure (.bool b)
  | .num _ => do pure (.nat (← j.getNat?))
  | .str _ => do pure (.num (← cd.get j))
  | .arr a => do pure (.list (← a.toList.mapM getVal))
  | .obj _ =>
    match j.getObjVal? "s" with
    | .ok (.str s) => pure (.str s)
    | _ =>
      match j.getObjVal? "o" with
      | .ok (.arr a) => do
        let kv ← a.toList.mapM fun e => match e with
          | .arr #[.str k, v] => do pure (k, ← getVal v)
          | _ => throw s!"bad object entry {e.compress}"
        pure (.obj kv)
      | _ => throw s!"bad value {j.compress}"

partial def putVal (v : Val K) : Json :=
  match v with
  | .null => Json.null
  | .bool b => Json.bool b
  | .nat n => toJson n
  | .num x => cd.put x
  | .str s => Json.mkObj [("s", Json.str s)]
  | .list l => Json.arr (l.map putVal).toArray
  | .obj kv => Json.mkObj [("o", Json.arr (kv.map fun (k, v) => Json.arr #[Json.str k, putVal v]).toArray)]

def putDict (d : Dict K) : Json := putVal cd (.obj d)

variable [Add K] [Sub K] [Mul K] [Div K] [Neg K] [NatCast K] [IntCast K]
variable [LT K] [DecidableLT K] [BEq K]

/-- canonical record of a grid object -/
def jObj (g : GridObj K) : Json :=
  Json.mkObj [("cls", Json.str (clsTag g.cls)),
    ("bounds", Json.arr (g.axesBounds.map fun b => Json.arr #[cd.put b.1, cd.put b.2]).toArray),
    ("shape", toJson g.shape), ("periodic", toJson g.periodic),
    ("dim", toJson g.dim), ("num_axes", toJson g.numAxes)]

def jRes {α : Type} (f : α → Json) : Except Err α → Json
  | .ok a => Json.mkObj [("ok", f a)]
  | .error e => Json.mkObj [("err", Json.str (errName e))]

def argOr (a : Json) (k : String) : Except String (Val K) :=
  match fldOpt a k with
  | none => pure .null
  | some v => getVal cd v

/-- {"cls", "args": {...}} -> the constructor of the class on the given arguments -/
def construct (j : Json) : Except String (Except Err (GridObj K)) := do
  let cls ← parseCls (← fldS j "cls")
  let a ← fld j "args"
  match cls with
  | .unit => pure (mkUnit (← argOr cd a "shape") (← argOr cd a "periodic"))
  | .cartesian =>
    pure (mkCartesian (← argOr cd a "bounds") (← argOr cd a "shape") (← argOr cd a "periodic"))
  | .polar => pure (mkRadial false (← argOr cd a "radius") (← argOr cd a "shape"))
  | .spherical => pure (mkRadial true (← argOr cd a "radius") (← argOr cd a "shape"))
  | .cylindrical =>
    pure (mkCylindrical (← argOr cd a "radius") (← argOr cd a "bounds_z") (← argOr cd a "shape")
      (← argOr cd a "periodic_z"))

/-- all multi-indices of a shape in C order -/
def multiIndices : List Nat → List (List Nat)
  | [] => [[]]
  | n :: ns => (List.range n).flatMap fun i => (multiIndices ns).map (i :: ·)

/-- construct a grid, then state / JSON tree / from_state / copy / equality / derived quantities -/
def gridH (j : Json) : Except String Json := do
  let r ← construct cd (← fld j "grid")
  match r with
  | .error e => pure (Json.mkObj [("err", Json.str (errName e))])
  | .ok g =>
    let derived : List (String × Json) ←
      (match fldOpt j "pi" with
      | none | some .null => pure []
      | some p => do
        let pi ← cd.get p
        let gg := g.toGrid
        pure [("dx", Json.arr (gg.discretization.map cd.put).toArray),
          ("coords", Json.arr (gg.axesCoords.map fun l => Json.arr (l.map cd.put).toArray).toArray),
          ("cellvols", Json.arr ((multiIndices gg.shape).map fun i => cd.put (gg.cellVolume pi i)).toArray),
          ("volume", cd.put (gg.volume pi))])
    let cp := g.copy
    pure (Json.mkObj ([("obj", jObj cd g), ("class_name", Json.str (className g.cls)),
      ("state", putDict cd g.state), ("json", putVal cd g.stateSerialized),
      ("state_old_cyl", putDict cd (cylStateOld g)),
      ("from_state", jRes (jObj cd) (classFromState g.cls g.state)),
      ("from_json", jRes (jObj cd) (fromState g.stateSerialized)),
      ("from_old_cyl", jRes (jObj cd) (classFromState g.cls (cylStateOld g))),
      ("copy", jRes (jObj cd) cp),
      ("copy_eq", match cp with | .ok c => toJson (gridEq c g && gridEq g c) | .error _ => Json.null)]
      ++ derived))

/-- a cache value -/
def jCVal : CVal K → Json
  | .arr l => Json.arr (l.map cd.put).toArray
  | .arrs l => Json.arr (l.map fun a => Json.arr (a.map cd.put).toArray).toArray
  | .flag b => Json.bool b

def parseProps (j : Json) (k : String) : Except String (List CProp) := do
  let names ← (← fld j k).getArr?
  names.toList.mapM fun n => do
    let s ← n.getStr?
    match CProp.ofName s with
    | some p => pure p
    | none => throw s!"unknown cached property {s}"

def parseRoute (s : String) : Except String Route :=
  match s with
  | "from_state" => pure .fromState
  | "from_json" => pure .fromJson
  | "copy" => pure .copy
  | "pickle" => pure .pickle
  | _ => throw s!"unknown route {s}"

/-- the attributes `__init__` stored and the names in `_cache_methods` -/
def jInst (i : GridInst K) : Json :=
  Json.mkObj [("axes", toJson i.axes), ("axes_symmetric", toJson i.axesSymmetric),
    ("num_axes", toJson i.numAxes),
    ("coords", Json.arr (i.axesCoords.map fun l => Json.arr (l.map cd.put).toArray).toArray),
    ("dx", Json.arr (i.discretization.map cd.put).toArray),
    ("keys", toJson i.cacheKeys)]

/-- {"grid", "pi", "reads": [property names], "route", "reads2": [property names]}: the instance model
(`Model/GridCache.lean`): construct, read the properties `reads` one after the other, restore through
`route`, read `reads2` on the restored instance.  Reported: the instance after each stage and the value
every read returned. -/
def instanceH (j : Json) : Except String Json := do
  let r ← construct cd (← fld j "grid")
  match r with
  | .error e => pure (Json.mkObj [("err", Json.str (errName e))])
  | .ok g =>
    let pi ← cd.get (← fld j "pi")
    let reads ← parseProps j "reads"
    let reads2 ← parseProps j "reads2"
    let route ← parseRoute (← fldS j "route")
    let i0 := g.construct
    let step := fun (st : GridInst K × List Json) (p : CProp) =>
      let rr := st.1.read pi p
      (rr.2, st.2 ++ [Json.arr #[Json.str p.name, jCVal cd rr.1]])
    let (i1, vals1) := reads.foldl step (i0, [])
    match i1.restore route with
    | .error e => pure (Json.mkObj [("constructed", jInst cd i0), ("restore_err", Json.str (errName e))])
    | .ok i2 =>
      let (i3, vals2) := reads2.foldl step (i2, [])
      pure (Json.mkObj [("constructed", jInst cd i0), ("after_reads", jInst cd i1),
        ("values", Json.arr vals1.toArray), ("restored", jInst cd i2),
        ("after_reads2", jInst cd i3), ("values2", Json.arr vals2.toArray)])

/-- {"tree": value, "via": "base" | class tag} -> from_state of an arbitrary (possibly malformed)
tree -/
def fromStateH (j : Json) : Except String Json := do
  let t : Val K ← getVal cd (← fld j "tree")
  let via ← fldS j "via"
  if via == "base" then pure (jRes (jObj cd) (fromState t))
  else
    let cls ← parseCls via
    match t with
    | .obj d => pure (jRes (jObj cd) (classFromState cls d))
    | _ => throw "tree must be an object"

/-- {"a": grid spec, "b": grid spec} -> `a == b` -/
def eqH (j : Json) : Except String Json := do
  let a ← construct cd (← fld j "a")
  let b ← construct cd (← fld j "b")
  match a, b with
  | .ok a, .ok b => pure (Json.mkObj [("eq", toJson (gridEq a b)), ("eq_rev", toJson (gridEq b a))])
  | _, _ => throw "eq: grids must be valid"

def mustGrid (j : Json) : Except String (GridObj K) := do
  match ← construct cd j with
  | .ok g => pure g
  | .error e => throw s!"grid spec invalid in the model: {errName e}"

def getFieldAttrs (j : Json) : Except String (FieldAttrs K) := do
  pure ⟨← parseFCls (← fldS j "fcls"), ← mustGrid cd (← fld j "grid"), ← optStr j "label",
    ← parseDType (← fldS j "dtype")⟩

/-- tampering with a serialised dictionary (malformed stream): {"drop": key} | {"set": [key, value]} -/
def tamper (d : Dict K) (j : Json) : Except String (Dict K) := do
  match fldOpt j "tamper" with
  | none | some .null => pure d
  | some t =>
    let d ← (match fldOpt t "drop" with
      | some (.str k) => pure (erase k d)
      | _ => pure d : Except String (Dict K))
    match fldOpt t "set" with
    | some (.arr #[.str k, v]) => do
      let v ← getVal cd v
      pure (if (lookup k d).isSome then d.map fun (k', v') => if k' = k then (k', v) else (k', v')
            else d ++ [(k, v)])
    | _ => pure d

def atoms (n : Nat) : List Atom := (List.range n).map fun (i : Nat) => ⟨(i : Int), false⟩

def dataArg (j : Json) : Except String (Option (List Atom)) :=
  match fldOpt j "n" with
  | none | some .null => pure none
  | some v => do pure (some (atoms (← v.getNat?)))

def jFieldObj (f : FieldObj K Atom) : Json :=
  Json.mkObj [("fcls", Json.str (fclsTag f.attrs.cls)), ("grid", jObj cd f.attrs.grid),
    ("label", jOptStr f.attrs.label), ("dtype", Json.str f.attrs.dtype.str),
    ("data", Json.arr (f.data.map jAtom).toArray)]

/-- one field: attributes_serialized -> unserialize_attributes -> from_state(attributes, data) -/
def fieldH (j : Json) : Except String Json := do
  let a ← getFieldAttrs cd (← fld j "field")
  let ser ← tamper cd a.serialized j
  let dd ← parseDType (← fldS j "data_dtype")
  let data ← dataArg j
  let res := do
    let u ← unserializeField ser
    fieldFromState castAtom u data dd
  pure (Json.mkObj [("serialized", putDict cd ser), ("result", jRes (jFieldObj cd) res),
    ("data_len", toJson (dataLen a.cls a.grid))])

/-- a collection: attributes_serialized -> unserialize_attributes -> from_state(attributes, data) -/
def collectionH (j : Json) : Except String Json := do
  let fs ← (← (← fld j "fields").getArr?).toList.mapM (getFieldAttrs cd)
  let a : CollAttrs K := ⟨← optStr j "label", ← parseDType (← fldS j "dtype"), fs⟩
  let ser ← tamper cd a.serialized j
  -- malformed stream: the class name of the last field replaced
  let ser : Dict K := match fldOpt j "tamper_last_field_class" with
    | some (.str name) => ser.map fun (k, v) =>
      if k = "fields" then
        match v with
        | .list l =>
          let n := l.length
          (k, .list ((List.range n).zip l |>.map fun (i, f) =>
            if i + 1 = n then
              match f with
              | .obj fd => .obj (fd.map fun (k', v') => if k' = "class" then (k', .str name) else (k', v'))
              | x => x
            else f))
        | _ => (k, v)
      else (k, v)
    | _ => ser
  let data ← dataArg j
  let res := do
    let u ← unserializeColl ser
    collFromState castAtom u data
  let jc (c : CollObj K Atom) : Json :=
    Json.mkObj [("label", jOptStr c.label), ("dtype", Json.str c.dtype.str),
      ("labels", Json.arr (c.labels.map jOptStr).toArray),
      ("fields", Json.arr (c.fields.map (jFieldObj cd)).toArray)]
  pure (Json.mkObj [("serialized", putDict cd ser), ("result", jRes jc res),
    ("data_len", toJson ((fs.map fun f => dataLen f.cls f.grid).foldr (· + ·) 0))])

/-- FieldCollection.from_data on `ncomp` component arrays -/
def fromDataH (j : Json) : Except String Json := do
  let g ← mustGrid cd (← fld j "grid")
  let classes ← (← (← fld j "classes").getArr?).toList.mapM fun v => do parseFCls (← v.getStr?)
  let ncomp ← fldN j "ncomp"
  let wg ← fldB j "with_ghost"
  let label ← optStr j "label"
  let labels ← (match fldOpt j "labels" with
    | none | some .null => pure none
    | some (.arr a) => do
      let l ← a.toList.mapM fun v => match v with
        | .null => pure none
        | .str s => pure (some s)
        | _ => throw "bad label"
      pure (some l)
    | some _ => throw "bad labels" : Except String (Option (List (Option String))))
  let dtype ← (match ← optStr j "dtype" with
    | none => pure none
    | some s => do pure (some (← parseDType s)) : Except String (Option DType))
  let dd ← parseDType (← fldS j "data_dtype")
  let old := (fldOpt j "old") == some (Json.bool true)
  let res := (if old then fromDataOld else fromData) castAtom g classes (atoms ncomp) wg label labels dtype dd
  let jc (c : DataColl Atom) : Json :=
    Json.mkObj [("label", jOptStr c.label), ("dtype", Json.str c.dtype.str),
      ("fields", Json.arr (c.fields.map fun (fc, l, comps) =>
        Json.mkObj [("fcls", Json.str (fclsTag fc)), ("label", jOptStr l),
          ("comps", Json.arr (comps.map jAtom).toArray)]).toArray)]
  let sl : List (Nat × Nat) := match res with
    | .ok c => c.slices
    | .error _ => collSlices g.dim classes
  pure (Json.mkObj [("result", jRes jc res),
    ("slices", toJson (sl.map fun ((s, e) : Nat × Nat) => [s, e])),
    ("slices_nominal", toJson ((collSlices g.dim classes).map fun ((s, e) : Nat × Nat) => [s, e])),
    ("dim", toJson g.dim), ("num_axes", toJson g.numAxes)])

end

def dispatch (hq : Json → Except String Json) (hf : Json → Except String Json) : Handler := fun j => do
  match fldOpt j "mode" with
  | some (.str "F") => hf j
  | _ => hq j

def handlers : List (String × Handler) := [
  ("c14.grid", dispatch (gridH codecQ) (gridH codecF)),
  ("c14.fromstate", dispatch (fromStateH codecQ) (fromStateH codecF)),
  ("c14.instance", dispatch (instanceH codecQ) (instanceH codecF)),
  ("c14.eq", dispatch (eqH codecQ) (eqH codecF)),
  ("c14.field", dispatch (fieldH codecQ) (fieldH codecF)),
  ("c14.collection", dispatch (collectionH codecQ) (collectionH codecF)),
  ("c14.fromdata", dispatch (fromDataH codecQ) (fromDataH codecF))]
end PdeVerif.Drv.C14
