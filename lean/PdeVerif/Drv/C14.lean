import PdeVerif.Json
namespace PdeVerif.Drv.C14
open Lean PdeVerif

def handlers : List (String × Handler) := []
end PdeVerif.Drv.C14
