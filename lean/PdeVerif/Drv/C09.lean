import PdeVerif.Json
import PdeVerif.Model.Interrupts
namespace PdeVerif.Drv.C09
open Lean PdeVerif PdeVerif.Interrupts

/-- {"mode":"Q"|"F","kind":"constant","dt":..,"t_start":null|..,"t0":..,"queries":[..]}
answers: list of the values returned by `initialize(t0)` followed by `next(q)` for each query -/
def run (j : Json) : Except String Json := do
  let mode ← fldS j "mode"
  let kind ← fldS j "kind"
  if mode == "Q" then
    let qs ← fldQs j "queries"
    let t0 ← fldQ j "t0"
    match kind with
    | "constant" =>
      let dt ← fldQ j "dt"
      let ts : Option Rat ← (match fldOpt j "t_start" with
        | some .null | none => pure none
        | some v => do pure (some (← getQ v)))
      let i := constInit ts t0
      pure (jQs (i :: runConst dt i qs))
    | "logarithmic" =>
      let dt ← fldQ j "dt_initial"
      let f ← fldQ j "factor"
      let ts : Option Rat ← (match fldOpt j "t_start" with
        | some .null | none => pure none
        | some v => do pure (some (← getQ v)))
      let i := constInit ts t0
      pure (jQs (i :: runLog f (dt / f, i) qs))
    | "fixed" =>
      let l ← fldQs j "interrupts"
      let r := runFixed l 0 (t0 :: qs)
      pure (Json.arr (r.map (fun o => match o with | none => Json.str "inf" | some q => jQ q)).toArray)
    | "geometric" =>
      let scale ← fldQ j "scale"
      let f ← fldQ j "factor"
      let fuel ← fldN j "fuel"
      let r := runGeom scale f fuel none (t0 :: qs)
      pure (Json.arr (r.map (fun o => match o with
        | none => Json.str "fuel"
        | some (q, k) => Json.arr #[jQ q, toJson k])).toArray)
    | _ => throw s!"unknown kind {kind}"
  else
    let qs ← fldFs j "queries"
    let t0 ← fldF j "t0"
    match kind with
    | "constant" =>
      let dt ← fldF j "dt"
      let ts : Option Float ← (match fldOpt j "t_start" with
        | some .null | none => pure none
        | some v => do pure (some (← getF v)))
      let i := constInit ts t0
      pure (jFs (i :: runConst dt i qs))
    | "logarithmic" =>
      let dt ← fldF j "dt_initial"
      let f ← fldF j "factor"
      let ts : Option Float ← (match fldOpt j "t_start" with
        | some .null | none => pure none
        | some v => do pure (some (← getF v)))
      let i := constInit ts t0
      pure (jFs (i :: runLog f (dt / f, i) qs))
    | "fixed" =>
      let l ← fldFs j "interrupts"
      let r := runFixed l 0 (t0 :: qs)
      pure (Json.arr (r.map (fun o => match o with | none => Json.str "inf" | some q => jF q)).toArray)
    | _ => throw s!"unknown kind {kind} for Float mode"

def handlers : List (String × Handler) := [("c09.run", run)]
end PdeVerif.Drv.C09
