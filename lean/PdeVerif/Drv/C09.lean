import PdeVerif.Json
import PdeVerif.Model.Interrupts
namespace PdeVerif.Drv.C09
open Lean PdeVerif PdeVerif.Interrupts

/-- {"mode":"Q"|"F","kind":"constant","dt":..,"t_start":null|..,"t0":..,"queries":[..]}
answers: list of the values returned by `initialize(t0)` followed by `next(q)` for each query -/
def run (j : Json) : Except String Json := do
  let mode ← fldS j "mode"
  let kind ← fldS j "kind"
  if mode == "Q" then
    let qs ← fldQs j "queries"
    let t0 ← fldQ j "t0"
    match kind with
    | "constant" =>
      let dt ← fldQ j "dt"
      let ts : Option Rat ← (match fldOpt j "t_start" with
        | some .null | none => pure none
        | some v => do pure (some (← getQ v)))
      let i := constInit ts t0
      pure (jQs (i :: runConst dt i qs))
    | "logarithmic" =>
      let dt ← fldQ j "dt_initial"
      let f ← fldQ j "factor"
      let ts : Option Rat ← (match fldOpt j "t_start" with
        | some .null | none => pure none
        | some v => do pure (some (← getQ v)))
      -- an earlier run on the same object: `initialize` keeps the grown period (`logReinit`)
      let st0 : Rat × Rat ← (match fldOpt j "warmup" with
        | some w => do
          let tw ← fldQ w "t0"
          let wq ← fldQs w "queries"
          pure (logReinit ts (logFinal f (dt / f, constInit ts tw) wq) t0)
        | none => pure (dt / f, constInit ts t0))
      pure (jQs (st0.2 :: runLog f st0 qs))
    | "fixed" =>
      let l ← fldQs j "interrupts"
      let r := runFixed l 0 (t0 :: qs)
      pure (Json.arr (r.map (fun o => match o with | none => Json.str "inf" | some q => jQ q)).toArray)
    | "geometric" =>
      let scale ← fldQ j "scale"
      let f ← fldQ j "factor"
      let fuel ← fldN j "fuel"
      -- `GeometricInterrupts.initialize` IS `next`: an earlier run on the same object simply continues
      -- (with "warm_last" = [value, k] the state after the earlier run is taken from the real run: the float
      -- logarithm of the code may round an exact lattice hit of the warm-up either way)
      let last : Option (Rat × Nat) ← (match fldOpt j "warm_last", fldOpt j "warmup" with
        | some (Json.arr #[v, k]), _ => do pure (some (← getQ v, ← getN k))
        | _, some w => do
          let tw ← fldQ w "t0"
          let wq ← fldQs w "queries"
          pure ((runGeom scale f fuel none (tw :: wq)).getLast?.join)
        | _, none => pure none)
      let r := runGeom scale f fuel last (t0 :: qs)
      pure (Json.arr (r.map (fun o => match o with
        | none => Json.str "fuel"
        | some (q, k) => Json.arr #[jQ q, toJson k])).toArray)
    | _ => throw s!"unknown kind {kind}"
  else
    let qs ← fldFs j "queries"
    let t0 ← fldF j "t0"
    match kind with
    | "constant" =>
      let dt ← fldF j "dt"
      let ts : Option Float ← (match fldOpt j "t_start" with
        | some .null | none => pure none
        | some v => do pure (some (← getF v)))
      let i := constInit ts t0
      pure (jFs (i :: runConst dt i qs))
    | "logarithmic" =>
      let dt ← fldF j "dt_initial"
      let f ← fldF j "factor"
      let ts : Option Float ← (match fldOpt j "t_start" with
        | some .null | none => pure none
        | some v => do pure (some (← getF v)))
      let st0 : Float × Float ← (match fldOpt j "warmup" with
        | some w => do
          let tw ← fldF w "t0"
          let wq ← fldFs w "queries"
          pure (logReinit ts (logFinal f (dt / f, constInit ts tw) wq) t0)
        | none => pure (dt / f, constInit ts t0))
      pure (jFs (st0.2 :: runLog f st0 qs))
    | "fixed" =>
      let l ← fldFs j "interrupts"
      let r := runFixed l 0 (t0 :: qs)
      pure (Json.arr (r.map (fun o => match o with | none => Json.str "inf" | some q => jF q)).toArray)
    | _ => throw s!"unknown kind {kind} for Float mode"

/-- c09.geomcode: `GeometricInterrupts` as the code computes it (`Interrupts.runGeomCode`), exact arithmetic.
{"scale","factor","sq","sq_inv","eps": rationals, "t0", "queries":[..], "exps":[int..]}  -- one oracle value
(= `np.ceil(np.log(t_min/scale)/np.log(factor))`, recovered by the harness from the real answer) per call,
`initialize(t0)` first.  `sq`, `sq_inv` are the doubles `factor**0.5`, `factor**-0.5`.
answer: {"consts_ok": the hypotheses `GeomConsts` of the theorems hold for (factor, sq, sq_inv, eps),
         "calls": [[t_min, answer, upper, lower]..]}  with upper/lower the two halves of `CeilLogOK`:
         `t_min/scale ≤ f^e*(1+eps)`, `f^(e-1) < (t_min/scale)*(1+eps)` -/
def geomCode (j : Json) : Except String Json := do
  let scale ← fldQ j "scale"
  let f ← fldQ j "factor"
  let sq ← fldQ j "sq"
  let sqInv ← fldQ j "sq_inv"
  let eps ← fldQ j "eps"
  let t0 ← fldQ j "t0"
  let qs ← fldQs j "queries"
  let es ← getL getI (← fld j "exps")
  let ts := t0 :: qs
  if es.length ≠ ts.length then throw "one oracle value per call expected"
  let calls := List.zip ts es
  let r := runGeomCode scale f sq sqInv none calls
  let constsOk : Bool := decide (1 < f) && decide (0 ≤ eps) && decide (1 + eps < sq) &&
    decide (sq * (1 + eps) ≤ f) && decide (1 + eps < sqInv * f) && decide (sqInv * (1 + eps) ≤ 1) &&
    decide (0 < scale)
  let rows := (List.zip calls r).map (fun (p : (Rat × Int) × (Rat × Rat)) =>
    let e := p.1.2
    let x := p.2.1 / scale
    let up : Bool := decide (x ≤ powInt f e * (1 + eps))
    let lo : Bool := decide (powInt f (e - 1) < x * (1 + eps))
    Json.arr #[jQ p.2.1, jQ p.2.2, toJson up, toJson lo])
  pure (Json.mkObj [("consts_ok", toJson constsOk), ("calls", Json.arr rows.toArray)])

def handlers : List (String × Handler) := [("c09.run", run), ("c09.geomcode", geomCode)]
end PdeVerif.Drv.C09
