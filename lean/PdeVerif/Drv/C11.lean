import PdeVerif.Json
namespace PdeVerif.Drv.C11
open Lean PdeVerif

def handlers : List (String × Handler) := []
end PdeVerif.Drv.C11
