import PdeVerif.Json
import PdeVerif.Model.Expr
import PdeVerif.Model.ExprIndex
/-
Driver of the expression model (C11; the AST reader/writer is shared with C10).
Evaluates `PdeVerif.Ex.exprFunction` / `eval` / `diff` - the definitions the theorems of
`Props/C11.lean` are about - at `Rat` (exact, rational fragment) or `Float` (libm table).
-/
namespace PdeVerif.Drv.C11
open Lean PdeVerif PdeVerif.Ex

/-! ### AST <-> JSON -/

def cmpOfString (s : String) : Except String Cmp :=
  match s with
  | "lt" => pure .lt | "le" => pure .le | "gt" => pure .gt | "ge" => pure .ge
  | _ => throw s!"unknown comparison {s}"

def cmpToString : Cmp → String
  | .lt => "lt" | .le => "le" | .gt => "gt" | .ge => "ge"

partial def exprOfJson (j : Json) : Except String Expr := do
  let k ← fldS j "k"
  match k with
  | "num" => pure (.num (← fldQ j "v"))
  | "var" => pure (.var (← fldS j "n"))
  | "idx" => pure (.idx (← fldS j "n") (← fldN j "i"))
  | "named" => pure (.named (← fldS j "n"))
  | "neg" => pure (.neg (← exprOfJson (← fld j "a")))
  | "add" => pure (.add (← exprOfJson (← fld j "a")) (← exprOfJson (← fld j "b")))
  | "sub" => pure (.sub (← exprOfJson (← fld j "a")) (← exprOfJson (← fld j "b")))
  | "mul" => pure (.mul (← exprOfJson (← fld j "a")) (← exprOfJson (← fld j "b")))
  | "div" => pure (.div (← exprOfJson (← fld j "a")) (← exprOfJson (← fld j "b")))
  | "powi" => pure (.powI (← exprOfJson (← fld j "a")) (← fldI j "n"))
  | "call1" => pure (.call1 (← fldS j "f") (← exprOfJson (← fld j "a")))
  | "call2" => pure (.call2 (← fldS j "f") (← exprOfJson (← fld j "a")) (← exprOfJson (← fld j "b")))
  | "heav1" => pure (.heav1 (← exprOfJson (← fld j "a")))
  | "heav2" => pure (.heav2 (← exprOfJson (← fld j "a")) (← exprOfJson (← fld j "h")))
  | "cmp" => pure (.cmp (← cmpOfString (← fldS j "op")) (← exprOfJson (← fld j "a")) (← exprOfJson (← fld j "b")))
  -- `Piecewise((a, h), (b, True))`: the model's `select` (theorems `select_eval`, `select_cmp_eval`)
  | "pw" => pure (select (← exprOfJson (← fld j "h")) (← exprOfJson (← fld j "a")) (← exprOfJson (← fld j "b")))
  | _ => throw s!"unknown node kind {k}"

def node (k : String) (fs : List (String × Json)) : Json := Json.mkObj (("k", Json.str k) :: fs)

def exprToJson : Expr → Json
  | .num q => node "num" [("v", jQ q)]
  | .var x => node "var" [("n", Json.str x)]
  | .idx x i => node "idx" [("n", Json.str x), ("i", toJson i)]
  | .named c => node "named" [("n", Json.str c)]
  | .neg a => node "neg" [("a", exprToJson a)]
  | .add a b => node "add" [("a", exprToJson a), ("b", exprToJson b)]
  | .sub a b => node "sub" [("a", exprToJson a), ("b", exprToJson b)]
  | .mul a b => node "mul" [("a", exprToJson a), ("b", exprToJson b)]
  | .div a b => node "div" [("a", exprToJson a), ("b", exprToJson b)]
  | .powI a n => node "powi" [("a", exprToJson a), ("n", toJson n)]
  | .call1 f a => node "call1" [("f", Json.str f), ("a", exprToJson a)]
  | .call2 f a b => node "call2" [("f", Json.str f), ("a", exprToJson a), ("b", exprToJson b)]
  | .heav1 a => node "heav1" [("a", exprToJson a)]
  | .heav2 a h => node "heav2" [("a", exprToJson a), ("h", exprToJson h)]
  | .cmp op a b => node "cmp" [("op", Json.str (cmpToString op)), ("a", exprToJson a), ("b", exprToJson b)]

/-! ### function tables -/

def floatPi : Float := 3.141592653589793

/-- Maclaurin series of the error function, `2/sqrt(pi) * sum (-1)^n x^(2n+1) / (n! (2n+1))`
(used for |x| <= 3: 90 terms, relative error below 1e-13) -/
def erfSeries (x : Float) : Float := Id.run do
  let mut term := x
  let mut sum := x
  for n in [1:90] do
    let nf := n.toFloat
    term := -term * x * x / nf
    sum := sum + term / (2.0 * nf + 1.0)
  return 2.0 / Float.sqrt floatPi * sum

/-- continued fraction of the complementary error function for x > 3:
`erfc x = exp(-x^2)/sqrt(pi) / (x + (1/2)/(x + 1/(x + (3/2)/(x + ...))))`, 80 levels -/
def erfcFrac (x : Float) : Float := Id.run do
  let mut f := x
  for i in [0:80] do
    let k := (80 - i).toFloat
    f := x + (k / 2.0) / f
  return Float.exp (-(x * x)) / Float.sqrt floatPi / f

/-- the error function (py-pde's special function `erf` = `scipy.special.erf`).  Lean's `Float`
has no erf: this is a numerical implementation, accurate to 1e-13 relative (measured against
mpmath; the harness compares every value with libm's erf at 1e-9 as its second reference).
In the AST `erf` is an ordinary unary function symbol: all theorems hold for any table. -/
def floatErf (x : Float) : Float :=
  let a := Float.abs x
  if a <= 3.0 then erfSeries x
  else if x > 0.0 then 1.0 - erfcFrac a else -(1.0 - erfcFrac a)

/-- libm (Python's `math`/numpy use the same C library functions); `floatErf` above -/
def floatPrims : Prims Float where
  pi := floatPi
  e := Float.exp 1.0
  sin := Float.sin
  cos := Float.cos
  tan := Float.tan
  exp := Float.exp
  log := Float.log
  sqrt := Float.sqrt
  tanh := Float.tanh
  sinh := Float.sinh
  cosh := Float.cosh
  atan := Float.atan
  asin := Float.asin
  acos := Float.acos
  asinh := Float.asinh
  atanh := Float.atanh
  floor := Float.floor
  ceil := Float.ceil
  erf := floatErf
  pow := Float.pow
  atan2 := Float.atan2

/-- the table of the theorems (`PdeVerif.Ex.primTab`) at libm's primitives -/
def floatTab : FunTab Float := primTab floatPrims

def floatFun1 : List String := primFun1 ++ ["abs", "Abs", "sign"]
def floatFun2 : List String := primFun2 ++ ["Max", "Min"]

/-- every function name of the expression is interpreted (by the table or a user definition) -/
def knownFuns (u1 u2 : List String) : Expr → Bool
  | .num _ | .var _ | .idx _ _ => true
  | .named c => c = "pi" || c = "E"
  | .neg a | .powI a _ | .heav1 a => knownFuns u1 u2 a
  | .add a b | .sub a b | .mul a b | .div a b | .heav2 a b | .cmp _ a b =>
    knownFuns u1 u2 a && knownFuns u1 u2 b
  | .call1 f a => (floatFun1.contains f || u1.contains f) && knownFuns u1 u2 a
  | .call2 f a b => (floatFun2.contains f || u2.contains f) && knownFuns u1 u2 a && knownFuns u1 u2 b

/-! ### request decoding -/

def udefOfJson (j : Json) : Except String UDef := do
  let name ← fldS j "name"
  let params ← getL getS (← fld j "params")
  let body ← exprOfJson (← fld j "body")
  pure { name, params, body }

def valOfJson {K : Type} (num : Json → Except String K) (j : Json) : Except String (Val K) :=
  match j with
  | .arr a => do pure (Val.vec (← a.toList.mapM num))
  | _ => do pure (Val.sc (← num j))

def pairOfJson {α : Type} (f : Json → Except String α) (j : Json) : Except String (String × α) := do
  match j with
  | .arr #[a, b] => pure (← getS a, ← f b)
  | _ => throw s!"expected a pair, got {j.compress}"

structure Req (K : Type) where
  rank : Nat
  scalar : Expr
  vec : List Expr
  mat : List (List Expr)
  sig : List (List String)
  consts : List (String × Val K)
  /-- constants that are arrays over the points (one value per point) -/
  pconsts : List (String × List (Val K))
  repl : List (String × String)
  udefs : List UDef
  points : List (List (Val K))
  dvars : List String
  single : Bool

def reqOfJson {K : Type} (num : Json → Except String K) (j : Json) : Except String (Req K) := do
  let rank ← fldN j "rank"
  let ej ← fld j "expr"
  let scalar ← if rank == 0 then exprOfJson ej else pure (.num 0)
  let vec ← if rank == 1 then getL exprOfJson ej else pure []
  let mat ← if rank == 2 then getL (getL exprOfJson) ej else pure []
  let sig ← getL (getL getS) (← fld j "sig")
  let consts ← getL (pairOfJson (valOfJson num)) (← fld j "consts")
  let pconsts ← match fldOpt j "pconsts" with
    | some v => getL (pairOfJson (getL (valOfJson num))) v
    | none => pure []
  let repl ← getL (pairOfJson getS) (← fld j "repl")
  let udefs ← getL udefOfJson (← fld j "ufuncs")
  let points ← getL (getL (valOfJson num)) (← fld j "points")
  let dvars ← match fldOpt j "diff" with
    | some v => getL getS v
    | none => pure []
  let single ← match fldOpt j "single" with
    | some v => getB v
    | none => pure false
  pure { rank, scalar, vec, mat, sig, consts, pconsts, repl, udefs, points, dvars, single }

section
variable {K : Type} [Add K] [Sub K] [Mul K] [Div K] [Neg K] [NatCast K] [IntCast K]

/-- value of one scalar expression at one point through the model of the generated function;
`ok` decides whether the value is reported (definedness at exact number types) -/
def callScalar (T : FunTab K) (r : Req K) (ok : Env K → Expr → Bool) (num : K → Json) (e : Expr)
    (args : List (Val K)) : Json :=
  let args' : List (Val K) := if r.single then
      match args with
      | [Val.vec l] => l.map Val.sc
      | _ => args
    else args
  match exprFunction T r.sig r.consts r.repl e args' with
  | none => Json.str "rejected"
  | some v =>
    if ok (callEnv r.sig r.consts args') (prepare r.sig r.repl e) then num v else Json.str "undef"

/-- derivative of the *prepared* expression (the sympy expression after alias renaming is what
`differentiate` differentiates), evaluated in the environment of the call -/
def callDeriv (T : FunTab K) (r : Req K) (ok : Env K → Expr → Bool) (num : K → Json) (x : String)
    (e : Expr) (args : List (Val K)) : Json :=
  let d := diff x (prepare r.sig r.repl e)
  if checkSignature r.sig (r.consts.map Prod.fst) r.repl e && args.length == r.sig.length then
    let env := callEnv r.sig r.consts args
    if ok env d && ok env (prepare r.sig r.repl e) then num (eval T env d) else Json.str "undef"
  else Json.str "rejected"

/-- apply `f` to every component, keeping the array structure -/
def shapeMap (r : Req K) (f : Expr → Json) : Json :=
  match r.rank with
  | 0 => f r.scalar
  | 1 => Json.arr (r.vec.map f).toArray
  | _ => Json.arr (r.mat.map (fun row => Json.arr (row.map f).toArray)).toArray

def answer (T : FunTab K) (r : Req K) (ok : Env K → Expr → Bool) (num : K → Json) : Json :=
  let T' := withUser T r.udefs
  let atPt (i : Nat) : Req K :=
    { r with consts := r.consts ++ r.pconsts.filterMap (fun p => (p.2[i]?).map (fun v => (p.1, v))) }
  let pts := r.points.zipIdx
  let vals := pts.map (fun (args, i) =>
    shapeMap r (fun e => callScalar T' (atPt i) ok num e args))
  let dvals := r.dvars.map (fun x =>
    Json.arr (pts.map (fun (args, i) =>
      shapeMap r (fun e => callDeriv T' (atPt i) ok num x e args))).toArray)
  let dexprs := r.dvars.map (fun x =>
    shapeMap r (fun e => exprToJson (diff x (prepare r.sig r.repl e))))
  Json.mkObj [("vals", Json.arr vals.toArray), ("dvals", Json.arr dvals.toArray),
              ("dexprs", Json.arr dexprs.toArray)]

end

def mainExprs {K : Type} (r : Req K) : List Expr :=
  match r.rank with
  | 0 => [r.scalar]
  | 1 => r.vec
  | _ => r.mat.flatten

/-- {"mode":"Q"|"F","rank":0|1|2,"expr":..,"sig":..,"consts":..,"repl":..,"ufuncs":..,
"points":[[..]..],"diff":[..],"single":bool} -/
def evalReq (j : Json) : Except String Json := do
  let mode ← fldS j "mode"
  if mode == "Q" then
    let r ← reqOfJson getQ j
    let u := (r.udefs.filter (fun d => rationalFragment [] d.body)).map (·.name)
    if !(mainExprs r).all (rationalFragment u) then throw "not in the rational fragment"
    let T : FunTab Rat := algTab
    let dT := withUser T r.udefs
    pure (answer T r (fun env e => defined dT env e) jQ)
  else
    let r ← reqOfJson getF j
    let u1 := (r.udefs.filter (fun d => d.params.length == 1)).map (·.name)
    let u2 := (r.udefs.filter (fun d => d.params.length == 2)).map (·.name)
    if !(mainExprs r ++ r.udefs.map (·.body)).all (knownFuns u1 u2) then
      throw "uninterpreted function or constant"
    pure (answer floatTab r (fun _ _ => true) jF)

/-! ### indexing of array expressions (`TensorExpression.__getitem__`) -/

def tenOfReq {K : Type} (r : Req K) : Ten Expr :=
  match r.rank with
  | 0 => .sc r.scalar
  | 1 => .vec r.vec
  | _ => .mat r.mat

def tenToJson {α : Type} (f : α → Json) : Ten α → Json
  | .sc a => f a
  | .vec l => Json.arr (l.map f).toArray
  | .mat m => Json.arr (m.map (fun row => Json.arr (row.map f).toArray)).toArray

def optIntOfJson (j : Json) : Except String (Option Int) :=
  match j with
  | .null => pure none
  | _ => do pure (some (← getI j))

/-- {"at": i} | {"slice": [a|null, b|null]} -/
def ixOfJson (j : Json) : Except String Ix :=
  match fldOpt j "at" with
  | some v => do pure (.at (← getI v))
  | none => do
    match ← fld j "slice" with
    | .arr #[a, b] => pure (.slice (← optIntOfJson a) (← optIntOfJson b))
    | _ => throw "bad slice"

section
variable {K : Type} [Add K] [Sub K] [Mul K] [Div K] [Neg K] [NatCast K] [IntCast K]

/-- one index of one array expression: the model of `expr[index]` - its shape, whether it depends on each
variable, its values `chainFunction` (definition of the theorems `chain_function_eval`, `chainFunction_single`,
`index_function_eval`) at every point with
the definedness of every component, and the values of `expr[index].differentiate(x)` -/
def answerIndex (T : FunTab K) (r : Req K) (ok : Env K → Expr → Bool) (num : K → Json)
    (chain : List (List Ix)) : Json :=
  let T' := withUser T r.udefs
  let t := tenOfReq r
  let atPt (i : Nat) : Req K :=
    { r with consts := r.consts ++ r.pconsts.filterMap (fun p => (p.2[i]?).map (fun v => (p.1, v))) }
  match getChain (t.map (prepare r.sig r.repl)) chain with
  | none => Json.mkObj [("ok", Json.bool false)]
  | some t' =>
    let pts := r.points.zipIdx
    let vals := pts.map (fun (args, i) =>
      let ri := atPt i
      match chainFunction T' ri.sig ri.consts ri.repl t chain args with
      | none => Json.str "rejected"
      | some v => tenToJson num v)
    let defd := pts.map (fun (args, i) =>
      let ri := atPt i
      tenToJson (fun e => Json.bool (ok (callEnv (varsSig ri.sig) ri.consts args) e)) t')
    let dvals := r.dvars.map (fun x =>
      Json.arr (pts.map (fun (args, i) =>
        let ri := atPt i
        match tensorFunction T' (varsSig ri.sig) ri.consts [] (t'.map (diff x)) args with
        | none => Json.str "rejected"
        | some v => tenToJson num v)).toArray)
    let ddefd := r.dvars.map (fun x =>
      Json.arr (pts.map (fun (args, i) =>
        let ri := atPt i
        tenToJson (fun e => Json.bool (ok (callEnv (varsSig ri.sig) ri.consts args) (diff x e) &&
          ok (callEnv (varsSig ri.sig) ri.consts args) e)) t')).toArray)
    let dexprs := r.dvars.map (fun x => tenToJson (fun e => exprToJson (diff x e)) t')
    Json.mkObj [("ok", Json.bool true), ("rank", toJson t'.rank), ("shape", toJson t'.shape),
      ("depends", Json.arr ((sigVars r.sig).map (fun v =>
        Json.bool (dependsOn (varsSig r.sig) [] t' v))).toArray),
      ("vals", Json.arr vals.toArray), ("defined", Json.arr defd.toArray),
      ("dvals", Json.arr dvals.toArray), ("ddefined", Json.arr ddefd.toArray),
      ("dexprs", Json.arr dexprs.toArray)]

def answerIndices (T : FunTab K) (r : Req K) (ok : Env K → Expr → Bool) (num : K → Json)
    (ixs : List (List (List Ix))) : Json :=
  let t := tenOfReq r
  Json.mkObj [("rank", toJson t.rank), ("shape", toJson t.shape),
    ("depends", Json.arr ((sigVars r.sig).map (fun v =>
      Json.bool (dependsOn r.sig r.repl t v))).toArray),
    ("indices", Json.arr (ixs.map (answerIndex T r ok num)).toArray)]

end

/-- the request of `c11.eval` plus "indices": a list of CHAINS `expr[ix1][ix2]..`, each a list of index tuples
[{"at":i}|{"slice":[a,b]}, ..] -/
def indexReq (j : Json) : Except String Json := do
  let mode ← fldS j "mode"
  let ixs ← getL (getL (getL ixOfJson)) (← fld j "indices")
  if mode == "Q" then
    let r ← reqOfJson getQ j
    let u := (r.udefs.filter (fun d => rationalFragment [] d.body)).map (·.name)
    if !(mainExprs r).all (rationalFragment u) then throw "not in the rational fragment"
    let T : FunTab Rat := algTab
    let dT := withUser T r.udefs
    pure (answerIndices T r (fun env e => defined dT env e) jQ ixs)
  else
    let r ← reqOfJson getF j
    let u1 := (r.udefs.filter (fun d => d.params.length == 1)).map (·.name)
    let u2 := (r.udefs.filter (fun d => d.params.length == 2)).map (·.name)
    if !(mainExprs r ++ r.udefs.map (·.body)).all (knownFuns u1 u2) then
      throw "uninterpreted function or constant"
    pure (answerIndices floatTab r (fun _ _ => true) jF ixs)

/-- {"expr":..,"x":".."} -> AST of `diff x expr` -/
def diffReq (j : Json) : Except String Json := do
  let e ← exprOfJson (← fld j "expr")
  let x ← fldS j "x"
  pure (exprToJson (diff x e))

def handlers : List (String × Handler) :=
  [("c11.eval", evalReq), ("c11.diff", diffReq), ("c11.index", indexReq)]
end PdeVerif.Drv.C11
