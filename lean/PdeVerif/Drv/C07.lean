import PdeVerif.Json
namespace PdeVerif.Drv.C07
open Lean PdeVerif

def handlers : List (String × Handler) := []
end PdeVerif.Drv.C07
