import PdeVerif.Json
import PdeVerif.Model.Controller
import PdeVerif.Model.ControllerHeap
import PdeVerif.Model.StepMaps
namespace PdeVerif.Drv.C07
open Lean PdeVerif PdeVerif.Interrupts PdeVerif.Controller PdeVerif.StepMaps

/-
c07.run (also used by C08)
{"mode":"Q"|"F", ["stepper":"exact","fuel":n,] "dt":x, "t_start":x, "t_end":x, "eps":x, "u0":x,
 "eq":"one"|"time"|"timeshift" (+"shift":x)      -- the scheme's exact one-step map for u'=1, u'=t: u + dt*(t + shift)
     |"hook" (+"a":x)                             -- u'=1 and a post-step hook with persistent data: data += 1; u += a*data
     |"lin"|"lint" (+"a":x)                       -- u' = a*u, u' = a*u + t: the solver's own operations (Model/StepMaps.lean)
 ["solver":"euler"|"runge-kutta"|"implicit"|"crank-nicolson"|"adams-bashforth", "cells":n, "maxiter":n, "maxerr2":x,]
 "trackers":[{"kind":"callback"|"storage"|"data",
              "sched":{"kind":"constant","dt":x,"t_start":null|x}
                     |{"kind":"logarithmic","dt_initial":x,"factor":x,"t_start":null|x}
                     |{"kind":"fixed","interrupts":[x..]}
                     |{"kind":"geometric","scale":x,"factor":x,"fuel":n}
                     |{"kind":"oracle","answers":[x|"inf"..]},
              "stops":[[call index,"S"|"F","msg"],..]}]}
numbers x: "p/q" in mode Q, "b:<bits>" in mode F.
the simulated state of the controller model is `SolverState K` (cell value, persistent stepper state, or a raised
ConvergenceError); reported are the cell values.
answer: {"t_final","steps","state","aux","initial","exit","stop_reason","successful","iters",
         "trace":[[tracker,t,u]..], "trackers":[{"calls","times","frames","finalized","due"}..]}

c07.heap: the same request plus "heap":{"before":[x..],"after":[x..]} - the cell values of the field objects that
exist besides the caller's initial state (addresses 0.., the caller's object, then the rest).  Evaluates the heap-level
model `Controller.runHeapSpec` (Model/ControllerHeap.lean: `copy()` allocates, the stepper writes in place); "state" is
the content of the returned object, "initial" the content of the caller's object after the run; additional fields
"caller" / "obj" (addresses), "aliased" (returned object is the caller's), "allocs", "heap_before", "heap_after"
(cell values of all objects in address order).
-/

section
variable {K : Type} [Add K] [Sub K] [Mul K] [Div K] [Neg K] [NatCast K] [IntCast K]
variable [LT K] [DecidableLT K] [LE K] [DecidableLE K] [HasFloor K]

def getOptK (getK : Json → Except String K) (j : Json) (k : String) : Except String (Option K) :=
  match fldOpt j k with
  | some .null | none => pure none
  | some v => do pure (some (← getK v))

def getInfK (getK : Json → Except String K) (j : Json) : Except String (Option K) :=
  match j with
  | .str "inf" => pure none
  | v => do pure (some (← getK v))

def parseSched (getK : Json → Except String K) (j : Json) : Except String (SchedSpec K) := do
  let kind ← fldS j "kind"
  match kind with
  | "constant" => pure (.const (← getK (← fld j "dt")) (← getOptK getK j "t_start"))
  | "logarithmic" =>
    pure (.log (← getK (← fld j "dt_initial")) (← getK (← fld j "factor")) (← getOptK getK j "t_start"))
  | "fixed" => pure (.fixed (← getL getK (← fld j "interrupts")))
  | "geometric" => pure (.geom (← getK (← fld j "scale")) (← getK (← fld j "factor")) (← fldN j "fuel"))
  | "oracle" => pure (.oracle (← getL (getInfK getK) (← fld j "answers")))
  | _ => throw s!"unknown schedule kind {kind}"

def parseStop (j : Json) : Except String (Nat × StopReq) := do
  let a ← j.getArr?
  match a.toList with
  | [n, k, m] =>
    let n ← getN n
    let m ← getS m
    match (← getS k) with
    | "S" => pure (n, .stopIteration m)
    | "F" => pure (n, .finished m)
    | s => throw s!"bad stop kind {s}"
  | _ => throw "bad stop entry"

def parseTracker (getK : Json → Except String K) (j : Json) : Except String (TrackerSpec K (SolverState K)) := do
  let kind ← (match (← fldS j "kind") with
    | "callback" => pure Kind.callback
    | "storage" => pure Kind.storage
    | "data" => pure Kind.data
    | s => throw s!"unknown tracker kind {s}")
  let sched ← parseSched getK (← fld j "sched")
  let stops ← getL parseStop (← fld j "stops")
  pure { kind := kind, sched := sched, stopAt := fun n _ _ => stops.lookup n }

def exitTag : Exit → String
  | .final => "final"
  | .stopped _ => "stopped"
  | .finalStopped _ => "final-stopped"
  | .fuel => "fuel"

def isBroken : Sched K → Bool
  | .broken => true
  | _ => false

def runJson (getK : Json → Except String K) (putK : K → Json) (j : Json) : Except String Json := do
  let dt ← getK (← fld j "dt")
  let tStart ← getK (← fld j "t_start")
  let tEnd ← getK (← fld j "t_end")
  let eps ← getK (← fld j "eps")
  let u0 ← getK (← fld j "u0")
  let eq ← fldS j "eq"
  let lift : (K → K → K) → SolverState K → K → SolverState K :=
    fun g s t => s.map (fun p => (g p.1 t, p.2))
  let solver := (match fldOpt j "solver" with | some (.str s) => s | _ => "euler")
  let sch : Scheme ← (match solver with
    | "euler" => pure Scheme.euler
    | "runge-kutta" => pure Scheme.rk4
    | "implicit" => pure Scheme.implicit
    | "crank-nicolson" => pure Scheme.cn
    | "adams-bashforth" => pure Scheme.ab2
    | s => throw s!"unknown solver {s}")
  let schemeOf : Rate K → Except String ((SolverState K → K → SolverState K) × SolverState K) := fun f => do
    let p : Params K := { cells := ← fldN j "cells", maxiter := ← fldN j "maxiter",
                          maxerr2 := ← getK (← fld j "maxerr2") }
    pure (stepOf sch f p dt, initState sch f dt tStart u0)
  let (step, s0) ← (match eq with
    | "one" => pure (lift (fun u _ => u + dt * ((1 : Nat) : K)), some (u0, u0))
    | "time" => pure (lift (fun u t => u + dt * t), some (u0, u0))
    | "timeshift" => do
      let c ← getK (← fld j "shift")
      pure (lift (fun u t => u + dt * (t + c)), some (u0, u0))
    | "hook" => do
      -- u' = 1 with a post-step hook that counts the steps in `post_step_data` (second component of the solver
      -- state: it lives in `solver.info` between stepper calls): `data += 1; state += a * data`
      let a ← getK (← fld j "a")
      pure (fun s _ => s.map (fun p => let k := p.2 + ((1 : Nat) : K); (p.1 + dt * ((1 : Nat) : K) + a * k, k)),
            some (u0, ((0 : Nat) : K)))
    | "lin" => do schemeOf (rateLin (← getK (← fld j "a")))
    | "lint" => do schemeOf (rateLinT (← getK (← fld j "a")))
    | s => throw s!"unknown equation {s}")
  let specs ← getL (parseTracker getK) (← fld j "trackers")
  let exact := (match fldOpt j "stepper" with | some (.str "exact") => true | _ => false)
  -- exact steppers (ScipySolver): the compared state is that of u' = 1, `flow u t s = u + (s - t)`
  let fuel : Nat ← (if exact then fldN j "fuel" else pure 0)
  let heapReq := fldOpt j "heap"
  if exact && heapReq.isSome then throw "heap mode is for the fixed steppers only"
  let mkObjs : Json → String → Except String (List (SolverState K)) := fun hj k => do
    let xs ← getL getK (← fld hj k)
    pure (xs.map (fun x => some (x, x)))
  let (hp, caller) ← (match heapReq with
    | some hj => do
      let before ← mkObjs hj "before"
      let after ← mkObjs hj "after"
      pure (Heap.ofList (before ++ [s0] ++ after) s0, before.length)
    | none => pure (Heap.ofList [s0] s0, 0))
  let R := runHeapSpec dt tStart tEnd eps step hp caller specs
  let r : Result K (SolverState K) (Sched K) :=
    if heapReq.isSome then
      { tFinal := R.tFinal, state := R.heap.cell R.obj, initial := R.heap.cell caller, steps := R.steps,
        trackers := R.trackers, trace := R.trace, exit := R.exit, iters := R.iters }
    else if exact then
      runExactSpec dt tStart tEnd eps (fun s t e => s.map (fun p => (p.1 + (e - t), p.2))) s0 specs fuel
    else runSpec dt tStart tEnd eps step s0 specs
  let putS : SolverState K → Json := fun s => match s with
    | none => Json.str "ConvergenceError"
    | some p => putK p.1
  let putA : SolverState K → Json := fun s => match s with
    | none => Json.str "ConvergenceError"
    | some p => putK p.2
  if r.trackers.any (fun tr => isBroken tr.sched) then throw "geometric search out of fuel"
  let putO : Option K → Json := fun o => match o with | none => Json.str "inf" | some x => putK x
  pure (Json.mkObj ([
    ("t_final", putK r.tFinal), ("steps", toJson r.steps), ("state", putS r.state),
    ("aux", putA r.state), ("initial", putS r.initial), ("exit", Json.str (exitTag r.exit)),
    ("stop_reason", Json.str r.exit.reason), ("successful", toJson r.exit.successful),
    ("iters", toJson r.iters),
    ("trace", Json.arr (r.trace.map (fun e => Json.arr #[toJson e.1, putK e.2.1, putS e.2.2])).toArray),
    ("trackers", Json.arr (r.trackers.map (fun tr => Json.mkObj [
      ("calls", toJson tr.calls), ("times", Json.arr (tr.times.map putK).toArray),
      ("frames", Json.arr (tr.frames.map putS).toArray), ("finalized", toJson tr.finalized),
      ("due", putO tr.due)])).toArray)] ++
    (if heapReq.isSome then [
      ("caller", toJson caller), ("obj", toJson R.obj), ("aliased", toJson (R.obj == caller)),
      ("allocs", toJson (R.heap.next - hp.next)),
      ("heap_before", Json.arr (hp.toList.map putS).toArray),
      ("heap_after", Json.arr (R.heap.toList.map putS).toArray)] else [])))

end

def run (j : Json) : Except String Json := do
  let mode ← fldS j "mode"
  if mode == "Q" then runJson (K := Rat) getQ jQ j
  else runJson (K := Float) getF jF j

def runHeapH (j : Json) : Except String Json := do
  if (fldOpt j "heap").isNone then throw "c07.heap: field `heap` missing"
  run j

def handlers : List (String × Handler) := [("c07.run", run), ("c07.heap", runHeapH)]
end PdeVerif.Drv.C07
