import PdeVerif.Json
namespace PdeVerif.Drv.C19
open Lean PdeVerif

def handlers : List (String × Handler) := []
end PdeVerif.Drv.C19
