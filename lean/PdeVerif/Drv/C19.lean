import PdeVerif.Json
import PdeVerif.Model.Coords
import PdeVerif.Model.CoordsBi
/-
Driver of the C19 model: every handler evaluates the definitions of `PdeVerif.Coords` (the ones
the theorems of `Props/C19.lean` are about) at `Rat`.  Angles travel as exact rational pairs
`(c, s)` (either the doubles numpy computed, or exact Pythagorean pairs).
-/
namespace PdeVerif.Drv.C19
open Lean PdeVerif PdeVerif.Grids PdeVerif.Coords

def parseCls (s : String) : Except String GridClass :=
  match s with
  | "unit" => pure .unit
  | "cartesian" => pure .cartesian
  | "polar" => pure .polar
  | "spherical" => pure .spherical
  | "cylindrical" => pure .cylindrical
  | _ => throw s!"unknown grid class {s}"

def allAx : List Ax := [.r, .θ, .φ, .z, .x, .y, .σ, .τ]

def parseAx (s : String) : Except String Ax :=
  match allAx.find? (fun a => a.name == s) with
  | some a => pure a
  | none => throw s!"unknown axis {s}"

def jAxs (l : List Ax) : Json := toJson (l.map Ax.name)
def jMat (m : Mat Rat) : Json := Json.arr (m.map jQs).toArray
def getMat (j : Json) : Except String (Mat Rat) := getL (getL getQ) j
def jOptN : Option Nat → Json
  | none => Json.null
  | some i => toJson i
def jOptAx : Option Ax → Json
  | none => Json.null
  | some a => Json.str a.name

/-- matrices of one coordinate system at one point.
polar/cylindrical: p = [r, c, s]; spherical: p = [r, ct, st, cp, sp];
bipolar: p = [a, c, s, ch, sh]; bispherical: p = [a, c, s, ch, sh, cp, sp] -/
def csAt (sys : String) (p : List Rat) : Except String Json := do
  let (jac, scale, bas) ← (match sys, p with
    | "polar", [r, c, s] => pure (polarJac r c s, polarScale r, polarBasis c s)
    | "cylindrical", [r, c, s] => pure (cylJac r c s, cylScale r, cylBasis c s)
    | "spherical", [r, ct, st, cp, sp] => pure (sphJac r ct st cp sp, sphScale r st, sphBasis ct st cp sp)
    | "bipolar", [a, c, s, ch, sh] =>
      if c - ch = 0 then throw "focus" else
      pure (bipolarJac a c s ch sh, bipolarScale a c ch, bipolarBasis c s ch sh)
    | "bispherical", [a, c, s, ch, sh, cp, sp] =>
      if c - ch = 0 then throw "focus" else
      pure (bisphJac a c s ch sh cp sp, bisphScale a c s ch, bisphBasis c s ch sh cp sp)
    | _, _ => throw s!"bad coordinate system / parameters {sys} {p.length}" :
      Except String (Mat Rat × Vec Rat × Mat Rat))
  pure <| Json.mkObj [
    ("jac", jMat jac), ("scale", jQs scale), ("basis", jMat bas), ("metric", jMat (metric scale)),
    ("gram", jMat (matMul bas (transpose bas))), ("det_basis", jQ (det bas)), ("det_jac", jQ (det jac)),
    ("jtj", jMat (matMul (transpose jac) jac)),
    ("jt", jMat (transpose jac)), ("hb", jMat (scaleRows scale bas))]

/-- {"sys", "pts": [[..]..]} -> list of matrix records -/
def cs (j : Json) : Except String Json := do
  let sys ← fldS j "sys"
  let pts ← getMat (← fld j "pts")
  let out ← pts.mapM (csAt sys)
  pure (Json.arr out.toArray)

/-- {"cls","n"} -> the orders, `get_axis_index` and the `__getitem__` label for every axis name -/
def order (j : Json) : Except String Json := do
  let cl ← parseCls (← fldS j "cls")
  let n ← fldN j "n"
  pure <| Json.mkObj [
    ("cs_axes", jAxs (csAxes cl n)), ("axes", jAxs (gridAxes cl n)), ("axes_sym", jAxs (gridAxesSym cl n)),
    ("order", jAxs (componentOrder cl n)),
    ("sym_idx", toJson (symIdx cl)), ("described_idx", toJson (describedIdx cl n)),
    ("index", Json.mkObj (allAx.map fun a => (a.name, jOptN (getAxisIndex cl n a)))),
    ("index_nosym", Json.mkObj (allAx.map fun a => (a.name, jOptN (getAxisIndex cl n a false)))),
    ("label", Json.mkObj (allAx.map fun a => (a.name, jOptAx (getitemLabel cl n a))))]

def getAngles (l : List Rat) : Except String (Angles Rat) :=
  match l with
  | [ct, st, cp, sp] => pure ⟨ct, st, cp, sp⟩
  | _ => throw "angles: expected [cθ, sθ, cφ, sφ]"

/-- {"cls","n","pts":[[cθ,sθ,cφ,sφ]..],"comps":[[..]..]} -> conversion of each component list at
each point as the code does it ("code") and by axis name ("op") -/
def tocart (j : Json) : Except String Json := do
  let cl ← parseCls (← fldS j "cls")
  let n ← fldN j "n"
  let pts ← getMat (← fld j "pts")
  let comps ← getMat (← fld j "comps")
  if pts.length ≠ comps.length then throw "pts/comps differ in length"
  let rows ← (pts.zip comps).mapM fun (p, c) => do
    let a ← getAngles p
    pure (vectorToCartesian cl n a c, vectorToCartesianOp cl n a c)
  pure <| Json.mkObj [("code", jMat (rows.map (·.1))), ("op", jMat (rows.map (·.2)))]

/-- {"cls","n","ncoords","pt":[cθ,sθ,cφ,sφ],"comps":[..]} -> the converted vector or "DimensionError" -/
def tocartChecked (j : Json) : Except String Json := do
  let cl ← parseCls (← fldS j "cls")
  let n ← fldN j "n"
  let nc ← fldN j "ncoords"
  let a ← getAngles (← fldQs j "pt")
  let comps ← fldQs j "comps"
  match vectorToCartesianChecked cl n a nc comps with
  | some v => pure (jQs v)
  | none => pure (Json.str "DimensionError")

/-- the same for rank-2 tensors: "tensors": [[[..]..]..] -/
def tocart2 (j : Json) : Except String Json := do
  let cl ← parseCls (← fldS j "cls")
  let n ← fldN j "n"
  let pts ← getMat (← fld j "pts")
  let ts ← getL getMat (← fld j "tensors")
  if pts.length ≠ ts.length then throw "pts/tensors differ in length"
  let rows ← (pts.zip ts).mapM fun (p, t) => do
    let a ← getAngles p
    pure (tensorToCartesian cl n a t, tensorToCartesianOp cl n a t)
  pure <| Json.mkObj [("code", Json.arr (rows.map (jMat ·.1)).toArray),
    ("op", Json.arr (rows.map (jMat ·.2)).toArray)]

/-- {"u":[[..]..],"v":[[..]..],"T":[[[..]]..],"S":[[[..]]..]} -> the five products per item -/
def products (j : Json) : Except String Json := do
  let us ← getMat (← fld j "u")
  let vs ← getMat (← fld j "v")
  let ts ← getL getMat (← fld j "T")
  let ss ← getL getMat (← fld j "S")
  if us.length ≠ vs.length ∨ us.length ≠ ts.length ∨ us.length ≠ ss.length then throw "lengths differ"
  let items := (us.zip (vs.zip (ts.zip ss))).map fun (u, v, t, s) =>
    Json.mkObj [("vv", jQ (dotVV u v)), ("vt", jQs (dotVT u t)), ("tv", jQs (dotTV t v)),
      ("tt", jMat (dotTT t s)), ("outer", jMat (outerVV u v)), ("trace", jQ (trace t))]
  pure (Json.arr items.toArray)

/-- {"cls","n","comps":[..],"tensor":[[..]..]} -> `field[name]` for every axis name (null =
IndexError) and `tensor[a, b]` for every pair of the component order -/
def getitemH (j : Json) : Except String Json := do
  let cl ← parseCls (← fldS j "cls")
  let n ← fldN j "n"
  let comps ← fldQs j "comps"
  let t ← getMat (← fld j "tensor")
  let jo : Option Rat → Json := fun o => match o with | none => Json.null | some q => jQ q
  let ord := componentOrder cl n
  pure <| Json.mkObj [
    ("v", Json.mkObj (allAx.map fun a => (a.name, jo (getitem cl n a comps)))),
    ("t", Json.arr (ord.flatMap fun a => ord.map fun b =>
      Json.arr #[Json.str a.name, Json.str b.name, jo (getitem2 cl n a b t)]).toArray)]

/-- {"cls","n","vals":[..]} -> "DimensionError" or {"comps": the components `from_expression` stores,
"byname": `from_expression(...)[name]` for every axis name (null = IndexError)} -/
def fromexpr (j : Json) : Except String Json := do
  let cl ← parseCls (← fldS j "cls")
  let n ← fldN j "n"
  let vals ← fldQs j "vals"
  let jo : Option Rat → Json := fun o => match o with | none => Json.null | some q => jQ q
  match fromExpressions cl n vals with
  | some c => pure <| Json.mkObj [("comps", jQs c),
      ("byname", Json.mkObj (allAx.map fun a => (a.name, jo (getitem cl n a c))))]
  | none => pure (Json.str "DimensionError")

def fromexpr2 (j : Json) : Except String Json := do
  let cl ← parseCls (← fldS j "cls")
  let n ← fldN j "n"
  let vals ← getMat (← fld j "vals")
  match fromExpressions2 cl n vals with
  | some c => pure (jMat c)
  | none => pure (Json.str "DimensionError")

/-- {"cls","pts":[[r,z,cθ,sθ,cφ,sφ]..]} -> `pos_to_cart` of each point -/
def postocart (j : Json) : Except String Json := do
  let cl ← parseCls (← fldS j "cls")
  let pts ← getMat (← fld j "pts")
  let out ← pts.mapM fun p =>
    match p with
    | [r, z, ct, st, cp, sp] => pure (jQs (posToCart cl r z ⟨ct, st, cp, sp⟩))
    | _ => throw "postocart: expected [r, z, cθ, sθ, cφ, sφ]"
  pure (Json.arr out.toArray)

/-- {"sys","pts":[[a,c,s,ch,sh(,cp,sp)]..]} -> `pos_to_cart` of the bipolar / bispherical coordinate system at each
point (`bipolarToCart`, `bisphToCart` of `Model/CoordsBi.lean`, the definitions the theorems of `Props/C19Jac.lean`
differentiate) -/
def bipostocart (j : Json) : Except String Json := do
  let sys ← fldS j "sys"
  let pts ← getMat (← fld j "pts")
  let out ← pts.mapM fun p =>
    match sys, p with
    | "bipolar", [a, c, s, ch, sh] =>
      if ch - c = 0 then throw "focus" else pure (jQs (bipolarToCart a c s ch sh))
    | "bispherical", [a, c, s, ch, sh, cp, sp] =>
      if ch - c = 0 then throw "focus" else pure (jQs (bisphToCart a c s ch sh cp sp))
    | _, _ => throw s!"bipostocart: bad coordinate system / parameters {sys} {p.length}"
  pure (Json.arr out.toArray)

def handlers : List (String × Handler) := [
  ("c19.cs", cs), ("c19.order", order), ("c19.tocart", tocart), ("c19.tocart_checked", tocartChecked), ("c19.tocart2", tocart2),
  ("c19.products", products), ("c19.getitem", getitemH), ("c19.fromexpr", fromexpr),
  ("c19.fromexpr2", fromexpr2), ("c19.postocart", postocart), ("c19.bipostocart", bipostocart)]
end PdeVerif.Drv.C19
