import PdeVerif.Json
import PdeVerif.Model.ParLoop
import PdeVerif.Drv.C01
import PdeVerif.Drv.C02
namespace PdeVerif.Drv.C03
open Lean PdeVerif PdeVerif.Stencil PdeVerif.BC
open PdeVerif.Drv.C02 (arrFn parseCond)
open PdeVerif.Drv.C01 (parseCfg ranks applyAt outIdx Cfg)

/-- {"cfg": {...as c01...}, "data": [padded input incl. components], "faces": [...as c02.ghost...]}
 -> operator applied after the model set the ghost cells (row-major output over valid cells) -/
def apply (j : Json) : Except String Json := do
  let c ← parseCfg (← fld j "cfg")
  let (rin, rout) ← ranks c.op
  let data ← fldQs j "data"
  let fshape := List.replicate rin c.dim ++ c.shape.map (· + 2)
  let a0 : Arr Rat := arrFn fshape data.toArray
  let facesJ ← (do getL pure (← fld j "faces"))
  let faces ← facesJ.mapM (fun fj => do
    let axis ← fldN fj "axis"
    let upper ← fldB fj "upper"
    let normal ← fldB fj "normal"
    let dxf ← fldQ fj "dx"
    let ncomp := if normal then rin - 1 else rin
    let cnd ← parseCond (← fld fj "cond") ncomp
    let f : Face := { shape := c.shape, rank := rin, axis := axis,
                      side := if upper then .upper else .lower, normal := normal }
    pure (f, dxf, cnd))
  let a := setGhostAll faces a0
  let vals ← (outIdx c rout).mapM (applyAt c a)
  pure (jQs vals)

/-- schedule model: {"n": cells, "perm": [..permutation of 0..n-1..], "vals": [..]} -> both executions -/
def sched (j : Json) : Except String Json := do
  let vals ← fldQs j "vals"
  let perm ← fldNs j "perm"
  let ws : List (Nat × Rat) := PdeVerif.ParLoop.kernelWrites (List.range vals.length) (fun c => vals.getD c 0)
  let ws' := perm.map (fun p => (p, vals.getD p 0))
  let o1 := PdeVerif.ParLoop.runWrites (fun _ => (0:Rat)) ws
  let o2 := PdeVerif.ParLoop.runWrites (fun _ => (0:Rat)) ws'
  pure (Json.arr #[jQs ((List.range vals.length).map o1), jQs ((List.range vals.length).map o2)])

def handlers : List (String × Handler) := [("c03.apply", apply), ("c03.sched", sched)]
end PdeVerif.Drv.C03
