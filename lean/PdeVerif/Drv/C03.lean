import PdeVerif.Json
namespace PdeVerif.Drv.C03
open Lean PdeVerif

def handlers : List (String × Handler) := []
end PdeVerif.Drv.C03
