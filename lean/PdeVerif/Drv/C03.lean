import PdeVerif.Json
import PdeVerif.Model.ParLoop
import PdeVerif.Model.SetterSeq
import PdeVerif.Model.OutAlias
import PdeVerif.Drv.C01
import PdeVerif.Drv.C02
namespace PdeVerif.Drv.C03
open Lean PdeVerif PdeVerif.Stencil PdeVerif.BC
open PdeVerif.Drv.C02 (arrFn parseCond parseFaces allIdx getArr)
open PdeVerif.Drv.C01 (parseCfg ranks applyAt outIdx Cfg)

/-- {"cfg": {...as c01...}, "data": [padded input incl. components], "faces": [...as c02.ghost...]}
 -> operator applied after the model set the ghost cells (row-major output over valid cells) -/
def apply (j : Json) : Except String Json := do
  let c ← parseCfg (← fld j "cfg")
  let (rin, rout) ← ranks c.op
  let data ← fldQs j "data"
  let fshape := List.replicate rin c.dim ++ c.shape.map (· + 2)
  let a0 : Arr Rat := arrFn fshape data.toArray
  let facesJ ← (do getL pure (← fld j "faces"))
  let faces ← facesJ.mapM (fun fj => do
    let axis ← fldN fj "axis"
    let upper ← fldB fj "upper"
    let normal ← fldB fj "normal"
    let dxf ← fldQ fj "dx"
    let ncomp := if normal then rin - 1 else rin
    let cnd ← parseCond (← fld fj "cond") ncomp
    let f : Face := { shape := c.shape, rank := rin, axis := axis,
                      side := if upper then .upper else .lower, normal := normal }
    pure (f, dxf, cnd))
  let a := setGhostAll faces a0
  let vals ← (outIdx c rout).mapM (applyAt c a)
  pure (jQs vals)

/-- schedule model on the write list logged from the real kernel: {"size": n, "cells": [flat output index of every logged
write, in the order of the real (permuted) run], "vals": [the values written], "order": [indices into `cells`: another
order of the same iterations]} -> the two sides of `ParLoop.kernel_schedule_independent`:
`runWrites out (kernelWrites cells f)` and `runWrites out (kernelWrites cells' f)`, `f` = the value the kernel computed for
a cell, `out` = the unwritten array (null = never written) -/
def writes (j : Json) : Except String Json := do
  let n ← fldN j "size"
  let cells ← fldNs j "cells"
  let vals ← fldQs j "vals"
  let order ← fldNs j "order"
  let f : Nat → Option Rat := fun c => (cells.zip vals).lookup c
  let cells' := order.map (fun k => cells.getD k 0)
  let o1 := PdeVerif.ParLoop.runWrites (fun _ => (none : Option Rat)) (PdeVerif.ParLoop.kernelWrites cells f)
  let o2 := PdeVerif.ParLoop.runWrites (fun _ => (none : Option Rat)) (PdeVerif.ParLoop.kernelWrites cells' f)
  let enc (o : Nat → Option Rat) : Json :=
    Json.arr ((List.range n).map (fun c => match o c with | some v => jQ v | none => Json.null)).toArray
  pure (Json.arr #[enc o1, enc o2])

/-- model of the **compiled** ghost-cell setter (sequential loops on the live array, `chain`), same request as `c02.ghost2`:
{"shape":[..], "rank":r, "dim":d, "data":[..], "faces":[{"axis","upper","normal","dx","cond"}]} ->
{"a": full array after `BC.compiledSetterLog` (read through `BC.readLog`), "div0": flat indices computed by a division by
zero, "stores": number of element stores executed} -/
def seqghost (j : Json) : Except String Json := do
  let shape ← fldNs j "shape"
  let rank ← fldN j "rank"
  let dim ← fldN j "dim"
  let data ← getArr j "data"
  let fshape := List.replicate rank dim ++ shape.map (· + 2)
  let a0 : List Int → Rat := arrFn fshape data
  let (faces, _) ← parseFaces j shape rank
  let mut axes : List ((Face × Rat × Cond Rat) × (Face × Rat × Cond Rat)) := []
  for ax in List.range shape.length do
    let lo := faces.find? (fun fc => fc.1.axis == ax && fc.1.side == Side.lower)
    let hi := faces.find? (fun fc => fc.1.axis == ax && fc.1.side == Side.upper)
    match lo, hi with
    | some l, some h => axes := axes ++ [(l, h)]
    | _, _ => throw s!"axis {ax}: both sides are needed"
  let log := compiledSetterLog dim axes a0
  let all := allIdx fshape
  let div0 := (all.zipIdx).filterMap (fun (p : List Int × Nat) =>
    if faces.any (fun fc => fc.1.writes p.1 && divByZero fc.1 fc.2.1 fc.2.2 p.1) then some p.2 else none)
  pure (Json.mkObj [("a", jQs (all.map (readLog log a0))), ("div0", toJson div0), ("stores", toJson log.length)])

/-- the `out=` contract on the memory model (`Model/OutAlias.lean`), 1-d Cartesian Laplacian:
{"padded": [line incl. the two ghost cells, after the setter], "scale": 1/dx², "junk": previous content of a separate `out`}
-> {"wrapper_aliased": `make_operator` wrapper with `out = arr`, "wrapper_fresh": with a separate `out`,
    "field_separate": field route with another output field, "field_aliased": field route with `out` = the field itself} -/
def alias (j : Json) : Except String Json := do
  let padded ← fldQs j "padded"
  let scale ← fldQ j "scale"
  let junk ← fldQ j "junk"
  let n := padded.length - 2
  let pa := padded.toArray
  let cells := List.range n
  let k := PdeVerif.OutAlias.lap1 scale (2 : Rat)
  -- wrapper: buffer 0 = the valid data `arr`, 1 = a separate `out`, 5 = the scratch buffer `arr_full`
  let sW : PdeVerif.OutAlias.Store Rat := fun b i => if b = 0 then pa.getD (i + 1) 0 else junk
  let prep : (Nat → Rat) → (Nat → Rat) := fun a i => if i = 0 then pa.getD 0 0 else if i = n + 1 then pa.getD (n + 1) 0 else a (i - 1)
  let wA := PdeVerif.OutAlias.wrapperRoute prep k 0 5 0 cells sW
  let wF := PdeVerif.OutAlias.wrapperRoute prep k 0 5 1 cells sW
  -- field: buffer 0 = the padded buffer of the field, 1 = the padded buffer of another field
  let sF : PdeVerif.OutAlias.Store Rat := fun b i => if b = 0 then pa.getD i 0 else junk
  let fS := PdeVerif.OutAlias.fieldRoute id k (· + 1) 0 1 cells sF
  let fA := PdeVerif.OutAlias.fieldRoute id k (· + 1) 0 0 cells sF
  pure (Json.mkObj [("wrapper_aliased", jQs (cells.map (fun c => wA 0 c))), ("wrapper_fresh", jQs (cells.map (fun c => wF 1 c))),
    ("field_separate", jQs (cells.map (fun c => fS 1 (c + 1)))), ("field_aliased", jQs (cells.map (fun c => fA 0 (c + 1))))])

/-- {"target": "virtual_point"|"value"|"derivative", "dx", "v", "cells": [..]} -> `userGhost` for every adjacent cell value,
next to the ghost value of the ORDINARY condition with the same data (`ghost1 (vpDirichlet v)`, `ghost1 (vpNeumann dx v)`) -/
def userghost (j : Json) : Except String Json := do
  let t ← fldS j "target"
  let dx ← fldQ j "dx"
  let v ← fldQ j "v"
  let cells ← fldQs j "cells"
  let tgt : UserTarget ← (match t with
    | "virtual_point" => pure UserTarget.virtualPoint
    | "value" => pure UserTarget.value
    | "derivative" => pure UserTarget.derivative
    | _ => throw s!"unknown target {t}")
  let ordinary (c : Rat) : Rat := match tgt with
    | .virtualPoint => v
    | .value => ghost1 (vpDirichlet v) c
    | .derivative => ghost1 (vpNeumann dx v) c
  pure (Json.mkObj [("user", jQs (cells.map (userGhost tgt dx v))), ("ordinary", jQs (cells.map ordinary))])

def handlers : List (String × Handler) := [("c03.apply", apply), ("c03.writes", writes), ("c03.seqghost", seqghost), ("c03.alias", alias),
  ("c03.userghost", userghost)]
end PdeVerif.Drv.C03
