import PdeVerif.Json
namespace PdeVerif.Drv.C16
open Lean PdeVerif

def handlers : List (String × Handler) := []
end PdeVerif.Drv.C16
