import PdeVerif.Json
import PdeVerif.Model.Interp
import PdeVerif.Model.InterpGrid
namespace PdeVerif.Drv.C16
open Lean PdeVerif PdeVerif.Interp

def getAxis (j : Json) : Except String (Axis Rat) := do
  pure { size := (← fldI j "size"), periodic := (← fldB j "periodic"),
         lo := (← fldQ j "lo"), dx := (← fldQ j "dx") }

def fldAxes (j : Json) (k : String) : Except String (List (Axis Rat)) := do
  getL getAxis (← fld j k)

/-- C-order flat position of an index tuple, `none` when out of range -/
def flatPos : List Int → Idx → Option Nat
  | [], [] => some 0
  | n :: ns, c :: cs =>
    if 0 ≤ c ∧ c < n then
      match flatPos ns cs with
      | some r => some (c.toNat * (ns.foldl (fun a b => a * b.toNat) 1) + r)
      | none => none
    else none
  | _, _ => none

/-- array as a total function; reads outside the array give a huge marker value so that a wrong
index in the model cannot go unnoticed -/
def arrFn (shape : List Int) (flat : Array Rat) : Idx → Rat :=
  fun c => match flatPos shape c with
    | some p => flat.getD p (10 ^ 40 : Rat)
    | none => (10 ^ 40 : Rat)

def jOptQ : Option Rat → Json
  | none => Json.null
  | some q => jQ q

def jAxisData : Option (AxisData Rat) → Json
  | none => Json.null
  | some a => Json.arr #[jI a.li, jI a.hi, jQ a.wl, jQ a.wh]

/-- {"eps","ghost","cc","axis":{..},"coords":[..]} -> per coordinate null | [li,hi,wl,wh] -/
def axis (j : Json) : Except String Json := do
  let eps ← fldQ j "eps"
  let ghost ← fldB j "ghost"
  let cc ← fldB j "cc"
  let ax ← getAxis (← fld j "axis")
  let cs ← fldQs j "coords"
  pure (Json.arr (cs.map (fun c => jAxisData (axisData eps ghost cc ax c))).toArray)

/-- {"eps","ghost","cc","fill":null|[per component],"axes":[..],"shape":[..],
"data":[[flat component]..],"points":[[..]..]} -> per point, per component: value | null -/
def interp (j : Json) : Except String Json := do
  let eps ← fldQ j "eps"
  let ghost ← fldB j "ghost"
  let cc ← fldB j "cc"
  let axes ← fldAxes j "axes"
  let shape ← fldIs j "shape"
  let comps ← getL (getL getQ) (← fld j "data")
  let fills : List (Option Rat) ← (match fldOpt j "fill" with
    | some .null | none => pure (comps.map (fun _ => none))
    | some v => do pure ((← getL getQ v).map some))
  let pts ← getL (getL getQ) (← fld j "points")
  let fns := comps.map (fun c => arrFn shape c.toArray)
  let out := pts.map (fun p =>
    Json.arr ((fns.zip fills).map (fun (f, fl) => jOptQ (interpN eps ghost cc fl axes f p))).toArray)
  pure (Json.arr out.toArray)

/-- {"kind":"interp"|"comp","eps","ghost","axes","vol":[flat],"data":[[flat component]..],"point":[..],
"amount":[per component]} -> per component: null (DomainError) | {"data":[flat],"before":integral,
"after":integral}; with "ghost":true (compiled inserter only) "data" is the padded array and the
integrals are taken over its valid cells -/
def insert (j : Json) : Except String Json := do
  let kind ← fldS j "kind"
  let eps ← fldQ j "eps"
  let ghost ← fldB j "ghost"
  let axes ← fldAxes j "axes"
  let sizes := axes.map (·.size)
  -- in ghost mode the data array is the padded one, the volumes are those of the valid cells
  let shape := if ghost then sizes.map (· + 2) else sizes
  let vol := arrFn sizes (← fldQs j "vol").toArray
  let comps ← getL (getL getQ) (← fld j "data")
  let p ← fldQs j "point"
  let amounts ← fldQs j "amount"
  let inner : (Idx → Rat) → Idx → Rat := fun f c => if ghost then f (c.map (· + 1)) else f c
  let one : List Rat × Rat → Json := fun (flat, amount) =>
    let data := arrFn shape flat.toArray
    let r : Option (Idx → Rat) :=
      if kind == "interp" then insertInterp axes vol data p amount
      else insertCompN eps ghost axes vol data p amount
    match r with
    | none => Json.null
    | some d =>
      Json.mkObj [("data", jQs ((cells shape).map d)),
        ("before", jQ (integral sizes vol (inner data))), ("after", jQ (integral sizes vol (inner d)))]
  pure (Json.arr ((comps.zip amounts).map one).toArray)

/-- {"eps","ghost","fill":null|number,"axes":[source axes],"shape":[shape of "data"],"data":[flat],
"axes2":[target axes]} -> null (DomainError) | the data of the new field in C order
(`interpToGrid`, the model of `ScalarField.interpolate_to_grid` for a target of the same class) -/
def togrid (j : Json) : Except String Json := do
  let eps ← fldQ j "eps"
  let ghost ← fldB j "ghost"
  let axes ← fldAxes j "axes"
  let axes2 ← fldAxes j "axes2"
  let shape ← fldIs j "shape"
  let flat ← fldQs j "data"
  let fill : Option Rat ← (match fldOpt j "fill" with
    | some .null | none => pure none
    | some v => do pure (some (← getQ v)))
  match interpToGrid eps ghost fill axes (arrFn shape flat.toArray) axes2 with
  | none => pure Json.null
  | some vs => pure (jQs vs)

def getSide (j : Json) : Except String (Side Rat) := do
  match j with
  | Json.arr #[k, v] =>
    let kind ← getS k
    let q ← getQ v
    if kind == "value" then pure (Side.value q)
    else if kind == "derivative" then pure (Side.derivative q)
    else throw s!"unknown kind of condition {kind}"
  | _ => throw "side: expected [kind, number]"

/-- {"axes":[..],"sides":[null (periodic) | [[kind,c] lower,[kind,c] upper]..],"data":[[flat component]..]}
-> per component the padded array `padFull` (shape + 2 per axis, C order) -/
def pad (j : Json) : Except String Json := do
  let axes ← fldAxes j "axes"
  let sidesJ ← getL pure (← fld j "sides")
  if sidesJ.length ≠ axes.length then throw "sides: one entry per axis expected"
  let pas ← (axes.zip sidesJ).mapM (fun ((ax, sj) : Axis Rat × Json) => do
    match sj with
    | Json.null => pure ({ ax := ax, lower := Side.value 0, upper := Side.value 0 } : PadAxis Rat)
    | Json.arr #[l, u] => pure { ax := ax, lower := (← getSide l), upper := (← getSide u) }
    | _ => throw "sides: null or [lower, upper] expected")
  let comps ← getL (getL getQ) (← fld j "data")
  let sizes := axes.map (·.size)
  let out := comps.map (fun flat =>
    let f := padFull pas (arrFn sizes flat.toArray)
    jQs ((cells (sizes.map (· + 2))).map f))
  pure (Json.arr out.toArray)

def handlers : List (String × Handler) :=
  [("c16.axis", axis), ("c16.interp", interp), ("c16.insert", insert), ("c16.togrid", togrid),
   ("c16.pad", pad)]
end PdeVerif.Drv.C16
