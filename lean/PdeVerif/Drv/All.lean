import PdeVerif.Drv.C09
namespace PdeVerif.Drv
def allHandlers : List (String × PdeVerif.Handler) :=
  C09.handlers
end PdeVerif.Drv
