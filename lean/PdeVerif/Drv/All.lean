import PdeVerif.Drv.C01
import PdeVerif.Drv.C02
import PdeVerif.Drv.C03
import PdeVerif.Drv.C04
import PdeVerif.Drv.C05
import PdeVerif.Drv.C06
import PdeVerif.Drv.C07
import PdeVerif.Drv.C08
import PdeVerif.Drv.C09
import PdeVerif.Drv.C10
import PdeVerif.Drv.C11
import PdeVerif.Drv.C12
import PdeVerif.Drv.C13
import PdeVerif.Drv.C14
import PdeVerif.Drv.C15
import PdeVerif.Drv.C16
import PdeVerif.Drv.C17
import PdeVerif.Drv.C18
import PdeVerif.Drv.C19
import PdeVerif.Drv.C20
/- all request handlers of the model driver (one module per property, so that properties can
be developed independently) -/
namespace PdeVerif.Drv
def allHandlers : List (String × PdeVerif.Handler) :=
  C01.handlers ++ C02.handlers ++ C03.handlers ++ C04.handlers ++ C05.handlers ++
  C06.handlers ++ C07.handlers ++ C08.handlers ++ C09.handlers ++ C10.handlers ++
  C11.handlers ++ C12.handlers ++ C13.handlers ++ C14.handlers ++ C15.handlers ++
  C16.handlers ++ C17.handlers ++ C18.handlers ++ C19.handlers ++ C20.handlers
end PdeVerif.Drv
