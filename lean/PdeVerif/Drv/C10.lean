import PdeVerif.Json
import PdeVerif.Model.PDEs
import PdeVerif.Model.PDEsTime
import PdeVerif.Drv.C11
/-
Driver of the PDE-class model (C10).  Evaluates the definitions of `Model/PDEs.lean` - the ones
the theorems of `Props/C10.lean` are about - with operators instantiated by data measured on
py-pde's own operators (affine maps `A x + b`), exactly over `Rat` (or over `Float`).
-/
namespace PdeVerif.Drv.C10
open Lean PdeVerif PdeVerif.Ex PdeVerif.PDEs PdeVerif.Drv.C11

section
variable {K : Type} [Add K] [Sub K] [Mul K] [Div K] [Neg K] [NatCast K] [IntCast K] [Inhabited K]

def vecFn (l : Array K) : Nat → K := fun i => l.getD i (zero : K)
def matFn (m : Array (Array K)) : Nat → Nat → K := fun i j => (m.getD i #[]).getD j (zero : K)
def tabulate (n : Nat) (f : Nat → K) : List K := (List.range n).map f

/-- {"A": [[..]..], "b": [..]} -> affine operator; {"comps": [affine..]} -> sum of squares;
{"values": [..]} -> the constant map (an operator result measured for the state itself) -/
partial def opOfJson (num : Json → Except String K) (n : Nat) (j : Json) : Except String (Op Nat K) := do
  match fldOpt j "values" with
  | some v =>
    let l ← getL num v
    pure (constOp (vecFn l.toArray))
  | none =>
    match fldOpt j "comps" with
    | some cs =>
      let comps ← getL (opOfJson num n) cs
      pure (sumSquares comps)
    | none =>
      let A ← getL (getL num) (← fld j "A")
      let b ← getL num (← fld j "b")
      let Aa := (A.map List.toArray).toArray
      pure (affineOp n (matFn Aa) (vecFn b.toArray))

def getVec (num : Json → Except String K) (j : Json) (k : String) : Except String (Nat → K) := do
  let l ← getL num (← fld j k)
  pure (vecFn l.toArray)

/-- class rates: {"cls", "params": {..}, "n", "ops": {name: op}, "state": {name: [..]}} -/
def rateOf (num : Json → Except String K) (out : K → Json) (j : Json) : Except String Json := do
  let cls ← fldS j "cls"
  let n ← fldN j "n"
  let p ← fld j "params"
  let ops ← fld j "ops"
  let st ← fld j "state"
  let par (k : String) : Except String K := do num (← fld p k)
  let op (k : String) : Except String (Op Nat K) := do opOfJson num n (← fld ops k)
  let vec (f : Nat → K) : Json := Json.arr ((tabulate n f).map out).toArray
  match cls with
  | "DiffusionPDE" =>
    pure (Json.mkObj [("c", vec (diffusionRate (← par "diffusivity") (← op "lap_bc") (← getVec num st "c")))])
  | "AllenCahnPDE" =>
    pure (Json.mkObj [("c", vec (allenCahnRate (← par "interface_width") (← par "mobility")
      (← op "lap_bc") (← getVec num st "c")))])
  | "CahnHilliardPDE" =>
    pure (Json.mkObj [("c", vec (cahnHilliardRate (← par "interface_width") (← op "lap_c") (← op "lap_mu")
      (← getVec num st "c")))])
  | "KPZInterfacePDE" =>
    pure (Json.mkObj [("c", vec (kpzRate (← par "nu") (← par "lmbda") (← op "lap_bc") (← op "gradsq")
      (← getVec num st "c")))])
  | "KuramotoSivashinskyPDE" =>
    pure (Json.mkObj [("c", vec (ksRate (← par "nu") (← op "lap_bc") (← op "lap_bc_lap") (← op "gradsq")
      (← getVec num st "c")))])
  | "SwiftHohenbergPDE" =>
    pure (Json.mkObj [("c", vec (swiftHohenbergRate (← par "rate") (← par "kc2") (← par "delta")
      (← op "lap_bc") (← op "lap_bc_lap") (← getVec num st "c")))])
  | "WavePDE" =>
    let r := waveRate (← par "speed") (← op "lap_bc") (← getVec num st "u") (← getVec num st "v")
    pure (Json.mkObj [("u", vec r.1), ("v", vec r.2)])
  | "KleinGordonPDE" =>
    let r := kleinGordonRate (← par "speed") (← par "mass") (← op "lap_bc") (← getVec num st "u")
      (← getVec num st "v")
    pure (Json.mkObj [("u", vec r.1), ("v", vec r.2)])
  | _ => throw s!"unknown class {cls}"

/-- field semantics of the advertised text of a predefined class - `PdeVerif.PDEs.rhsValue`, the
definition the `*_rate_eq_expression` theorems are about:
{"n", "exprs": [[var, AST]..], "fields": [[name, [..]]..], "lap": op, "gradsq": op (optional)}
 -> [[var, [..]]..] -/
def textOf (T : FunTab K) (num : Json → Except String K) (out : K → Json) (j : Json) :
    Except String Json := do
  let n ← fldN j "n"
  let exprs ← getL (pairOfJson exprOfJson) (← fld j "exprs")
  let fields ← getL (pairOfJson (getL num)) (← fld j "fields")
  let lap ← opOfJson num n (← fld j "lap")
  let gradsq : Op Nat K ← match fldOpt j "gradsq" with
    | some g => opOfJson num n g
    | none => pure (fun _ _ => zero)
  let vars : List (String × St Nat K) := fields.map (fun (nm, l) => (nm, vecFn l.toArray))
  let res := exprs.map (fun (var, e) =>
    let v := rhsValue T lap gradsq vars e
    Json.arr #[Json.str var, Json.arr ((tabulate n v).map out).toArray])
  pure (Json.arr res.toArray)

def optOpOfJson (num : Json → Except String K) (n : Nat) (j : Json) :
    Except String (Option (Op Nat K)) :=
  match j with
  | .null => pure none
  | _ => do pure (some (← opOfJson num n j))

def tripleOfJson {α : Type} (f : Json → Except String α) (j : Json) :
    Except String (String × String × α) := do
  match j with
  | .arr #[a, b, c] => pure (← getS a, ← getS b, ← f c)
  | _ => throw s!"expected a triple, got {j.compress}"

/-- right-hand sides of the generic `PDE` - `PdeVerif.PDEs.rhsValuePde`, which selects for every
operator name the instance carrying the boundary condition that `bc_ops`/`bc` assign to it in the
equation of the variable (`bcIndex`: first matching key, default last):
{"n", "exprs": [[name, AST, var]..], "fields": [[name, [..]]..], "scalars": [[name, v]..],
 "bc_keys": [[kv, ko]..], "table": [[name, bcName, [op | null ..]]..]}
 -> [[name, [..], [[opname, index]..]]..] -/
def rhsOf (T : FunTab K) (num : Json → Except String K) (out : K → Json) (j : Json) :
    Except String Json := do
  let n ← fldN j "n"
  let exprsJ ← getL pure (← fld j "exprs")
  let fields ← getL (pairOfJson (getL num)) (← fld j "fields")
  let scalars ← getL (pairOfJson num) (← fld j "scalars")
  let keys ← getL (pairOfJson getS) (← fld j "bc_keys")
  let table ← getL (tripleOfJson (getL (optOpOfJson num n))) (← fld j "table")
  let vars : List (String × St Nat K) := fields.map (fun (nm, l) => (nm, vecFn l.toArray))
  let mut res : Array Json := #[]
  for ej in exprsJ do
    let (name, e, var) ← match ej with
      | .arr #[a, b, c] => pure (← getS a, ← exprOfJson b, ← getS c)
      | _ => throw s!"expected [name, AST, var], got {ej.compress}"
    -- an operator name of the table must resolve to an instance the real code could build
    let mut sel : Array Json := #[]
    for f in (funNames1 e).eraseDups do
      match table.lookup f with
      | some (bcName, _) =>
        let k := bcIndex keys var bcName
        sel := sel.push (Json.arr #[Json.str f, toJson k])
        if (pdeOp keys table var f).isNone then
          throw s!"equation of {var}: operator {f} with condition #{k} is not available"
      | none => pure ()
    let v := rhsValuePde T keys table var vars scalars e
    res := res.push (Json.arr #[Json.str name, Json.arr ((tabulate n v).map out).toArray, Json.arr sel])
  pure (Json.arr res)

/-! ### explicit time: the definitions of `Model/PDEsTime.lean`

The requests carry the times of a case and one measured request per time; the handlers build
TIME-DEPENDENT operators / tables from them (`sampled`) and evaluate the time-parameterised
definitions (`*RateAt`, `rhsValueAt`, `rhsValuePdeAt`) at every time of the list. -/

def timedRequests (num : Json → Except String K) (j : Json) : Except String (List K × List Json × Json) := do
  let times ← getL num (← fld j "times")
  let reqs ← getL pure (← fld j "requests")
  if times.length ≠ reqs.length then throw "times and requests differ in length"
  match reqs.head? with
  | some r => pure (times, reqs, r)
  | none => throw "no requests"

/-- class rates at the times of a case:
{"times": [t..], "requests": [request of `c10.rate` with the operators measured at that time ..]}
 -> [answer per time] -/
def rateTOf [BEq K] (num : Json → Except String K) (out : K → Json) (j : Json) : Except String Json := do
  let (times, reqs, j0) ← timedRequests num j
  let cls ← fldS j0 "cls"
  let n ← fldN j0 "n"
  let p ← fld j0 "params"
  let st ← fld j0 "state"
  let par (k : String) : Except String K := do num (← fld p k)
  let op (k : String) : Except String (TOp Nat K) := do
    let insts ← reqs.mapM (fun r => do opOfJson num n (← fld (← fld r "ops") k))
    pure (sampled (times.zip insts) (fun x => x))
  let vec (f : Nat → K) : Json := Json.arr ((tabulate n f).map out).toArray
  let mut res : Array Json := #[]
  for t in times do
    let r ← match cls with
      | "DiffusionPDE" =>
        pure (Json.mkObj [("c", vec (diffusionRateAt (← par "diffusivity") (← op "lap_bc") t (← getVec num st "c")))])
      | "AllenCahnPDE" =>
        pure (Json.mkObj [("c", vec (allenCahnRateAt (← par "interface_width") (← par "mobility")
          (← op "lap_bc") t (← getVec num st "c")))])
      | "CahnHilliardPDE" =>
        pure (Json.mkObj [("c", vec (cahnHilliardRateAt (← par "interface_width") (← op "lap_c") (← op "lap_mu")
          t (← getVec num st "c")))])
      | "KPZInterfacePDE" =>
        pure (Json.mkObj [("c", vec (kpzRateAt (← par "nu") (← par "lmbda") (← op "lap_bc") (← op "gradsq")
          t (← getVec num st "c")))])
      | "KuramotoSivashinskyPDE" =>
        pure (Json.mkObj [("c", vec (ksRateAt (← par "nu") (← op "lap_bc") (← op "lap_bc_lap") (← op "gradsq")
          t (← getVec num st "c")))])
      | "SwiftHohenbergPDE" =>
        pure (Json.mkObj [("c", vec (swiftHohenbergRateAt (← par "rate") (← par "kc2") (← par "delta")
          (← op "lap_bc") (← op "lap_bc_lap") t (← getVec num st "c")))])
      | "WavePDE" =>
        let r := waveRateAt (← par "speed") (← op "lap_bc") t (← getVec num st "u") (← getVec num st "v")
        pure (Json.mkObj [("u", vec r.1), ("v", vec r.2)])
      | "KleinGordonPDE" =>
        let r := kleinGordonRateAt (← par "speed") (← par "mass") (← op "lap_bc") t (← getVec num st "u")
          (← getVec num st "v")
        pure (Json.mkObj [("u", vec r.1), ("v", vec r.2)])
      | _ => throw s!"unknown class {cls}"
    res := res.push r
  pure (Json.arr res)

/-- field semantics of the advertised text at the times of a case - `PdeVerif.PDEs.rhsValueAt`:
{"times": [t..], "requests": [request of `c10.text` with the operators of that time ..]} -/
def textTOf [BEq K] (T : FunTab K) (num : Json → Except String K) (out : K → Json) (j : Json) :
    Except String Json := do
  let (times, reqs, j0) ← timedRequests num j
  let n ← fldN j0 "n"
  let exprs ← getL (pairOfJson exprOfJson) (← fld j0 "exprs")
  let fields ← getL (pairOfJson (getL num)) (← fld j0 "fields")
  let laps ← reqs.mapM (fun r => do opOfJson num n (← fld r "lap"))
  let gradsqs ← reqs.mapM (fun r => match fldOpt r "gradsq" with
    | some g => opOfJson num n g
    | none => pure (fun _ _ => zero))
  let lap : TOp Nat K := sampled (times.zip laps) (fun x => x)
  let gradsq : TOp Nat K := sampled (times.zip gradsqs) (fun x => x)
  let vars : List (String × St Nat K) := fields.map (fun (nm, l) => (nm, vecFn l.toArray))
  let res := times.map (fun t => Json.arr (exprs.map (fun (var, e) =>
    let v := rhsValueAt T lap gradsq vars t e
    Json.arr #[Json.str var, Json.arr ((tabulate n v).map out).toArray])).toArray)
  pure (Json.arr res.toArray)

/-- right-hand sides of the generic `PDE` at the times of a case - `PdeVerif.PDEs.rhsValuePdeAt`
(the model binds the symbol `t`; the request's constants do not contain it):
{"times": [t..], "consts": [[name, v]..], "requests": [request of `c10.rhs` (its "scalars" are
 not read) with the table measured at that time ..]} -> [answer of `c10.rhs` per time] -/
def rhsTOf [BEq K] (T : FunTab K) (num : Json → Except String K) (out : K → Json) (j : Json) :
    Except String Json := do
  let (times, reqs, j0) ← timedRequests num j
  let n ← fldN j0 "n"
  let exprsJ ← getL pure (← fld j0 "exprs")
  let fields ← getL (pairOfJson (getL num)) (← fld j0 "fields")
  let consts ← getL (pairOfJson num) (← fld j "consts")
  let keys ← getL (pairOfJson getS) (← fld j0 "bc_keys")
  let tables ← reqs.mapM (fun r => do getL (tripleOfJson (getL (optOpOfJson num n))) (← fld r "table"))
  let table : K → OpTable Nat K := sampled (times.zip tables) []
  let vars : List (String × St Nat K) := fields.map (fun (nm, l) => (nm, vecFn l.toArray))
  let mut all : Array Json := #[]
  for t in times do
    let mut res : Array Json := #[]
    for ej in exprsJ do
      let (name, e, var) ← match ej with
        | .arr #[a, b, c] => pure (← getS a, ← exprOfJson b, ← getS c)
        | _ => throw s!"expected [name, AST, var], got {ej.compress}"
      let mut sel : Array Json := #[]
      for f in (funNames1 e).eraseDups do
        match (table t).lookup f with
        | some (bcName, _) =>
          let k := bcIndex keys var bcName
          sel := sel.push (Json.arr #[Json.str f, toJson k])
          if (pdeOp keys (table t) var f).isNone then
            throw s!"equation of {var}: operator {f} with condition #{k} is not available"
        | none => pure ()
      let v := rhsValuePdeAt T keys table var vars consts t e
      res := res.push (Json.arr #[Json.str name, Json.arr ((tabulate n v).map out).toArray, Json.arr sel])
    all := all.push (Json.arr res)
  pure (Json.arr all)

end

instance : Inhabited Rat := ⟨0⟩

def rateT (j : Json) : Except String Json := do
  let mode ← fldS j "mode"
  if mode == "Q" then rateTOf getQ jQ j else rateTOf getF jF j

def rhsT (j : Json) : Except String Json := do
  let mode ← fldS j "mode"
  if mode == "Q" then rhsTOf (algTab : FunTab Rat) getQ jQ j else rhsTOf floatTab getF jF j

def textT (j : Json) : Except String Json := do
  let mode ← fldS j "mode"
  if mode == "Q" then textTOf (algTab : FunTab Rat) getQ jQ j else textTOf floatTab getF jF j

def rate (j : Json) : Except String Json := do
  let mode ← fldS j "mode"
  if mode == "Q" then rateOf getQ jQ j else rateOf getF jF j

def rhs (j : Json) : Except String Json := do
  let mode ← fldS j "mode"
  if mode == "Q" then rhsOf (algTab : FunTab Rat) getQ jQ j else rhsOf floatTab getF jF j

def text (j : Json) : Except String Json := do
  let mode ← fldS j "mode"
  if mode == "Q" then textOf (algTab : FunTab Rat) getQ jQ j else textOf floatTab getF jF j

/-- the AST the advertised text must have:
{"cls", "printed": {name: "decimal text"}, "flags": {name: bool}} -> AST (or {"u":..,"v":..}) -/
def template (j : Json) : Except String Json := do
  let cls ← fldS j "cls"
  let p ← fld j "printed"
  let ac ← fld j "actual"
  let fl ← fld j "flags"
  let par (k : String) : Except String Fac := do pure ⟨← getQ (← fld ac k), ← getQ (← fld p k)⟩
  let flag (k : String) : Except String Bool := do getB (← fld fl k)
  match cls with
  | "DiffusionPDE" => pure (exprToJson (diffusionExpr (← par "diffusivity")))
  | "AllenCahnPDE" =>
    pure (exprToJson (allenCahnExpr (← par "interface_width") (← par "mobility") (← flag "mobility_is_one")))
  | "CahnHilliardPDE" => pure (exprToJson (cahnHilliardExpr (← par "interface_width")))
  | "KPZInterfacePDE" => pure (exprToJson (kpzExpr (← par "nu") (← par "lmbda")))
  | "KuramotoSivashinskyPDE" =>
    -- both spellings of the right-hand side (see `ksExprSplit`)
    pure (Json.mkObj [("grouped", exprToJson (ksExpr (← par "nu"))),
      ("split", exprToJson (ksExprSplit (← par "neg_nu")))])
  | "SwiftHohenbergPDE" =>
    pure (Json.mkObj [
      ("grouped", exprToJson (swiftHohenbergExpr (← par "a") (← par "delta") (← par "two_kc2"))),
      ("split", exprToJson (swiftHohenbergExprSplit (← par "a") (← par "delta") (← par "two_kc2")))])
  | "WavePDE" =>
    let r := waveExprs (← par "speed2")
    pure (Json.mkObj [("u", exprToJson r.1), ("v", exprToJson r.2)])
  | "KleinGordonPDE" =>
    let r := kleinGordonExprs (← par "speed2") (← par "mass2") (← flag "mass_is_zero")
    pure (Json.mkObj [("u", exprToJson r.1), ("v", exprToJson r.2)])
  | _ => throw s!"unknown class {cls}"

def handlers : List (String × Handler) :=
  [("c10.rate", rate), ("c10.rhs", rhs), ("c10.text", text), ("c10.template", template),
   ("c10.rate_t", rateT), ("c10.rhs_t", rhsT), ("c10.text_t", textT)]
end PdeVerif.Drv.C10
