import PdeVerif.Json
namespace PdeVerif.Drv.C10
open Lean PdeVerif

def handlers : List (String × Handler) := []
end PdeVerif.Drv.C10
