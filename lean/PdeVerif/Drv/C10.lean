import PdeVerif.Json
import PdeVerif.Model.PDEs
import PdeVerif.Drv.C11
/-
Driver of the PDE-class model (C10).  Evaluates the definitions of `Model/PDEs.lean` - the ones
the theorems of `Props/C10.lean` are about - with operators instantiated by data measured on
py-pde's own operators (affine maps `A x + b`), exactly over `Rat` (or over `Float`).
-/
namespace PdeVerif.Drv.C10
open Lean PdeVerif PdeVerif.Ex PdeVerif.PDEs PdeVerif.Drv.C11

section
variable {K : Type} [Add K] [Sub K] [Mul K] [Div K] [Neg K] [NatCast K] [IntCast K] [Inhabited K]

def vecFn (l : Array K) : Nat → K := fun i => l.getD i (zero : K)
def matFn (m : Array (Array K)) : Nat → Nat → K := fun i j => (m.getD i #[]).getD j (zero : K)
def tabulate (n : Nat) (f : Nat → K) : List K := (List.range n).map f

/-- {"A": [[..]..], "b": [..]} -> affine operator; {"comps": [affine..]} -> sum of squares;
{"values": [..]} -> the constant map (an operator result measured for the state itself) -/
partial def opOfJson (num : Json → Except String K) (n : Nat) (j : Json) : Except String (Op Nat K) := do
  match fldOpt j "values" with
  | some v =>
    let l ← getL num v
    pure (fun _ => vecFn l.toArray)
  | none =>
    match fldOpt j "comps" with
    | some cs =>
      let comps ← getL (opOfJson num n) cs
      pure (sumSquares comps)
    | none =>
      let A ← getL (getL num) (← fld j "A")
      let b ← getL num (← fld j "b")
      let Aa := (A.map List.toArray).toArray
      pure (affineOp n (matFn Aa) (vecFn b.toArray))

def getVec (num : Json → Except String K) (j : Json) (k : String) : Except String (Nat → K) := do
  let l ← getL num (← fld j k)
  pure (vecFn l.toArray)

/-- class rates: {"cls", "params": {..}, "n", "ops": {name: op}, "state": {name: [..]}} -/
def rateOf (num : Json → Except String K) (out : K → Json) (j : Json) : Except String Json := do
  let cls ← fldS j "cls"
  let n ← fldN j "n"
  let p ← fld j "params"
  let ops ← fld j "ops"
  let st ← fld j "state"
  let par (k : String) : Except String K := do num (← fld p k)
  let op (k : String) : Except String (Op Nat K) := do opOfJson num n (← fld ops k)
  let vec (f : Nat → K) : Json := Json.arr ((tabulate n f).map out).toArray
  match cls with
  | "DiffusionPDE" =>
    pure (Json.mkObj [("c", vec (diffusionRate (← par "diffusivity") (← op "lap_bc") (← getVec num st "c")))])
  | "AllenCahnPDE" =>
    pure (Json.mkObj [("c", vec (allenCahnRate (← par "interface_width") (← par "mobility")
      (← op "lap_bc") (← getVec num st "c")))])
  | "CahnHilliardPDE" =>
    pure (Json.mkObj [("c", vec (cahnHilliardRate (← par "interface_width") (← op "lap_c") (← op "lap_mu")
      (← getVec num st "c")))])
  | "KPZInterfacePDE" =>
    pure (Json.mkObj [("c", vec (kpzRate (← par "nu") (← par "lmbda") (← op "lap_bc") (← op "gradsq")
      (← getVec num st "c")))])
  | "KuramotoSivashinskyPDE" =>
    pure (Json.mkObj [("c", vec (ksRate (← par "nu") (← op "lap_bc") (← op "lap_bc_lap") (← op "gradsq")
      (← getVec num st "c")))])
  | "SwiftHohenbergPDE" =>
    pure (Json.mkObj [("c", vec (swiftHohenbergRate (← par "rate") (← par "kc2") (← par "delta")
      (← op "lap_bc") (← op "lap_bc_lap") (← getVec num st "c")))])
  | "WavePDE" =>
    let r := waveRate (← par "speed") (← op "lap_bc") (← getVec num st "u") (← getVec num st "v")
    pure (Json.mkObj [("u", vec r.1), ("v", vec r.2)])
  | "KleinGordonPDE" =>
    let r := kleinGordonRate (← par "speed") (← par "mass") (← op "lap_bc") (← getVec num st "u")
      (← getVec num st "v")
    pure (Json.mkObj [("u", vec r.1), ("v", vec r.2)])
  | _ => throw s!"unknown class {cls}"

/-- field semantics of right-hand sides:
{"n", "exprs": [[var, AST]..], "fields": [[name, [..]]..], "scalars": [[name, v]..],
 "ops": [[var, [[opname, op]..]]..]} -> [[var, [..]]..].
Operator names are looked up per equation (py-pde keys boundary conditions by
"variable:operator"); every other function name is a local function. -/
def rhsOf (T : FunTab K) (num : Json → Except String K) (out : K → Json) (j : Json) :
    Except String Json := do
  let n ← fldN j "n"
  let exprs ← getL (pairOfJson exprOfJson) (← fld j "exprs")
  let fields ← getL (pairOfJson (getL num)) (← fld j "fields")
  let scalars ← getL (pairOfJson num) (← fld j "scalars")
  let opsJ ← getL (pairOfJson (getL (pairOfJson (opOfJson num n)))) (← fld j "ops")
  let env : Env (Fld Nat K) :=
    { sc := fun s => match fields.lookup s with
        | some l => ⟨vecFn l.toArray⟩
        | none => match scalars.lookup s with
          | some v => ⟨fun _ => v⟩
          | none => ⟨fun _ => zero⟩,
      ix := fun _ _ => ⟨fun _ => zero⟩ }
  let res := exprs.map (fun (var, e) =>
    let ops : List (String × Op Nat K) := (opsJ.lookup var).getD []
    let tab : FunTab (Fld Nat K) :=
      opTab T (fun f => (ops.lookup f).isSome) (fun f => (ops.lookup f).getD id)
        (fun _ => false) (fun _ x _ => x)
    let v := (eval tab env e).val
    Json.arr #[Json.str var, Json.arr ((tabulate n v).map out).toArray])
  pure (Json.arr res.toArray)

end

instance : Inhabited Rat := ⟨0⟩

def rate (j : Json) : Except String Json := do
  let mode ← fldS j "mode"
  if mode == "Q" then rateOf getQ jQ j else rateOf getF jF j

def rhs (j : Json) : Except String Json := do
  let mode ← fldS j "mode"
  if mode == "Q" then rhsOf (algTab : FunTab Rat) getQ jQ j else rhsOf floatTab getF jF j

/-- the AST the advertised text must have:
{"cls", "printed": {name: "decimal text"}, "flags": {name: bool}} -> AST (or {"u":..,"v":..}) -/
def template (j : Json) : Except String Json := do
  let cls ← fldS j "cls"
  let p ← fld j "printed"
  let ac ← fld j "actual"
  let fl ← fld j "flags"
  let par (k : String) : Except String Fac := do pure ⟨← getQ (← fld ac k), ← getQ (← fld p k)⟩
  let flag (k : String) : Except String Bool := do getB (← fld fl k)
  match cls with
  | "DiffusionPDE" => pure (exprToJson (diffusionExpr (← par "diffusivity")))
  | "AllenCahnPDE" =>
    pure (exprToJson (allenCahnExpr (← par "interface_width") (← par "mobility") (← flag "mobility_is_one")))
  | "CahnHilliardPDE" => pure (exprToJson (cahnHilliardExpr (← par "interface_width")))
  | "KPZInterfacePDE" => pure (exprToJson (kpzExpr (← par "nu") (← par "lmbda")))
  | "KuramotoSivashinskyPDE" => pure (exprToJson (ksExpr (← par "nu")))
  | "SwiftHohenbergPDE" =>
    pure (exprToJson (swiftHohenbergExpr (← par "a") (← par "delta") (← par "two_kc2")))
  | "WavePDE" =>
    let r := waveExprs (← par "speed2")
    pure (Json.mkObj [("u", exprToJson r.1), ("v", exprToJson r.2)])
  | "KleinGordonPDE" =>
    let r := kleinGordonExprs (← par "speed2") (← par "mass2") (← flag "mass_is_zero")
    pure (Json.mkObj [("u", exprToJson r.1), ("v", exprToJson r.2)])
  | _ => throw s!"unknown class {cls}"

def handlers : List (String × Handler) :=
  [("c10.rate", rate), ("c10.rhs", rhs), ("c10.template", template)]
end PdeVerif.Drv.C10
