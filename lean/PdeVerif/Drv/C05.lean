import PdeVerif.Json
import PdeVerif.Model.Conserve
import PdeVerif.Model.ConserveRun
import PdeVerif.Drv.C02
namespace PdeVerif.Drv.C05
open Lean PdeVerif PdeVerif.Stencil PdeVerif.Conserve PdeVerif.BC PdeVerif.Solvers
open PdeVerif.Drv.C02 (arrFn parseCond allIdx)

/-- {"cls","shape","lo","dx","op":"laplace"|"divergence","method","conservative","rank","dim",
    "data":[padded array incl. component axis], "faces":[...as c02.ghost...]}
 -> volume-weighted sum (without the factor pi) of the operator applied after the model set the ghost cells -/
def integral (j : Json) : Except String Json := do
  let cls ← fldS j "cls"
  let shape ← fldNs j "shape"
  let lo ← fldQs j "lo"
  let dx ← fldQs j "dx"
  let op ← fldS j "op"
  let rank ← fldN j "rank"
  let dim ← fldN j "dim"
  let cons ← (match fldOpt j "conservative" with | some v => getB v | none => pure true)
  let mth ← (match fldOpt j "method" with
    | some v => do
      let s ← getS v
      match s with
      | "forward" => pure Method.forward
      | "backward" => pure Method.backward
      | _ => pure Method.central
    | none => pure Method.central)
  let data ← fldQs j "data"
  let fshape := List.replicate rank dim ++ shape.map (· + 2)
  let a0 : List Int → Rat := arrFn fshape data.toArray
  let facesJ ← (do getL pure (← fld j "faces"))
  let faces ← facesJ.mapM (fun fj => do
    let axis ← fldN fj "axis"
    let upper ← fldB fj "upper"
    let normal ← fldB fj "normal"
    let dxf ← fldQ fj "dx"
    let ncomp := if normal then rank - 1 else rank
    let c ← parseCond (← fld fj "cond") ncomp
    let f : Face := { shape := shape, rank := rank, axis := axis,
                      side := if upper then .upper else .lower, normal := normal }
    pure (f, dxf, c))
  let a := setGhostAll faces a0
  let n := shape.getD 0 0
  let m := shape.getD 1 0
  let l := shape.getD 2 0
  let d0 := dx.getD 0 1
  let d1 := dx.getD 1 1
  let d2 := dx.getD 2 1
  let r : Int → Rat := centre (lo.getD 0 0) d0
  match cls, op, shape.length with
  | "cart", "laplace", 1 => pure (jQ (intCart1Laplace d0 a n))
  | "cart", "laplace", 2 => pure (jQ (intCart2Laplace d0 d1 a n m))
  | "cart", "laplace", 3 => pure (jQ (intCart3Laplace d0 d1 d2 a n m l))
  | "polar", "laplace", _ => pure (jQ (intPolarLaplace r d0 a n))
  | "sph", "laplace", _ => pure (jQ (intSphLaplace cons r d0 a n))
  | "cyl", "laplace", _ => pure (jQ (intCylLaplace r d0 d1 a n m))
  | "cart", "divergence", 1 => pure (jQ (intCart1Divergence mth d0 a n))
  | "cart", "divergence", 2 => pure (jQ (intCart2Divergence mth d0 d1 a n m))
  | "cart", "divergence", 3 => pure (jQ (intCart3Divergence mth d0 d1 d2 a n m l))
  | "sph", "divergence", _ => pure (jQ (intSphDivergence cons mth r d0 a n))
  | "polar", "divergence", _ => pure (jQ (intPolarDivergence r d0 a n))
  | "cyl", "divergence", _ => pure (jQ (intCylDivergence r d0 d1 a n m))
  | _, _, _ => throw s!"integral of {op} not modelled for {cls}/{shape.length}"

def parseMethod (j : Json) : Except String Method :=
  match fldOpt j "method" with
  | some v => do
    let s ← getS v
    match s with
    | "forward" => pure Method.forward
    | "backward" => pure Method.backward
    | _ => pure Method.central
  | none => pure Method.central

/-- The term the zero-sum theorems of `Props/C05b.lean` are about, evaluated:
{"cls","shape","lo","dx","per":[bool..],"op","method","vector":bool,"dim","data":[padded array],
 "inner": optional {"normal":bool,"cond":{...}} (condition on the inner face of a radial grid; default: conserving)}
 -> {"ghost": padded array after `setGhostAll (consFaces | radialFaces ...)`,
     "integral": `int… (centre lo dr) dr (setGhostAll …) n` without the factor pi} -/
def cons (j : Json) : Except String Json := do
  let cls ← fldS j "cls"
  let shape ← fldNs j "shape"
  let lo ← fldQs j "lo"
  let dx ← fldQs j "dx"
  let per ← (do getL getB (← fld j "per"))
  let op ← fldS j "op"
  let vector ← fldB j "vector"
  let dim ← fldN j "dim"
  let mth ← parseMethod j
  let data ← fldQs j "data"
  let rank := if vector then 1 else 0
  let fshape := List.replicate rank dim ++ shape.map (· + 2)
  let a0 : List Int → Rat := arrFn fshape data.toArray
  let faces ← (match fldOpt j "inner" with
    | some ij => do
      let nin ← fldB ij "normal"
      let cin ← parseCond (← fld ij "cond") (if nin then rank - 1 else rank)
      pure (radialFaces shape vector dx per cin nin)
    | none => pure (consFaces shape vector dx per))
  let a := setGhostAll faces a0
  let n := shape.getD 0 0
  let m := shape.getD 1 0
  let l := shape.getD 2 0
  let d0 := dx.getD 0 1
  let d1 := dx.getD 1 1
  let d2 := dx.getD 2 1
  let r : Int → Rat := centre (lo.getD 0 0) d0
  let v ← (match cls, op, shape.length with
    | "cart", "laplace", 1 => pure (intCart1Laplace d0 a n)
    | "cart", "laplace", 2 => pure (intCart2Laplace d0 d1 a n m)
    | "cart", "laplace", 3 => pure (intCart3Laplace d0 d1 d2 a n m l)
    | "polar", "laplace", _ => pure (intPolarLaplace r d0 a n)
    | "sph", "laplace", _ => pure (intSphLaplace true r d0 a n)
    | "cyl", "laplace", _ => pure (intCylLaplace r d0 d1 a n m)
    | "cart", "divergence", 1 => pure (intCart1Divergence mth d0 a n)
    | "cart", "divergence", 2 => pure (intCart2Divergence mth d0 d1 a n m)
    | "cart", "divergence", 3 => pure (intCart3Divergence mth d0 d1 d2 a n m l)
    | "sph", "divergence", _ => pure (intSphDivergence true mth r d0 a n)
    | _, _, _ => throw s!"no zero-sum theorem for {op} on {cls}/{shape.length}")
  pure (Json.mkObj [("ghost", jQs ((allIdx fshape).map a)), ("integral", jQ v)])

/-- The term the run theorems of `Props/C05d.lean` are about, evaluated at `Rat`:
{"cls","shape","lo","dx","per":[bool..],"scheme":"euler"|"rk4"|"implicit"|"crank-nicolson" (+ "maxiter","maxerror","alpha"),"eq":"diffusion"|"cahn-hilliard"|"two-fields" (data = cells of `a`, then of `c`; `twoFieldRate`, mass of `c`),"coef": D | γ | κ,
 "dt","ts","te","data":[values of the valid cells, row-major]}
 -> {"state": `state.data` after `solverRuns (validCells shape) solver (consRate …) dt te (dt/10^6) 16 ts data 0` (the controller loop
     around `solverRun`), "t": final time, "steps": total number of steps, "mass0"/"mass1": `cellMass` (integral without the factor pi) before / after} -/
def run (j : Json) : Except String Json := do
  let clsS ← fldS j "cls"
  let shape ← fldNs j "shape"
  let lo ← fldQs j "lo"
  let dx ← fldQs j "dx"
  let per ← (do getL getB (← fld j "per"))
  let schS ← fldS j "scheme"
  let eqS ← fldS j "eq"
  let coef ← fldQ j "coef"
  let dt ← fldQ j "dt"
  let ts ← fldQ j "ts"
  let te ← fldQ j "te"
  let data ← fldQs j "data"
  let cls ← (match clsS with
    | "cart" => pure GridCls.cart
    | "polar" => pure GridCls.polar
    | "sph" => pure GridCls.sph
    | "cyl" => pure GridCls.cyl
    | _ => throw s!"grid class {clsS}")
  let maxiter := (match fldOpt j "maxiter" with | some v => (getN v).toOption.getD 100 | none => 100)
  let maxerror ← (match fldOpt j "maxerror" with | some v => getQ v | none => pure (1 / 10000 : Rat))
  let alpha ← (match fldOpt j "alpha" with | some v => getQ v | none => pure (0 : Rat))
  let sol ← (match schS with
    | "euler" => pure (RunSolver.explicit RunScheme.euler)
    | "rk4" => pure (RunSolver.explicit RunScheme.rk4)
    | "implicit" => pure (RunSolver.implicit maxiter maxerror)
    | "crank-nicolson" => pure (RunSolver.crankNicolson alpha maxiter maxerror)
    | _ => throw s!"scheme {schS}")
  let l0 : Rat := lo.getD 0 0
  let cells := if eqS == "two-fields" then cells2 shape else validCells shape
  if data.length ≠ cells.length then throw "data does not match the shape"
  let rate ← (match eqS with
    | "diffusion" => pure (consRate cls shape l0 dx per (muDiffusion coef))
    | "cahn-hilliard" => pure (consRate cls shape l0 dx per (muCahnHilliard cls l0 dx (consFaces shape false dx per) coef))
    | "two-fields" => pure (twoFieldRate cls shape l0 dx per coef)
    | _ => throw s!"equation {eqS}")
  let mass : List Rat → Rat := if eqS == "two-fields" then cellMass2 cls shape l0 dx else cellMass cls shape l0 dx
  match solverRuns cells sol rate dt te (dt / 1000000) 16 ts data 0 with
  | none => throw "step failed"
  | some (s', tr, steps) =>
    pure (Json.mkObj [("state", jQs s'), ("t", jQ tr), ("steps", Json.num steps),
      ("mass0", jQ (mass data)), ("mass1", jQ (mass s'))])

def handlers : List (String × Handler) := [("c05.integral", integral), ("c05.cons", cons), ("c05.run", run)]
end PdeVerif.Drv.C05
