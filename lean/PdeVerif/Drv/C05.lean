import PdeVerif.Json
namespace PdeVerif.Drv.C05
open Lean PdeVerif

def handlers : List (String × Handler) := []
end PdeVerif.Drv.C05
