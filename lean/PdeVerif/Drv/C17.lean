import PdeVerif.Json
import PdeVerif.Model.Mesh
namespace PdeVerif.Drv.C17
open Lean PdeVerif PdeVerif.Mesh

def jN (n : Nat) : Json := toJson n
def jNs (l : List Nat) : Json := Json.arr (l.map jN).toArray
def jNss (l : List (List Nat)) : Json := Json.arr (l.map jNs).toArray
def jPair (p : Nat × Nat) : Json := Json.arr #[jN p.1, jN p.2]
def jPairs (l : List (Nat × Nat)) : Json := Json.arr (l.map jPair).toArray
def jOptN (o : Option Nat) : Json := match o with | none => Json.null | some n => jN n
def jOptI (o : Option Int) : Json := match o with | none => Json.null | some n => toJson n
def jList {α} (f : α → Json) (l : List α) : Json := Json.arr (l.map f).toArray

def fldNss (j : Json) (k : String) : Except String (List (List Nat)) := do getL (getL getN) (← fld j k)
def fldBs (j : Json) (k : String) : Except String (List Bool) := do getL getB (← fld j k)

def getMesh (j : Json) : Except String Mesh := do
  let axes ← fldNss j "axes"
  let periodic ← (match fldOpt j "periodic" with
    | some v => getL getB v
    | none => pure (axes.map fun _ => false))
  pure { axes := axes, periodic := periodic }

/-- row-major flat data <-> `Arr` (uses the model's own `ravel`/`unravel`) -/
def arrOfFlat (shape : List Nat) (a : Array Int) : Arr Int := { shape := shape, get := fun p => a.getD (ravel shape p) 0 }
def flatOfFun {α} (shape : List Nat) (f : List Nat → α) : List α := (List.range shape.prod).map fun i => f (unravel shape i)
def flatOfArr {α} (a : Arr α) : List α := flatOfFun a.shape a.get

/-- {"num":..,"chunks":..,"sizes":[..]} -> reference sizes (null = raises), contract and balance of
the given (real) sizes -/
def subdivideH (j : Json) : Except String Json := do
  let num ← fldN j "num"
  let chunks ← fldN j "chunks"
  let sizes ← fldNs j "sizes"
  let ref := match subdivideChecked num chunks with | none => Json.null | some l => jNs l
  pure (Json.mkObj [("ref", ref), ("contract", toJson (contractB sizes num)), ("balanced", toJson (balancedB sizes))])

def kindOf (s : String) : Except String GridKind :=
  match s with
  | "cartesian" => pure .cartesian | "spherical" => pure .spherical | "polar" => pure .polar
  | "cylindrical" => pure .cylindrical | _ => throw s!"unknown grid kind {s}"

def outcomeStr : Outcome → String
  | .ok => "ok" | .unknownSize => "unknown-size" | .twoUnknown => "two-unknown"
  | .notEnoughNodes => "not-enough-nodes" | .tooManyChunks => "too-many-chunks"
  | .notImplemented => "not-implemented" | .indexError => "index-error" | .assertionError => "assertion-error"

/-- {"kind":..,"r0nz":bool,"shape":[..],"dec":[ints],"mpi_size":n} -> outcome of from_grid -/
def outcomeH (j : Json) : Except String Json := do
  let kind ← kindOf (← fldS j "kind")
  let r0nz ← fldB j "r0nz"
  let shape ← fldNs j "shape"
  let dec ← fldIs j "dec"
  let mpiSize ← fldN j "mpi_size"
  match parseDecomposition mpiSize shape.length dec with
  | .error e => pure (Json.mkObj [("outcome", Json.str (outcomeStr e)), ("dec", Json.null)])
  | .ok d => pure (Json.mkObj [("outcome", Json.str (outcomeStr (fromGridOutcome kind r0nz shape d))), ("dec", jNs d)])

/-- all index bookkeeping of a mesh -/
def meshH (j : Json) : Except String Json := do
  let m ← getMesh j
  let ids := List.range m.len
  let rank := m.axes.length
  let nb (id : Nat) : Json := jList (fun ax => Json.arr #[jOptN (neighbor m ax false id), jOptN (neighbor m ax true id)]) (List.range rank)
  let fl (id : Nat) : Json := jList (fun ax => Json.arr #[
      (match neighbor m ax false id with | none => Json.null | some o => jN (boundaryFlag id o false)),
      (match neighbor m ax true id with | none => Json.null | some o => jN (boundaryFlag id o true))]) (List.range rank)
  let contract := m.axes.all fun s => contractB s s.sum
  pure (Json.mkObj [
    ("dec", jNs m.dec), ("shape", jNs m.shape), ("len", jN m.len),
    ("contract", toJson contract),
    ("idx", jList (fun id => jNs (m.id2idx id)) ids),
    ("id_back", jList (fun id => jN (m.idx2id (m.id2idx id))) ids),
    ("slices", jList (fun s => jPairs (slices1d false s)) m.axes),
    ("slices_ghost", jList (fun s => jPairs (slices1d true s)) m.axes),
    ("box", jList (fun id => jPairs (m.box false id)) ids),
    ("box_ghost", jList (fun id => jPairs (m.box true id)) ids),
    ("sub_shape", jList (fun id => jNs (m.subShape id)) ids),
    ("sub_periodic", Json.arr (m.subPeriodic.map toJson).toArray),
    ("neighbors", jList nb ids),
    ("flags", jList fl ids)])

/-- {"axes":..,"kind":..,"bounds":[[lo,hi]..] (exact)} -> bounds of every sub-grid, the centres of its
cells along every axis and its volume coefficient -/
def boundsH (j : Json) : Except String Json := do
  let m ← getMesh j
  let ids := List.range m.len
  let kind ← kindOf (← fldS j "kind")
  let bq ← fld j "bounds"
  let bs ← getL (fun p => do let l ← getL getQ p; match l with | [a, b] => pure (a, b) | _ => throw "bad bounds") bq
  let one (id : Nat) : Json :=
    let sb : List (Rat × Rat) := subBounds bs m.axes (m.id2idx id)
    let shp := m.subShape id
    let coords := (sb.zip shp).map fun (p, n) => (List.range n).map fun c => cellCoord p.1 p.2 n c
    Json.mkObj [("bounds", jList (fun (p : Rat × Rat) => Json.arr #[jQ p.1, jQ p.2]) sb),
                ("coords", jList jQs coords), ("vol", jQ (volCoef kind sb))]
  pure (jList one ids)

/-- {"axes":..,"ghost":bool,"data":[ints] (row-major, base array shape)} -> per node shape and data -/
def extractH (j : Json) : Except String Json := do
  let m ← getMesh j
  let ghost ← fldB j "ghost"
  let data ← fldIs j "data"
  let a := arrOfFlat (m.arrShape ghost) data.toArray
  if data.length ≠ (m.arrShape ghost).prod then throw "data length does not match the base array shape"
  pure (jList (fun id =>
    let s := m.extract ghost a id
    Json.mkObj [("shape", jNs s.shape), ("data", jIs (flatOfArr s))]) (List.range m.len))

/-- {"axes":..,"ghost":bool,"subs":[[ints] per node]} -> combined base array, null = not written -/
def combineH (j : Json) : Except String Json := do
  let m ← getMesh j
  let ghost ← fldB j "ghost"
  let subs ← getL (getL getI) (← fld j "subs")
  let arrs : Array (Arr Int) := (subs.zipIdx.map fun (flat, id) =>
    arrOfFlat ((m.subShape id).map (· + gadd ghost)) flat.toArray).toArray
  let get (id : Nat) (p : List Nat) : Int := match arrs[id]? with | some a => a.get p | none => 0
  pure (jList jOptI (flatOfFun (m.arrShape ghost) (m.combine ghost get)))

/-- {"n":..,"upper":bool} -> [read index, write index] of `_MPIBC` along its axis -/
def mpibcH (j : Json) : Except String Json := do
  let n ← fldN j "n"
  let upper ← fldB j "upper"
  pure (Json.arr #[jN (mpiRead upper n), jN (mpiWrite upper n)])

def handlers : List (String × Handler) := [
  ("c17.subdivide", subdivideH), ("c17.outcome", outcomeH), ("c17.mesh", meshH), ("c17.bounds", boundsH),
  ("c17.extract", extractH), ("c17.combine", combineH), ("c17.mpibc", mpibcH)]
end PdeVerif.Drv.C17
