import PdeVerif.Json
namespace PdeVerif.Drv.C17
open Lean PdeVerif

def handlers : List (String × Handler) := []
end PdeVerif.Drv.C17
