import PdeVerif.Json
import PdeVerif.Model.Mesh
namespace PdeVerif.Drv.C17
open Lean PdeVerif PdeVerif.Mesh

def jN (n : Nat) : Json := toJson n
def jNs (l : List Nat) : Json := Json.arr (l.map jN).toArray
def jNss (l : List (List Nat)) : Json := Json.arr (l.map jNs).toArray
def jPair (p : Nat × Nat) : Json := Json.arr #[jN p.1, jN p.2]
def jPairs (l : List (Nat × Nat)) : Json := Json.arr (l.map jPair).toArray
def jOptN (o : Option Nat) : Json := match o with | none => Json.null | some n => jN n
def jOptI (o : Option Int) : Json := match o with | none => Json.null | some n => toJson n
def jList {α} (f : α → Json) (l : List α) : Json := Json.arr (l.map f).toArray

def fldNss (j : Json) (k : String) : Except String (List (List Nat)) := do getL (getL getN) (← fld j k)
def fldBs (j : Json) (k : String) : Except String (List Bool) := do getL getB (← fld j k)

def getMesh (j : Json) : Except String Mesh := do
  let axes ← fldNss j "axes"
  let periodic ← (match fldOpt j "periodic" with
    | some v => getL getB v
    | none => pure (axes.map fun _ => false))
  pure { axes := axes, periodic := periodic }

/-- row-major flat data <-> `Arr` (uses the model's own `ravel`/`unravel`) -/
def arrOfFlat (shape : List Nat) (a : Array Int) : Arr Int := { shape := shape, get := fun p => a.getD (ravel shape p) 0 }
def flatOfFun {α} (shape : List Nat) (f : List Nat → α) : List α := (List.range shape.prod).map fun i => f (unravel shape i)
def flatOfArr {α} (a : Arr α) : List α := flatOfFun a.shape a.get

/-- {"num":..,"chunks":..,"sizes":[..]} -> the sizes the model of the real computation gives at `Float`
(`np.linspace` replayed bit for bit; null = raises), the same definition at `Rat` (= the integer
formula by `linCut_exact`), the integer formula, and contract and balance of the given (real) sizes and
of the model's `Float` sizes -/
def subdivideH (j : Json) : Except String Json := do
  let num ← fldN j "num"
  let chunks ← fldN j "chunks"
  let sizes ← fldNs j "sizes"
  let ref := match subdivideChecked num chunks with | none => Json.null | some l => jNs l
  let lin := subdivideLinChecked Float num chunks
  let linQ := subdivideLinChecked Rat num chunks
  let jo (o : Option (List Int)) : Json := match o with | none => Json.null | some l => jIs l
  let linOk := match lin with
    | none => true
    | some l => l.all (fun x => decide (0 ≤ x)) && contractB (l.map Int.toNat) num && balancedB (l.map Int.toNat)
  pure (Json.mkObj [("ref", ref), ("lin", jo lin), ("lin_exact", jo linQ), ("lin_contract_balanced", toJson linOk),
    ("contract", toJson (contractB sizes num)), ("balanced", toJson (balancedB sizes))])

def kindOf (s : String) : Except String GridKind :=
  match s with
  | "cartesian" => pure .cartesian | "spherical" => pure .spherical | "polar" => pure .polar
  | "cylindrical" => pure .cylindrical | _ => throw s!"unknown grid kind {s}"

def outcomeStr : Outcome → String
  | .ok => "ok" | .unknownSize => "unknown-size" | .twoUnknown => "two-unknown"
  | .notEnoughNodes => "not-enough-nodes" | .tooManyChunks => "too-many-chunks"
  | .notImplemented => "not-implemented" | .indexError => "index-error" | .assertionError => "assertion-error"
  | .nodeCount => "node-count"

/-- {"kind":..,"r0nz":bool,"shape":[..],"dec":[ints],"mpi_size":n} -> outcome of from_grid -/
def outcomeH (j : Json) : Except String Json := do
  let kind ← kindOf (← fldS j "kind")
  let r0nz ← fldB j "r0nz"
  let shape ← fldNs j "shape"
  let dec ← fldIs j "dec"
  let mpiSize ← fldN j "mpi_size"
  let (o, d) := fromGridMpi mpiSize kind r0nz shape dec
  pure (Json.mkObj [("outcome", Json.str (outcomeStr o)), ("dec", match d with | none => Json.null | some d => jNs d)])

/-- all index bookkeeping of a mesh -/
def meshH (j : Json) : Except String Json := do
  let m ← getMesh j
  let ids := List.range m.len
  let rank := m.axes.length
  let nb (id : Nat) : Json := jList (fun ax => Json.arr #[jOptN (neighbor m ax false id), jOptN (neighbor m ax true id)]) (List.range rank)
  let fl (id : Nat) : Json := jList (fun ax => Json.arr #[
      (match neighbor m ax false id with | none => Json.null | some o => jN (boundaryFlag id o false)),
      (match neighbor m ax true id with | none => Json.null | some o => jN (boundaryFlag id o true))]) (List.range rank)
  let contract := m.axes.all fun s => contractB s s.sum
  pure (Json.mkObj [
    ("dec", jNs m.dec), ("shape", jNs m.shape), ("len", jN m.len),
    ("contract", toJson contract),
    ("idx", jList (fun id => jNs (m.id2idx id)) ids),
    ("id_back", jList (fun id => jN (m.idx2id (m.id2idx id))) ids),
    ("slices", jList (fun s => jPairs (slices1d false s)) m.axes),
    ("slices_ghost", jList (fun s => jPairs (slices1d true s)) m.axes),
    ("box", jList (fun id => jPairs (m.box false id)) ids),
    ("box_ghost", jList (fun id => jPairs (m.box true id)) ids),
    ("sub_shape", jList (fun id => jNs (m.subShape id)) ids),
    ("sub_periodic", Json.arr (m.subPeriodic.map toJson).toArray),
    ("neighbors", jList nb ids),
    ("flags", jList fl ids)])

/-- {"axes":..,"kind":..,"bounds":[[lo,hi]..] (exact)} -> bounds of every sub-grid, the centres of its
cells along every axis and its volume coefficient -/
def boundsH (j : Json) : Except String Json := do
  let m ← getMesh j
  let ids := List.range m.len
  let kind ← kindOf (← fldS j "kind")
  let bq ← fld j "bounds"
  let bs ← getL (fun p => do let l ← getL getQ p; match l with | [a, b] => pure (a, b) | _ => throw "bad bounds") bq
  let one (id : Nat) : Json :=
    let sb : List (Rat × Rat) := subBounds bs m.axes (m.id2idx id)
    let shp := m.subShape id
    let coords := (sb.zip shp).map fun (p, n) => (List.range n).map fun c => cellCoord p.1 p.2 n c
    let edges := (sb.zip shp).map fun (p, n) => (List.range (n + 1)).map fun c => cellEdge p.1 p.2 n c
    Json.mkObj [("bounds", jList (fun (p : Rat × Rat) => Json.arr #[jQ p.1, jQ p.2]) sb),
                ("coords", jList jQs coords), ("edges", jList jQs edges), ("vol", jQ (volCoef kind sb))]
  pure (jList one ids)

/-- {"axes":..,"ghost":bool,"data":[ints] (row-major, base array shape)} -> per node shape and data -/
def extractH (j : Json) : Except String Json := do
  let m ← getMesh j
  let ghost ← fldB j "ghost"
  let data ← fldIs j "data"
  let a := arrOfFlat (m.arrShape ghost) data.toArray
  if data.length ≠ (m.arrShape ghost).prod then throw "data length does not match the base array shape"
  pure (jList (fun id =>
    let s := m.extract ghost a id
    Json.mkObj [("shape", jNs s.shape), ("data", jIs (flatOfArr s))]) (List.range m.len))

/-- {"axes":..,"ghost":bool,"subs":[[ints] per node]} -> combined base array, null = not written -/
def combineH (j : Json) : Except String Json := do
  let m ← getMesh j
  let ghost ← fldB j "ghost"
  let subs ← getL (getL getI) (← fld j "subs")
  let arrs : Array (Arr Int) := (subs.zipIdx.map fun (flat, id) =>
    arrOfFlat ((m.subShape id).map (· + gadd ghost)) flat.toArray).toArray
  let get (id : Nat) (p : List Nat) : Int := match arrs[id]? with | some a => a.get p | none => 0
  pure (jList jOptI (flatOfFun (m.arrShape ghost) (m.combine ghost get)))

/-- {"n":..,"upper":bool} -> [read index, write index] of `_MPIBC` along its axis -/
def mpibcH (j : Json) : Except String Json := do
  let n ← fldN j "n"
  let upper ← fldB j "upper"
  pure (Json.arr #[jN (mpiRead upper n), jN (mpiWrite upper n)])

def jOptF (o : Option Float) : Json := match o with | none => Json.null | some x => jF x

def getAnti (j : Json) (m : Mesh) : Except String (List Bool) :=
  match fldOpt j "anti" with
  | some v => getL getB v
  | none => pure (m.axes.map fun _ => false)

/-- the padded base array (row-major doubles) as an `Arr` -/
def fullOfFlat (m : Mesh) (a : Array Float) : Arr Float :=
  { shape := m.arrShape true, get := fun p => a.getD (ravel (m.arrShape true) p) 0.0 }

/-- {"axes":..,"periodic":..,"anti":[bool per axis],"full":[doubles, padded base array]} -> per node the
padded sub-array after `Mesh.exchange` started from `Mesh.initSub` (null = never written).  Only the
valid cells of `full` are read. -/
def exchangeH (j : Json) : Except String Json := do
  let m ← getMesh j
  let anti ← getAnti j m
  let data ← fldFs j "full"
  if data.length ≠ (m.arrShape true).prod then throw "data length does not match the padded base array shape"
  let full := fullOfFlat m data.toArray
  let st := m.exchange anti (m.initSub full)
  pure (jList (fun id =>
    let shp := (m.subShape id).map (· + 2)
    let fl (ax : Nat) (up : Bool) : Json :=
      match neighbor m ax up id with | none => Json.null | some _ => toJson (mpiFlip m anti ax up id)
    Json.mkObj [("shape", jNs shp), ("data", jList jOptF (flatOfFun shp (st id))),
      ("flip", jList (fun ax => Json.arr #[fl ax false, fl ax true]) (List.range m.axes.length))]) (List.range m.len))

/-- {"axes":..,"periodic":..,"anti":..,"full":[doubles: padded base array with the global condition imposed],
"coef":[1/dx^2 per axis]} -> the Cartesian Laplacian (plus-shaped stencil)
 * "whole": `applyStencil` at every cell of the whole grid,
 * "split": `combine` of `applyStencil` on the padded sub-arrays cut out of `full` (the term of
   `operator_split_combine`),
 * "exchanged": `combine` of `applyStencilOn` on the sub-arrays built by `initSub`, `exchange`, `setOuter` (the
   term of `operator_exchange_combine`); null = some read hit a cell that nobody wrote -/
def stencilH (j : Json) : Except String Json := do
  let m ← getMesh j
  let anti ← getAnti j m
  let data ← fldFs j "full"
  let coef ← fldFs j "coef"
  if data.length ≠ (m.arrShape true).prod then throw "data length does not match the padded base array shape"
  let full := fullOfFlat m data.toArray
  let r := m.axes.length
  let S : List Nat → List Float → Float := fun _ v => laplaceOfReads coef v
  let reads := plusReads r
  let whole := flatOfFun m.shape fun g => applyStencil S reads full g g
  let split := flatOfFun m.shape (m.combine false fun id p =>
    applyStencil S reads (m.extract true full id) (vadd (starts (m.box false id)) p) p)
  let st := m.setOuter full (m.exchange anti (m.initSub full))
  let exch := flatOfFun m.shape (m.combine false fun id p =>
    applyStencilOn S reads (st id) (vadd (starts (m.box false id)) p) p)
  let flat2 (l : List (Option (Option Float))) : Json := jList (fun o => jOptF o.join) l
  pure (Json.mkObj [("whole", jList jOptF whole), ("split", flat2 split), ("exchanged", flat2 exch)])

/-- {"axes":..,"ghost":bool,"members":[number of components per member]}: a collection whose component `c` (numbered
through the whole collection) holds `100000*c + k` in padded cell `k` (row-major) -> per node, per member, per
component {"shape","data"} of `Mesh.subcollection`; null = a cell the extraction leaves undefined -/
def subcollH (j : Json) : Except String Json := do
  let m ← getMesh j
  let ghost ← fldB j "ghost"
  let ncs ← getL getN (← fld j "members")
  let shp := m.arrShape true
  let mk (c : Nat) : Arr Int := { shape := shp, get := fun p => ((100000 * c + ravel shp p : Nat) : Int) }
  let members : List (List (Arr Int)) :=
    (ncs.foldl (fun (acc : List (List (Arr Int)) × Nat) nc =>
      (acc.1 ++ [(List.range nc).map (fun c => mk (acc.2 + c))], acc.2 + nc)) ([], 0)).1
  pure (jList (fun id =>
    jList (fun comps => jList (fun (s : Arr (Option Int)) =>
      Json.mkObj [("shape", jNs s.shape), ("data", jList jOptI (flatOfArr s))]) comps)
      (m.subcollection ghost members id)) (List.range m.len))

def handlers : List (String × Handler) := [
  ("c17.subcoll", subcollH),
  ("c17.subdivide", subdivideH), ("c17.outcome", outcomeH), ("c17.mesh", meshH), ("c17.bounds", boundsH),
  ("c17.extract", extractH), ("c17.combine", combineH), ("c17.mpibc", mpibcH),
  ("c17.exchange", exchangeH), ("c17.stencil", stencilH)]
end PdeVerif.Drv.C17
