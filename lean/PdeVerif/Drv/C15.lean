import PdeVerif.Json
import PdeVerif.Model.Heap
import PdeVerif.Model.HandOut
/-
Driver of C15: replays an operation history on the heap model (`PdeVerif.Heap.step`, the
definitions the theorems of `Props/C15.lean` are about) at exact complex-rational values and
reports, after every step, which handles exist, where each of them looks (buffer, offset,
length, dtype), what is read through it, and the complete aliasing relation.  Histories may hold
operations on the Python list objects of the caller (`Model/HandOut.lean`: `xstep`, the definition
the theorems `handed_out_list_is_a_copy`, `no_list_edit_changes_world`, ... are about); every record
also lists the content and the owners of all list objects.
-/
namespace PdeVerif.Drv.C15
open Lean PdeVerif PdeVerif.Heap

/-- exact complex rational numbers (values of every numpy dtype the harness uses) -/
structure CQ where
  re : Rat
  im : Rat
deriving DecidableEq, Inhabited

instance : Add CQ := ⟨fun a b => ⟨a.re + b.re, a.im + b.im⟩⟩
instance : Sub CQ := ⟨fun a b => ⟨a.re - b.re, a.im - b.im⟩⟩
instance : Neg CQ := ⟨fun a => ⟨-a.re, -a.im⟩⟩
instance : Mul CQ := ⟨fun a b => ⟨a.re * b.re - a.im * b.im, a.re * b.im + a.im * b.re⟩⟩
instance : Div CQ := ⟨fun a b =>
  let d := b.re * b.re + b.im * b.im
  ⟨(a.re * b.re + a.im * b.im) / d, (a.im * b.re - a.re * b.im) / d⟩⟩
instance : NatCast CQ := ⟨fun n => ⟨(n : Rat), 0⟩⟩

/-- `2^e` as a rational -/
def pow2 (e : Int) : Rat :=
  if e ≥ 0 then ((2 ^ e.toNat : Nat) : Rat) else 1 / ((2 ^ (-e).toNat : Nat) : Rat)

/-- the largest `e` with `2^e ≤ |q|` (`q ≠ 0`) -/
def ilog2 (q : Rat) : Int :=
  let e0 : Int := (Nat.log2 q.num.natAbs : Int) - (Nat.log2 q.den : Int)
  if pow2 e0 ≤ (if q < 0 then -q else q) then e0 else e0 - 1

/-- IEEE binary32 rounding (nearest, ties to even; subnormals; no overflow handling: the harness
keeps values far below `2^128`) of an exact rational: what `ndarray.astype(float32)` stores -/
def round32 (q : Rat) : Rat :=
  if q = 0 then 0 else
  let e := max (ilog2 q) (-126)
  let quantum := pow2 (e - 23)
  ((roundHE (q / quantum) : Int) : Rat) * quantum

/-- numpy's conversion of a (complex) value to a dtype: real dtypes keep the real part, single
precision rounds both parts; `i64` is never the target of a lossy conversion in the model -/
instance : DCast CQ := ⟨fun d z =>
  match d with
  | .c128 => z
  | .f64 => ⟨z.re, 0⟩
  | .c64 => ⟨round32 z.re, round32 z.im⟩
  | .f32 => ⟨round32 z.re, 0⟩
  | .i64 => z⟩

def getCQ (j : Json) : Except String CQ :=
  match j with
  | .arr a =>
    match a.toList with
    | [r, i] => do pure ⟨← getQ r, ← getQ i⟩
    | _ => .error s!"bad complex {j.compress}"
  | _ => do pure ⟨← getQ j, 0⟩

def jRat (q : Rat) : Json := if q.den = 1 then toJson q.num else Json.str (showQ q)
def jCQ (z : CQ) : Json := if z.im = 0 then jRat z.re else Json.arr #[jRat z.re, jRat z.im]
def jCell : Option CQ → Json
  | none => Json.null
  | some z => jCQ z

def getOptCQ (j : Json) : Except String (Option CQ) :=
  match j with
  | .null => pure none
  | _ => do pure (some (← getCQ j))

def parseDT (s : String) : Except String DType :=
  match s with
  | "i64" => pure .i64 | "f32" => pure .f32 | "f64" => pure .f64
  | "c64" => pure .c64 | "c128" => pure .c128
  | _ => .error s!"bad dtype {s}"

def showDT : DType → String
  | .i64 => "i64" | .f32 => "f32" | .f64 => "f64" | .c64 => "c64" | .c128 => "c128"

def optDT (j : Json) (k : String) : Except String (Option DType) :=
  match fldOpt j k with
  | some (.str s) => do pure (some (← parseDT s))
  | _ => pure none

def parseCls (s : String) : Except String Cls :=
  match s with
  | "scalar" => pure .scalar | "vector" => pure .vector | "tensor" => pure .tensor
  | "coll" => pure .coll | "raw" => pure .raw
  | _ => .error s!"bad class {s}"

def showCls : Cls → String
  | .scalar => "scalar" | .vector => "vector" | .tensor => "tensor" | .coll => "coll" | .raw => "raw"

def showErr : Err → String
  | .badHandle => "badHandle" | .badArg => "badArg" | .empty => "empty"
  | .gridMismatch => "gridMismatch" | .nested => "nested" | .classMismatch => "classMismatch"
  | .notScalar => "notScalar" | .broadcast => "broadcast" | .cast => "cast"

def parseBinOp (j : Json) : Except String BinOp := do
  match (← fldS j "bop") with
  | "add" => pure .add | "sub" => pure .sub | "rsub" => pure .rsub | "mul" => pure .mul
  | "div" => pure .div | "rdiv" => pure .rdiv
  | "pow" => do pure (.pow (← fldN j "n"))
  | s => .error s!"bad binop {s}"

def parseOperand (j : Json) : Except String (Operand CQ) :=
  match fldOpt j "b" with
  | some (.num n) => if n.exponent = 0 && n.mantissa ≥ 0 then pure (.obj n.mantissa.toNat)
                     else .error "bad operand handle"
  | _ => do pure (.num (← getCQ (← fld j "v")) (← fldN j "k"))

def fldCQs (j : Json) (k : String) : Except String (List CQ) := do getL getCQ (← fld j k)

def parseGrid (j : Json) : Except String Grid := do
  let m ← fldS j "mask"
  pure { mask := m.toList.map (· == '1'), dim := ← fldN j "dim" }

def parseOp (j : Json) : Except String (Op CQ) := do
  match (← fldS j "op") with
  | "mkField" =>
    let init : Init CQ ← (do
      match (← fldS j "init") with
      | "zeros" => pure Init.zeros
      | "valid" => do pure (Init.valid (← fldCQs j "vals"))
      | "full" => do pure (Init.full (← fldCQs j "vals"))
      | s => .error s!"bad init {s}")
    pure (.mkField (← parseCls (← fldS j "cls")) (← fldN j "grid") (← optDT j "dt")
      (← fldB j "cplx") init)
  | "writeData" => do pure (.writeData (← fldN j "h") (← fldCQs j "vals"))
  | "writeFull" => do pure (.writeFull (← fldN j "h") (← fldCQs j "vals"))
  | "writeCell" => do pure (.writeCell (← fldN j "h") (← fldN j "p") (← getCQ (← fld j "v")))
  | "setGhosts" => do pure (.setGhosts (← fldN j "h") (← getL getOptCQ (← fld j "vals")))
  | "component" => do pure (.component (← fldN j "h") (← fldN j "c"))
  | "tcomponent" => do pure (.tcomponent (← fldN j "h") (← fldN j "i") (← fldN j "j"))
  | "applyOperator" => do
    let out : Option Nat := match fldOpt j "out" with
      | some (.num n) => if n.exponent = 0 && n.mantissa ≥ 0 then some n.mantissa.toNat else none
      | _ => none
    pure (.applyOperator (← fldN j "h") (← getL getOptCQ (← fld j "ghosts"))
      (← parseCls (← fldS j "cls")) out (← fldCQs j "vals"))
  | "derive" => do
    pure (.derive (← fldN j "h") (← parseCls (← fldS j "cls")) (← fldB j "cplx") (← fldCQs j "vals"))
  | "applyFn" => do
    let out : Option Nat := match fldOpt j "out" with
      | some (.num n) => if n.exponent = 0 && n.mantissa ≥ 0 then some n.mantissa.toNat else none
      | _ => none
    pure (.applyFn (← fldN j "h") out (← fldCQs j "vals"))
  | "mkColl" => do pure (.mkColl (← fldNs j "hs") (← fldB j "copy") (← optDT j "dt"))
  | "slice" => do pure (.slice (← fldN j "c") (← fldNs j "idx"))
  | "append" => do pure (.append (← fldN j "c") (← fldNs j "hs"))
  | "copy" => do pure (.copy (← fldN j "h") (← optDT j "dt"))
  | "neg" => do pure (.neg (← fldN j "h"))
  | "deepcopy" => do pure (.deepcopy (← fldN j "h"))
  | "binop" => do pure (.binop (← parseBinOp j) (← fldN j "a") (← parseOperand j))
  | "inplace" => do pure (.inplace (← parseBinOp j) (← fldN j "a") (← parseOperand j))
  | "storeFrame" => do pure (.storeFrame (← fldN j "h") (← optDT j "into"))
  | "loadFrame" => do pure (.loadFrame (← fldN j "t") (← fldN j "f"))
  | s => .error s!"unknown op {s}"

/-- everything observable about one handle -/
structure Snap where
  obj : Obj
  dt : DType
  vals : List (Option CQ)

def snapEq (a b : Snap) : Bool :=
  a.obj.view == b.obj.view && a.dt == b.dt && a.obj.members == b.obj.members && a.vals == b.vals

def snapshot (s : State CQ) : List Snap :=
  s.objs.map (fun o => ⟨o, s.store.dtOf o.view.buf, s.store.readView o.view⟩)

def jSnap (i : Nat) (x : Snap) : Json :=
  Json.mkObj [("id", toJson i), ("cls", Json.str (showCls x.obj.cls)), ("grid", toJson x.obj.grid),
    ("ncomp", toJson x.obj.ncomp), ("buf", toJson x.obj.view.buf), ("off", toJson x.obj.view.off),
    ("len", toJson x.obj.view.len), ("dt", Json.str (showDT x.dt)),
    ("members", toJson x.obj.members), ("vals", Json.arr (x.vals.map jCell).toArray)]

/-- snapshots that are new or differ from the previous step -/
def changed (old new : List Snap) : List Json :=
  (new.zipIdx).filterMap (fun (x, i) =>
    match old[i]? with
    | some y => if snapEq x y then none else some (jSnap i x)
    | none => some (jSnap i x))

/-- the complete aliasing relation: pairs `i < j` whose views overlap, with `off j - off i` -/
def aliasPairs (s : State CQ) : List Json :=
  let os := s.objs.zipIdx
  os.flatMap (fun (a, i) =>
    os.filterMap (fun (b, j) =>
      if i < j && aliases s i j then
        some (Json.arr #[toJson i, toJson j, toJson ((b.view.off : Int) - (a.view.off : Int))])
      else none))

/-- objects whose `data` array (`_data_valid`) is not carved from their current padded array
(`State.dviews`; empty in every reachable state: theorem `data_is_live_view`) -/
def staleData (s : State CQ) : List Nat :=
  (s.objs.zipIdx).filterMap (fun (o, i) => if s.dviews[i]? == some o.view then none else some i)

def parseEdit (j : Json) : Except String ListEdit := do
  match (← fldS j "e") with
  | "reverse" => pure .reverse
  | "sort" => pure .sort
  | "setItem" => do pure (.setItem (← fldN j "k") (← fldN j "x"))
  | "pop" =>
    match fldOpt j "k" with
    | some (.num n) => if n.exponent = 0 && n.mantissa ≥ 0 then pure (.pop (some n.mantissa.toNat))
                       else .error "bad index"
    | _ => pure (.pop none)
  | "append" => do pure (.append (← fldN j "x"))
  | "insert" => do pure (.insert (← fldN j "k") (← fldN j "x"))
  | "delItem" => do pure (.delItem (← fldN j "k"))
  | "clear" => pure .clear
  | "extend" => do pure (.extend (← fldNs j "xs"))
  | s => .error s!"unknown list edit {s}"

/-- operations on list objects, or any operation of the heap model -/
def parseXOp (j : Json) : Except String (XOp CQ) := do
  match (← fldS j "op") with
  | "fieldsOf" => do pure (.fieldsOf (← fldN j "c"))
  | "labelsOf" => do pure (.labelsOf (← fldN j "c"))
  | "userList" => do pure (.userList (← fldNs j "hs"))
  | "mkCollFrom" => do pure (.mkCollFrom (← fldN j "l") (← fldB j "copy") (← optDT j "dt"))
  | "edit" => do pure (.edit (← fldN j "l") (← parseEdit j))
  | _ => do pure (.heap (← parseOp j))

def showKind : ListKind → String
  | .fields => "fields" | .labels => "labels" | .user => "user"

def jLists (w : World CQ) : Json :=
  Json.arr (w.lists.map (fun L => Json.mkObj [("kind", Json.str (showKind L.kind)),
    ("items", toJson L.items), ("owners", toJson L.owners)])).toArray

def replay (adopts : Bool) (G : List Grid) : World CQ → List Snap → List (XOp CQ) → List Json
  | _, _, [] => []
  | w, prev, op :: ops =>
    match xstep adopts G w op with
    | .error e =>
      let s := w.heap
      Json.mkObj [("err", Json.str (showErr e)), ("n", toJson s.objs.length),
        ("ch", Json.arr #[]), ("al", Json.arr (aliasPairs s).toArray),
        ("stale", toJson (staleData s)), ("lists", jLists w)] :: replay adopts G w prev ops
    | .ok w' =>
      let s' := w'.heap
      let snap := snapshot s'
      Json.mkObj [("err", Json.null), ("n", toJson s'.objs.length),
        ("ch", Json.arr (changed prev snap).toArray), ("al", Json.arr (aliasPairs s').toArray),
        ("stale", toJson (staleData s')), ("lists", jLists w')]
        :: replay adopts G w' snap ops

/-- {"grids":[{"mask":"0110","dim":1},..],"ops":[..],"adopts":true} -> one record per operation.
`adopts`: the constructor keeps the list object it is given (collection.py:99); absent = true -/
def runH (j : Json) : Except String Json := do
  let gs ← getL parseGrid (← fld j "grids")
  let ops ← getL parseXOp (← fld j "ops")
  let adopts : Bool := match fldOpt j "adopts" with
    | some (.bool b) => b
    | _ => true
  pure (Json.arr (replay adopts gs {} [] ops).toArray)

def handlers : List (String × Handler) := [("c15.run", runH)]
end PdeVerif.Drv.C15
