import PdeVerif.Json
namespace PdeVerif.Drv.C15
open Lean PdeVerif

def handlers : List (String × Handler) := []
end PdeVerif.Drv.C15
