import PdeVerif.Json
import PdeVerif.Model.Noise
/-
Driver of the C13 model: evaluates `PdeVerif.Noise.Sys.run` (the definition the theorems of
`Props/C13.lean` are about) at `Float` (IEEE replay, same operation order as the Python source)
and at `Rat` (exact; the harness only sends cases whose square roots are rational).

request `c13.run`:
  {"mode":"F"|"Q", "solver":"euler|milstein|implicit", "interp":"ito|stratonovich|anti-ito",
   "dt":x, "steps":m, "u0":[..], "xi":[[..],..],
   "grid":{"cls":..,"lo":[..],"hi":[..],"n":[..]}, "pi":x     -- volumes from the grid model, or
   "vol":[..]                                                   -- volumes given directly
   "rate":{"kind":"local","a":[..],"b":[..],"c":[..]} | {"kind":"recorded","rates":[[..],..]},
   "var":{"kind":"field","noise":[..],"nshape":[..],"dshape":[..],"ncomp":k} | {"kind":"collection","noise":[..],"ncomps":[..]}
        | {"kind":"quad","g0":[..],"g2":[..]},
   "real":null|[..],            -- second noise interface: realization = r[comp] * u
   "maxiter":k, "maxerr":x}
answer: {"final":[..]|null, "rest":k, "vol":[..], "vars":[..], "gen_final":[..]|null, "gen_rest":k}  (gen_*: `Sys.runGen`)
request `c13.layout`: {"kind":"field"|"collection", "noise":[..], "ncomp":k | "ncomps":[..]} -> [..] (Rat)
-/
namespace PdeVerif.Drv.C13
open Lean PdeVerif PdeVerif.Grids PdeVerif.Noise

/-- exact square root of a rational, `-(10^30)` when it is irrational (fail-safe: the final
state is then garbage and the comparison with the real code fails loudly) -/
def ratSqrt (x : Rat) : Rat :=
  if x < 0 then -(10 ^ 30 : Nat) else
  let n := x.num.toNat
  let d := x.den
  let rn := Nat.sqrt n
  let rd := Nat.sqrt d
  if rn * rn = n ∧ rd * rd = d then mkRat rn rd else -(10 ^ 30 : Nat)

def parseCls (s : String) : Except String GridClass :=
  match s with
  | "unit" => pure .unit
  | "cartesian" => pure .cartesian
  | "polar" => pure .polar
  | "spherical" => pure .spherical
  | "cylindrical" => pure .cylindrical
  | _ => throw s!"unknown grid class {s}"

def parseSolver (s : String) : Except String Solver :=
  match s with
  | "euler" => pure .euler
  | "milstein" => pure .milstein
  | "implicit" => pure .implicit
  | _ => throw s!"unknown solver {s}"

def parseInterp (s : String) : Except String Interp :=
  match s with
  | "ito" | "itô" => pure .ito
  | "stratonovich" => pure .stratonovich
  | "anti-ito" | "anti-itô" | "hänggi-klimontovich" | "hanggi-klimontovich" => pure .antiIto
  | _ => throw s!"unknown interpretation {s}"

section
variable {K : Type} [Add K] [Sub K] [Mul K] [Div K] [Neg K] [NatCast K] [IntCast K]
variable [LT K] [DecidableLT K]

def fldK (getK : Json → Except String K) (j : Json) (k : String) : Except String K := do
  getK (← fld j k)
def fldKs (getK : Json → Except String K) (j : Json) (k : String) : Except String (Array K) := do
  pure (← getL getK (← fld j k)).toArray

def getGrid (getK : Json → Except String K) (g : Json) : Except String (Grid K) := do
  let cls ← parseCls (← fldS g "cls")
  let lo ← fldKs getK g "lo"
  let hi ← fldKs getK g "hi"
  let n ← fldNs g "n"
  if lo.size ≠ hi.size ∨ lo.size ≠ n.length then throw "grid: lo/hi/n differ in length"
  let axes := (lo.toList.zip (hi.toList.zip n)).map fun (l, h, k) => (⟨l, h, k, false⟩ : Axis K)
  pure ⟨cls, axes⟩

def putKs (putK : K → Json) (a : Array K) : Json := Json.arr (a.map putK)

def handle (getK : Json → Except String K) (putK : K → Json) (sqrt : K → K) (j : Json) :
    Except String Json := do
  let sol ← parseSolver (← fldS j "solver")
  let interp ← parseInterp (← fldS j "interp")
  let dt ← fldK getK j "dt"
  let steps ← fldN j "steps"
  let u0 ← fldKs getK j "u0"
  let xi : List (Array K) ← (do
    let a ← (← fld j "xi").getArr?
    a.toList.mapM fun x => do pure (← getL getK x).toArray)
  let vol : Array K ← (match fldOpt j "vol" with
    | some (.arr a) => do pure (← a.toList.mapM getK).toArray
    | _ => do
      let g ← getGrid getK (← fld j "grid")
      let pi ← fldK getK j "pi"
      pure (cellVolumes pi g))
  let ncell := vol.size
  let n := u0.size
  if ncell = 0 ∨ n % ncell ≠ 0 then throw s!"state size {n} is not a multiple of the cell count {ncell}"
  let ncomp := n / ncell
  for x in xi do
    if x.size ≠ n then throw s!"normal array of size {x.size}, state has {n}"
  -- rate
  let rj ← fld j "rate"
  let rate : Nat → Array K → Array K ← (do
    match (← fldS rj "kind") with
    | "local" =>
      let a ← fldKs getK rj "a"
      let b ← fldKs getK rj "b"
      let c ← fldKs getK rj "c"
      if a.size ≠ ncomp ∨ b.size ≠ ncomp ∨ c.size ≠ ncomp then throw "rate coefficients: one per component"
      pure (fun _ u => localRate n ncell a b c u)
    | "recorded" =>
      let rs : Array (Array K) ← (do
        let a ← (← fld rj "rates").getArr?
        a.mapM fun x => do pure (← getL getK x).toArray)
      pure (fun k _ => rs.getD k #[])
    | s => throw s!"unknown rate kind {s}")
  -- variance
  let vj ← fld j "var"
  let vkind ← fldS vj "kind"
  let (var, varDiff, vars) ← (do
    match vkind with
    | "field" =>
      let noise ← fldKs getK vj "noise"
      let k ← fldN vj "ncomp"
      if k ≠ ncomp then throw "var: ncomp differs from the state"
      let nshape ← fldNs vj "nshape"
      let dshape ← fldNs vj "dshape"
      if dshape.foldl (· * ·) 1 ≠ ncomp then throw "var: dshape differs from the state"
      -- `np.broadcast_to(noise, data_shape)`: modelled for noise shapes that are a suffix of data_shape
      if noise.size ≠ nshape.foldl (· * ·) 1 ∨ noise.size = 0 ∨ ¬ (nshape.isSuffixOf dshape) then
        throw "broadcast-error"
      let pc := fieldVars noise.toList ncomp
      let v := constVar ncell pc
      let z : Array K := tab n fun _ => Noise.zero
      pure ((fun (_ : Array K) => v), (fun (_ : Array K) => z), pc.toArray)
    | "collection" =>
      let noise ← fldKs getK vj "noise"
      let ncomps ← fldNs vj "ncomps"
      if ncomps.foldl (· + ·) 0 ≠ ncomp then throw "var: ncomps differ from the state"
      if noise.size ≠ 1 ∧ noise.size ≠ ncomps.length then throw "broadcast-error"
      let pc := collVars noise.toList ncomps
      let v := constVar ncell pc
      let z : Array K := tab n fun _ => Noise.zero
      pure ((fun (_ : Array K) => v), (fun (_ : Array K) => z), pc.toArray)
    | "quad" =>
      let g0 ← fldKs getK vj "g0"
      let g2 ← fldKs getK vj "g2"
      if g0.size ≠ ncomp ∨ g2.size ≠ ncomp then throw "var coefficients: one per component"
      pure (quadVar n ncell g0 g2, quadVarDiff n ncell g2, g0)
    | s => throw s!"unknown variance kind {s}")
  let real : Option (Array K → Array K) ← (match fldOpt j "real" with
    | some (.arr a) => do
      let r := (← a.toList.mapM getK).toArray
      if r.size ≠ ncomp then throw "real: one coefficient per component"
      pure (some fun u => tab n fun i => get r (i / ncell) * get u i)
    | _ => pure none)
  let maxiter := (fldN j "maxiter").toOption.getD 100
  let maxerr ← (match fldOpt j "maxerr" with
    | some v => getK v
    | none => pure (((1:Nat) : K) / ((10000:Nat) : K)))
  -- collections run through the model definition `collSys` (the object of the theorems of Props/C13b.lean)
  let S : Sys K ← (if vkind = "collection" then do
      let noise ← fldKs getK vj "noise"
      let ncomps ← fldNs vj "ncomps"
      let S := collSys sqrt dt interp vol noise.toList ncomps rate real maxiter (maxerr * maxerr)
      if S.n ≠ n then throw s!"collSys: {S.n} entries, state has {n}"
      pure S
    else if vkind = "field" then do
      let noise ← fldKs getK vj "noise"
      let S := fieldSys sqrt dt interp vol noise.toList ncomp rate real maxiter (maxerr * maxerr)
      if S.n ≠ n then throw s!"fieldSys: {S.n} entries, state has {n}"
      pure S
    else if vkind = "quad" then do
      let g0 ← fldKs getK vj "g0"
      let g2 ← fldKs getK vj "g2"
      pure (quadSys sqrt dt interp n vol g0 g2 rate real maxiter (maxerr * maxerr))
    else pure {
      n := n, ncell := ncell, dt := dt, s := sqrt dt, interp := interp, inv := invCell vol,
      rate := rate, var := var, varDiff := varDiff, real := real, sqrt := sqrt,
      maxiter := maxiter, maxerr2 := maxerr * maxerr })
  let res := S.run sol 0 steps u0 xi
  let (fin, rest) := match res with
    | none => (Json.null, 0)
    | some (u, r) => (putKs putK u, r.length)
  -- the generator-threaded loop `Sys.runGen` (Props/C13b.lean: `runGen_eq_run`), generator state = the arrays not yet
  -- drawn, one call = take the head; only when the stream is long enough for one call per step
  let (gfin, grest) := if steps ≤ xi.length then
      match S.runGen sol (fun (l : List (Array K)) => (l.headD #[], l.tail)) 0 steps u0 xi with
      | none => (Json.null, 0)
      | some (u, g) => (putKs putK u, g.length)
    else (fin, rest)
  pure (Json.mkObj [("final", fin), ("rest", toJson rest), ("vol", putKs putK vol),
    ("vars", putKs putK vars), ("gen_final", gfin), ("gen_rest", toJson grest)])

end

def run (j : Json) : Except String Json := do
  match (← fldS j "mode") with
  | "F" => handle (K := Float) getF jF Float.sqrt j
  | "Q" => handle (K := Rat) getQ jQ ratSqrt j
  | m => throw s!"unknown mode {m}"

/-- the variance layout alone, exact -/
def layout (j : Json) : Except String Json := do
  let noise ← fldQs j "noise"
  match (← fldS j "kind") with
  | "field" =>
    let k ← fldN j "ncomp"
    if noise.length = 0 ∨ k % noise.length ≠ 0 then throw "broadcast-error"
    pure (jQs (fieldVars noise k))
  | "collection" =>
    let ncomps ← fldNs j "ncomps"
    if noise.length ≠ 1 ∧ noise.length ≠ ncomps.length then throw "broadcast-error"
    pure (jQs (collVars noise ncomps))
  | s => throw s!"unknown layout kind {s}"

def handlers : List (String × Handler) := [("c13.run", run), ("c13.layout", layout)]
end PdeVerif.Drv.C13
