import PdeVerif.Json
namespace PdeVerif.Drv.C13
open Lean PdeVerif

def handlers : List (String × Handler) := []
end PdeVerif.Drv.C13
