import PdeVerif.Json
import PdeVerif.Model.Grid
import PdeVerif.Model.Volume
import PdeVerif.Model.GridCoords
import PdeVerif.Model.GridCtor
/-
Driver of the C12 model: every handler evaluates the definitions of `PdeVerif.Grids` (the ones
the theorems of `Props/C12.lean` are about) at `Rat`.

Grid argument: {"cls":"unit|cartesian|polar|spherical|cylindrical","lo":[..],"hi":[..],"n":[..],
"periodic":[..]}; `pi` travels as an exact rational (the harness sends the double `math.pi`).
Multi-dimensional arrays travel flattened in C order.
-/
namespace PdeVerif.Drv.C12
open Lean PdeVerif PdeVerif.Grids

def parseCls (s : String) : Except String GridClass :=
  match s with
  | "unit" => pure .unit
  | "cartesian" => pure .cartesian
  | "polar" => pure .polar
  | "spherical" => pure .spherical
  | "cylindrical" => pure .cylindrical
  | _ => throw s!"unknown grid class {s}"

def clsName : GridClass → String
  | .unit => "unit" | .cartesian => "cartesian" | .polar => "polar"
  | .spherical => "spherical" | .cylindrical => "cylindrical"

def legacyGrid (g : Json) : Except String (Grid Rat) := do
  let cls ← parseCls (← fldS g "cls")
  let lo ← fldQs g "lo"
  let hi ← fldQs g "hi"
  let n ← fldNs g "n"
  let per ← getL getB (← fld g "periodic")
  if lo.length ≠ hi.length ∨ lo.length ≠ n.length ∨ lo.length ≠ per.length then
    throw "grid: lo/hi/n/periodic differ in length"
  let axes := (lo.zip (hi.zip (n.zip per))).map fun (l, h, k, p) => (⟨l, h, k, p⟩ : Axis Rat)
  pure ⟨cls, axes⟩

def getRadius (g : Json) : Except String (Radius Rat) := do
  match (← fldQs g "radius") with
  | [r] => pure (.outer r)
  | [a, b] => pure (.pair a b)
  | _ => throw "radius: one or two numbers expected"

/-- constructor arguments: {"ctor": "unit|cartesian|polar|spherical|cylindrical", "shape":[..],
"periodic":[..], "bounds":[[lo,hi]..] (cartesian), "radius":[r]|[ri,ro], "bounds_z":[lo,hi]} -/
def getCtor (g : Json) : Except String (Ctor Rat) := do
  let cls ← fldS g "ctor"
  let shape ← fldNs g "shape"
  match cls with
  | "unit" => pure (.unit shape (← getL getB (← fld g "periodic")))
  | "cartesian" => do
    let b ← getL (getL getQ) (← fld g "bounds")
    let bounds ← b.mapM fun (x : List Rat) => match x with
      | [l, h] => pure (l, h)
      | _ => throw "bounds: pairs expected"
    pure (.cartesian bounds shape (← getL getB (← fld g "periodic")))
  | "polar" => do pure (.polar (← getRadius g) shape)
  | "spherical" => do pure (.spherical (← getRadius g) shape)
  | "cylindrical" => do
    match (← fldQs g "bounds_z") with
    | [zl, zh] => pure (.cylindrical (← getRadius g) zl zh shape ((← getL getB (← fld g "periodic")).getLastD false))
    | _ => throw "bounds_z: two numbers expected"
  | _ => throw s!"unknown grid class {cls}"

/-- the grid of a request: constructor arguments go through `Grid.construct` (the model of the
constructors); the explicit axis form is kept for replay files written before -/
def getGrid (j : Json) : Except String (Grid Rat) := do
  let g ← fld j "grid"
  match fldOpt g "ctor" with
  | some _ =>
    match Grid.construct (← getCtor g) with
    | .ok gr => pure gr
    | .error .value => throw "constructor: ValueError"
    | .error .dimension => throw "constructor: DimensionError"
  | none => legacyGrid g

def jGrid (g : Grid Rat) : Json :=
  Json.mkObj [("cls", Json.str (clsName g.cls)), ("lo", jQs (g.axes.map (·.lo))),
    ("hi", jQs (g.axes.map (·.hi))), ("n", toJson (g.axes.map (·.n))),
    ("periodic", toJson (g.axes.map (·.periodic)))]

/-- all multi-indices of a shape in C order -/
def multiIndices : List Nat → List (List Nat)
  | [] => [[]]
  | n :: ns => (List.range n).flatMap fun i => (multiIndices ns).map (i :: ·)

/-- C-order flat index -/
def flatIndex : List Nat → List Nat → Nat
  | _ :: ns, i :: is => i * ns.foldl (· * ·) 1 + flatIndex ns is
  | _, _ => 0

def unflatten (shape : List Nat) (a : Array Rat) : List Nat → Rat :=
  fun idx => a.getD (flatIndex shape idx) 0

def getPts (j : Json) (k : String) : Except String (List (List Rat)) := do
  getL (getL getQ) (← fld j k)

def jPts (l : List (List Rat)) : Json := Json.arr (l.map jQs).toArray

/-- {"grid","pi"} -> dx, coords, per-axis volume factors, all cell volumes, volume -/
def geometry (j : Json) : Except String Json := do
  let g ← getGrid j
  let pi ← fldQ j "pi"
  let vd := g.axisVolsAll pi
  pure <| Json.mkObj [
    ("dx", jQs g.discretization),
    ("coords", jPts g.axesCoords),
    ("voldata", jPts (vd.map fun a => (List.range a.n).map a.vol)),
    ("cellvols", jQs ((multiIndices g.shape).map (g.cellVolume pi))),
    ("volume", jQ (g.volume pi)),
    ("dim", toJson g.dim),
    ("grid", jGrid g)]

/-- {"grid": constructor arguments} -> the constructed grid or "error:value" / "error:dimension" -/
def construct (j : Json) : Except String Json := do
  match Grid.construct (← getCtor (← fld j "grid")) with
  | .ok g => pure (Json.mkObj [("grid", jGrid g), ("dim", toJson g.dim), ("dx", jQs g.discretization)])
  | .error .value => pure (Json.str "error:value")
  | .error .dimension => pure (Json.str "error:dimension")

/-- {"lo":[..],"hi":[..]} -> corners of the cuboid built by `Cuboid.from_bounds` -/
def cuboid (j : Json) : Except String Json := do
  let lo ← fldQs j "lo"
  let hi ← fldQs j "hi"
  pure <| jPts ((lo.zip hi).map fun (l, h) => let b := cuboidBounds l h; [b.1, b.2])

/-- {"grid","pi","sel":[bool],"data":[flattened]} -> `grid.integrate(data, axes)` flattened -/
def integrateH (j : Json) : Except String Json := do
  let g ← getGrid j
  let pi ← fldQ j "pi"
  let sel ← getL getB (← fld j "sel")
  let data ← fldQs j "data"
  let f := unflatten g.shape data.toArray
  let retShape := keep g.shape (sel.map (!·))
  pure <| jQs ((multiIndices retShape).map (g.integrateSel pi sel f))

/-- {"grid","pi","remove":[bool],"data":[..]} -> projected data on the sliced grid, the sliced
grid, its integral and the integral of the original field -/
def projectH (j : Json) : Except String Json := do
  let g ← getGrid j
  let pi ← fldQ j "pi"
  let rem ← getL getB (← fld j "remove")
  let data ← fldQs j "data"
  let f := unflatten g.shape data.toArray
  let sg := g.slice (rem.map (!·))
  let pd := (multiIndices sg.shape).map (g.project pi rem f)
  let pf := unflatten sg.shape pd.toArray
  pure <| Json.mkObj [("data", jQs pd), ("sliced", jGrid sg),
    ("integral", jQ (sg.integrateAll pi pf)), ("full", jQ (g.integrateAll pi f))]

/-- point operations; {"grid","op",...} -/
def points (j : Json) : Except String Json := do
  let g ← getGrid j
  let op ← fldS j "op"
  match op with
  | "cell2grid" => pure <| jPts ((← getPts j "pts").map g.cellToGrid)
  | "grid2cell" => pure <| jPts ((← getPts j "pts").map g.gridToCell)
  | "grid2cart" => pure <| jPts ((← getPts j "pts").map g.toCartesian)
  | "cell2cart" => pure <| jPts ((← getPts j "pts").map g.cellToCartesian)
  | "cart2grid" =>
    -- "radii": the values of the external hypot/norm (harness-computed), validated against r2
    let pts ← getPts j "pts"
    let radii ← fldQs j "radii"
    let r2 := pts.map g.radiusSq
    let gr := (pts.zip radii).map fun (x, r) => g.fromCartesian r x
    let pr := pts.zip radii
    pure <| Json.mkObj [("r2", jQs r2), ("grid", jPts gr),
      ("cell", jPts (pr.map fun (x, r) => g.cartesianToCell r x)),
      ("contains", toJson (pr.map fun (x, r) => g.containsCartesian r x))]
  | "contains_grid" => pure <| toJson ((← getPts j "pts").map g.containsGrid)
  | "contains_cell" => pure <| toJson ((← getPts j "pts").map g.containsCellPoint)
  | "normalize" =>
    let reflect ← fldB j "reflect"
    pure <| jPts ((← getPts j "pts").map (g.normalizePoint reflect))
  | "diff_cart" =>
    let p1 ← getPts j "p1"
    let p2 ← getPts j "p2"
    let pr := p1.zip p2
    pure <| Json.mkObj [("diff", jPts (pr.map fun (a, b) => g.differenceVector a b)),
      ("dist2", jQs (pr.map fun (a, b) => g.distSq a b))]
  | "diff_grid" =>
    let p1 ← getPts j "p1"
    let p2 ← getPts j "p2"
    let pr := p1.zip p2
    pure <| Json.mkObj [("diff", jPts (pr.map fun (a, b) => g.differenceVectorGrid a b)),
      ("dist2", jQs (pr.map fun (a, b) => g.distSqGrid a b))]
  | "diff_cell" =>
    let p1 ← getPts j "p1"
    let p2 ← getPts j "p2"
    let pr := p1.zip p2
    pure <| Json.mkObj [("diff", jPts (pr.map fun (a, b) => g.differenceVectorCell a b)),
      ("dist2", jQs (pr.map fun (a, b) => g.distSqCell a b))]
  | "random_cart" =>
    -- {"b": boundary distance, "us": [[u per axis]..]} -> points
    let b ← fldQ j "b"
    let us ← getPts j "us"
    pure <| jPts (us.map (g.randomPointCart b))
  | "random_radial" =>
    -- {"b","avoid","us":[[u_r(, u_z)]..]} -> [r^dim draw (, z)] with dim = 2 for cylinders
    let b ← fldQ j "b"
    let avoid ← fldB j "avoid"
    let us ← getPts j "us"
    match g.cls with
    | .polar | .spherical | .cylindrical => pure <| jPts (us.map (g.randomRadialDraw b avoid))
    | _ => throw "random_radial: not a radial grid"
  | _ => throw s!"unknown op {op}"

/-- {"system":"polar|spherical|cylindrical","r","cp","sp","ct","st","z"} -> `_pos_to_cart` with the
angles given as (cos, sin) pairs -/
def tocart (j : Json) : Except String Json := do
  let sys ← fldS j "system"
  let r ← fldQ j "r"
  let cp ← fldQ j "cp"
  let sp ← fldQ j "sp"
  match sys with
  | "polar" => pure <| jQs (polarToCart r cp sp)
  | "cylindrical" => pure <| jQs (cylToCart r cp sp (← fldQ j "z"))
  | "spherical" => pure <| jQs (sphToCart r (← fldQ j "ct") (← fldQ j "st") cp sp)
  | _ => throw s!"unknown coordinate system {sys}"

def handlers : List (String × Handler) :=
  [("c12.geometry", geometry), ("c12.construct", construct), ("c12.tocart", tocart), ("c12.cuboid", cuboid), ("c12.integrate", integrateH),
   ("c12.project", projectH), ("c12.points", points)]
end PdeVerif.Drv.C12
