import PdeVerif.Json
namespace PdeVerif.Drv.C12
open Lean PdeVerif

def handlers : List (String × Handler) := []
end PdeVerif.Drv.C12
