import PdeVerif.Json
namespace PdeVerif.Drv.C18
open Lean PdeVerif

def handlers : List (String × Handler) := []
end PdeVerif.Drv.C18
