import PdeVerif.Json
import PdeVerif.Model.Matrix
namespace PdeVerif.Drv.C18
open Lean PdeVerif PdeVerif.Matrix PdeVerif.BC PdeVerif.Stencil

def parsePCond (j : Json) : Except String (PCond Rat) := do
  let k ← fldS j "kind"
  match k with
  | "dirichlet" => do pure (.dirichlet (← fldQ j "v"))
  | "neumann" => do pure (.neumann (← fldQ j "v"))
  | "mixed" => do pure (.mixed (← fldQ j "v") (← fldQ j "c"))
  | "curvature" => do pure (.curvature (← fldQ j "v"))
  | "periodic" => pure (.periodic false)
  | "antiperiodic" => pure (.periodic true)
  | _ => throw s!"unknown condition {k}"

/-- face data: list of conditions, one per face point (row-major over the other axes) -/
def parseFace (j : Json) (N : Nat) (s : Side) (dx : Rat) : Except String (Array (BCData Rat)) := do
  let l ← getL parsePCond j
  pure (l.map (bcData N s dx)).toArray

def emptyBC : BCData Rat := ⟨0, []⟩

/-- {"cls","shape","lo","dx","faces":[[lowerFace, upperFace] per axis]} ->
    {"m": [[row, col, value]...], "v": [values]} -/
def matrix (j : Json) : Except String Json := do
  let cls ← fldS j "cls"
  let shape ← fldNs j "shape"
  let lo ← fldQs j "lo"
  let dx ← fldQs j "dx"
  let facesJ ← (do getL (fun a => do getL pure a) (← fld j "faces"))
  let face (ax : Nat) (upper : Bool) : Except String (Array (BCData Rat)) := do
    let pair := facesJ.getD ax []
    let fj := pair.getD (if upper then 1 else 0) Json.null
    parseFace fj (shape.getD ax 0) (if upper then .upper else .lower) (dx.getD ax 1)
  let n0 := shape.getD 0 0
  let n1 := shape.getD 1 0
  let n2 := shape.getD 2 0
  let d0 := dx.getD 0 1
  let d1 := dx.getD 1 1
  let d2 := dx.getD 2 1
  let rmin := lo.getD 0 0
  let r : Int → Rat := centre rmin d0
  let f0l ← face 0 false
  let f0h ← face 0 true
  let total := shape.foldl (· * ·) 1
  let mut rows : Array (Nat × (Rat × List (Op Rat))) := #[]
  match cls, shape.length with
  | "cart", 1 =>
    for i in List.range n0 do
      rows := rows.push (i, cart1Row n0 d0 (f0l.getD 0 emptyBC) (f0h.getD 0 emptyBC) i)
  | "polar", _ =>
    for i in List.range n0 do
      rows := rows.push (i, polarRow n0 r d0 (rmin == 0) (f0l.getD 0 emptyBC) (f0h.getD 0 emptyBC) i)
  | "sph", _ =>
    for i in List.range n0 do
      rows := rows.push (i, sphRow n0 r d0 (rmin == 0) (f0l.getD 0 emptyBC) (f0h.getD 0 emptyBC) i)
  | "cart", 2 =>
    let f1l ← face 1 false
    let f1h ← face 1 true
    for x in List.range n0 do
      for y in List.range n1 do
        rows := rows.push (x * n1 + y, cart2Row n0 n1 d0 d1 (fun y => f0l.getD y emptyBC) (fun y => f0h.getD y emptyBC)
          (fun x => f1l.getD x emptyBC) (fun x => f1h.getD x emptyBC) x y)
  | "cyl", _ =>
    let f1l ← face 1 false
    let f1h ← face 1 true
    for x in List.range n0 do
      for z in List.range n1 do
        rows := rows.push (x * n1 + z, cylRow n0 n1 r d0 d1 (fun z => f0l.getD z emptyBC) (fun z => f0h.getD z emptyBC)
          (fun x => f1l.getD x emptyBC) (fun x => f1h.getD x emptyBC) x z)
  | "cart", 3 =>
    let f1l ← face 1 false
    let f1h ← face 1 true
    let f2l ← face 2 false
    let f2h ← face 2 true
    for x in List.range n0 do
      for y in List.range n1 do
        for z in List.range n2 do
          rows := rows.push ((x * n1 + y) * n2 + z, cart3Row n0 n1 n2 d0 d1 d2
            (fun y z => f0l.getD (y * n2 + z) emptyBC) (fun y z => f0h.getD (y * n2 + z) emptyBC)
            (fun x z => f1l.getD (x * n2 + z) emptyBC) (fun x z => f1h.getD (x * n2 + z) emptyBC)
            (fun x y => f2l.getD (x * n1 + y) emptyBC) (fun x y => f2h.getD (x * n1 + y) emptyBC) x y z)
  | _, _ => throw s!"matrix not modelled for {cls}/{shape.length}"
  let mut ms : Array Json := #[]
  let mut vs : Array Json := #[]
  for (row, (c, ops)) in rows do
    vs := vs.push (jQ c)
    for col in List.range total do
      let v := rowEntry ops col
      if v != 0 then ms := ms.push (Json.arr #[toJson row, toJson col, jQ v])
  pure (Json.mkObj [("m", Json.arr ms), ("v", Json.arr vs)])

def handlers : List (String × Handler) := [("c18.matrix", matrix)]
end PdeVerif.Drv.C18
