import PdeVerif.Json
import PdeVerif.Model.BC
import PdeVerif.Model.BCParse
namespace PdeVerif.Drv.C02
open Lean PdeVerif PdeVerif.BC

/-- row-major flat index of a multi-index (0-based entries) in an array of the given shape;
`none` if out of range -/
def flatIdx (shape : List Nat) (idx : List Int) : Option Nat :=
  if shape.length != idx.length then none else
  (shape.zip idx).foldl (fun (acc : Option Nat) (p : Nat × Int) => match acc with
    | none => none
    | some k => if 0 ≤ p.2 && p.2 < (p.1 : Int) then some (k * p.1 + p.2.toNat) else none) (some 0)

/-- all multi-indices of a shape in row-major order -/
def allIdx : List Nat → List (List Int)
  | [] => [[]]
  | n :: rest => (List.range n).flatMap (fun (i : Nat) => (allIdx rest).map (fun r => (i : Int) :: r))

def arrFn (shape : List Nat) (data : Array Rat) (idx : List Int) : Rat :=
  match flatIdx shape idx with
  | some k => data.getD k 0
  | none => 0

/-- value arrays are indexed by (components ++ face position) with 1-based spatial entries -/
def valFn (vshape : List Nat) (ncomp : Nat) (data : Array Rat) (vi : List Int) : Rat :=
  let shifted := (vi.take ncomp) ++ (vi.drop ncomp).map (· - 1)
  arrFn vshape data shifted

def getArr (j : Json) (k : String) : Except String (Array Rat) := do
  let l ← fldQs j k
  pure l.toArray

def parseCond (j : Json) (ncomp : Nat) : Except String (Cond Rat) := do
  let kind ← fldS j "kind"
  let vshape ← (do match fldOpt j "vshape" with | some v => getL getN v | none => pure [])
  let get (k : String) : Except String (List Int → Rat) := do
    let d ← getArr j k
    pure (valFn vshape ncomp d)
  match kind with
  | "dirichlet" => do pure (.dirichlet (← get "v"))
  | "neumann" => do pure (.neumann (← get "v"))
  | "mixed" => do pure (.mixed (← get "v") (← get "c"))
  | "mixedInf" => pure .mixedInf
  | "curvature" => do pure (.curvature (← get "v"))
  | "periodic" => pure (.periodic false)
  | "antiperiodic" => pure (.periodic true)
  | "exprValue" => do pure (.exprValue (← get "v"))
  | "exprDerivative" => do pure (.exprDerivative (← get "v"))
  | "exprMixed" => do pure (.exprMixed (← get "v") (← get "c"))
  | _ => throw s!"unknown cond {kind}"

/-- {"shape":[..], "rank":r, "dim":d, "data":[..] (full array, shape (d,)*r ++ (N+2..)),
    "faces":[{"axis","upper","normal","dx","cond":{...}}]} -> new full array -/
def ghost (j : Json) : Except String Json := do
  let shape ← fldNs j "shape"
  let rank ← fldN j "rank"
  let dim ← fldN j "dim"
  let data ← getArr j "data"
  let fshape := List.replicate rank dim ++ shape.map (· + 2)
  let a0 : List Int → Rat := arrFn fshape data
  let facesJ ← (do getL pure (← fld j "faces"))
  let faces ← facesJ.mapM (fun fj => do
    let axis ← fldN fj "axis"
    let upper ← fldB fj "upper"
    let normal ← fldB fj "normal"
    let dx ← fldQ fj "dx"
    let ncomp := if normal then rank - 1 else rank
    let c ← parseCond (← fld fj "cond") ncomp
    let f : Face := { shape := shape, rank := rank, axis := axis,
                      side := if upper then .upper else .lower, normal := normal }
    pure (f, dx, c))
  let a1 := setGhostAll faces a0
  pure (jQs ((allIdx fshape).map a1))

/-- virtual point data of one condition: {"kind", "dx", "v", "c"} -> [const, factor(, factor2)] -/
def vpdata (j : Json) : Except String Json := do
  let kind ← fldS j "kind"
  let dx ← fldQ j "dx"
  let v ← (match fldOpt j "v" with | some x => getQ x | none => pure 0)
  let c ← (match fldOpt j "c" with | some x => getQ x | none => pure 0)
  match kind with
  | "dirichlet" => let r := vpDirichlet v; pure (jQs [r.1, r.2])
  | "neumann" => let r := vpNeumann dx v; pure (jQs [r.1, r.2])
  | "mixed" => let r := vpMixed dx v c; pure (jQs [r.1, r.2])
  | "curvature" => let r := vpCurvature dx v; pure (jQs [r.1, r.2.1, r.2.2])
  | "periodic" => let r : Rat × Rat := vpPeriodic false; pure (jQs [r.1, r.2])
  | "antiperiodic" => let r : Rat × Rat := vpPeriodic true; pure (jQs [r.1, r.2])
  | _ => throw s!"unknown kind {kind}"

open PdeVerif.BCParse in
def parseSpec (j : Json) : Except String Spec := do
  let t ← fldS j "t"
  match t with
  | "periodic" => pure .periodic
  | "antiperiodic" => pure .antiperiodic
  | "auto" => do pure (.auto (← fldS j "name") (← fldN j "vid"))
  | "named" => do pure (.named (← fldS j "name") (← fldN j "vid"))
  | _ => throw s!"bad spec {t}"

open PdeVerif.BCParse in
def kindName : Kind → String
  | .user => "UserBC" | .exprVirtual => "ExpressionBC" | .exprValue => "ExpressionValueBC"
  | .exprDerivative => "ExpressionDerivativeBC" | .exprMixed => "ExpressionMixedBC"
  | .dirichlet => "DirichletBC" | .neumann => "NeumannBC" | .mixed => "MixedBC"
  | .curvature => "CurvatureBC" | .normalDirichlet => "NormalDirichletBC"
  | .normalNeumann => "NormalNeumannBC" | .normalMixed => "NormalMixedBC"
  | .normalCurvature => "NormalCurvatureBC"

open PdeVerif.BCParse in
/-- {"axes":[..], "alt":[[pattern, repl]..], "sides":[[name, axis, upper]..], "periodic":[..],
    "top": {"all": spec} | {"dict": [[key, spec]..]}} -/
def parseH (j : Json) : Except String Json := do
  let axes ← (do getL getS (← fld j "axes"))
  let alt ← (do getL (fun p => do
      let a ← p.getArr?; pure ((← getS a[0]!), (← getS a[1]!))) (← fld j "alt"))
  let sides ← (do getL (fun p => do
      let a ← p.getArr?; pure ((← getS a[0]!), (← getN a[1]!), (← getB a[2]!))) (← fld j "sides"))
  let per ← (do getL getB (← fld j "periodic"))
  let g : GridNames := ⟨axes, alt, sides, per⟩
  let topJ ← fld j "top"
  let top ← (match fldOpt topJ "all" with
    | some s => do pure (Top.all (← parseSpec s))
    | none => do
      let l ← getL (fun p => do
        let a ← p.getArr?; pure ((← getS a[0]!), (← parseSpec a[1]!))) (← fld topJ "dict")
      pure (Top.dict l))
  match parse g top with
  | .error .bcdata => pure (Json.str "error:bcdata")
  | .error .periodicity => pure (Json.str "error:periodicity")
  | .error .key => pure (Json.str "error:key")
  | .ok r => pure (Json.arr (r.map (fun ab => match ab with
      | .periodic => Json.str "periodic"
      | .antiperiodic => Json.str "anti-periodic"
      | .pair l h => Json.arr #[Json.arr #[Json.str (kindName l.1), toJson l.2],
                               Json.arr #[Json.str (kindName h.1), toJson h.2]])).toArray)

open PdeVerif.BCParse in
def aliases (_ : Json) : Except String Json :=
  pure (Json.arr (aliasTable.map (fun p => Json.arr #[Json.str p.1, Json.str (kindName p.2)])).toArray)

def handlers : List (String × Handler) :=
  [("c02.ghost", ghost), ("c02.vpdata", vpdata), ("c02.parse", parseH), ("c02.aliases", aliases)]
end PdeVerif.Drv.C02
