import PdeVerif.Json
import PdeVerif.Model.BC
import PdeVerif.Model.BCParse
namespace PdeVerif.Drv.C02
open Lean PdeVerif PdeVerif.BC

/-- row-major flat index of a multi-index (0-based entries) in an array of the given shape;
`none` if out of range -/
def flatIdx (shape : List Nat) (idx : List Int) : Option Nat :=
  if shape.length != idx.length then none else
  (shape.zip idx).foldl (fun (acc : Option Nat) (p : Nat × Int) => match acc with
    | none => none
    | some k => if 0 ≤ p.2 && p.2 < (p.1 : Int) then some (k * p.1 + p.2.toNat) else none) (some 0)

/-- all multi-indices of a shape in row-major order -/
def allIdx : List Nat → List (List Int)
  | [] => [[]]
  | n :: rest => (List.range n).flatMap (fun (i : Nat) => (allIdx rest).map (fun r => (i : Int) :: r))

def arrFn (shape : List Nat) (data : Array Rat) (idx : List Int) : Rat :=
  match flatIdx shape idx with
  | some k => data.getD k 0
  | none => 0

/-- value arrays are indexed by (components ++ face position) with 1-based spatial entries -/
def valFn (vshape : List Nat) (ncomp : Nat) (data : Array Rat) (vi : List Int) : Rat :=
  let shifted := (vi.take ncomp) ++ (vi.drop ncomp).map (· - 1)
  arrFn vshape data shifted

def getArr (j : Json) (k : String) : Except String (Array Rat) := do
  let l ← fldQs j k
  pure l.toArray

/-- the Robin coefficient array: numbers `v` and optional flags `vinf` (non-zero = `±inf`) -/
def coefFn (vshape : List Nat) (ncomp : Nat) (v : Array Rat) (vinf : Option (Array Rat))
    (vi : List Int) : Coef Rat :=
  match vinf with
  | some fl => if valFn vshape ncomp fl vi != 0 then .inf else .fin (valFn vshape ncomp v vi)
  | none => .fin (valFn vshape ncomp v vi)

/-- condition of one face; a `mixed` condition carries the grid spacing `dx` of its axis (needed
for the test of the non-finite branch) and optionally `vinf` -/
def parseCond (j : Json) (ncomp : Nat) : Except String (Cond Rat) := do
  let kind ← fldS j "kind"
  let vshape ← (do match fldOpt j "vshape" with | some v => getL getN v | none => pure [])
  let get (k : String) : Except String (List Int → Rat) := do
    let d ← getArr j k
    pure (valFn vshape ncomp d)
  match kind with
  | "dirichlet" => do pure (.dirichlet (← get "v"))
  | "neumann" => do pure (.neumann (← get "v"))
  | "mixed" => do
    let v ← getArr j "v"
    let vinf ← (match fldOpt j "vinf" with | some _ => do pure (some (← getArr j "vinf")) | none => pure none)
    match fldOpt j "dx" with
    | some dxj => do
      let dx ← getQ dxj
      pure (Cond.robin dx (coefFn vshape ncomp v vinf) (← get "c"))
    | none => do pure (.mixed (fun _ => false) (valFn vshape ncomp v) (← get "c"))
  | "curvature" => do pure (.curvature (← get "v"))
  | "periodic" => pure (.periodic false)
  | "antiperiodic" => pure (.periodic true)
  | "exprValue" => do pure (.exprValue (← get "v"))
  | "exprDerivative" => do pure (.exprDerivative (← get "v"))
  | "exprMixed" => do pure (.exprMixed (← get "v") (← get "c"))
  | _ => throw s!"unknown cond {kind}"

/-- where does a `mixed` condition have a finite coefficient with `2 + dx*gamma = 0`?
(as a function of the value index) -/
def condSingular (j : Json) (ncomp : Nat) : Except String (List Int → Bool) := do
  let kind ← fldS j "kind"
  if kind != "mixed" then return (fun _ => false)
  match fldOpt j "dx" with
  | none => return (fun _ => false)
  | some dxj => do
    let dx ← getQ dxj
    let vshape ← (do match fldOpt j "vshape" with | some v => getL getN v | none => pure [])
    let v ← getArr j "v"
    let vinf ← (match fldOpt j "vinf" with | some _ => do pure (some (← getArr j "vinf")) | none => pure none)
    return (fun vi => (coefFn vshape ncomp v vinf vi).singular dx)

def parseFaces (j : Json) (shape : List Nat) (rank : Nat) :
    Except String (List (Face × Rat × Cond Rat) × List (Face × (List Int → Bool))) := do
  let facesJ ← (do getL pure (← fld j "faces"))
  let mut sing : List (Face × (List Int → Bool)) := []
  let mut out : List (Face × Rat × Cond Rat) := []
  for fj in facesJ do
    let axis ← fldN fj "axis"
    let upper ← fldB fj "upper"
    let normal ← fldB fj "normal"
    let dx ← fldQ fj "dx"
    let ncomp := if normal then rank - 1 else rank
    let cj ← fld fj "cond"
    let c ← parseCond cj ncomp
    let f : Face := { shape := shape, rank := rank, axis := axis,
                      side := if upper then .upper else .lower, normal := normal }
    sing := sing ++ [(f, ← condSingular cj ncomp)]
    out := out ++ [(f, dx, c)]
  pure (out, sing)

/-- {"shape":[..], "rank":r, "dim":d, "data":[..] (full array, shape (d,)*r ++ (N+2..)),
    "faces":[{"axis","upper","normal","dx","cond":{...}}]} -> new full array -/
def ghost (j : Json) : Except String Json := do
  let shape ← fldNs j "shape"
  let rank ← fldN j "rank"
  let dim ← fldN j "dim"
  let data ← getArr j "data"
  let fshape := List.replicate rank dim ++ shape.map (· + 2)
  let a0 : List Int → Rat := arrFn fshape data
  let (faces, _) ← parseFaces j shape rank
  let a1 := setGhostAll faces a0
  pure (jQs ((allIdx fshape).map a1))

/-- regroup a list of faces into per-axis data if it is exactly the list of all faces of a grid
with `nax` axes in the order of `BoundariesList.set_ghost_cells` (axis by axis, upper side first) -/
def toSpecs (nax : Nat) : Nat → List (Face × Rat × Cond Rat) → Option (List (AxisSpec Rat))
  | k, [] => if k = nax then some [] else none
  | k, (fu, dxu, cu) :: (fl, dxl, cl) :: rest =>
    if fu.axis = k ∧ fl.axis = k ∧ fu.side = .upper ∧ fl.side = .lower ∧ dxu = dxl then
      (toSpecs nax (k + 1) rest).map (fun r => ⟨dxu, (fl.normal, cl), (fu.normal, cu)⟩ :: r)
    else none
  | _, _ => none

/-- as `ghost`, and additionally which entries (flat indices) are the result of a division by
zero in an expression condition (`div0`) and which are written by a `mixed` condition at a
singular finite coefficient (`sing`): {"a": [...], "div0": [k..], "sing": [k..]} -/
def ghost2 (j : Json) : Except String Json := do
  let shape ← fldNs j "shape"
  let rank ← fldN j "rank"
  let dim ← fldN j "dim"
  let data ← getArr j "data"
  let fshape := List.replicate rank dim ++ shape.map (· + 2)
  let a0 : List Int → Rat := arrFn fshape data
  let (faces, sing) ← parseFaces j shape rank
  -- a request that lists every face of the grid in setter order is evaluated through
  -- `setBoundaries` (the definition `Props/C02b` speaks about); "grid" says which one was used
  let specs := toSpecs shape.length 0 faces
  let a1 := match specs with
    | some sp => setBoundaries shape rank sp a0
    | none => setGhostAll faces a0
  let all := allIdx fshape
  let div0 := (all.zipIdx).filterMap (fun (p : List Int × Nat) =>
    if faces.any (fun fc => fc.1.writes p.1 && divByZero fc.1 fc.2.1 fc.2.2 p.1) then some p.2 else none)
  let sng := (all.zipIdx).filterMap (fun (p : List Int × Nat) =>
    if sing.any (fun fs => fs.1.writes p.1 && fs.2 (fs.1.valueIdx p.1)) then some p.2 else none)
  pure (Json.mkObj [("a", jQs (all.map a1)), ("div0", toJson div0), ("sing", toJson sng),
    ("grid", toJson specs.isSome)])

/-- a condition whose value may be linked: `"slot": k` in the condition's JSON means "reads the
external array in slot k" (the `v`/`vinf` fields of the condition are then ignored) -/
def parseLCond (j : Json) (ncomp : Nat) : Except String (LCond Rat) := do
  let kind ← fldS j "kind"
  let vshape ← (do match fldOpt j "vshape" with | some v => getL getN v | none => pure [])
  let ref : Except String (ValRef Rat) := do
    match fldOpt j "slot" with
    | some k => pure (.linked (← getN k))
    | none =>
      let v ← getArr j "v"
      match fldOpt j "vinf" with
      | some _ => do
        let fl ← getArr j "vinf"
        pure (.own (valFn vshape ncomp v) (fun vi => valFn vshape ncomp fl vi != 0))
      | none => pure (.own (valFn vshape ncomp v) (fun _ => false))
  match kind with
  | "dirichlet" => do pure (.dirichlet (← ref))
  | "neumann" => do pure (.neumann (← ref))
  | "curvature" => do pure (.curvature (← ref))
  | "mixed" => do
    let c ← getArr j "c"
    pure (.robin (← ref) (valFn vshape ncomp c))
  | _ => do pure (.fixed (← parseCond j ncomp))

/-- as `toSpecs` for conditions with linked values -/
def toLSpecs (nax : Nat) : Nat → List (Nat × Bool × Bool × Rat × LCond Rat) → Option (List (LAxisSpec Rat))
  | k, [] => if k = nax then some [] else none
  | k, (axu, upu, nu, dxu, cu) :: (axl, upl, nl, dxl, cl) :: rest =>
    if axu = k ∧ axl = k ∧ upu = true ∧ upl = false ∧ dxu = dxl then
      (toLSpecs nax (k + 1) rest).map (fun r => ⟨dxu, (nl, cl), (nu, cu)⟩ :: r)
    else none
  | _, _ => none

/-- the setter with linked values: the request of `ghost2` where a condition may carry `"slot": k`,
plus `"store": [{"vshape":[..], "ncomp": n, "v":[..], "vinf":[..]?} ..]` = the content of the
external arrays at the time of the call.  Evaluates `setBoundariesLinked`; same answer as `ghost2` -/
def linked (j : Json) : Except String Json := do
  let shape ← fldNs j "shape"
  let rank ← fldN j "rank"
  let dim ← fldN j "dim"
  let data ← getArr j "data"
  let fshape := List.replicate rank dim ++ shape.map (· + 2)
  let a0 : List Int → Rat := arrFn fshape data
  let storeJ ← (do getL pure (← fld j "store"))
  let slots ← storeJ.mapM fun sj => do
    let vshape ← (do getL getN (← fld sj "vshape"))
    let ncomp ← fldN sj "ncomp"
    let v ← getArr sj "v"
    let fl ← (match fldOpt sj "vinf" with | some _ => do pure (some (← getArr sj "vinf")) | none => pure none)
    pure (valFn vshape ncomp v, fun vi => match fl with
      | some f => valFn vshape ncomp f vi != 0
      | none => false)
  let st : Store Rat :=
    ⟨fun k => (slots.getD k (fun _ => 0, fun _ => false)).1, fun k => (slots.getD k (fun _ => 0, fun _ => false)).2⟩
  let facesJ ← (do getL pure (← fld j "faces"))
  let fl ← facesJ.mapM fun fj => do
    let axis ← fldN fj "axis"
    let upper ← fldB fj "upper"
    let normal ← fldB fj "normal"
    let dx ← fldQ fj "dx"
    let c ← parseLCond (← fld fj "cond") (if normal then rank - 1 else rank)
    pure (axis, upper, normal, dx, c)
  match toLSpecs shape.length 0 fl with
  | none => throw "linked: the faces are not the complete list of the grid's faces in setter order"
  | some lspecs =>
    let a1 := setBoundariesLinked shape rank lspecs st a0
    let faces := boundaryFaces shape rank (lspecs.map (·.resolve st))
    let all := allIdx fshape
    let div0 := (all.zipIdx).filterMap (fun (p : List Int × Nat) =>
      if faces.any (fun fc => fc.1.writes p.1 && divByZero fc.1 fc.2.1 fc.2.2 p.1) then some p.2 else none)
    let sng := (all.zipIdx).filterMap (fun (p : List Int × Nat) =>
      if faces.any (fun fc => fc.1.writes p.1 && (match fc.2.2 with
        | .mixed _ g _ => decide (2 + fc.2.1 * g (fc.1.valueIdx p.1) = 0)
        | _ => false)) then some p.2 else none)
    pure (Json.mkObj [("a", jQs (all.map a1)), ("div0", toJson div0), ("sing", toJson sng),
      ("grid", toJson true)])

/-- virtual point data of one condition for every element of its value array:
{"kind", "dx", "N", "upper", "v":[..], "c":[..], "vinf":[..]} ->
{"index": i (, "index2": i2), "rows": [[const, factor(, factor2)], ..]} (indices 0-based in valid cells) -/
def vpdata (j : Json) : Except String Json := do
  let kind ← fldS j "kind"
  let dx ← fldQ j "dx"
  let N ← fldN j "N"
  let upper ← fldB j "upper"
  let side : Side := if upper then .upper else .lower
  let v ← (match fldOpt j "v" with | some _ => getArr j "v" | none => pure #[])
  let c ← (match fldOpt j "c" with | some _ => getArr j "c" | none => pure #[])
  let vinf ← (match fldOpt j "vinf" with | some _ => do pure (some (← getArr j "vinf")) | none => pure none)
  let near := toJson (nearIdx N side - 1)
  let rows (f : Nat → List Rat) : Json := Json.arr ((List.range v.size).map (fun k => jQs (f k))).toArray
  match kind with
  | "dirichlet" => pure (Json.mkObj [("index", near),
      ("rows", rows (fun k => let r := vpDirichlet (v.getD k 0); [r.1, r.2]))])
  | "neumann" => pure (Json.mkObj [("index", near),
      ("rows", rows (fun k => let r := vpNeumann dx (v.getD k 0); [r.1, r.2]))])
  | "mixed" => pure (Json.mkObj [("index", near),
      ("rows", rows (fun k =>
        let g : Coef Rat := match vinf with
          | some fl => if fl.getD k 0 != 0 then .inf else .fin (v.getD k 0)
          | none => .fin (v.getD k 0)
        let r := vpMixedCode dx g (c.getD k 0); [r.1, r.2]))])
  | "curvature" => pure (Json.mkObj [("index", near), ("index2", toJson (near2Idx N side - 1)),
      ("rows", rows (fun k => let r := vpCurvature dx (v.getD k 0); [r.1, r.2.1, r.2.2]))])
  | "periodic" => do
      let r : Rat × Rat := vpPeriodic false
      pure (Json.mkObj [("index", toJson (oppIdx N side - 1)), ("rows", Json.arr #[jQs [r.1, r.2]])])
  | "antiperiodic" => do
      let r : Rat × Rat := vpPeriodic true
      pure (Json.mkObj [("index", toJson (oppIdx N side - 1)), ("rows", Json.arr #[jQs [r.1, r.2]])])
  | _ => throw s!"unknown kind {kind}"

open PdeVerif.BCParse in
def parseSpec (j : Json) : Except String Spec := do
  let t ← fldS j "t"
  match t with
  | "periodic" => pure .periodic
  | "antiperiodic" => pure .antiperiodic
  | "auto" => do pure (.auto (← fldS j "name") (← fldN j "vid"))
  | "named" => do pure (.named (← fldS j "name") (← fldN j "vid"))
  | _ => throw s!"bad spec {t}"

open PdeVerif.BCParse in
def kindName : Kind → String
  | .user => "UserBC" | .exprVirtual => "ExpressionBC" | .exprValue => "ExpressionValueBC"
  | .exprDerivative => "ExpressionDerivativeBC" | .exprMixed => "ExpressionMixedBC"
  | .dirichlet => "DirichletBC" | .neumann => "NeumannBC" | .mixed => "MixedBC"
  | .curvature => "CurvatureBC" | .normalDirichlet => "NormalDirichletBC"
  | .normalNeumann => "NormalNeumannBC" | .normalMixed => "NormalMixedBC"
  | .normalCurvature => "NormalCurvatureBC"

open PdeVerif.BCParse in
def parseOptSpec (j : Json) (k : String) : Except String (Option Spec) :=
  match fldOpt j k with
  | none => pure none
  | some Json.null => pure none
  | some s => do pure (some (← parseSpec s))

open PdeVerif.BCParse in
/-- a spec object, {"t":"lowhigh","lo":spec|null,"hi":spec|null,"extra":bool} or {"t":"seq","l":[spec..]} -/
def parseEntry (j : Json) : Except String Entry := do
  let t ← fldS j "t"
  match t with
  | "lowhigh" => do pure (.lowHigh (← parseOptSpec j "lo") (← parseOptSpec j "hi") (← fldB j "extra"))
  | "seq" => do pure (.seq (← getL parseSpec (← fld j "l")))
  | _ => do pure (.one (← parseSpec j))

open PdeVerif.BCParse in
/-- {"axes":[..], "alt":[[pattern, repl]..], "sides":[[name, axis, upper]..], "periodic":[..],
    "top": {"all": spec} | {"lowhigh": entry} | {"dict": [[key, entry]..]} | {"list": [entry..]}} -/
def parseH (j : Json) : Except String Json := do
  let axes ← (do getL getS (← fld j "axes"))
  let alt ← (do getL (fun p => do
      let a ← p.getArr?; pure ((← getS a[0]!), (← getS a[1]!))) (← fld j "alt"))
  let sides ← (do getL (fun p => do
      let a ← p.getArr?; pure ((← getS a[0]!), (← getN a[1]!), (← getB a[2]!))) (← fld j "sides"))
  let per ← (do getL getB (← fld j "periodic"))
  let g : GridNames := ⟨axes, alt, sides, per⟩
  let topJ ← fld j "top"
  let top ← (match fldOpt topJ "all", fldOpt topJ "lowhigh", fldOpt topJ "list" with
    | some s, _, _ => do pure (Top.all (← parseSpec s))
    | none, some e, _ => do
      match (← parseEntry e) with
      | .lowHigh lo hi extra => pure (Top.lowHigh lo hi extra)
      | _ => throw "top lowhigh expects a lowhigh entry"
    | none, none, some l => do pure (Top.list (← getL parseEntry l))
    | none, none, none => do
      let l ← getL (fun p => do
        let a ← p.getArr?; pure ((← getS a[0]!), (← parseEntry a[1]!))) (← fld topJ "dict")
      pure (Top.dict l))
  match parse g top with
  | .error .bcdata => pure (Json.str "error:bcdata")
  | .error .periodicity => pure (Json.str "error:periodicity")
  | .error .key => pure (Json.str "error:key")
  | .ok r => pure (Json.arr (r.map (fun ab => match ab with
      | .periodic => Json.str "periodic"
      | .antiperiodic => Json.str "anti-periodic"
      | .pair l h => Json.arr #[Json.arr #[Json.str (kindName l.1), toJson l.2],
                               Json.arr #[Json.str (kindName h.1), toJson h.2]])).toArray)

open PdeVerif.BCParse in
def aliases (_ : Json) : Except String Json :=
  pure (Json.arr (aliasTable.map (fun p => Json.arr #[Json.str p.1, Json.str (kindName p.2)])).toArray)

def handlers : List (String × Handler) :=
  [("c02.ghost", ghost), ("c02.ghost2", ghost2), ("c02.linked", linked), ("c02.vpdata", vpdata), ("c02.parse", parseH), ("c02.aliases", aliases)]
end PdeVerif.Drv.C02
