import PdeVerif.Json
namespace PdeVerif.Drv.C02
open Lean PdeVerif

def handlers : List (String × Handler) := []
end PdeVerif.Drv.C02
