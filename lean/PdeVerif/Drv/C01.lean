import PdeVerif.Json
namespace PdeVerif.Drv.C01
open Lean PdeVerif

def handlers : List (String × Handler) := []
end PdeVerif.Drv.C01
