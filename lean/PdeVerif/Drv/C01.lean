import PdeVerif.Json
import PdeVerif.Model.Stencil
import PdeVerif.Drv.C02
namespace PdeVerif.Drv.C01
open Lean PdeVerif PdeVerif.Stencil
open PdeVerif.Drv.C02 (flatIdx allIdx arrFn)

structure Cfg where
  cls : String
  shape : List Nat
  lo : List Rat
  dx : List Rat
  op : String
  method : Method
  central : Bool
  conservative : Bool
  axis : Nat
  cornerWeight : Option Rat := none
  periodic : List Bool := []

def parseMethod (s : String) : Except String Method :=
  match s with
  | "central" => pure .central
  | "forward" => pure .forward
  | "backward" => pure .backward
  | _ => throw s!"bad method {s}"

def parseCfg (j : Json) : Except String Cfg := do
  let m ← (match fldOpt j "method" with | some v => do parseMethod (← getS v) | none => pure .central)
  let c ← (match fldOpt j "central" with | some v => getB v | none => pure true)
  let cons ← (match fldOpt j "conservative" with | some v => getB v | none => pure true)
  let ax ← (match fldOpt j "axis" with | some v => getN v | none => pure 0)
  let cwt ← (match fldOpt j "corner_weight" with | some v => do pure (some (← getQ v)) | none => pure none)
  let per ← (match fldOpt j "periodic" with | some (Json.arr bs) => bs.toList.mapM getB | _ => pure [])
  pure { cls := ← fldS j "cls", shape := ← fldNs j "shape", lo := ← fldQs j "lo", dx := ← fldQs j "dx",
         op := ← fldS j "op", method := m, central := c, conservative := cons, axis := ax,
         cornerWeight := cwt, periodic := per }

def Cfg.dim (c : Cfg) : Nat :=
  match c.cls with
  | "cart" => c.shape.length
  | "polar" => 2
  | _ => 3

/-- (rank_in, rank_out) of the registered operators -/
def ranks (op : String) : Except String (Nat × Nat) :=
  match op with
  | "laplace" | "gradient_squared" | "d_d" | "d2_d2" => pure (0, 0)
  | "gradient" => pure (0, 1)
  | "divergence" => pure (1, 0)
  | "vector_gradient" => pure (1, 2)
  | "vector_laplace" => pure (1, 1)
  | "tensor_divergence" => pure (2, 1)
  | "tensor_double_divergence" => pure (2, 0)
  | _ => throw s!"unknown operator {op}"

/-- value of the operator at output multi-index `o` = output components ++ full spatial coords -/
def applyAt (c : Cfg) (a : Arr Rat) (o : List Int) : Except String Rat := do
  let (_, rout) ← ranks c.op
  let oc := (o.take rout).map Int.toNat
  let sp := o.drop rout
  let r : Int → Rat := centre (c.lo.getD 0 0) (c.dx.getD 0 1)
  let dr := c.dx.getD 0 1
  let dz := c.dx.getD 1 1
  let i := sp.getD 0 0
  let j := sp.getD 1 0
  match c.cls, c.op with
  | _, "d_d" => pure (d1 c.method (c.dx.getD c.axis 1) a sp c.axis)
  | _, "d2_d2" => pure (d2 (c.dx.getD c.axis 1) a sp c.axis)
  | "cart", "laplace" =>
    match c.cornerWeight, c.shape with
    | some w, [nx, ny] =>
      if w = 0 then pure (cartLaplace c.dx a [] sp)   -- `corner_weight == 0`: the 5-point kernel
      else pure (cartLaplace9 w dr dz (c.periodic.getD 0 false) (c.periodic.getD 1 false) nx ny a i j)
    | _, _ => pure (cartLaplace c.dx a [] sp)
  | "cart", "gradient" => pure (cartGradient c.method c.dx a [] (oc.getD 0 0) sp)
  | "cart", "gradient_squared" => pure (cartGradientSquared c.central c.dx a sp)
  | "cart", "divergence" => pure (cartDivergence c.method c.dx a [] sp)
  | "cart", "vector_gradient" => pure (cartVectorGradient c.method c.dx a (oc.getD 0 0) (oc.getD 1 0) sp)
  | "cart", "vector_laplace" => pure (cartVectorLaplace c.dx a (oc.getD 0 0) sp)
  | "cart", "tensor_divergence" => pure (cartTensorDivergence c.method c.dx a (oc.getD 0 0) sp)
  | "polar", "laplace" => pure (polarLaplace r dr a i)
  | "polar", "gradient" => pure (polarGradient c.method dr a (oc.getD 0 0) i)
  | "polar", "gradient_squared" => pure (d1sq c.central dr a [i] 0)
  | "polar", "divergence" => pure (polarDivergence r dr a i)
  | "polar", "vector_gradient" => pure (polarVectorGradient r dr a (oc.getD 0 0) (oc.getD 1 0) i)
  | "polar", "tensor_divergence" => pure (polarTensorDivergence r dr a (oc.getD 0 0) i)
  | "sph", "laplace" => pure (sphLaplace c.conservative r dr a i)
  | "sph", "gradient" => pure (sphGradient c.method dr a (oc.getD 0 0) i)
  | "sph", "gradient_squared" => pure (d1sq c.central dr a [i] 0)
  | "sph", "divergence" => pure (sphDivergence c.conservative c.method r dr a i)
  | "sph", "vector_gradient" => pure (sphVectorGradient c.method r dr a (oc.getD 0 0) (oc.getD 1 0) i)
  | "sph", "tensor_divergence" => pure (sphTensorDivergence c.conservative r dr a (oc.getD 0 0) i)
  | "sph", "tensor_double_divergence" => pure (sphTensorDoubleDivergence c.conservative r dr a i)
  | "cyl", "laplace" => pure (cylLaplace r dr dz a i j)
  | "cyl", "gradient" => pure (cylGradient dr dz a (oc.getD 0 0) i j)
  | "cyl", "gradient_squared" => pure (cylGradientSquared c.central dr dz a i j)
  | "cyl", "divergence" => pure (cylDivergence r dr dz a i j)
  | "cyl", "vector_gradient" => pure (cylVectorGradient r dr dz a (oc.getD 0 0) (oc.getD 1 0) i j)
  | "cyl", "vector_laplace" => pure (cylVectorLaplace r dr dz a (oc.getD 0 0) i j)
  | "cyl", "tensor_divergence" => pure (cylTensorDivergence r dr dz a (oc.getD 0 0) i j)
  | cls, op => throw s!"operator {op} not modelled for {cls}"

/-- output multi-indices: components (0-based) ++ valid full coordinates (1..N) -/
def outIdx (c : Cfg) (rout : Nat) : List (List Int) :=
  (allIdx (List.replicate rout c.dim ++ c.shape)).map fun idx =>
    idx.take rout ++ (idx.drop rout).map (· + 1)

/-- {"cfg": {...}, "data": [...]} -> operator applied to the padded array (row-major output) -/
def apply (j : Json) : Except String Json := do
  let c ← parseCfg (← fld j "cfg")
  let (rin, rout) ← ranks c.op
  let data ← fldQs j "data"
  let fshape := List.replicate rin c.dim ++ c.shape.map (· + 2)
  let a : Arr Rat := arrFn fshape data.toArray
  let vals ← (outIdx c rout).mapM (applyAt c a)
  pure (jQs vals)

/-- {"cfg": {...}} -> sparse matrix [[out_flat, in_flat, value], ...] of a linear operator -/
def matrix (j : Json) : Except String Json := do
  let c ← parseCfg (← fld j "cfg")
  let (rin, rout) ← ranks c.op
  let fshape := List.replicate rin c.dim ++ c.shape.map (· + 2)
  let ins := allIdx fshape
  let outs := outIdx c rout
  let mut res : Array Json := #[]
  let mut jin := 0
  for bi in ins do
    let a : Arr Rat := fun idx => if idx == bi then 1 else 0
    let mut jo := 0
    for o in outs do
      let v ← applyAt c a o
      if v != 0 then
        res := res.push (Json.arr #[toJson jo, toJson jin, jQ v])
      jo := jo + 1
    jin := jin + 1
  pure (Json.arr res)

def handlers : List (String × Handler) := [("c01.apply", apply), ("c01.matrix", matrix)]
end PdeVerif.Drv.C01
