import PdeVerif.Json
namespace PdeVerif.Drv.C20
open Lean PdeVerif

def handlers : List (String × Handler) := []
end PdeVerif.Drv.C20
