import PdeVerif.Json
import PdeVerif.Model.Storage
namespace PdeVerif.Drv.C20
open Lean PdeVerif PdeVerif.Storage

/-! Driver of the storage model: replays an operation sequence on `Storage.step` (the definition
the theorems of `Props/C20.lean` are about) at `K = Rat` and reports what is observable after
every step. -/

def optJ (j : Json) (k : String) : Option Json :=
  match fldOpt j k with
  | some .null | none => none
  | some v => some v

def optStr (j : Json) (k : String) : Except String (Option String) :=
  match optJ j k with
  | none => pure none
  | some v => do pure (some (← getS v))

def optQ (j : Json) (k : String) : Except String (Option Rat) :=
  match optJ j k with
  | none => pure none
  | some v => do pure (some (← getQ v))

def optI (j : Json) (k : String) : Except String (Option Int) :=
  match optJ j k with
  | none => pure none
  | some v => do pure (some (← getI v))

def optN (j : Json) (k : String) : Except String (Option Nat) :=
  match optJ j k with
  | none => pure none
  | some v => do pure (some (← getN v))

/-- optional boolean field, `true` when absent -/
def optB (j : Json) (k : String) : Except String Bool :=
  match optJ j k with
  | none => pure true
  | some v => getB v

def parseMode (s : String) : Mode :=
  match s with
  | "truncate" => .truncate
  | "truncate_once" => .truncateOnce
  | "append" => .append
  | "readonly" => .readonly
  | _ => .other

def showMode : Mode → String
  | .truncate => "truncate"
  | .truncateOnce => "truncate_once"
  | .append => "append"
  | .readonly => "readonly"
  | .other => "other"

def showErr : Err → String
  | .runtime => "RuntimeError"
  | .value => "ValueError"
  | .index => "IndexError"
  | .type => "TypeError"
  | .key => "KeyError"
  | .bad => "bad-request"

def parseMember (j : Json) : Except String Member := do
  pure { label := ← optStr j "label", cls := ← fldN j "cls", shape := ← fldNs j "shape",
         ncomp := ← fldN j "ncomp" }

def parseInfo (j : Json) : Except String FieldInfo := do
  let ms ← getL parseMember (← fld j "members")
  pure { grid := ← fldN j "grid", ncell := ← fldN j "ncell", shape := ← fldNs j "shape",
         cls := ← fldN j "cls", label := ← optStr j "label", members := ms }

def jOptStr : Option String → Json
  | none => Json.null
  | some s => Json.str s

def jNs (l : List Nat) : Json := Json.arr (l.map (fun n => (toJson n : Json))).toArray

def jMember (m : Member) : Json :=
  Json.mkObj [("label", jOptStr m.label), ("cls", toJson m.cls), ("shape", jNs m.shape),
              ("ncomp", toJson m.ncomp)]

def jInfo (fi : FieldInfo) : Json :=
  Json.mkObj [("grid", toJson fi.grid), ("ncell", toJson fi.ncell), ("shape", jNs fi.shape),
              ("cls", toJson fi.cls), ("label", jOptStr fi.label),
              ("members", Json.arr (fi.members.map jMember).toArray)]

def parseFieldId (j : Json) (k : String) : Except String FieldId := do
  match ← fld j k with
  | .str s => pure (.name s)
  | v => do pure (.idx (← getI v))

def parseFunc (j : Json) : Except String (Func Rat) := do
  match ← fldS j "kind" with
  | "ident" => pure .ident
  | "scale" => do pure (.scale (← fldQ j "c"))
  | "addTime" => pure .addTime
  | "member" => do pure (.member (← fldN j "i"))
  | k => throw s!"unknown func {k}"

def parseOp (j : Json) : Except String (Op Rat) := do
  match ← fldS j "op" with
  | "newField" => do pure (.newField (← parseInfo (← fld j "info")) (← fldQs j "vals"))
  | "setField" => do pure (.setField (← fldN j "fid") (← fldQs j "vals"))
  | "newStore" => do pure (.newStore (parseMode (← fldS j "mode")))
  | "setMode" => do pure (.setMode (← fldN j "sid") (parseMode (← fldS j "mode")))
  | "start" => do pure (.start (← fldN j "sid") (← fldN j "fid"))
  | "append" => do pure (.append (← fldN j "sid") (← fldN j "fid") (← optQ j "t") (← optB j "cast"))
  | "end" => do pure (.endW (← fldN j "sid"))
  | "clear" => do pure (.clear (← fldN j "sid") (← fldB j "shape"))
  | "read" => do pure (.read (← fldN j "sid") (← fldI j "i"))
  | "items" => do pure (.items (← fldN j "sid"))
  | "slice" => do pure (.slice (← fldN j "sid") (← optI j "a") (← optI j "b"))
  | "extractTimeRange" => do
    let r : TRange Rat ← (do
      match ← fldS j "kind" with
      | "all" => pure TRange.all
      | "upto" => do pure (TRange.upto (← fldQ j "b"))
      | "pair" => do pure (TRange.pair (← optQ j "a") (← optQ j "b"))
      | k => throw s!"unknown range kind {k}")
    pure (.extractTimeRange (← fldN j "sid") r)
  | "extractField" => do
    pure (.extractField (← fldN j "sid") (← parseFieldId j "field") (← optStr j "label"))
  | "viewRead" => do pure (.viewRead (← fldN j "sid") (← parseFieldId j "field") (← fldI j "k"))
  | "viewItems" => do pure (.viewItems (← fldN j "sid") (← parseFieldId j "field"))
  | "apply" => do
    pure (.apply (← fldN j "sid") (← parseFunc (← fld j "func")) (← optN j "out") (← optB j "cast"))
  | "fromFields" => do
    pure (.fromFields (← fldQs j "times") (← fldNs j "fids") (parseMode (← fldS j "mode")))
  | "fromCollection" => do
    pure (.fromCollection (← fldNs j "sids") (← optStr j "label") (← fldQ j "rtol") (← fldQ j "atol"))
  | "poke" => do pure (.poke (← fldN j "sid") (← fldN j "i") (← fldQs j "vals"))
  | k => throw s!"unknown op {k}"

def jStore (w : World Rat) (s : Store Rat Nat) : Json :=
  Json.mkObj [
    ("times", jQs s.times),
    ("frames", Json.arr (s.frames.map (fun id => jQs (w.deref id))).toArray),
    ("ids", jNs s.frames),
    ("mode", Json.str (showMode s.mode)),
    ("shape", match s.dataShape with | none => Json.null | some sh => jNs sh),
    ("dtype", Json.bool s.dtypeSet),
    ("grid", match s.grid with | none => Json.null | some g => toJson g),
    ("tmpl", match s.template with | none => Json.null | some fi => jInfo fi)]

def jField (w : World Rat) (p : FieldInfo × Nat) : Json :=
  Json.mkObj [("buf", toJson p.2), ("vals", jQs (w.deref p.2))]

def jObs : Obs Rat → Json
  | .unit => Json.null
  | .field fi v => Json.mkObj [("field", Json.mkObj [("info", jInfo fi), ("vals", jQs v)])]
  | .fields l => Json.mkObj [("fields",
      Json.arr (l.map (fun r => Json.mkObj [("info", jInfo r.1), ("vals", jQs r.2)])).toArray)]
  | .items l => Json.mkObj [("items",
      Json.arr (l.map (fun r =>
        Json.mkObj [("t", jQ r.1), ("info", jInfo r.2.1), ("vals", jQs r.2.2)])).toArray)]
  | .store sid => Json.mkObj [("store", toJson sid)]

/-- dumps of all storages / all live fields -/
def dumpStores (w : World Rat) : List Json := w.stores.map (jStore w)
def dumpFields (w : World Rat) : List Json := w.fields.map (jField w)

/-- entries of `new` that differ from the entry at the same position of `old` (or are new) -/
def changed (old new : List Json) : List Json :=
  (new.zipIdx.filterMap (fun p =>
    match old[p.2]? with
    | some o => if o.compress == p.1.compress then none else some (Json.arr #[toJson p.2, p.1])
    | none => some (Json.arr #[toJson p.2, p.1])))

/-- {"ops":[...]} -> one record per step: error class, returned observation, and the dumps of
every storage and live field whose observable state changed in this step -/
def replay (j : Json) : Except String Json := do
  let ops ← getL parseOp (← fld j "ops")
  let mut w : World Rat := World.empty
  let mut out : Array Json := #[]
  let mut ds : List Json := []
  let mut df : List Json := []
  for op in ops do
    let (w', r) := step w op
    let ds' := dumpStores w'
    let df' := dumpFields w'
    let rec_ := Json.mkObj [
      ("err", match r with | .error e => Json.str (showErr e) | .ok _ => Json.null),
      ("obs", match r with | .error _ => Json.null | .ok o => jObs o),
      ("stores", Json.arr (changed ds ds').toArray),
      ("fields", Json.arr (changed df df').toArray),
      ("ns", toJson w'.stores.length), ("nf", toJson w'.fields.length)]
    out := out.push rec_
    w := w'
    ds := ds'
    df := df'
  pure (Json.arr out)

/-- searchsorted of the model alone (used by a direct comparison with numpy) -/
def bisect (j : Json) : Except String Json := do
  let ts ← fldQs j "times"
  let x ← fldQ j "x"
  pure (Json.arr #[toJson (bisectLeft ts x), toJson (bisectRight ts x)])

def handlers : List (String × Handler) := [("c20.replay", replay), ("c20.bisect", bisect)]
end PdeVerif.Drv.C20
