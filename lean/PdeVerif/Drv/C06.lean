import PdeVerif.Json
import PdeVerif.Model.Solvers
/-
Driver handlers of C06: evaluate the stepper models of `PdeVerif.Solvers` at
* `Rat`            - real test equations, exact,
* `CQ` (Gaussian rationals) - complex test equations, exact,
* `Float`          - adaptive stepping (the controller uses `error_rel ** -0.2`).
-/
namespace PdeVerif.Drv.C06
open Lean PdeVerif PdeVerif.Solvers

/-- Gaussian rationals: the exact number type for complex-valued runs.  Order and floor look at
the real part only; they are applied to times and error norms, whose imaginary part is 0. -/
structure CQ where
  re : Rat
  im : Rat
  deriving Repr

namespace CQ
instance : Add CQ := ⟨fun x y => ⟨x.re + y.re, x.im + y.im⟩⟩
instance : Sub CQ := ⟨fun x y => ⟨x.re - y.re, x.im - y.im⟩⟩
instance : Neg CQ := ⟨fun x => ⟨-x.re, -x.im⟩⟩
instance : Mul CQ := ⟨fun x y => ⟨x.re * y.re - x.im * y.im, x.re * y.im + x.im * y.re⟩⟩
instance : Div CQ := ⟨fun x y =>
  let d := y.re * y.re + y.im * y.im
  ⟨(x.re * y.re + x.im * y.im) / d, (x.im * y.re - x.re * y.im) / d⟩⟩
instance : NatCast CQ := ⟨fun n => ⟨(n : Rat), 0⟩⟩
instance : IntCast CQ := ⟨fun n => ⟨(n : Rat), 0⟩⟩
instance : LT CQ := ⟨fun x y => x.re < y.re⟩
instance : LE CQ := ⟨fun x y => x.re ≤ y.re⟩
instance : DecidableLT CQ := fun x y => inferInstanceAs (Decidable (x.re < y.re))
instance : DecidableLE CQ := fun x y => inferInstanceAs (Decidable (x.re ≤ y.re))
instance : HasFloor CQ := ⟨fun x => Rat.floor x.re⟩
instance : HasNormSq CQ := ⟨fun x => ⟨x.re * x.re + x.im * x.im, 0⟩⟩
end CQ

/-- a rational within relative 2^-100 of `x` with a power-of-two denominator (answers only:
the exact iterates have denominators of many thousand digits) -/
def approxQ (x : Rat) : Rat :=
  if x.num = 0 then 0 else
    let e : Int := 100 - ((x.num.natAbs.log2 : Int) - (x.den.log2 : Int))
    if 0 ≤ e then
      let p : Nat := 2 ^ e.toNat
      mkRat (Rat.floor (x * (p : Rat))) p
    else
      let p : Nat := 2 ^ (-e).toNat
      ((Rat.floor (x / (p : Rat)) * (p : Int) : Int) : Rat)

/-- how a number type travels through the line protocol -/
structure Codec (K : Type) where
  dec : Json → Except String K
  enc : K → Json
  ofQ : Rat → K
  re : K → Rat

def codecQ : Codec Rat := ⟨getQ, fun x => jQ (approxQ x), id, id⟩

def codecC : Codec CQ :=
  ⟨fun j => do
      let l ← getL getQ j
      match l with
      | [a, b] => pure ⟨a, b⟩
      | _ => throw "expected [re, im]",
   fun x => Json.arr #[jQ (approxQ x.re), jQ (approxQ x.im)],
   fun q => ⟨q, 0⟩,
   fun x => x.re⟩

section fixed
variable {K : Type} [Add K] [Sub K] [Mul K] [Div K] [Neg K] [NatCast K] [IntCast K]
variable [LT K] [DecidableLT K] [LE K] [DecidableLE K] [HasFloor K] [HasNormSq K]

/-- the single-step map of a named solver on (cells, iteration counts so far) -/
def stepOf (solver : String) (f : Rate K) (dt : K) (maxiter : Nat) (maxerror α : K) :
    Except String (List K × List Nat → K → Option (List K × List Nat)) :=
  match solver with
  | "euler" => .ok fun s t => some (s.1.map (fun u => eulerStep f dt u t), s.2)
  | "runge-kutta" => .ok fun s t => some (s.1.map (fun u => rk4Step rk4Tab f dt u t), s.2)
  | "implicit" => .ok fun s t => (implicitStep f maxiter maxerror dt s.1 t).map (fun r => (r.1, r.2 :: s.2))
  | "crank-nicolson" => .ok fun s t => (cnStep α f maxiter maxerror dt s.1 t).map (fun r => (r.1, r.2 :: s.2))
  | _ => .error s!"unknown solver {solver}"

def segJson (C : Codec K) (t : K) (steps : Nat) (us : List K) (iters : List Nat) (times : List K := []) : Json :=
  Json.mkObj [("t", jQ (approxQ (C.re t))), ("steps", toJson steps), ("state", Json.arr (us.map C.enc).toArray),
    ("iters", toJson iters), ("times", Json.arr (times.map (fun x => jQ (approxQ (C.re x)))).toArray)]

/-- the stage times of one step of a named solver (`eulerTimes`, `rk4Times rk4Tab`, `implicitTimes`) -/
def stageOf (solver : String) : K → K → List K :=
  match solver with
  | "euler" => eulerTimes
  | "runge-kutta" => rk4Times rk4Tab
  | _ => implicitTimes

/-- successive stepper calls on the same stepper object -/
def runFixed (C : Codec K) (j : Json) : Except String Json := do
  let solver ← fldS j "solver"
  let backend ← fldS j "backend"
  let a ← C.dec (← fld j "a")
  let b ← getL C.dec (← fld j "b")
  let u0 ← getL C.dec (← fld j "u0")
  let dt := C.ofQ (← fldQ j "dt")
  let maxiter ← fldN j "maxiter"
  let maxerror := C.ofQ (← fldQ j "maxerror")
  let α := C.ofQ (← fldQ j "alpha")
  let segs ← getL (getL getQ) (← fld j "segments")
  let f : Rate K ← match b with
    | [b0, b1, b2, b3] => pure (linRate a b0 b1 b2 b3)
    | _ => throw "b must have 4 entries"
  let mut out : Array Json := #[]
  let mut err : Json := Json.null
  if solver == "adams-bashforth" then
    let T : AB2Tab K := if backend == "numba" then ab2TabNumba else ab2Tab
    let mut st : AB2State K := ⟨u0, none⟩
    for sg in segs do
      match sg with
      | [ts, te] =>
        match ab2Stepper T f dt (C.ofQ ts) (C.ofQ te) st with
        | none => err := Json.str "convergence"; break
        | some (st', t) =>
          out := out.push (segJson C t (stepCount dt (C.ofQ ts) (C.ofQ te)) st'.us []
            ((match st.prev with | none => [C.ofQ ts] | some _ => [])
              ++ callTimes (ab2Times T) dt (C.ofQ ts) (stepCount dt (C.ofQ ts) (C.ofQ te))))
          st := st'
      | _ => throw "segment must be [t_start, t_end]"
  else
    let step ← stepOf solver f dt maxiter maxerror α
    let mut us := u0
    for sg in segs do
      match sg with
      | [ts, te] =>
        match fixedStepper step dt (C.ofQ ts) (C.ofQ te) (us, []) with
        | none => err := Json.str "convergence"; break
        | some ((us', its), t) =>
          out := out.push (segJson C t (stepCount dt (C.ofQ ts) (C.ofQ te)) us' its.reverse
            (callTimes (stageOf solver) dt (C.ofQ ts) (stepCount dt (C.ofQ ts) (C.ofQ te))))
          us := us'
      | _ => throw "segment must be [t_start, t_end]"
  pure (Json.mkObj [("segments", Json.arr out), ("error", err)])

end fixed

def fixed (j : Json) : Except String Json := do
  match (← fldS j "num") with
  | "Q" => runFixed codecQ j
  | "C" => runFixed codecC j
  | m => throw s!"unknown number mode {m}"

/-! adaptive stepping at `Float` -/

def recJson (r : Rec Float) : Json := Json.arr #[jF r.t, jF r.dt, jF r.errRel, toJson r.accepted]

def adaptive (j : Json) : Except String Json := do
  let solver ← fldS j "solver"
  let a ← fldF j "a"
  let b ← fldFs j "b"
  let u0 ← fldFs j "u0"
  let dt0 ← fldF j "dt0"
  let tol ← fldF j "tol"
  let dtMin ← fldF j "dt_min"
  let dtMax ← fldF j "dt_max"
  let fuel ← fldN j "fuel"
  let segs ← getL (getL getF) (← fld j "segments")
  let f : Rate Float ← match b with
    | [b0, b1, b2, b3] => pure (linRate a b0 b1 b2 b3)
    | _ => throw "b must have 4 entries"
  let C : Ctl Float := ctlOf tol dtMin dtMax Float.pow Float.isNaN
  let stepper : List Float → Float → Float → Float → AOut Float ← match solver with
    | "euler" => pure (eulerAdaptiveStepper C f fuel)
    | "runge-kutta" => pure (adaptiveStepper C (rkf45Est rkfTab f) fuel)
    | "richardson" => pure (adaptiveStepper C (eulerRichardson f) fuel)
    | _ => throw s!"unknown adaptive solver {solver}"
  let mut out : Array Json := #[]
  let mut us := u0
  let mut dt := dt0
  for sg in segs do
    match sg with
    | [ts, te] =>
      let (status, s) := match stepper us ts te dt with
        | .done s => ("done", s)
        | .fuel s => ("fuel", s)
        | .error .belowMin s => ("below-min", s)
        | .error .nanBelowMin s => ("nan-below-min", s)
      out := out.push (Json.mkObj [("status", Json.str status), ("t", jF s.t), ("dt_opt", jF s.dtOpt),
        ("steps", toJson s.steps), ("state", jFs s.us),
        ("trace", Json.arr (s.trace.reverse.map recJson).toArray)])
      if status != "done" then break
      us := s.us
      dt := s.dtOpt
    | _ => throw "segment must be [t_start, t_end]"
  pure (Json.mkObj [("segments", Json.arr out)])

/-- step count and returned time of `fixed_stepper` at `Float` (the same IEEE operations as the
code: `max(1, round((t_end - t_start) / dt))`, `(t_start + (steps-1)*dt) + dt`) -/
def steps (j : Json) : Except String Json := do
  let dt ← fldF j "dt"
  let segs ← getL (getL getF) (← fld j "segments")
  let mut out : Array Json := #[]
  for sg in segs do
    match sg with
    | [ts, te] =>
      match fixedStepper (fun (s : Unit) (_ : Float) => some s) dt ts te () with
      | some (_, t) => out := out.push (Json.arr #[toJson (stepCount dt ts te), jF t])
      | none => throw "unreachable"
    | _ => throw "segment must be [t_start, t_end]"
  pure (Json.arr out)

/-- the extracted constants the driver was built with -/
def constants (_ : Json) : Except String Json :=
  pure (Json.mkObj (Generated.table.map (fun (n, p, q) => (n, jQ (mkRat p q)))))

def handlers : List (String × Handler) :=
  [("c06.fixed", fixed), ("c06.adaptive", adaptive), ("c06.steps", steps), ("c06.constants", constants)]
end PdeVerif.Drv.C06
