import PdeVerif.Json
namespace PdeVerif.Drv.C06
open Lean PdeVerif

def handlers : List (String × Handler) := []
end PdeVerif.Drv.C06
