import PdeVerif.Json
import PdeVerif.Model.Adaptive
import PdeVerif.Drv.C07
namespace PdeVerif.Drv.C08
open Lean PdeVerif PdeVerif.Interrupts PdeVerif.Controller PdeVerif.StepMaps

/-
c08.adaptive - a run with an adaptive stepper (`Model/Adaptive.lean`: `runAdaptiveSpec`)
{"mode":"Q"|"F", "dt":x, "t_start":x, "t_end":x, "eps":x, "dt_min":x, "u0":x, "fuel":n,
 "attempts":[[accepted?, x]..]   -- one entry per attempt of the stepper's inner loop: error_rel <= 1, adjust_dt(..)
 "trackers":[..as c07.run..]}
the simulated state is that of u' = 1 (`flow u t s = u + (s - t)`).
answer: as c07.run + "dt_final" (last solver.info["dt"]) + "attempts_left"
-/

section
variable {K : Type} [Add K] [Sub K] [Mul K] [Div K] [Neg K] [NatCast K] [IntCast K]
variable [LT K] [DecidableLT K] [LE K] [DecidableLE K] [HasFloor K]

def parseAttempt (getK : Json → Except String K) (j : Json) : Except String (Attempt K) := do
  let a ← j.getArr?
  match a.toList with
  | [b, x] => pure { accept := ← getB b, dtNext := ← getK x }
  | _ => throw "bad attempt entry"

def adaptiveJson (getK : Json → Except String K) (putK : K → Json) (j : Json) : Except String Json := do
  let dt ← getK (← fld j "dt")
  let tStart ← getK (← fld j "t_start")
  let tEnd ← getK (← fld j "t_end")
  let eps ← getK (← fld j "eps")
  let dtMin ← getK (← fld j "dt_min")
  let u0 ← getK (← fld j "u0")
  let fuel ← fldN j "fuel"
  let att ← getL (parseAttempt getK) (← fld j "attempts")
  let specs ← getL (C07.parseTracker getK) (← fld j "trackers")
  let s0 : SolverState K := some (u0, u0)
  let rr := runAdaptiveSpec dt tStart tEnd eps dtMin
    (fun (s : SolverState K) t e => s.map (fun p => (p.1 + (e - t), p.2))) att s0 specs fuel
  let r := rr.1
  let putS : SolverState K → Json := fun s => match s with
    | none => Json.str "ConvergenceError"
    | some p => putK p.1
  if r.trackers.any (fun tr => C07.isBroken tr.sched) then throw "geometric search out of fuel"
  let putO : Option K → Json := fun o => match o with | none => Json.str "inf" | some x => putK x
  pure (Json.mkObj [
    ("t_final", putK r.tFinal), ("steps", toJson r.steps), ("state", putS r.state),
    ("exit", Json.str (C07.exitTag r.exit)),
    ("stop_reason", Json.str r.exit.reason), ("successful", toJson r.exit.successful),
    ("iters", toJson r.iters), ("dt_final", putK rr.2),
    ("trace", Json.arr (r.trace.map (fun e => Json.arr #[toJson e.1, putK e.2.1, putS e.2.2])).toArray),
    ("trackers", Json.arr (r.trackers.map (fun tr => Json.mkObj [
      ("calls", toJson tr.calls), ("times", Json.arr (tr.times.map putK).toArray),
      ("frames", Json.arr (tr.frames.map putS).toArray), ("finalized", toJson tr.finalized),
      ("due", putO tr.due)])).toArray)])

end

def adaptive (j : Json) : Except String Json := do
  let mode ← fldS j "mode"
  if mode == "Q" then adaptiveJson (K := Rat) getQ jQ j
  else adaptiveJson (K := Float) getF jF j

def handlers : List (String × Handler) := [("c08.adaptive", adaptive)]
end PdeVerif.Drv.C08
