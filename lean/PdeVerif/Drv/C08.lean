import PdeVerif.Json
namespace PdeVerif.Drv.C08
open Lean PdeVerif

def handlers : List (String × Handler) := []
end PdeVerif.Drv.C08
