import PdeVerif.Json
namespace PdeVerif.Drv.C04
open Lean PdeVerif

def handlers : List (String × Handler) := []
end PdeVerif.Drv.C04
