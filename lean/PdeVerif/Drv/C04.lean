import PdeVerif.Json
import PdeVerif.Model.Cache
namespace PdeVerif.Drv.C04
open Lean PdeVerif PdeVerif.Cache

/-! JSON <-> object graphs -/

def hexVal (c : Char) : Except String Nat :=
  if '0' ≤ c ∧ c ≤ '9' then pure (c.toNat - 48)
  else if 'a' ≤ c ∧ c ≤ 'f' then pure (c.toNat - 87)
  else throw s!"bad hex digit {c}"

def parseHexList : List Char → Except String (List Nat)
  | [] => pure []
  | [_] => throw "odd hex length"
  | a :: b :: rest => do
    let x ← hexVal a
    let y ← hexVal b
    let r ← parseHexList rest
    pure ((16 * x + y) :: r)

def parseHex (s : String) : Except String (List Nat) := parseHexList s.toList

/-- big integers travel as JSON numbers or decimal strings -/
def getBigI (j : Json) : Except String Int :=
  match j with
  | .str s => match s.toInt? with
    | some i => pure i
    | none => throw s!"bad integer {s}"
  | _ => j.getInt?

def fldBigI (j : Json) (k : String) : Except String Int := do getBigI (← fld j k)

partial def parsePy (j : Json) : Except String PyObj := do
  let t ← fldS j "t"
  match t with
  | "none" => pure .none
  | "bool" => pure (.bool (← fldB j "b"))
  | "num" => do
    let v ← fld j "v"
    let k ← fldS v "k"
    let nv : NumVal ← (match k with
      | "fin" => do pure (NumVal.fin (← fldBigI v "m") (← fldBigI v "e"))
      | "inf" => do pure (NumVal.inf (← fldB v "neg"))
      | "cplx" => do pure (NumVal.cplx (← fldBigI v "rm") (← fldBigI v "re") (← fldBigI v "im") (← fldBigI v "ie") (← fldS v "txt"))
      | "nan" => do pure (NumVal.nan (← fldN v "id"))
      | _ => throw s!"unknown number kind {k}")
    pure (.num (← fldS j "cls") (← fldS j "repr") nv)
  | "str" => pure (.str (← fldS j "s"))
  | "bytes" => pure (.bytes (← parseHex (← fldS j "h")))
  | "tuple" => pure (.tuple (← getL parsePy (← fld j "l")))
  | "list" => pure (.list (← getL parsePy (← fld j "l")))
  | "dict" => pure (.dict (← getL parsePair (← fld j "l")))
  | "odict" => pure (.odict (← getL parsePair (← fld j "l")))
  | "nd" => pure (.ndarray (← fldS j "dtype") (← fldNs j "shape") (← parseHex (← fldS j "h")))
  | "slice" => pure (.slice (← parsePy (← fld j "a")) (← parsePy (← fld j "b")) (← parsePy (← fld j "c")))
  | "atom" => pure (.atom (← fldS j "tag"))
  | "hobj" => pure (.hobj (← fldS j "cls") (← parsePy (← fld j "ch")))
  | "grid" => pure (.gridObj (← fldS j "cls") (← parsePy (← fld j "ch")))
  | "obj" => pure (.obj (← fldS j "cls") (← fldB j "eq") (← fldN j "id") (← getL parsePair (← fld j "attrs")))
  | _ => throw s!"unknown object tag {t}"
where
  parsePair (p : Json) : Except String (String × PyObj) := do
    let a ← p.getArr?
    match a.toList with
    | [k, v] => pure (← k.getStr?, ← parsePy v)
    | _ => throw "bad pair"

/-! specifications of the modelled graphs -/

def parseNum (j : Json) : Except String (Int × Int) := do
  let a ← j.getArr?
  match a.toList with
  | [m, e] => pure (← getBigI m, ← getBigI e)
  | _ => throw "bad number pair"

/-- [cls, repr, m, e] -/
def parseFloatSpec (j : Json) : Except String FloatSpec := do
  let a ← j.getArr?
  match a.toList with
  | [c, r, m, e] => pure { cls := ← c.getStr?, repr := ← r.getStr?, m := ← getBigI m, e := ← getBigI e }
  | _ => throw "bad float spec"

def parseGrid (j : Json) : Except String GridSpec := do
  let bs ← getL (fun b => do
    let a ← b.getArr?
    match a.toList with
    | [lo, hi] => pure (← parseFloatSpec lo, ← parseFloatSpec hi)
    | _ => throw "bad bounds") (← fld j "bounds")
  pure { cls := ← fldS j "cls", shape := ← fldNs j "shape", bounds := bs,
         periodic := ← getL getB (← fld j "periodic") }

def parseArr (j : Json) : Except String ArrSpec := do
  match j with
  | .null => pure default
  | _ => pure { dtype := ← fldS j "dtype", shape := ← fldNs j "shape", bytes := ← parseHex (← fldS j "h") }

def parseBCClass (s : String) : Except String BCClass :=
  match s with
  | "DirichletBC" => pure .DirichletBC | "NeumannBC" => pure .NeumannBC
  | "MixedBC" => pure .MixedBC | "CurvatureBC" => pure .CurvatureBC
  | "NormalDirichletBC" => pure .NormalDirichletBC | "NormalNeumannBC" => pure .NormalNeumannBC
  | "NormalMixedBC" => pure .NormalMixedBC | "NormalCurvatureBC" => pure .NormalCurvatureBC
  | "_PeriodicBC" => pure .PeriodicBC | "UserBC" => pure .UserBC
  | _ => throw s!"unmodelled BC class {s}"

def optB (j : Json) (k : String) : Bool :=
  match fldOpt j k with
  | some (.bool b) => b
  | _ => false

def parseBC (j : Json) : Except String BCSpec := do
  pure { cls := ← parseBCClass (← fldS j "cls"), grid := ← parseGrid (← fld j "grid"),
         axis := ← fldN j "axis", upper := ← fldB j "upper", rank := ← fldN j "rank",
         shapeTensor := ← fldNs j "shape_tensor", shapeBoundary := ← fldNs j "shape_boundary",
         value := ← parseArr ((fldOpt j "value").getD .null), homogeneous := optB j "homogeneous",
         valueIsLinked := optB j "linked", const := ← parseArr ((fldOpt j "const").getD .null),
         flipSign := optB j "flip" }

def parseAxis (j : Json) : Except String AxisSpec := do
  pure { periodic := ← fldB j "periodic", low := ← parseBC (← fld j "low"), high := ← parseBC (← fld j "high") }

def parseBcs (j : Json) : Except String BcsSpec := do
  pure { grid := ← parseGrid (← fld j "grid"), rank := ← fldN j "rank",
         axes := ← getL parseAxis (← fld j "axes") }

def parseOp (j : Json) : Except String OpSpec := do
  pure { factoryId := ← fldS j "factory", rankIn := ← fldN j "rank_in", rankOut := ← fldN j "rank_out",
         name := ← fldS j "name" }

def parseKw (j : Json) : Except String (List (String × PyObj)) :=
  getL (fun p => do
    let a ← p.getArr?
    match a.toList with
    | [k, v] => pure (← k.getStr?, ← parsePy v)
    | _ => throw "bad kwarg") j

def parseReq (j : Json) : Except String OpReq := do
  pure { grid := ← parseGrid (← fld j "grid"), op := ← parseOp (← fld j "op"),
         bcs := ← parseBcs (← fld j "bcs"), dtype := ← parsePy (← fld j "dtype"),
         kwargs := ← parseKw (← fld j "kwargs") }

def jB (b : Bool) : Json := Json.bool b

def derivs : List (String × Deriv) :=
  [("cur", .cur), ("oldF1", .beforeF1), ("oldA", .beforeA), ("oldB", .beforeB), ("oldD", .beforeD)]

/-- equality of two key functions under the current derivation and the four earlier ones -/
def eqAllK (a b : Deriv → Key) : List (String × Json) :=
  derivs.map fun (n, d) => (n, jB (a d = b d))

/-- {"a": graph, "b": graph} -> key equality under the current and the old derivations -/
def keyEq (j : Json) : Except String Json := do
  let a ← parsePy (← fld j "a")
  let b ← parsePy (← fld j "b")
  pure (Json.mkObj (eqAllK (fun d => hashMutableG d a) (fun d => hashMutableG d b)))

/-- {"kind": "grid"|"bc"|"bcs"|"req", "a": spec, "b": spec, "ga": graph, "gb": graph}:
key equality of the objects the *theorems* are about, computed by the very definitions the
theorems use (`hashMutableG d (gridGraph g)`, `hashMutableG d (bcGraph b)`,
`hashMutableG d (bcsGraph b)`, `opReqKeyG d r`), and whether these keys coincide with the key of
the serialised real objects -/
def specEq (j : Json) : Except String Json := do
  let kind ← fldS j "kind"
  let build : Json → Except String (Deriv → Key) := fun s => do
    match kind with
    | "grid" => do let g ← parseGrid s; pure (fun d => hashMutableG d (gridGraph g))
    | "bc" => do let b ← parseBC s; pure (fun d => hashMutableG d (bcGraph b))
    | "bcs" => do let b ← parseBcs s; pure (fun d => hashMutableG d (bcsGraph b))
    | "req" => do let r ← parseReq s; pure (fun d => opReqKeyG d r)
    | _ => throw s!"unknown kind {kind}"
  let a ← build (← fld j "a")
  let b ← build (← fld j "b")
  let ga ← parsePy (← fld j "ga")
  let gb ← parsePy (← fld j "gb")
  let same (x : Deriv → Key) (y : PyObj) : Bool := derivs.all fun (_, d) => x d = hashMutableG d y
  pure (Json.mkObj (eqAllK a b ++ [("match_a", jB (same a ga)), ("match_b", jB (same b gb))]))

/-- {"nums": [[m, e], ...]} -> CPython hash values of the numbers m*2^e -/
def numHash (j : Json) : Except String Json := do
  let l ← getL parseNum (← fld j "nums")
  pure (Json.arr (l.map (fun x => Json.str (toString (pyHashNum x.1 x.2)))).toArray)

/-- {"objs": [graph, ...]} -> builtin `hash` of leaves whose key is an integer (else null) -/
def leafHash (j : Json) : Except String Json := do
  let l ← getL parsePy (← fld j "objs")
  pure (Json.arr (l.map (fun o => match builtinKey .cur o with
    | .leaf (.int h) => Json.str (toString h)
    | _ => Json.null)).toArray)

/-- replay of a history on the `_class_cache` machine of ONE instance.
{"cap": null|n, "ignore": {method: [names]}, "events": [ {"ev":"call","name":..,"args":[graphs],
 "kwargs":[[k,graph]..],"extra":[graphs]} | {"ev":"drop"} ]}
The "semantics" of a request is its index in the event list (what a compute would return if
it returned a fresh token): the answer list tells for every call which earlier compute's
result it returns, i.e. hits and misses. -/
def replayCache (j : Json) : Except String Json := do
  let cap : Option Nat ← (match fldOpt j "cap" with
    | some .null | none => pure none
    | some v => do pure (some (← getN v)))
  let evs ← (← fld j "events").getArr?
  let ign := fldOpt j "ignore"
  let mut parsed : List (Ev (Nat × Key)) := []
  let mut idx := 0
  for e in evs.toList do
    let kind ← fldS e "ev"
    if kind == "drop" then
      parsed := parsed ++ [Ev.drop]
    else if kind == "nop" then
      pure ()
    else
      let name ← fldS e "name"
      let args ← getL parsePy (← fld e "args")
      let kwargs ← parseKw (← fld e "kwargs")
      let extra ← getL parsePy (← fld e "extra")
      let ignore : List String := match ign with
        | some o => match o.getObjVal? name with
          | .ok a => match getL getS a with | .ok l => l | .error _ => []
          | .error _ => []
        | none => []
      parsed := parsed ++ [Ev.call name (idx, cacheKey ignore extra args kwargs)]
    idx := idx + 1
  let out := runEvents (κ := Key) (V := Nat) cap (fun _ r => r.2) (fun _ r => r.1) none parsed
  pure (toJson out)

/-- replay of a history on SEVERAL objects (`procRun`, Model/Cache.lean section viii).
{"cap": n|null, "slot": bool (optional: `PDE._cache`, one slot per method = backend name), "ignore": {...},
 "events": [{"ev": "call", "obj": o, "name": s, ("cls": k | "args": .., "kwargs": .., "extra": ..)} |
            {"ev": "drop", "obj": o} | {"ev": "nop"}]}
`cls` = the key is the given class index (equivalence class of the validated attributes, decided by the real
`==`); otherwise the key is `cacheKey` of the serialised arguments.  Answer as in `c04.replay_cache`: for every
call the index of the event whose compute it returns. -/
def replayProc (j : Json) : Except String Json := do
  let cap : Option Nat ← (match fldOpt j "cap" with
    | some .null | none => pure none
    | some v => do pure (some (← getN v)))
  let slot := optB j "slot"
  let evs ← (← fld j "events").getArr?
  let ign := fldOpt j "ignore"
  let mut parsed : List (Nat × Ev (Nat × Key)) := []
  let mut idx := 0
  for e in evs.toList do
    let kind ← fldS e "ev"
    if kind == "drop" then
      parsed := parsed ++ [(← fldN e "obj", Ev.drop)]
    else if kind == "nop" then
      pure ()
    else
      let o ← fldN e "obj"
      let name ← fldS e "name"
      match fldOpt e "cls" with
      | some c =>
        let k ← getN c
        parsed := parsed ++ [(o, Ev.call name (idx, Key.leaf (.int (k : Int))))]
      | none =>
        let args ← getL parsePy (← fld e "args")
        let kwargs ← parseKw (← fld e "kwargs")
        let extra ← getL parsePy (← fld e "extra")
        let ignore : List String := match ign with
          | some o => match o.getObjVal? name with
            | .ok a => match getL getS a with | .ok l => l | .error _ => []
            | .error _ => []
          | none => []
        parsed := parsed ++ [(o, Ev.call name (idx, cacheKey ignore extra args kwargs))]
    idx := idx + 1
  let capf : Nat → String → Option Nat := if slot then pdeCap else fun _ _ => cap
  let out := procRun (κ := Key) (V := Nat) capf (fun _ _ r => r.2) (fun _ _ r => r.1) [] parsed
  pure (toJson out)

/-- replay of a heap history of one field.
{"inval": bool, "check": bool, "content": bool (optional, default false), "init": q, "events": [["write", q] |
 ["relink"] | ["assign_new", q] | ["assign_same"] | ["interp", kwargs] | ["rate"] | ["rate_jit"]]}
 -> values read (as text) under the given repairs + reference values (`href`) -/
def replayHeap (j : Json) : Except String Json := do
  let inval ← fldB j "inval"
  let check ← fldB j "check"
  let content := optB j "content"
  let init ← fldS j "init"
  let evs ← (← fld j "events").getArr?
  let mut parsed : List (HEv Key String) := []
  for e in evs.toList do
    let a ← e.getArr?
    match a.toList with
    | [Json.str "write", v] => parsed := parsed ++ [HEv.write (← v.getStr?)]
    | [Json.str "relink"] => parsed := parsed ++ [HEv.relink]
    | [Json.str "assign_new", v] => parsed := parsed ++ [HEv.assignNew (← v.getStr?)]
    | [Json.str "assign_same"] => parsed := parsed ++ [HEv.assignSame]
    | [Json.str "rate"] => parsed := parsed ++ [HEv.rate]
    | [Json.str "rate_jit"] => parsed := parsed ++ [HEv.rateJit]
    | [Json.str "interp", kw] =>
      parsed := parsed ++ [HEv.interp (cacheKey [] [] [] (← parseKw kw))]
    | _ => throw s!"bad heap event {e.compress}"
  let got := hrun ⟨inval, check, content⟩ (newField (κ := Key) init) parsed
  let ref := href (κ := Key) init parsed
  pure (Json.mkObj [("read", toJson got), ("ref", toJson ref)])

def jOptN (o : Option Nat) : Json := match o with | some n => toJson n | none => Json.null

/-- replay of a history of registrations and queries with an operator name on the registry machine.
{"events": [["register", level, name, fid] | ["unregister", level, name] | ["query", cache, name, rest]]}
 -> the factory id every query returns (null: NotImplementedError) when the cache key contains the
 name only (`regRun .byName`), when it contains the resolved registration (`regRun .byInfo`), and
 without any cache (`regRef`) -/
def replayRegistry (j : Json) : Except String Json := do
  let evs ← (← fld j "events").getArr?
  let mut parsed : List RegEv := []
  for e in evs.toList do
    let a ← e.getArr?
    match a.toList with
    | [Json.str "register", l, n, f] => parsed := parsed ++ [RegEv.register (← getN l) (← getS n) (← getN f)]
    | [Json.str "unregister", l, n] => parsed := parsed ++ [RegEv.unregister (← getN l) (← getS n)]
    | [Json.str "query", c, n, x] => parsed := parsed ++ [RegEv.query (← getN c) (← getS n) (← getN x)]
    | _ => throw s!"bad registry event {e.compress}"
  let out (l : List (Option Nat)) : Json := Json.arr (l.map jOptN).toArray
  pure (Json.mkObj [("byName", out (regRun .byName parsed)), ("byInfo", out (regRun .byInfo parsed)),
                    ("ref", out (regRef parsed))])

/-- the operator table of a PDE with several variables.
{"vars": [{"name": v, "ops": [names]}, ...] (in the order of the PDE), "bcs": [[variable pattern, operator pattern], ...]
 (`PDE.bcs` in dictionary order)} -> for the table keyed by (variable, operator) (`perVar`, the code as it
 is) and by the operator only (`shared`): for every operator of every variable the index of the boundary
 entry its implementation was built with (`servedBC`), and `bcsUsed`; `select`: what `PDE.bcs` selects -/
def pdeTable (j : Json) : Except String Json := do
  let vars ← getL (fun v => do pure ({ name := ← fldS v "name", ops := ← getL getS (← fld v "ops") } : VarSpec)) (← fld j "vars")
  let bcs : BcKeys ← getL (fun b => do
    let a ← b.getArr?
    match a.toList with
    | [x, y] => pure (← getS x, ← getS y)
    | _ => throw "bad bc key") (← fld j "bcs")
  let pairs : List (String × String) := vars.flatMap (fun v => v.ops.map (fun o => (v.name, o)))
  let one (k : TableKey) : Json := Json.mkObj [
    ("served", Json.arr (pairs.map (fun p => Json.arr #[Json.str p.1, Json.str p.2,
        match servedBC k bcs vars p.1 p.2 with | some (some i) => toJson i | _ => Json.null])).toArray),
    ("used", toJson (bcsUsed k bcs vars))]
  pure (Json.mkObj [("perVar", one .perVar), ("shared", one .shared),
    ("select", Json.arr (pairs.map (fun p => Json.arr #[Json.str p.1, Json.str p.2, jOptN (selectBC bcs p.1 p.2)])).toArray)])

def handlers : List (String × Handler) :=
  [("c04.keyeq", keyEq), ("c04.speceq", specEq), ("c04.numhash", numHash),
   ("c04.leafhash", leafHash), ("c04.replay_cache", replayCache), ("c04.replay_proc", replayProc), ("c04.replay_heap", replayHeap),
   ("c04.replay_registry", replayRegistry), ("c04.pde_table", pdeTable)]
end PdeVerif.Drv.C04
