import Lean.Data.Json
/-
JSON helpers for the driver's line protocol.  Exact rationals travel as strings "p/q" (or
"n"), IEEE doubles as their 64-bit pattern in decimal (string "b:<bits>").
-/
namespace PdeVerif
open Lean

def parseQ (s : String) : Except String Rat :=
  match s.splitOn "/" with
  | [n] => match n.toInt? with
    | some i => .ok (i : Rat)
    | none => .error s!"bad rational {s}"
  | [n, d] => match n.toInt?, d.toNat? with
    | some a, some b => if b = 0 then .error s!"zero denominator {s}" else .ok (mkRat a b)
    | _, _ => .error s!"bad rational {s}"
  | _ => .error s!"bad rational {s}"

def showQ (q : Rat) : String := if q.den = 1 then toString q.num else s!"{q.num}/{q.den}"

def jQ (q : Rat) : Json := Json.str (showQ q)
def jQs (l : List Rat) : Json := Json.arr (l.map jQ).toArray
def jI (i : Int) : Json := toJson i
def jIs (l : List Int) : Json := Json.arr (l.map jI).toArray
def jF (x : Float) : Json := Json.str s!"b:{x.toBits}"
def jFs (l : List Float) : Json := Json.arr (l.map jF).toArray

def getQ (j : Json) : Except String Rat :=
  match j with
  | .str s => parseQ s
  | .num n => if n.exponent = 0 then .ok (n.mantissa : Rat) else .error s!"non-integer json number {j.compress}"
  | _ => .error s!"expected rational, got {j.compress}"

def getF (j : Json) : Except String Float :=
  match j with
  | .str s =>
    if s.startsWith "b:" then
      match (s.drop 2).toNat? with
      | some b => .ok (Float.ofBits b.toUInt64)
      | none => .error s!"bad float bits {s}"
    else if s == "inf" then .ok (1.0 / 0.0)
    else if s == "-inf" then .ok (-1.0 / 0.0)
    else .error s!"bad float {s}"
  | _ => .error s!"expected float bits, got {j.compress}"

def getI (j : Json) : Except String Int := j.getInt?
def getN (j : Json) : Except String Nat := j.getNat?
def getB (j : Json) : Except String Bool := j.getBool?
def getS (j : Json) : Except String String := j.getStr?
def getL {α} (f : Json → Except String α) (j : Json) : Except String (List α) := do
  let a ← j.getArr?
  a.toList.mapM f
def fld (j : Json) (k : String) : Except String Json := j.getObjVal? k
def fldQ (j : Json) (k : String) : Except String Rat := do getQ (← fld j k)
def fldF (j : Json) (k : String) : Except String Float := do getF (← fld j k)
def fldI (j : Json) (k : String) : Except String Int := do getI (← fld j k)
def fldN (j : Json) (k : String) : Except String Nat := do getN (← fld j k)
def fldB (j : Json) (k : String) : Except String Bool := do getB (← fld j k)
def fldS (j : Json) (k : String) : Except String String := do getS (← fld j k)
def fldQs (j : Json) (k : String) : Except String (List Rat) := do getL getQ (← fld j k)
def fldFs (j : Json) (k : String) : Except String (List Float) := do getL getF (← fld j k)
def fldIs (j : Json) (k : String) : Except String (List Int) := do getL getI (← fld j k)
def fldNs (j : Json) (k : String) : Except String (List Nat) := do getL getN (← fld j k)
def fldOpt (j : Json) (k : String) : Option Json := (j.getObjVal? k).toOption

/-- a request handler: JSON argument object in, JSON answer out -/
abbrev Handler := Json → Except String Json

end PdeVerif
