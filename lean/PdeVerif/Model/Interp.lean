import PdeVerif.Num
/-
Model of the interpolation / insertion code of py-pde:

* `axisDataX`, `axisData`   - `get_axis_data` of `make_interpolation_axis_data`
                              (pde/backends/numba/grids.py:102-190): index/weight selection with
                              periodic wrap, boundary strips, ghost-cell mode, the out-of-bounds
                              signal (`-42` in the code, `none` here) and the weight clipping
                              constant (`1e-15` in the code, the parameter `eps` here)
* `interp1/2/3`             - `make_single_interpolator` (grids.py:193-349), 1/2/3 axes
* `insertInterp`            - interpreted `DataFieldBase.insert` (pde/fields/datafield_base.py:735-788),
                              written for any number of axes like the code (`np.ndindex(2,...,2)`)
* `insertComp1/2/3`         - `NumbaBackend.make_inserter` (pde/backends/numba/backend.py), incl. the
                              ghost-cell variant whose volume lookup is shifted and clamped (`volIdx`)
* `integral`                - `GridBase.integrate`: `(data * cell_volumes).sum()`

Cell volumes enter as a function `vol : Idx → K`, so every grid class is covered (Cartesian:
constant, polar/spherical/cylindrical: depends on the radial index).

Arrays are total functions on index tuples (`Idx = List Int`, one entry per axis); tensor
components are interpolated component by component with the same weights (`data[..., c]`), so the
model is per component.  Core Lean only; generic in the number type.
-/
namespace PdeVerif.Interp
open PdeVerif

/-- index tuple of a cell (one entry per grid axis) -/
abbrev Idx := List Int

/-- result of `get_axis_data`: two support indices and their weights -/
structure AxisData (K : Type) where
  li : Int
  hi : Int
  wl : K
  wh : K

/-- how one axis is discretised: `grid.shape[axis]`, `grid.periodic[axis]`,
`grid.axes_bounds[axis][0]`, `grid.discretization[axis]` -/
structure Axis (K : Type) where
  size : Int
  periodic : Bool
  lo : K
  dx : K

section
variable {K : Type} [Add K] [Sub K] [Mul K] [Div K] [Neg K] [NatCast K] [IntCast K]
variable [LT K] [DecidableLT K] [LE K] [DecidableLE K] [HasFloor K]

/-- the literal `0.5` -/
def half : K := ((1:Nat) : K) / ((2:Nat) : K)

/-- position relative to the centre of cell 0 in units of cells: `(coord - lo) / dx - 0.5`, and `coord - 0.5` for
`cell_coords=True` (cell coordinates as `grid.transform(.., "cell")` defines them: cell `i` spans `[i, i+1]`, its centre is
`i + 1/2`; the code read the coordinate itself until fix F41) -/
def cellCoord (cellCoords : Bool) (ax : Axis K) (coord : K) : K :=
  if cellCoords then coord - half else (coord - ax.lo) / ax.dx - half

/-- `if w < 1e-15: w = 0` with the constant as a parameter -/
def clip (eps w : K) : K := if w < eps then ((0:Nat) : K) else w

/-- the support indices chosen by `get_axis_data` before the ghost-cell shift; `none` is the
out-of-bounds signal.  `cl = c_l`, `s = c_l + d_l` (the quantity the code tests). -/
def selectIdx (ghost periodic : Bool) (size : Int) (cl : Int) (s : K) : Option (Int × Int) :=
  if periodic then
    some (cl % size, (cl % size + 1) % size)
  else if ghost then
    if -(half : K) ≤ s ∧ s ≤ (size : K) - half then some (cl, cl + 1) else none
  else
    if ((0:Nat) : K) ≤ s ∧ s < (size : K) - ((1:Nat) : K) then some (cl, cl + 1)
    else if (size : K) - ((1:Nat) : K) ≤ s ∧ s ≤ (size : K) - half then some (cl, cl)
    else if -(half : K) ≤ s ∧ s ≤ ((0:Nat) : K) then some (cl + 1, cl + 1)
    else none

/-- `get_axis_data` on the cell coordinate `x` (`c_l, d_l = divmod(x, 1.0)`) -/
def axisDataX (eps : K) (ghost periodic : Bool) (size : Int) (x : K) : Option (AxisData K) :=
  let cl : Int := HasFloor.floor x
  let dl : K := x - (cl : K)
  match selectIdx ghost periodic size cl ((cl : K) + dl) with
  | none => none
  | some (li, hi) =>
    let wl := clip eps (((1:Nat) : K) - dl)
    let wh := clip eps dl
    if ghost then some ⟨li + 1, hi + 1, wl, wh⟩ else some ⟨li, hi, wl, wh⟩

/-- `get_axis_data(coord)` -/
def axisData (eps : K) (ghost cellCoords : Bool) (ax : Axis K) (coord : K) : Option (AxisData K) :=
  axisDataX eps ghost ax.periodic ax.size (cellCoord cellCoords ax coord)

/-! ### `make_single_interpolator`: `fill = none` means "raise DomainError", the result `none`
is that exception -/

def interp1 (eps : K) (ghost cc : Bool) (fill : Option K) (ax : Axis K)
    (data : Idx → K) (px : K) : Option K :=
  match axisData eps ghost cc ax px with
  | none => fill
  | some a => some (a.wl * data [a.li] + a.wh * data [a.hi])

def interp2 (eps : K) (ghost cc : Bool) (fill : Option K) (ax ay : Axis K)
    (data : Idx → K) (px py : K) : Option K :=
  match axisData eps ghost cc ax px, axisData eps ghost cc ay py with
  | some a, some b =>
    some (a.wl * b.wl * data [a.li, b.li]
      + a.wl * b.wh * data [a.li, b.hi]
      + a.wh * b.wl * data [a.hi, b.li]
      + a.wh * b.wh * data [a.hi, b.hi])
  | _, _ => fill

def interp3 (eps : K) (ghost cc : Bool) (fill : Option K) (ax ay az : Axis K)
    (data : Idx → K) (px py pz : K) : Option K :=
  match axisData eps ghost cc ax px, axisData eps ghost cc ay py, axisData eps ghost cc az pz with
  | some a, some b, some c =>
    some (a.wl * b.wl * c.wl * data [a.li, b.li, c.li]
      + a.wl * b.wl * c.wh * data [a.li, b.li, c.hi]
      + a.wl * b.wh * c.wl * data [a.li, b.hi, c.li]
      + a.wl * b.wh * c.wh * data [a.li, b.hi, c.hi]
      + a.wh * b.wl * c.wl * data [a.hi, b.li, c.li]
      + a.wh * b.wl * c.wh * data [a.hi, b.li, c.hi]
      + a.wh * b.wh * c.wl * data [a.hi, b.hi, c.li]
      + a.wh * b.wh * c.wh * data [a.hi, b.hi, c.hi])
  | _, _, _ => fill

/-- dispatch on the number of axes as `make_single_interpolator` does (`none` for a point whose
length does not match or for more than 3 axes: not implemented) -/
def interpN (eps : K) (ghost cc : Bool) (fill : Option K) (axes : List (Axis K))
    (data : Idx → K) (p : List K) : Option K :=
  match axes, p with
  | [ax], [px] => interp1 eps ghost cc fill ax data px
  | [ax, ay], [px, py] => interp2 eps ghost cc fill ax ay data px py
  | [ax, ay, az], [px, py, pz] => interp3 eps ghost cc fill ax ay az data px py pz
  | _, _ => none

/-! ### arrays, `+=`, integral -/

/-- `data[c] += v` -/
def deposit (data : Idx → K) (c : Idx) (v : K) : Idx → K :=
  fun c' => if c' = c then data c' + v else data c'

/-- sum of a list, starting from the literal `0` -/
def sumK : List K → K
  | [] => ((0:Nat) : K)
  | x :: xs => x + sumK xs

/-- product of a list (`np.prod`) -/
def prodK : List K → K
  | [] => ((1:Nat) : K)
  | x :: xs => x * prodK xs

/-- all index tuples of a grid of the given shape, in C order -/
def cells : List Int → List Idx
  | [] => [[]]
  | n :: ns => (List.range n.toNat).flatMap (fun (i : Nat) => (cells ns).map (fun r => (i : Int) :: r))

/-- `grid.integrate(data) = (data * cell_volumes).sum()` -/
def integral (shape : List Int) (vol data : Idx → K) : K :=
  sumK ((cells shape).map (fun c => data c * vol c))

/-- `np.all(coords >= 0) and np.all(coords < grid.shape)` -/
def validIdx : List Int → Idx → Bool
  | [], [] => true
  | n :: ns, c :: cs => decide (0 ≤ c) && decide (c < n) && validIdx ns cs
  | _, _ => false

/-! ### interpreted `DataFieldBase.insert` -/

/-- the two candidate support points of one axis with their (unclipped) weights:
`c_l, d_l = divmod((point - low)/dx - 0.5, 1)`, `c_h = c_l + 1`, periodic axes wrapped -/
def axisCorners (ax : Axis K) (coord : K) : List (Int × K) :=
  let x : K := (coord - ax.lo) / ax.dx - half
  let cl : Int := HasFloor.floor x
  let dl : K := x - (cl : K)
  let wl : K := ((1:Nat) : K) - dl
  let wh : K := dl
  if ax.periodic then [(cl % ax.size, wl), ((cl + 1) % ax.size, wh)]
  else [(cl, wl), (cl + 1, wh)]

/-- `for i in np.ndindex(2,...,2)`: all corner cells with the product of the weights, first
axis slowest -/
def corners : List (List (Int × K)) → List (Idx × K)
  | [] => [([], ((1:Nat) : K))]
  | e :: es => e.flatMap (fun cw => (corners es).map (fun r => (cw.1 :: r.1, cw.2 * r.2)))

/-- the list `cells` of the first loop of `insert`: valid corner cells and their weights -/
def insertCells (axes : List (Axis K)) (point : List K) : List (Idx × K) :=
  (corners (List.zipWith axisCorners axes point)).filter
    (fun r => validIdx (axes.map (·.size)) r.1)

/-- second loop of `insert` -/
def applyCells (total amount : K) (vol : Idx → K) : List (Idx × K) → (Idx → K) → (Idx → K)
  | [], data => data
  | r :: rs, data =>
    applyCells total amount vol rs (deposit data r.1 (r.2 * amount / (total * vol r.1)))

/-- `DataFieldBase.insert(point, amount)`; `none` = `DomainError` (total weight zero) -/
def insertInterp [DecidableEq K] (axes : List (Axis K)) (vol data : Idx → K) (point : List K)
    (amount : K) : Option (Idx → K) :=
  let cs := insertCells axes point
  let total := sumK (cs.map (·.2))
  if total = ((0:Nat) : K) then none else some (applyCells total amount vol cs data)

/-! ### compiled inserter (`NumbaBackend.make_inserter`), 1/2/3 axes; `none` = `DomainError` -/

/-- index used for the cell-volume lookup: with ghost cells the indices refer to the padded array
while volumes exist for valid cells only, so the code looks up `min(max(i - 1, 0), size - 1)`
(a ghost cell uses the volume of the adjacent valid cell); without ghost cells the index itself -/
def volIdx (ghost : Bool) (size i : Int) : Int :=
  if ghost then
    let j := if i - 1 < 0 then 0 else i - 1      -- max(i - 1, 0)
    if size - 1 < j then size - 1 else j          -- min(., size - 1)
  else i

def insertComp1 (eps : K) (ghost : Bool) (ax : Axis K) (vol data : Idx → K) (px amount : K) :
    Option (Idx → K) :=
  match axisData eps ghost false ax px with
  | none => none
  | some a =>
    let v := fun i => vol [volIdx ghost ax.size i]
    let d := deposit data [a.li] (a.wl * amount / v a.li)
    some (deposit d [a.hi] (a.wh * amount / v a.hi))

def insertComp2 (eps : K) (ghost : Bool) (ax ay : Axis K) (vol data : Idx → K)
    (px py amount : K) : Option (Idx → K) :=
  match axisData eps ghost false ax px, axisData eps ghost false ay py with
  | some a, some b =>
    let v := fun i j => vol [volIdx ghost ax.size i, volIdx ghost ay.size j]
    let d := deposit data [a.li, b.li] (a.wl * b.wl * amount / v a.li b.li)
    let d := deposit d [a.li, b.hi] (a.wl * b.wh * amount / v a.li b.hi)
    let d := deposit d [a.hi, b.li] (a.wh * b.wl * amount / v a.hi b.li)
    some (deposit d [a.hi, b.hi] (a.wh * b.wh * amount / v a.hi b.hi))
  | _, _ => none

def insertComp3 (eps : K) (ghost : Bool) (ax ay az : Axis K) (vol data : Idx → K)
    (px py pz amount : K) : Option (Idx → K) :=
  match axisData eps ghost false ax px, axisData eps ghost false ay py,
      axisData eps ghost false az pz with
  | some a, some b, some c =>
    let v := fun i j k =>
      vol [volIdx ghost ax.size i, volIdx ghost ay.size j, volIdx ghost az.size k]
    let d := deposit data [a.li, b.li, c.li] (a.wl * b.wl * c.wl * amount / v a.li b.li c.li)
    let d := deposit d [a.li, b.li, c.hi] (a.wl * b.wl * c.wh * amount / v a.li b.li c.hi)
    let d := deposit d [a.li, b.hi, c.li] (a.wl * b.wh * c.wl * amount / v a.li b.hi c.li)
    let d := deposit d [a.li, b.hi, c.hi] (a.wl * b.wh * c.wh * amount / v a.li b.hi c.hi)
    let d := deposit d [a.hi, b.li, c.li] (a.wh * b.wl * c.wl * amount / v a.hi b.li c.li)
    let d := deposit d [a.hi, b.li, c.hi] (a.wh * b.wl * c.wh * amount / v a.hi b.li c.hi)
    let d := deposit d [a.hi, b.hi, c.li] (a.wh * b.wh * c.wl * amount / v a.hi b.hi c.li)
    some (deposit d [a.hi, b.hi, c.hi] (a.wh * b.wh * c.wh * amount / v a.hi b.hi c.hi))
  | _, _, _ => none

/-- dispatch on the number of axes as `make_inserter` does -/
def insertCompN (eps : K) (ghost : Bool) (axes : List (Axis K)) (vol data : Idx → K)
    (p : List K) (amount : K) : Option (Idx → K) :=
  match axes, p with
  | [ax], [px] => insertComp1 eps ghost ax vol data px amount
  | [ax, ay], [px, py] => insertComp2 eps ghost ax ay vol data px py amount
  | [ax, ay, az], [px, py, pz] => insertComp3 eps ghost ax ay az vol data px py pz amount
  | _, _ => none

end
end PdeVerif.Interp
