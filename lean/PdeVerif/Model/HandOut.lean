import PdeVerif.Model.Heap
/-
Containers that cross the API of `FieldCollection` (pde/fields/collection.py), next to the heap of
arrays of `Model/Heap.lean`.  Core Lean only.

A Python `list` is an object with identity: whoever holds it can reverse, sort, shorten or extend it
in place.  The property (C15) fixes the layout of a collection "as fields in order" for all
histories and lets copies never alias their source, so it matters which list objects the library
shares with its callers:

* `fc.fields` (collection.py:229-233) returns `self._fields[:]`, a list of its own (`fieldsOf`);
* `list(fc.labels)` / `fc.labels[:]` (collection.py:1133-1167) build a new list (`labelsOf`);
* `FieldCollection(fields, copy_fields=False)` with pairwise different fields executes
  `self._fields = fields` (collection.py:99): the collection KEEPS the list object of its caller
  (`mkCollFrom` with `adopts = true`); every other path builds its own list (`list(mapping.values())`,
  `fields.fields`, `[field.copy() for field in fields]`).  `adopts = false` is the constructor
  that stores `list(fields)`.

`PyList.owners` records that sharing: the collections whose member list IS this list object.  An
in-place edit of a list (`ListEdit`) is an edit of the `members` of its owners; a list without owners
is a copy - nothing in the world but the list itself changes.  That the lists handed out by
`fieldsOf`/`labelsOf` have no owner, after every history, is the theorem
`handed_out_list_is_a_copy` (Props/C15.lean); a world in which `fc.fields` returns the member list
itself is a state of this model too (`owners = [c]`, see the examples there) - it is not reachable.
-/
namespace PdeVerif.Heap

inductive ListKind
  /-- obtained from `fc.fields` -/
  | fields
  /-- obtained from `list(fc.labels)` / `fc.labels[:]`; an item `m` stands for the label object
  `m` had when the list was made -/
  | labels
  /-- built by the caller: `[f, g, ...]` -/
  | user
deriving DecidableEq, Repr, Inhabited

/-- a Python list object held by the caller -/
structure PyList where
  kind : ListKind
  items : List Nat
  /-- collections whose `_fields` attribute is this very list object -/
  owners : List Nat := []
deriving Repr, Inhabited

/-- in-place operations of a Python list (indices already normalised to `0 ≤ k`) -/
inductive ListEdit
  | reverse
  /-- `lst.sort(key=<creation number of the object>)` -/
  | sort
  /-- `lst[k] = x` -/
  | setItem (k x : Nat)
  /-- `lst.pop()` / `lst.pop(k)` -/
  | pop (k : Option Nat)
  | append (x : Nat)
  /-- `lst.insert(k, x)` (positions beyond the end append) -/
  | insert (k x : Nat)
  /-- `del lst[k]` -/
  | delItem (k : Nat)
  | clear
  /-- `lst.extend(xs)` / `lst += xs` -/
  | extend (xs : List Nat)
deriving Repr, Inhabited

/-- the new content of the list; `IndexError` = `.badArg` (the list is unchanged) -/
def ListEdit.apply : ListEdit → List Nat → Except Err (List Nat)
  | .reverse, l => .ok l.reverse
  | .sort, l => .ok (l.mergeSort (fun a b => decide (a ≤ b)))
  | .setItem k x, l => if k < l.length then .ok (l.set k x) else .error .badArg
  | .pop none, l => if l.isEmpty then .error .badArg else .ok l.dropLast
  | .pop (some k), l => if k < l.length then .ok (l.eraseIdx k) else .error .badArg
  | .append x, l => .ok (l ++ [x])
  | .insert k x, l => .ok (l.take k ++ x :: l.drop k)
  | .delItem k, l => if k < l.length then .ok (l.eraseIdx k) else .error .badArg
  | .clear, _ => .ok []
  | .extend xs, l => .ok (l ++ xs)

/-- the heap of arrays and field objects together with the list objects the caller holds -/
structure World (K : Type) where
  heap : State K := {}
  lists : List PyList := []

inductive XOp (K : Type)
  /-- any operation of the heap model -/
  | heap (op : Op K)
  /-- `lst = fc.fields` -/
  | fieldsOf (c : Nat)
  /-- `lst = list(fc.labels)` / `lst = fc.labels[:]` -/
  | labelsOf (c : Nat)
  /-- `lst = [h₀, h₁, ...]` -/
  | userList (hs : List Nat)
  /-- `FieldCollection(lst, copy_fields=.., dtype=..)` for a list object the caller keeps -/
  | mkCollFrom (l : Nat) (copyFields : Bool) (dt : Option DType)
  /-- an in-place operation on list object `l` -/
  | edit (l : Nat) (e : ListEdit)

section
variable {K : Type} [Add K] [Sub K] [Mul K] [Div K] [Neg K] [NatCast K] [DCast K]

/-- the collections `cs` share one member list, which now reads `ms` -/
def setMembers (s : State K) (cs : List Nat) (ms : List Nat) : State K :=
  { s with objs := cs.foldl (fun objs c => objs.modify c (fun o => { o with members := ms })) s.objs }

/-- `lst = fc.fields` / `list(fc.labels)`: a NEW list object holding the members in order -/
def handOut (w : World K) (kind : ListKind) (c : Nat) : Except Err (World K) :=
  match getObj w.heap c with
  | .error e => .error e
  | .ok o =>
    if o.cls == .coll then .ok { w with lists := w.lists ++ [⟨kind, o.members, []⟩] }
    else .error .badArg

/-- one operation of a caller who also holds list objects.  `adopts`: the constructor executes
`self._fields = fields` for the list it is given (collection.py:99; `false`: it stores a list of its
own).  An error leaves the world as it was. -/
def xstep (adopts : Bool) (G : List Grid) (w : World K) (op : XOp K) : Except Err (World K) :=
  match op with
  | .heap o =>
    match step G w.heap o with
    | .error e => .error e
    | .ok h => .ok { w with heap := h }
  | .fieldsOf c => handOut w .fields c
  | .labelsOf c => handOut w .labels c
  | .userList hs => .ok { w with lists := w.lists ++ [⟨.user, hs, []⟩] }
  | .mkCollFrom l cp dt =>
    match w.lists[l]? with
    | none => .error .badHandle
    | some L =>
      if L.kind == .labels then .error .badArg else
      match mkColl w.heap L.items cp dt with
      | .error e => .error e
      | .ok h =>
        -- collection.py:91-99: the given list becomes `_fields` unless the fields are copied
        -- (`copy_fields`, or forced by identical fields); the collection is the last object
        if adopts && !cp && decide L.items.Nodup then
          .ok { heap := h
                lists := w.lists.modify l (fun L => { L with owners := L.owners ++ [h.objs.length - 1] }) }
        else .ok { w with heap := h }
  | .edit l e =>
    match w.lists[l]? with
    | none => .error .badHandle
    | some L =>
      match e.apply L.items with
      | .error er => .error er
      | .ok items =>
        .ok { heap := setMembers w.heap L.owners items
              lists := w.lists.modify l (fun L => { L with items := items }) }

/-- a whole history; failing operations are skipped -/
def xrun (adopts : Bool) (G : List Grid) (w : World K) : List (XOp K) → World K
  | [] => w
  | op :: ops =>
    match xstep adopts G w op with
    | .ok w' => xrun adopts G w' ops
    | .error _ => xrun adopts G w ops

end

end PdeVerif.Heap
