import PdeVerif.Num
/-
Model of the expression language of `pde/tools/expressions.py` (C11, shared with C10).

There is deliberately no parser here: sympy's `parse_expr` is built on Python's tokenizer and
`eval`, so the meaning of the text (precedence, associativity, unary minus vs. `**`) is Python's
grammar.  The harness re-reads every text with Python's `ast` module and sends that tree.

What py-pde itself adds on top of sympy is modelled:
* `ExpressionBase._check_signature`   -> `sigFn`, `checkSignature`, `prepare`
* `repl=grid.c._axes_alt_repl`         -> `replFn`
* `make_expression_function`          -> `callEnv` (positional binding of `vars + consts`),
                                          `exprFunction`, `exprFunctionSingle` (`single_arg`)
* `parse_expr_guarded` (heaviside -> Heaviside; one-argument form has the value 1/2 at 0)
                                       -> `heav1`, `heav2`
* `_prepare_expression` (`arr[i]` -> `IndexedBase(arr)[i]`) -> `idx`
* `differentiate`, `derivatives`      -> `diff`, `gradient`
* `TensorExpression` (arrays of expressions) -> `evalVec`, `evalMat`

Core Lean only; generic in the number type.
-/
namespace PdeVerif.Ex
open PdeVerif

/-- comparison operators that may appear in an expression (`(x > 5)`) -/
inductive Cmp where
  | lt | le | gt | ge
deriving DecidableEq, Repr, Inhabited

/-- expression AST -/
inductive Expr where
  /-- number literal (integer or decimal text, read exactly) -/
  | num (q : Rat)
  /-- symbol: variable of the signature or constant of `consts` (one name space) -/
  | var (x : String)
  /-- indexed symbol `x[i]` -/
  | idx (x : String) (i : Nat)
  /-- mathematical constant known to sympy (`pi`, `E`) -/
  | named (c : String)
  | neg (a : Expr)
  | add (a b : Expr)
  | sub (a b : Expr)
  | mul (a b : Expr)
  | div (a b : Expr)
  /-- power with an integer literal exponent -/
  | powI (a : Expr) (n : Int)
  /-- call of a unary function (elementary, special or user function) through the table -/
  | call1 (f : String) (a : Expr)
  /-- call of a binary function (`hypot`, `Max`, `Min`, `atan2`, general `pow`, user functions) -/
  | call2 (f : String) (a b : Expr)
  /-- `heaviside(a)` / `Heaviside(a)` -/
  | heav1 (a : Expr)
  /-- `heaviside(a, h)` / `Heaviside(a, h)` -/
  | heav2 (a h : Expr)
  | cmp (op : Cmp) (a b : Expr)
deriving DecidableEq, Repr, Inhabited

/-- a value bound to a symbol: a number or (for indexed symbols) a list of numbers -/
inductive Val (K : Type) where
  | sc (v : K)
  | vec (l : List K)
deriving Repr

/-- function table: meaning of named constants, unary and binary functions, of the step
function and of comparisons.  Keeping the last two in the table makes `eval` depend on the
arithmetic of `K` only, so that the same evaluator also runs at "number types" without a
decidable order - in particular at fields `ι → K` with pointwise operations, where function
names may denote differential operators (C10) -/
structure FunTab (K : Type) where
  f0 : String → K
  f1 : String → K → K
  f2 : String → K → K → K
  heav : K → K → K
  cmp : Cmp → K → K → K

/-- environment: every symbol has a scalar reading and an indexed reading (a symbol bound to
a number has the indexed reading 0 and vice versa; binding a name overrides both) -/
structure Env (K : Type) where
  sc : String → K
  ix : String → Nat → K

section
variable {K : Type} [Add K] [Sub K] [Mul K] [Div K] [Neg K] [NatCast K] [IntCast K]

def zero : K := ((0:Nat) : K)
def one : K := ((1:Nat) : K)

/-- exact literal -> number type -/
def ofRat (q : Rat) : K := ((q.num : Int) : K) / ((q.den : Nat) : K)

def npow (x : K) : Nat → K
  | 0 => one
  | n + 1 => npow x n * x

def powInt (x : K) : Int → K
  | .ofNat k => npow x k
  | .negSucc k => one / npow x (k + 1)

section order
variable [LT K] [DecidableLT K] [LE K] [DecidableLE K]

/-- `numpy.heaviside(x, h)` -/
def heaviside (x h : K) : K :=
  if x < zero then zero else if zero < x then one else h

/-- a comparison as the number 1 (true) or 0 (false) -/
def cmpVal (op : Cmp) (a b : K) : K :=
  match op with
  | .lt => if a < b then one else zero
  | .le => if a ≤ b then one else zero
  | .gt => if b < a then one else zero
  | .ge => if b ≤ a then one else zero

end order

def Val.toSc : Val K → K
  | .sc v => v
  | .vec _ => zero

def Val.at : Val K → Nat → K
  | .sc _, _ => zero
  | .vec l, i => l.getD i zero

/-- rebinding of the scalar reading of one symbol -/
def Env.set (env : Env K) (x : String) (v : K) : Env K :=
  { env with sc := fun y => if y = x then v else env.sc y }

/-- binding of one name to a value (both readings) -/
def Env.bind1 (n : String) (v : Val K) (d : Env K) : Env K :=
  { sc := fun s => if s = n then v.toSc else d.sc s,
    ix := fun s => if s = n then v.at else d.ix s }

/-- environment seen through a renaming of the symbols -/
def Env.comap (ρ : String → String) (env : Env K) : Env K :=
  { sc := fun s => env.sc (ρ s), ix := fun s => env.ix (ρ s) }

/-- value of an expression -/
def eval (T : FunTab K) (env : Env K) : Expr → K
  | .num q => ofRat q
  | .var x => env.sc x
  | .idx x i => env.ix x i
  | .named c => T.f0 c
  | .neg a => - eval T env a
  | .add a b => eval T env a + eval T env b
  | .sub a b => eval T env a - eval T env b
  | .mul a b => eval T env a * eval T env b
  | .div a b => eval T env a / eval T env b
  | .powI a n => powInt (eval T env a) n
  | .call1 f a => T.f1 f (eval T env a)
  | .call2 f a b => T.f2 f (eval T env a) (eval T env b)
  | .heav1 a => T.heav (eval T env a) (ofRat (1/2))
  | .heav2 a h => T.heav (eval T env a) (eval T env h)
  | .cmp op a b => T.cmp op (eval T env a) (eval T env b)

/-- arrays of expressions (`TensorExpression`) -/
def evalVec (T : FunTab K) (env : Env K) (l : List Expr) : List K := l.map (eval T env)
def evalMat (T : FunTab K) (env : Env K) (m : List (List Expr)) : List (List K) :=
  m.map (evalVec T env)

/-- elementwise evaluation on an array of points -/
def evalPoints (T : FunTab K) (e : Expr) (envs : List (Env K)) : List K :=
  envs.map (fun env => eval T env e)

section order
variable [LT K] [DecidableLT K] [LE K] [DecidableLE K]

/-- the functions that need only order and ring operations (available at every ordered number
type); step function and comparisons have their standard meaning -/
def algTab : FunTab K where
  heav := heaviside
  cmp := cmpVal
  f0 := fun _ => zero
  f1 := fun f x =>
    if f = "abs" ∨ f = "Abs" then (if x < zero then -x else x)
    else if f = "sign" then (if x < zero then -one else if zero < x then one else zero)
    else zero
  f2 := fun f x y =>
    if f = "Max" then (if x < y then y else x)
    else if f = "Min" then (if y < x then y else x)
    else zero

/-- the primitive transcendental functions a number type offers (libm for `Float`, Mathlib's
functions for the reals) -/
structure Prims (K : Type) where
  pi : K
  e : K
  sin : K → K
  cos : K → K
  tan : K → K
  exp : K → K
  log : K → K
  sqrt : K → K
  tanh : K → K
  sinh : K → K
  cosh : K → K
  atan : K → K
  asin : K → K
  acos : K → K
  asinh : K → K
  atanh : K → K
  floor : K → K
  ceil : K → K
  /-- the error function (py-pde's special function `erf`) -/
  erf : K → K
  pow : K → K → K
  atan2 : K → K → K

/-- THE table of the expression language: which name denotes which primitive.  One definition
for every number type with transcendental functions - the driver instantiates it with libm
(`Float`), the soundness theorem of the derivative with the real functions - so the dispatch on
names that is executed is the dispatch the theorems are about.  `hypot` is `sqrt(x*x + y*y)`;
names without a primitive fall through to `algTab` (abs, sign, Max, Min; 0 for unknown names -
the driver refuses expressions with unknown names before evaluating). -/
def primTab (P : Prims K) : FunTab K where
  heav := heaviside
  cmp := cmpVal
  f0 := fun c => if c = "pi" then P.pi else if c = "E" then P.e else zero
  f1 := fun f x =>
    if f = "sin" then P.sin x else if f = "cos" then P.cos x
    else if f = "tan" then P.tan x else if f = "exp" then P.exp x
    else if f = "log" then P.log x else if f = "sqrt" then P.sqrt x
    else if f = "tanh" then P.tanh x else if f = "sinh" then P.sinh x
    else if f = "cosh" then P.cosh x else if f = "atan" then P.atan x
    else if f = "asin" then P.asin x else if f = "acos" then P.acos x
    else if f = "asinh" then P.asinh x else if f = "atanh" then P.atanh x
    else if f = "floor" then P.floor x else if f = "ceiling" then P.ceil x
    else if f = "erf" then P.erf x
    else (algTab : FunTab K).f1 f x
  f2 := fun f x y =>
    if f = "pow" then P.pow x y
    else if f = "hypot" then P.sqrt (x * x + y * y)
    else if f = "atan2" then P.atan2 x y
    else (algTab : FunTab K).f2 f x y

/-- unary / binary names `primTab` interprets through a primitive -/
def primFun1 : List String :=
  ["sin", "cos", "tan", "exp", "log", "sqrt", "tanh", "sinh", "cosh", "atan", "asin", "acos",
   "asinh", "atanh", "floor", "ceiling", "erf"]
def primFun2 : List String := ["pow", "hypot", "atan2"]

end order

end

/-- names interpreted by `algTab` -/
def algFun1 (f : String) : Bool := f = "abs" || f = "Abs" || f = "sign"
def algFun2 (f : String) : Bool := f = "Max" || f = "Min"


/-! ### syntax operations (independent of the number type) -/

/-- rename symbols (`sympy.subs(old_symbol, new_symbol)`); function names are not symbols -/
def rename (ρ : String → String) : Expr → Expr
  | .num q => .num q
  | .var x => .var (ρ x)
  | .idx x i => .idx (ρ x) i
  | .named c => .named c
  | .neg a => .neg (rename ρ a)
  | .add a b => .add (rename ρ a) (rename ρ b)
  | .sub a b => .sub (rename ρ a) (rename ρ b)
  | .mul a b => .mul (rename ρ a) (rename ρ b)
  | .div a b => .div (rename ρ a) (rename ρ b)
  | .powI a n => .powI (rename ρ a) n
  | .call1 f a => .call1 f (rename ρ a)
  | .call2 f a b => .call2 f (rename ρ a) (rename ρ b)
  | .heav1 a => .heav1 (rename ρ a)
  | .heav2 a h => .heav2 (rename ρ a) (rename ρ h)
  | .cmp op a b => .cmp op (rename ρ a) (rename ρ b)

/-- replace the scalar symbol `x` by the expression `r` -/
def subst (x : String) (r : Expr) : Expr → Expr
  | .num q => .num q
  | .var y => if y = x then r else .var y
  | .idx y i => .idx y i
  | .named c => .named c
  | .neg a => .neg (subst x r a)
  | .add a b => .add (subst x r a) (subst x r b)
  | .sub a b => .sub (subst x r a) (subst x r b)
  | .mul a b => .mul (subst x r a) (subst x r b)
  | .div a b => .div (subst x r a) (subst x r b)
  | .powI a n => .powI (subst x r a) n
  | .call1 f a => .call1 f (subst x r a)
  | .call2 f a b => .call2 f (subst x r a) (subst x r b)
  | .heav1 a => .heav1 (subst x r a)
  | .heav2 a h => .heav2 (subst x r a) (subst x r h)
  | .cmp op a b => .cmp op (subst x r a) (subst x r b)

/-- names of the symbols of an expression (`str(s).split("[")[0]` over the free symbols) -/
def symbols : Expr → List String
  | .num _ => []
  | .var x => [x]
  | .idx x _ => [x]
  | .named _ => []
  | .neg a => symbols a
  | .add a b => symbols a ++ symbols b
  | .sub a b => symbols a ++ symbols b
  | .mul a b => symbols a ++ symbols b
  | .div a b => symbols a ++ symbols b
  | .powI a _ => symbols a
  | .call1 _ a => symbols a
  | .call2 _ a b => symbols a ++ symbols b
  | .heav1 a => symbols a
  | .heav2 a h => symbols a ++ symbols h
  | .cmp _ a b => symbols a ++ symbols b

/-- derivative of the unary function `f` at the argument expression `a` -/
def dfun1 (f : String) (a : Expr) : Expr :=
  if f = "sin" then .call1 "cos" a
  else if f = "cos" then .neg (.call1 "sin" a)
  else if f = "exp" then .call1 "exp" a
  else if f = "log" then .div (.num 1) a
  else if f = "sqrt" then .div (.num 1) (.mul (.num 2) (.call1 "sqrt" a))
  else if f = "tanh" then .sub (.num 1) (.powI (.call1 "tanh" a) 2)
  else if f = "tan" then .add (.num 1) (.powI (.call1 "tan" a) 2)
  else if f = "sinh" then .call1 "cosh" a
  else if f = "cosh" then .call1 "sinh" a
  else if f = "atan" then .div (.num 1) (.add (.num 1) (.powI a 2))
  else .num 0

/-- unary functions whose derivative `dfun1` knows -/
def diffFun1 (f : String) : Bool :=
  f = "sin" || f = "cos" || f = "exp" || f = "log" || f = "sqrt" || f = "tanh" || f = "tan"
    || f = "sinh" || f = "cosh" || f = "atan"

/-- symbolic derivative with respect to the scalar symbol `x`
(`ScalarExpression.differentiate`).  Step functions differentiate to 0 (true away from the
jump); functions outside `diffFun1` and binary calls other than the general power are outside
the differentiable fragment (`diff` returns 0 for them; the soundness theorem excludes them). -/
def diff (x : String) : Expr → Expr
  | .num _ => .num 0
  | .var y => if y = x then .num 1 else .num 0
  | .idx _ _ => .num 0
  | .named _ => .num 0
  | .neg a => .neg (diff x a)
  | .add a b => .add (diff x a) (diff x b)
  | .sub a b => .sub (diff x a) (diff x b)
  | .mul a b => .add (.mul (diff x a) b) (.mul a (diff x b))
  | .div a b => .div (.sub (.mul (diff x a) b) (.mul a (diff x b))) (.powI b 2)
  | .powI a n => .mul (.mul (.num n) (.powI a (n - 1))) (diff x a)
  | .call1 f a => .mul (dfun1 f a) (diff x a)
  | .call2 f a b =>
    if f = "pow" then
      -- d(a^b) = a^b * (b' * log a + b * a' / a)
      .mul (.call2 "pow" a b)
        (.add (.mul (diff x b) (.call1 "log" a)) (.div (.mul b (diff x a)) a))
    else .num 0
  | .heav1 _ => .num 0
  | .heav2 _ _ => .num 0
  | .cmp _ _ _ => .num 0

/-- `ScalarExpression.derivatives`: one derivative per variable of the signature -/
def gradient (vars : List String) (e : Expr) : List Expr := vars.map (fun x => diff x e)

/-! ### what py-pde adds: aliases, signature, constants, calling convention -/

/-- `repl`: coordinate aliases (`radius -> r`, `phi -> φ`) as a map on symbol names -/
def replFn (repl : List (String × String)) (s : String) : String :=
  match repl.lookup s with
  | some t => t
  | none => s

/-- signature synonyms: every name of an entry means the entry's first (definite) name -/
def sigFn (sig : List (List String)) (s : String) : String :=
  match sig.find? (fun l => l.contains s) with
  | some (h :: _) => h
  | _ => s

def sigVars (sig : List (List String)) : List String := sig.map (fun l => l.headD "")

/-- the symbol-level rewriting done by `ExpressionBase.__init__`: first `repl`, then the
synonyms of the signature -/
def prepare (sig : List (List String)) (repl : List (String × String)) (e : Expr) : Expr :=
  rename (sigFn sig) (rename (replFn repl) e)

/-- `_check_signature` accepts the expression: every symbol (after `repl`) is a name of the
signature or a constant, and no signature entry is referred to by two different names (the
loop renames only the first name it finds and then reports the other one as undefined) -/
def checkSignature (sig : List (List String)) (cnames : List String)
    (repl : List (String × String)) (e : Expr) : Bool :=
  let used := (symbols (rename (replFn repl) e)).eraseDups
  used.all (fun s => cnames.contains s || sig.any (fun l => l.contains s)) &&
  sig.all (fun l => (used.filter (fun s => l.contains s && !cnames.contains s)).length ≤ 1)

section
variable {K : Type} [Add K] [Sub K] [Mul K] [Div K] [Neg K] [NatCast K] [IntCast K]

/-- positional binding (`lambdify(names)` called with `vals`): first match wins -/
def bindEnv : List String → List (Val K) → Env K → Env K
  | n :: ns, v :: vs, d => Env.bind1 n v (bindEnv ns vs d)
  | _, _, d => d

def defaultEnv : Env K := { sc := fun _ => zero, ix := fun _ _ => zero }

/-- environment of a call of the generated function: `func(*args, *const_values)` with
parameter list `vars + constants` -/
def callEnv (sig : List (List String)) (consts : List (String × Val K)) (args : List (Val K)) :
    Env K :=
  bindEnv (sigVars sig ++ consts.map Prod.fst) (args ++ consts.map Prod.snd) defaultEnv

/-- `ScalarExpression(text, signature, consts=..., repl=...)(*args)`; `none` = the call is
rejected (signature check fails or wrong number of arguments) -/
def exprFunction (T : FunTab K) (sig : List (List String)) (consts : List (String × Val K))
    (repl : List (String × String)) (e : Expr) (args : List (Val K)) : Option K :=
  if checkSignature sig (consts.map Prod.fst) repl e && args.length == sig.length then
    some (eval T (callEnv sig consts args) (prepare sig repl e))
  else none

/-- `get_function(single_arg=True)`: all variables in one array -/
def exprFunctionSingle (T : FunTab K) (sig : List (List String)) (consts : List (String × Val K))
    (repl : List (String × String)) (e : Expr) (arr : List K) : Option K :=
  exprFunction T sig consts repl e (arr.map Val.sc)

/-- user functions: name, parameter names, body (bodies use the base table only) -/
structure UDef where
  name : String
  params : List String
  body : Expr
deriving Repr

def withUser (T : FunTab K) (defs : List UDef) : FunTab K where
  heav := T.heav
  cmp := T.cmp
  f0 := T.f0
  f1 := fun f x =>
    match defs.find? (fun d => d.name = f && d.params.length == 1) with
    | some d => eval T (bindEnv d.params [Val.sc x] defaultEnv) d.body
    | none => T.f1 f x
  f2 := fun f x y =>
    match defs.find? (fun d => d.name = f && d.params.length == 2) with
    | some d => eval T (bindEnv d.params [Val.sc x, Val.sc y] defaultEnv) d.body
    | none => T.f2 f x y

end

/-! ### fragments (decidable, used by the driver to pick the number type) -/

/-- expressions whose value is a rational function of the inputs with order tests:
no transcendental constants, only `algTab` functions and the functions named in `extra`
(user functions whose bodies are themselves in the fragment) -/
def rationalFragment (extra : List String) : Expr → Bool
  | .num _ => true
  | .var _ => true
  | .idx _ _ => true
  | .named _ => false
  | .neg a => rationalFragment extra a
  | .add a b => rationalFragment extra a && rationalFragment extra b
  | .sub a b => rationalFragment extra a && rationalFragment extra b
  | .mul a b => rationalFragment extra a && rationalFragment extra b
  | .div a b => rationalFragment extra a && rationalFragment extra b
  | .powI a _ => rationalFragment extra a
  | .call1 f a => (algFun1 f || extra.contains f) && rationalFragment extra a
  | .call2 f a b => (algFun2 f || extra.contains f) && rationalFragment extra a && rationalFragment extra b
  | .heav1 a => rationalFragment extra a
  | .heav2 a h => rationalFragment extra a && rationalFragment extra h
  | .cmp _ a b => rationalFragment extra a && rationalFragment extra b

section
variable {K : Type} [Add K] [Sub K] [Mul K] [Div K] [Neg K] [NatCast K] [IntCast K]
variable [DecidableEq K]

/-- no division by zero and no negative power of zero anywhere (exact number types) -/
def defined (T : FunTab K) (env : Env K) : Expr → Bool
  | .num _ => true
  | .var _ => true
  | .idx _ _ => true
  | .named _ => true
  | .neg a => defined T env a
  | .add a b => defined T env a && defined T env b
  | .sub a b => defined T env a && defined T env b
  | .mul a b => defined T env a && defined T env b
  | .div a b => defined T env a && defined T env b && !(eval T env b == (zero : K))
  | .powI a n => defined T env a && (decide (0 ≤ n) || !(eval T env a == (zero : K)))
  | .call1 _ a => defined T env a
  | .call2 _ a b => defined T env a && defined T env b
  | .heav1 a => defined T env a
  | .heav2 a h => defined T env a && defined T env h
  | .cmp _ a b => defined T env a && defined T env b

end

/-! ### fields as a number type: pointwise arithmetic on `ι → K`

`eval` only needs the arithmetic of its number type, so it also runs on whole arrays / fields.
With a pointwise-lifted table this is numpy's elementwise evaluation (C11); with a table whose
function names denote differential operators it is the semantics of a PDE right-hand side
(C10). -/

/-- a field: one number per index (cell); wrapped so that the pointwise instances below do not
compete with other instances on function types -/
structure Fld (ι K : Type) where
  val : ι → K

section
variable {ι K : Type}

instance [Add K] : Add (Fld ι K) := ⟨fun a b => ⟨fun i => a.val i + b.val i⟩⟩
instance [Sub K] : Sub (Fld ι K) := ⟨fun a b => ⟨fun i => a.val i - b.val i⟩⟩
instance [Mul K] : Mul (Fld ι K) := ⟨fun a b => ⟨fun i => a.val i * b.val i⟩⟩
instance [Div K] : Div (Fld ι K) := ⟨fun a b => ⟨fun i => a.val i / b.val i⟩⟩
instance [Neg K] : Neg (Fld ι K) := ⟨fun a => ⟨fun i => - a.val i⟩⟩
instance [NatCast K] : NatCast (Fld ι K) := ⟨fun n => ⟨fun _ => (n : K)⟩⟩
instance [IntCast K] : IntCast (Fld ι K) := ⟨fun n => ⟨fun _ => (n : K)⟩⟩

/-- the constant field -/
def Fld.const (a : K) : Fld ι K := ⟨fun _ => a⟩

variable [Add K] [Sub K] [Mul K] [Div K] [Neg K] [NatCast K] [IntCast K]

/-- a table of local functions acts on fields point by point -/
def liftTab (T : FunTab K) : FunTab (Fld ι K) where
  f0 := fun c => ⟨fun _ => T.f0 c⟩
  f1 := fun f x => ⟨fun i => T.f1 f (x.val i)⟩
  f2 := fun f x y => ⟨fun i => T.f2 f (x.val i) (y.val i)⟩
  heav := fun x h => ⟨fun i => T.heav (x.val i) (h.val i)⟩
  cmp := fun op x y => ⟨fun i => T.cmp op (x.val i) (y.val i)⟩

/-- one environment per point, seen as an environment of fields -/
def liftEnv (envs : ι → Env K) : Env (Fld ι K) where
  sc := fun s => ⟨fun i => (envs i).sc s⟩
  ix := fun s k => ⟨fun i => (envs i).ix s k⟩

/-- field semantics with differential operators: the names selected by `isOp1` / `isOp2`
denote maps on whole fields (non-local), every other name is a local function applied point
by point -/
def opTab (T : FunTab K) (isOp1 : String → Bool) (op1 : String → (ι → K) → (ι → K))
    (isOp2 : String → Bool) (op2 : String → (ι → K) → (ι → K) → (ι → K)) : FunTab (Fld ι K) where
  f0 := (liftTab T).f0
  f1 := fun f x => if isOp1 f then ⟨op1 f x.val⟩ else (liftTab T).f1 f x
  f2 := fun f x y => if isOp2 f then ⟨op2 f x.val y.val⟩ else (liftTab T).f2 f x y
  heav := (liftTab T).heav
  cmp := (liftTab T).cmp

end

end PdeVerif.Ex
