import PdeVerif.Model.Expr
/-
Model of the predefined equation classes of `pde/pdes/*.py` (C10).

For every class: the evolution rate as `evolution_rate` / `make_evolution_rate` compute it
(both routes are the same composition of operators; the correspondence run checks each of them
against this one definition), and the class's advertised `expression(s)` text as an `Expr`.

Differential operators are ABSTRACT parameters: an operator together with its own boundary
condition is an arbitrary map on states (`(ι → K) → (ι → K)`), in practice affine
(`L x = A x + b`, with `b ≠ 0` for inhomogeneous conditions) and time dependent (the time is
fixed inside the parameter).  Which operator a class applies where - `lap_bc`, `lap_bc_lap`,
`lap_c`, `lap_mu`, `gradsq` - is exactly what the model records.

Core Lean only; generic in the number type and in the index type of the cells.
-/
namespace PdeVerif.PDEs
open PdeVerif PdeVerif.Ex

section
variable {ι K : Type} [Add K] [Sub K] [Mul K] [Div K] [Neg K] [NatCast K] [IntCast K]

/-- a state: one number per cell -/
abbrev St (ι K : Type) := ι → K
/-- an operator with its own boundary condition (at a fixed time) -/
abbrev Op (ι K : Type) := St ι K → St ι K

def two : K := ((2:Nat) : K)
def half : K := ofRat (1/2)

/-! ### class rates (`evolution_rate` and the closure of `make_evolution_rate`) -/

/-- `DiffusionPDE`: `diffusivity * laplace(c)` -/
def diffusionRate (D : K) (lap_bc : Op ι K) (c : St ι K) : St ι K :=
  fun i => D * lap_bc c i

/-- `AllenCahnPDE`: `mobility * (interface_width * laplace(c) - c**3 + c)` -/
def allenCahnRate (γ mob : K) (lap_bc : Op ι K) (c : St ι K) : St ι K :=
  fun i => mob * (γ * lap_bc c i - powInt (c i) 3 + c i)

/-- chemical potential of `CahnHilliardPDE`: `c**3 - c - interface_width * laplace_c(c)` -/
def cahnHilliardMu (γ : K) (lap_c : Op ι K) (c : St ι K) : St ι K :=
  fun i => powInt (c i) 3 - c i - γ * lap_c c i

/-- `CahnHilliardPDE`: `laplace_mu(mu)`; the inner Laplacian uses `bc_c`, the outer `bc_mu` -/
def cahnHilliardRate (γ : K) (lap_c lap_mu : Op ι K) (c : St ι K) : St ι K :=
  lap_mu (cahnHilliardMu γ lap_c c)

/-- `KPZInterfacePDE`: `nu * laplace(c) + lmbda * gradient_squared(c)` (same `bc` for both) -/
def kpzRate (ν lam : K) (lap_bc gradsq : Op ι K) (c : St ι K) : St ι K :=
  fun i => ν * lap_bc c i + lam * gradsq c i

/-- `KuramotoSivashinskyPDE`: with `l = laplace_bc(c)`:
`-nu * laplace_bc_lap(l) - l - 0.5 * gradient_squared_bc(c)` -/
def ksRate (ν : K) (lap_bc lap_bc_lap gradsq : Op ι K) (c : St ι K) : St ι K :=
  fun i => -ν * lap_bc_lap (lap_bc c) i - lap_bc c i - half * gradsq c i

/-- the compiled closure before the repair (finding F6): the second Laplacian was applied to
`-laplace(c)`.  Kept to state what the repaired defect was. -/
def ksRateOldCompiled (ν : K) (lap_bc lap_bc_lap gradsq : Op ι K) (c : St ι K) : St ι K :=
  fun i => ν * lap_bc_lap (fun j => - lap_bc c j) i - lap_bc c i - half * gradsq c i

/-- `SwiftHohenbergPDE`: with `l = laplace_bc(c)`:
`(rate - kc2**2) * c - 2 * kc2 * l - laplace_bc_lap(l) + delta * c**2 - c**3` -/
def swiftHohenbergRate (ε kc2 δ : K) (lap_bc lap_bc_lap : Op ι K) (c : St ι K) : St ι K :=
  fun i => (ε - powInt kc2 2) * c i - two * kc2 * lap_bc c i - lap_bc_lap (lap_bc c) i
    + δ * powInt (c i) 2 - powInt (c i) 3

/-- `WavePDE` on the pair (u, v): `(v, speed**2 * laplace(u))` -/
def waveRate (speed : K) (lap_bc : Op ι K) (u v : St ι K) : St ι K × St ι K :=
  (fun i => v i, fun i => powInt speed 2 * lap_bc u i)

/-- `KleinGordonPDE` on the pair (u, v): `(v, speed**2 * laplace(u) - mass**2 * u)` -/
def kleinGordonRate (speed mass : K) (lap_bc : Op ι K) (u v : St ι K) : St ι K × St ι K :=
  (fun i => v i, fun i => powInt speed 2 * lap_bc u i - powInt mass 2 * u i)

/-! ### affine operators (what an operator with boundary condition is on a finite grid) -/

/-- `L x = A x + b` on `n` cells, `A` as a matrix and `b` as a vector (how the driver
instantiates the abstract operators with data measured on py-pde's own operators) -/
def affineOp (n : Nat) (A : Nat → Nat → K) (b : Nat → K) : Op Nat K :=
  fun x i => (List.range n).foldl (fun acc j => acc + A i j * x j) (b i)

/-- a quadratic form built from affine component maps: `sum_k (A_k x + b_k)^2`
(`gradient_squared` from the components of the gradient) -/
def sumSquares (comps : List (Op Nat K)) : Op Nat K :=
  fun x i => comps.foldl (fun acc g => acc + g x i * g x i) zero

end

/-! ### the advertised expressions (`expression` / `expressions`), as ASTs

Parameters appear in the text through `expr_prod(factor, expression)`, printed with `%g`
(6 significant digits): the harness passes the *printed* values, the model rebuilds the AST
the text must have, and the harness compares it with the AST Python's `ast` reads from the
real text (after the short-hand replacements `∇²c -> laplace(c)`, `|∇c|² ->
gradient_squared(c)`, `c³ -> c**3`). -/

/-- a printed factor: `expr_prod` branches on the ACTUAL value (`factor == 0`, `== 1`, `== -1`)
but writes the PRINTED one (`%g`, six significant digits) -/
structure Fac where
  actual : Rat
  printed : Rat

/-- a factor that prints exactly -/
def Fac.exact (f : Rat) : Fac := ⟨f, f⟩

/-- `expr_prod`: factor 0 gives "0", 1 the expression, -1 its negative, anything else
`factor * expression` (Python reads a negative literal factor as a unary minus) -/
def exprProd (f : Fac) (e : Expr) : Expr :=
  if f.actual = 0 then .num 0
  else if f.actual = 1 then e
  else if f.actual = -1 then .neg e
  else if f.printed < 0 then .mul (.neg (.num (-f.printed))) e
  else .mul (.num f.printed) e

def vC : Expr := .var "c"
def vU : Expr := .var "u"
def vV : Expr := .var "v"
def lapE (e : Expr) : Expr := .call1 "laplace" e
def gradsqE (e : Expr) : Expr := .call1 "gradient_squared" e

/-- `DiffusionPDE.expression`: `D * ∇²(c)` -/
def diffusionExpr (D : Fac) : Expr := exprProd D (lapE vC)

/-- `AllenCahnPDE.expression`: `γ * ∇²c - c³ + c`, wrapped in `mobility * (...)` unless the
mobility is (close to) one; `mobIsOne` is the outcome of `np.isclose(mobility, 1)` -/
def allenCahnExpr (γ mob : Fac) (mobIsOne : Bool) : Expr :=
  let e := Expr.add (.sub (exprProd γ (lapE vC)) (.powI vC 3)) vC
  if mobIsOne then e else exprProd mob e

/-- `CahnHilliardPDE.expression`: `∇²(c³ - c - γ * ∇²c)` -/
def cahnHilliardExpr (γ : Fac) : Expr :=
  lapE (.sub (.sub (.powI vC 3) vC) (exprProd γ (lapE vC)))

/-- `KPZInterfacePDE.expression`: `ν * ∇²c + λ * |∇c|²` -/
def kpzExpr (ν lam : Fac) : Expr := .add (exprProd ν (lapE vC)) (exprProd lam (gradsqE vC))

/-- `KuramotoSivashinskyPDE.expression`: `-∇²(c + ν * ∇²c) - 0.5 * |∇c|²` -/
def ksExpr (ν : Fac) : Expr :=
  .sub (.neg (lapE (.add vC (exprProd ν (lapE vC))))) (.mul (.num (1/2)) (gradsqE vC))

/-- `SwiftHohenbergPDE.expression`:
`(ε - kc2²) * c - c³ + δ * c² - ∇²(2 kc2 * c + ∇²c)`; the three printed factors are
arguments because each is rounded on its own -/
def swiftHohenbergExpr (a δ twoKc2 : Fac) : Expr :=
  .sub (.add (.sub (exprProd a vC) (.powI vC 3)) (exprProd δ (.powI vC 2)))
    (lapE (.add (exprProd twoKc2 vC) (lapE vC)))

/-- `WavePDE.expressions`: `{"u": "v", "v": speed² * ∇²u}` -/
def waveExprs (speed2 : Fac) : Expr × Expr := (vV, exprProd speed2 (lapE vU))

/-- `KleinGordonPDE.expressions`: `{"u": "v", "v": speed² * ∇²u - mass² * u}` (without the
mass term when `mass == 0`) -/
def kleinGordonExprs (speed2 mass2 : Fac) (massIsZero : Bool) : Expr × Expr :=
  (vV, if massIsZero then exprProd speed2 (lapE vU)
       else .sub (exprProd speed2 (lapE vU)) (exprProd mass2 vU))

/-! ### field semantics of a right-hand side -/

section
variable {ι K : Type} [Add K] [Sub K] [Mul K] [Div K] [Neg K] [NatCast K] [IntCast K]

def isDiffOp1 (f : String) : Bool := f = "laplace" || f = "gradient_squared"

/-- operator table of a scalar equation: `laplace` and `gradient_squared` are the given
operators, everything else is local -/
def pdeTab (T : FunTab K) (lap gradsq : Op ι K) : FunTab (Fld ι K) :=
  opTab T isDiffOp1 (fun f => if f = "laplace" then lap else gradsq)
    (fun _ => false) (fun _ x _ => x)

/-- environment of fields: variables by name -/
def fieldEnv (vars : List (String × St ι K)) : Env (Fld ι K) where
  sc := fun s => match vars.lookup s with
    | some x => ⟨x⟩
    | none => ⟨fun _ => zero⟩
  ix := fun _ _ => ⟨fun _ => zero⟩

/-- value of a right-hand-side text for the fields `vars` -/
def rhsValue (T : FunTab K) (lap gradsq : Op ι K) (vars : List (String × St ι K)) (e : Expr) :
    St ι K :=
  (eval (pdeTab T lap gradsq) (fieldEnv vars) e).val

end

end PdeVerif.PDEs
