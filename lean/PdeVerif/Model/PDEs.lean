import PdeVerif.Model.Expr
/-
Model of the predefined equation classes of `pde/pdes/*.py` (C10).

For every class: the evolution rate as `evolution_rate` / `make_evolution_rate` compute it
(both routes are the same composition of operators; the correspondence run checks each of them
against this one definition), and the class's advertised `expression(s)` text as an `Expr`.

Differential operators are ABSTRACT parameters: an operator together with its own boundary
condition is an arbitrary map on states (`(ι → K) → (ι → K)`), in practice affine
(`L x = A x + b`, with `b ≠ 0` for inhomogeneous conditions) and time dependent (the time is
fixed inside the parameter).  Which operator a class applies where - `lap_bc`, `lap_bc_lap`,
`lap_c`, `lap_mu`, `gradsq` - is exactly what the model records.

Core Lean only; generic in the number type and in the index type of the cells.
-/
namespace PdeVerif.PDEs
open PdeVerif PdeVerif.Ex

section
variable {ι K : Type} [Add K] [Sub K] [Mul K] [Div K] [Neg K] [NatCast K] [IntCast K]

/-- a state: one number per cell -/
abbrev St (ι K : Type) := ι → K
/-- an operator with its own boundary condition (at a fixed time) -/
abbrev Op (ι K : Type) := St ι K → St ι K

def two : K := ((2:Nat) : K)
def half : K := ofRat (1/2)

/-! ### class rates (`evolution_rate` and the closure of `make_evolution_rate`) -/

/-- `DiffusionPDE`: `diffusivity * laplace(c)` -/
def diffusionRate (D : K) (lap_bc : Op ι K) (c : St ι K) : St ι K :=
  fun i => D * lap_bc c i

/-- `AllenCahnPDE`: `mobility * (interface_width * laplace(c) - c**3 + c)` -/
def allenCahnRate (γ mob : K) (lap_bc : Op ι K) (c : St ι K) : St ι K :=
  fun i => mob * (γ * lap_bc c i - powInt (c i) 3 + c i)

/-- chemical potential of `CahnHilliardPDE`: `c**3 - c - interface_width * laplace_c(c)` -/
def cahnHilliardMu (γ : K) (lap_c : Op ι K) (c : St ι K) : St ι K :=
  fun i => powInt (c i) 3 - c i - γ * lap_c c i

/-- `CahnHilliardPDE`: `laplace_mu(mu)`; the inner Laplacian uses `bc_c`, the outer `bc_mu` -/
def cahnHilliardRate (γ : K) (lap_c lap_mu : Op ι K) (c : St ι K) : St ι K :=
  lap_mu (cahnHilliardMu γ lap_c c)

/-- `KPZInterfacePDE`: `nu * laplace(c) + lmbda * gradient_squared(c)` (same `bc` for both) -/
def kpzRate (ν lam : K) (lap_bc gradsq : Op ι K) (c : St ι K) : St ι K :=
  fun i => ν * lap_bc c i + lam * gradsq c i

/-- `KuramotoSivashinskyPDE`: with `l = laplace_bc(c)`:
`-nu * laplace_bc_lap(l) - l - 0.5 * gradient_squared_bc(c)` -/
def ksRate (ν : K) (lap_bc lap_bc_lap gradsq : Op ι K) (c : St ι K) : St ι K :=
  fun i => -ν * lap_bc_lap (lap_bc c) i - lap_bc c i - half * gradsq c i

/-- the compiled closure before the repair (finding F6): the second Laplacian was applied to
`-laplace(c)`.  Kept to state what the repaired defect was. -/
def ksRateOldCompiled (ν : K) (lap_bc lap_bc_lap gradsq : Op ι K) (c : St ι K) : St ι K :=
  fun i => ν * lap_bc_lap (fun j => - lap_bc c j) i - lap_bc c i - half * gradsq c i

/-- `SwiftHohenbergPDE`: with `l = laplace_bc(c)`:
`(rate - kc2**2) * c - 2 * kc2 * l - laplace_bc_lap(l) + delta * c**2 - c**3` -/
def swiftHohenbergRate (ε kc2 δ : K) (lap_bc lap_bc_lap : Op ι K) (c : St ι K) : St ι K :=
  fun i => (ε - powInt kc2 2) * c i - two * kc2 * lap_bc c i - lap_bc_lap (lap_bc c) i
    + δ * powInt (c i) 2 - powInt (c i) 3

/-- `WavePDE` on the pair (u, v): `(v, speed**2 * laplace(u))` -/
def waveRate (speed : K) (lap_bc : Op ι K) (u v : St ι K) : St ι K × St ι K :=
  (fun i => v i, fun i => powInt speed 2 * lap_bc u i)

/-- `KleinGordonPDE` on the pair (u, v): `(v, speed**2 * laplace(u) - mass**2 * u)` -/
def kleinGordonRate (speed mass : K) (lap_bc : Op ι K) (u v : St ι K) : St ι K × St ι K :=
  (fun i => v i, fun i => powInt speed 2 * lap_bc u i - powInt mass 2 * u i)

/-! ### affine operators (what an operator with boundary condition is on a finite grid) -/

/-- `L x = A x + b` on `n` cells, `A` as a matrix and `b` as a vector (how the driver
instantiates the abstract operators with data measured on py-pde's own operators) -/
def affineOp (n : Nat) (A : Nat → Nat → K) (b : Nat → K) : Op Nat K :=
  fun x i => (List.range n).foldl (fun acc j => acc + A i j * x j) (b i)

/-- a quadratic form built from affine component maps: `sum_k (A_k x + b_k)^2`
(`gradient_squared` from the components of the gradient) -/
def sumSquares (comps : List (Op Nat K)) : Op Nat K :=
  fun x i => comps.foldl (fun acc g => acc + g x i * g x i) zero

end

/-! ### the advertised expressions (`expression` / `expressions`), as ASTs

Parameters appear in the text through `expr_prod(factor, expression)`, printed with `%g`
(6 significant digits): the harness passes the *printed* values, the model rebuilds the AST
the text must have, and the harness compares it with the AST Python's `ast` reads from the
real text (after the short-hand replacements `∇²c -> laplace(c)`, `|∇c|² ->
gradient_squared(c)`, `c³ -> c**3`). -/

/-- a printed factor: `expr_prod` branches on the ACTUAL value (`factor == 0`, `== 1`, `== -1`)
but writes the PRINTED one (`%g`, six significant digits) -/
structure Fac where
  actual : Rat
  printed : Rat

/-- a factor that prints exactly -/
def Fac.exact (f : Rat) : Fac := ⟨f, f⟩

/-- `expr_prod`: factor 0 gives "0", 1 the expression, -1 its negative, anything else
`factor * expression` (Python reads a negative literal factor as a unary minus) -/
def exprProd (f : Fac) (e : Expr) : Expr :=
  if f.actual = 0 then .num 0
  else if f.actual = 1 then e
  else if f.actual = -1 then .neg e
  else if f.printed < 0 then .mul (.neg (.num (-f.printed))) e
  else .mul (.num f.printed) e

def vC : Expr := .var "c"
def vU : Expr := .var "u"
def vV : Expr := .var "v"
def lapE (e : Expr) : Expr := .call1 "laplace" e
def gradsqE (e : Expr) : Expr := .call1 "gradient_squared" e

/-- `DiffusionPDE.expression`: `D * ∇²(c)` -/
def diffusionExpr (D : Fac) : Expr := exprProd D (lapE vC)

/-- `AllenCahnPDE.expression`: `γ * ∇²c - c³ + c`, wrapped in `mobility * (...)` unless the
mobility is (close to) one; `mobIsOne` is the outcome of `np.isclose(mobility, 1)` -/
def allenCahnExpr (γ mob : Fac) (mobIsOne : Bool) : Expr :=
  let e := Expr.add (.sub (exprProd γ (lapE vC)) (.powI vC 3)) vC
  if mobIsOne then e else exprProd mob e

/-- `CahnHilliardPDE.expression`: `∇²(c³ - c - γ * ∇²c)` -/
def cahnHilliardExpr (γ : Fac) : Expr :=
  lapE (.sub (.sub (.powI vC 3) vC) (exprProd γ (lapE vC)))

/-- `KPZInterfacePDE.expression`: `ν * ∇²c + λ * |∇c|²` -/
def kpzExpr (ν lam : Fac) : Expr := .add (exprProd ν (lapE vC)) (exprProd lam (gradsqE vC))

/-- `KuramotoSivashinskyPDE.expression`: `-∇²(c + ν * ∇²c) - 0.5 * |∇c|²` (the text of the
tree as it is: `c + ν ∇²c` grouped under ONE Laplacian) -/
def ksExpr (ν : Fac) : Expr :=
  .sub (.neg (lapE (.add vC (exprProd ν (lapE vC))))) (.mul (.num (1/2)) (gradsqE vC))

/-- the same right-hand side with the operators written one by one, as `evolution_rate` applies
them: `(-ν) * ∇²(∇²c) - ∇²c - 0.5 * |∇c|²` (`negν` is the factor `-ν` the text prints; the
proposed repair `notes/proposed_fixes/C10-grouped-expression.diff`) -/
def ksExprSplit (negν : Fac) : Expr :=
  .sub (.sub (exprProd negν (lapE (lapE vC))) (lapE vC)) (.mul (.num (1/2)) (gradsqE vC))

/-- `SwiftHohenbergPDE.expression`:
`(ε - kc2²) * c - c³ + δ * c² - ∇²(2 kc2 * c + ∇²c)`; the three printed factors are
arguments because each is rounded on its own -/
def swiftHohenbergExpr (a δ twoKc2 : Fac) : Expr :=
  .sub (.add (.sub (exprProd a vC) (.powI vC 3)) (exprProd δ (.powI vC 2)))
    (lapE (.add (exprProd twoKc2 vC) (lapE vC)))

/-- the same right-hand side with the two Laplacians written one by one:
`(ε - kc2²) * c - c³ + δ * c² - 2 kc2 * ∇²c - ∇²(∇²c)` (proposed repair) -/
def swiftHohenbergExprSplit (a δ twoKc2 : Fac) : Expr :=
  .sub (.sub (.add (.sub (exprProd a vC) (.powI vC 3)) (exprProd δ (.powI vC 2)))
    (exprProd twoKc2 (lapE vC))) (lapE (lapE vC))

/-- `WavePDE.expressions`: `{"u": "v", "v": speed² * ∇²u}` -/
def waveExprs (speed2 : Fac) : Expr × Expr := (vV, exprProd speed2 (lapE vU))

/-- `KleinGordonPDE.expressions`: `{"u": "v", "v": speed² * ∇²u - mass² * u}` (without the
mass term when `mass == 0`) -/
def kleinGordonExprs (speed2 mass2 : Fac) (massIsZero : Bool) : Expr × Expr :=
  (vV, if massIsZero then exprProd speed2 (lapE vU)
       else .sub (exprProd speed2 (lapE vU)) (exprProd mass2 vU))

/-! ### field semantics of a right-hand side -/

section
variable {ι K : Type} [Add K] [Sub K] [Mul K] [Div K] [Neg K] [NatCast K] [IntCast K]

def isDiffOp1 (f : String) : Bool := f = "laplace" || f = "gradient_squared"

/-- operator table of ONE equation: the names for which `look` answers denote operators on whole
fields, every other name is a local function applied cell by cell.  This is what
`PDE._compile_rhs_single` builds: `ops[func]` for the differential operators of the expression,
sympy/numpy functions for the rest. -/
def opsTabF (T : FunTab K) (look : String → Option (Op ι K)) : FunTab (Fld ι K) :=
  opTab T (fun f => (look f).isSome) (fun f => (look f).getD (fun x => x))
    (fun _ => false) (fun _ x _ => x)

/-- the same with the operators given as an association list (first entry of a name wins) -/
def opsTab (T : FunTab K) (ops : List (String × Op ι K)) : FunTab (Fld ι K) :=
  opsTabF T (fun f => ops.lookup f)

/-- operator table of a scalar equation with the two operators of the predefined classes -/
def pdeTab (T : FunTab K) (lap gradsq : Op ι K) : FunTab (Fld ι K) :=
  opsTab T [("laplace", lap), ("gradient_squared", gradsq)]

/-- environment of a right-hand side: fields by name, then numbers (constants, the time) as
constant fields -/
def fieldEnvS (vars : List (String × St ι K)) (scalars : List (String × K)) : Env (Fld ι K) where
  sc := fun s => match vars.lookup s with
    | some x => ⟨x⟩
    | none => match scalars.lookup s with
      | some v => ⟨fun _ => v⟩
      | none => ⟨fun _ => zero⟩
  ix := fun _ _ => ⟨fun _ => zero⟩

/-- environment of fields only -/
def fieldEnv (vars : List (String × St ι K)) : Env (Fld ι K) := fieldEnvS vars []

/-- value of a right-hand-side text: `look` gives the operators of this equation (each already
carrying its boundary condition at the current time), `vars` the fields (state, field-valued
constants, coordinates), `scalars` the numeric constants and the time -/
def rhsValueF (T : FunTab K) (look : String → Option (Op ι K)) (vars : List (String × St ι K))
    (scalars : List (String × K)) (e : Expr) : St ι K :=
  (eval (opsTabF T look) (fieldEnvS vars scalars) e).val

/-- the same with the operators as an association list -/
def rhsValueOps (T : FunTab K) (ops : List (String × Op ι K)) (vars : List (String × St ι K))
    (scalars : List (String × K)) (e : Expr) : St ι K :=
  rhsValueF T (fun f => ops.lookup f) vars scalars e

/-- value of a right-hand-side text for the fields `vars` with the operators `laplace` and
`gradient_squared` (the advertised texts of the predefined classes) -/
def rhsValue (T : FunTab K) (lap gradsq : Op ι K) (vars : List (String × St ι K)) (e : Expr) :
    St ι K :=
  rhsValueOps T [("laplace", lap), ("gradient_squared", gradsq)] vars [] e

/-! ### which boundary condition the generic `PDE` gives to which operator

`PDE.__init__` stores `bc_ops` (keys `"VARIABLE:OPERATOR"`, either part may be the wildcard
`*`) in the order given and appends the default `bc` under the key `*:*`;
`_add_operators_to_expr` walks this table and takes the FIRST key that matches the variable of
the equation and the operator name. -/

/-- a key `kv:ko` applies to operator `op` in the equation of `var` -/
def bcMatches (key : String × String) (var op : String) : Bool :=
  (key.1 = var || key.1 = "*") && (key.2 = op || key.2 = "*")

/-- position of the selected condition in `bc_ops ++ [default]`: the first matching key, and
`keys.length` (the default) when no key of `bc_ops` matches -/
def bcIndex (keys : List (String × String)) (var op : String) : Nat :=
  keys.findIdx (fun k => bcMatches k var op)

/-- names of the unary functions called in an expression (the candidates for operator names) -/
def funNames1 : Expr → List String
  | .num _ | .var _ | .idx _ _ | .named _ => []
  | .neg a | .powI a _ | .heav1 a => funNames1 a
  | .add a b | .sub a b | .mul a b | .div a b | .call2 _ a b | .heav2 a b | .cmp _ a b =>
    funNames1 a ++ funNames1 b
  | .call1 f a => f :: funNames1 a

/-- the operator that the name `name` denotes in the equation of `var`.  `table` lists, for every
operator name that may occur in a right-hand side (after the harness's desugaring of vector
operators e.g. `gradient__0`), the name `bcName` under which `PDE` looks its condition up
(`gradient`) and one instance of the operator per entry of `bc_ops ++ [default]` (`none`: the
real code cannot build this combination).  The instance at `bcIndex` is the one the equation
uses. -/
def pdeOp (keys : List (String × String))
    (table : List (String × String × List (Option (Op ι K)))) (var name : String) :
    Option (Op ι K) :=
  match table.lookup name with
  | some (bcName, insts) => insts.getD (bcIndex keys var bcName) none
  | none => none

/-- value of the right-hand side of the equation of `var` in a generic `PDE` -/
def rhsValuePde (T : FunTab K) (keys : List (String × String))
    (table : List (String × String × List (Option (Op ι K)))) (var : String)
    (vars : List (String × St ι K)) (scalars : List (String × K)) (e : Expr) : St ι K :=
  rhsValueF T (pdeOp keys table var) vars scalars e

end

end PdeVerif.PDEs
