import PdeVerif.Model.Serialize
/-
Model of what a grid INSTANCE carries besides bounds, shape and periodicity (C14, clauses "axes" and
"cell volumes" of a restored grid):

* the axes names: `CoordinatesBase.axes` of the coordinate system of each class
  (pde/grids/coordinates/cartesian.py:43-46, polar.py:23, spherical.py:23, cylindrical.py:25),
  `GridBase.__init__` (pde/grids/base.py:161-171): `_axes_described`, `num_axes`, `axes`,
  `axes_symmetric`;
* the attributes `__init__` computes once and stores in `__dict__` (`axes`, `axes_symmetric`,
  `num_axes`, `_axes_coords`, `_discretization`): they travel through pickle AS STORED;
* the lazy cache `_cache_methods` of `cached_property` (pde/tools/cache.py:560-600): the first read of
  a property creates the entry, computes the value from the instance's attributes and from OTHER
  properties (which are thereby cached as well) and stores it; later reads return the stored value.
  Cached properties of the grids: `coordinate_arrays`, `cell_coords`, `cell_volumes`,
  `uniform_cell_volumes` (pde/grids/base.py:509-541) and, for the radial and cylindrical classes only,
  `cell_volume_data` (spherical.py:179, cylindrical.py:397; a plain property in cartesian.py:210);
* the four ways an instance is restored: `cls.from_state(state)`, `GridBase.from_state(json)`,
  `copy()` (= `__copy__`, `__deepcopy__`: `from_state(self.state)`) build a NEW object with the
  constructor; pickle restores `__getstate__()` = `__dict__` without `_cache_methods`
  (pde/grids/base.py:190-193).

Core Lean only; generic in the number type.
-/
namespace PdeVerif.Serialize
open PdeVerif PdeVerif.Grids

/-! ### axes names -/

/-- `self.c.axes`: the names of ALL coordinates of the coordinate system -/
def coordAxes (c : GridClass) (dim : Nat) : List String :=
  match c with
  | .unit | .cartesian =>
    if dim ≤ 3 then ["x", "y", "z"].take dim
    else (List.range dim).map fun i => String.singleton (Char.ofNat (97 + i))
  | .polar => ["r", "φ"]
  | .spherical => ["r", "θ", "φ"]
  | .cylindrical => ["r", "φ", "z"]

/-- the class attribute `_axes_symmetric` -/
def symmetricIdx : GridClass → List Nat
  | .polar => [1]
  | .spherical => [1, 2]
  | .cylindrical => [1]
  | _ => []

/-- `_axes_described = tuple(i for i in range(dim) if i not in _axes_symmetric)` -/
def describedIdx (c : GridClass) (dim : Nat) : List Nat :=
  (List.range dim).filter fun i => !(symmetricIdx c).contains i

/-- `[self.c.axes[i] for i in idx]` -/
def pick (names : List String) (idx : List Nat) : List String := idx.map fun i => names.getD i ""

section
variable {K : Type} [Add K] [Sub K] [Mul K] [Div K] [Neg K] [NatCast K] [IntCast K]

/-- `grid.axes` as `GridBase.__init__` computes it -/
def GridObj.axes (g : GridObj K) : List String :=
  pick (coordAxes g.cls g.dim) (describedIdx g.cls g.dim)

/-- `grid.axes_symmetric` -/
def GridObj.axesSymmetric (g : GridObj K) : List String :=
  pick (coordAxes g.cls g.dim) (symmetricIdx g.cls)

/-- `grid.num_axes = len(_axes_described)` as `GridBase.__init__` computes it -/
def GridObj.numAxesInit (g : GridObj K) : Nat := (describedIdx g.cls g.dim).length

/-! ### values of the cached properties -/

/-- what a cache entry holds -/
inductive CVal (K : Type) where
  | arr (l : List K)             -- one array, flattened in C order
  | arrs (l : List (List K))     -- a tuple of arrays / an array of rows
  | flag (b : Bool)
  deriving Inhabited

/-- the entries of a single array (empty for the other kinds) -/
def CVal.toArr {K : Type} : CVal K → List K
  | .arr l => l
  | _ => []

/-- the rows of a tuple of arrays (empty for the other kinds) -/
def CVal.toArrs {K : Type} : CVal K → List (List K)
  | .arrs l => l
  | _ => []

/-- the cached properties -/
inductive CProp
  | cellVolumeData | cellVolumes | coordinateArrays | cellCoords | uniformCellVolumes
  deriving DecidableEq, Repr, Inhabited

def CProp.name : CProp → String
  | .cellVolumeData => "cell_volume_data"
  | .cellVolumes => "cell_volumes"
  | .coordinateArrays => "coordinate_arrays"
  | .cellCoords => "cell_coords"
  | .uniformCellVolumes => "uniform_cell_volumes"

def CProp.all : List CProp :=
  [.cellVolumeData, .cellVolumes, .coordinateArrays, .cellCoords, .uniformCellVolumes]

def CProp.ofName (s : String) : Option CProp := CProp.all.find? fun p => p.name == s

/-- is the property decorated with `cached_property` in this class?  `cell_volume_data` is a plain
property of `CartesianGrid` (and `UnitGrid`) -/
def isCached (c : GridClass) : CProp → Bool
  | .cellVolumeData => !(c == .unit || c == .cartesian)
  | _ => true

/-- the other properties the body of a property reads -/
def CProp.deps : CProp → List CProp
  | .cellVolumes => [.cellVolumeData]
  | .uniformCellVolumes => [.cellVolumeData]
  | .cellCoords => [.coordinateArrays]
  | _ => []

/-- all multi-indices of a shape in C order -/
def multiIdx : List Nat → List (List Nat)
  | [] => [[]]
  | n :: ns => (List.range n).flatMap fun i => (multiIdx ns).map (i :: ·)

/-- `reduce(np.outer, cell_volume_data)[idx]` on the stored per-axis arrays -/
def prodL : List (List K) → List Nat → K
  | [], _ => ((1:Nat) : K)
  | a :: rest, idx => a.getD (idx.headD 0) ((0:Nat) : K) * prodL rest idx.tail

/-- `cell_volumes` from (the cached) `cell_volume_data`, flattened -/
def cellVolsOf (vd : List (List K)) (shape : List Nat) : List K :=
  (multiIdx shape).map fun idx => prodL vd idx

/-- `np.meshgrid(*axes_coords, indexing="ij")`, every array flattened -/
def meshgrid (coords : List (List K)) (shape : List Nat) : List (List K) :=
  (enumFrom 0 coords).map fun (p : Nat × List K) =>
    (multiIdx shape).map fun idx => p.2.getD (idx.getD p.1 0) ((0:Nat) : K)

/-- `np.moveaxis(coordinate_arrays, 0, -1)`: one row of coordinates per cell -/
def moveAxis (ca : List (List K)) (numCells : Nat) : List (List K) :=
  (List.range numCells).map fun j => ca.map fun a => a.getD j ((0:Nat) : K)

/-- `cell_volume_data` of every class, every entry written out per cell of its axis (a scalar entry of
the Cartesian classes and of the `z` axis is repeated) -/
def GridObj.volData (pi : K) (g : GridObj K) : List (List K) :=
  (g.toGrid.axisVolsAll pi).map fun av => (List.range av.n).map av.vol

/-! ### instances -/

/-- a grid instance: the stored object, what `__init__` derived from it, and `_cache_methods` -/
structure GridInst (K : Type) where
  obj : GridObj K
  axes : List String
  axesSymmetric : List String
  numAxes : Nat
  axesCoords : List (List K)         -- `_axes_coords`
  discretization : List K            -- `_discretization`
  cache : List (String × CVal K)     -- `_cache_methods` (one entry per property read so far)
  deriving Inhabited

/-- the instance a constructor returns: everything derived freshly, nothing cached -/
def GridObj.construct (g : GridObj K) : GridInst K :=
  ⟨g, g.axes, g.axesSymmetric, g.numAxesInit, g.toGrid.axesCoords, g.toGrid.discretization, []⟩

/-- the body of the two properties that read no other property, evaluated on the instance's stored
attributes (`coordinate_arrays` uses the STORED `_axes_coords`) -/
def GridInst.baseValue (pi : K) (i : GridInst K) : CProp → CVal K
  | .coordinateArrays => .arrs (meshgrid i.axesCoords i.obj.shape)
  | _ => .arrs (i.obj.volData pi)

/-- reading a dependency: the stored value when there is one -/
def GridInst.depValue (pi : K) (i : GridInst K) (p : CProp) : CVal K :=
  match lookup p.name i.cache with
  | some v => v
  | none => i.baseValue pi p

/-- the body of each property: `cell_volumes` and `cell_coords` are computed FROM the value of the
property they read (cached or not) -/
def GridInst.value (pi : K) (i : GridInst K) : CProp → CVal K
  | .cellVolumes =>
    match i.depValue pi .cellVolumeData with
    | .arrs vd => .arr (cellVolsOf vd i.obj.shape)
    | v => v
  | .cellCoords =>
    match i.depValue pi .coordinateArrays with
    | .arrs ca => .arrs (moveAxis ca i.obj.numCells)
    | v => v
  | .uniformCellVolumes => .flag (i.obj.cls == .unit || i.obj.cls == .cartesian)
  | p => i.baseValue pi p

/-- store a computed value (only for properties that are cached in this class, only once) -/
def GridInst.store (i : GridInst K) (p : CProp) (v : CVal K) : GridInst K :=
  if isCached i.obj.cls p && (lookup p.name i.cache).isNone then
    { i with cache := i.cache ++ [(p.name, v)] }
  else i

/-- make sure a dependency is evaluated (and cached if it is a cached property) -/
def GridInst.ensure (pi : K) (i : GridInst K) (p : CProp) : GridInst K :=
  match lookup p.name i.cache with
  | some _ => i
  | none => i.store p (i.baseValue pi p)

/-- `getattr(grid, name)` for a cached property: value and the instance afterwards -/
def GridInst.read (pi : K) (i : GridInst K) (p : CProp) : CVal K × GridInst K :=
  match lookup p.name i.cache with
  | some v => (v, i)
  | none =>
    let i1 := p.deps.foldl (fun j d => j.ensure pi d) i
    let v := i1.value pi p
    (v, i1.store p v)

/-- a sequence of reads -/
def GridInst.reads (pi : K) (i : GridInst K) (ps : List CProp) : GridInst K :=
  ps.foldl (fun j p => (j.read pi p).2) i

/-- the names in `_cache_methods` -/
def GridInst.cacheKeys (i : GridInst K) : List String := i.cache.map (·.1)

variable [LT K] [DecidableLT K] [BEq K]

/-- the ways an instance is restored -/
inductive Route
  | fromState     -- `type(g).from_state(g.state)`
  | fromJson      -- `GridBase.from_state(g.state_serialized)`
  | copy          -- `g.copy()`, `copy.copy(g)`, `copy.deepcopy(g)`
  | pickle        -- `pickle.loads(pickle.dumps(g))`
  deriving DecidableEq, Repr, Inhabited

/-- restoring an instance: the first three routes run the constructor on the state, pickle hands over
`__dict__` without `_cache_methods` -/
def GridInst.restore (i : GridInst K) : Route → Except Err (GridInst K)
  | .fromState => (classFromState i.obj.cls i.obj.state).map GridObj.construct
  | .fromJson => (fromState i.obj.stateSerialized).map GridObj.construct
  | .copy => i.obj.copy.map GridObj.construct
  | .pickle => .ok { i with cache := [] }

end

end PdeVerif.Serialize
