import PdeVerif.Model.Interp
/-
Model of the two pieces of py-pde that sit between `field.interpolate` and the user in property C16:

* `interpToGrid`  - `ScalarField.interpolate_to_grid(grid2, fill=.., bc=..)` (pde/fields/scalar.py:508-560) for a
                    target grid of the same class (`points = grid2.cell_coords`, the centres of the new cells,
                    `data = self.interpolate(points, ..)`): the values of the new field in C order, `none` =
                    `DomainError` (some centre outside and no fill value)
* `padFull`       - the padded array `field._data_full` that `interpolate(bc=..)` reads after
                    `set_ghost_cells(bc, set_corners=True)` for conditions that impose a value or an (outward)
                    derivative: valid cells = the data, ghost cell behind a face of a non-periodic axis = what the
                    condition defines (`2 v - cell` resp. `cell + d·dx`), ghost cells on edges / in corners = the mean
                    of the adjacent ghost cells with one ghost coordinate less (as `set_corners=True` documents),
                    ghost layer of a periodic axis = the cell at the other end

Core Lean only; generic in the number type.
-/
namespace PdeVerif.Interp
open PdeVerif

section
variable {K : Type} [Add K] [Sub K] [Mul K] [Div K] [Neg K] [NatCast K] [IntCast K]
variable [LT K] [DecidableLT K] [LE K] [DecidableLE K] [HasFloor K]

/-! ### `interpolate_to_grid` -/

/-- `grid.axes_coords[axis][i]`: the centre of cell `i` -/
def cellCentre (ax : Axis K) (i : Int) : K := ax.lo + ((i : K) + half) * ax.dx

/-- `grid.cell_coords` flattened in C order -/
def cellCentres (axes : List (Axis K)) : List (List K) :=
  (cells (axes.map (·.size))).map (fun c => List.zipWith cellCentre axes c)

/-- a batch raises as soon as one point raises -/
def allSome : List (Option K) → Option (List K)
  | [] => some []
  | none :: _ => none
  | some v :: r =>
    match allSome r with
    | none => none
    | some vs => some (v :: vs)

/-- `field.interpolate_to_grid(grid2, fill=fill)` (`ghost = false`, `data` = the valid data) resp.
`field.interpolate_to_grid(grid2, bc=.., fill=fill)` (`ghost = true`, `data` = the padded array): the
data of the new field in C order; `none` = `DomainError` -/
def interpToGrid (eps : K) (ghost : Bool) (fill : Option K) (src : List (Axis K)) (data : Idx → K)
    (tgt : List (Axis K)) : Option (List K) :=
  allSome ((cellCentres tgt).map (interpN eps ghost false fill src data))

/-! ### the padded array of `interpolate(bc=..)` -/

/-- the condition imposed on one face: a value, or a derivative in the outward direction -/
inductive Side (K : Type) where
  | value (v : K)
  | derivative (d : K)

/-- the ghost cell behind a face as a function of the imposed condition and the adjacent cell:
`2 v - cell` (value), `cell + d·dx` (outward derivative) -/
def ghostOf (s : Side K) (dx cell : K) : K :=
  match s with
  | .value v => ((2:Nat) : K) * v - cell
  | .derivative d => cell + d * dx

/-- an axis together with the conditions on its lower and upper face (ignored on periodic axes) -/
structure PadAxis (K : Type) where
  ax : Axis K
  lower : Side K
  upper : Side K

/-- does entry `i` of a padded index lie in the ghost layer of a non-periodic axis? -/
def isGhostAt (pa : PadAxis K) (i : Int) : Bool :=
  !pa.ax.periodic && (decide (i = 0) || decide (i = pa.ax.size + 1))

/-- the axis numbers (counted from `k`) at which a padded index lies in the ghost layer of a
non-periodic axis -/
def ghostAxesFrom : Nat → List (PadAxis K) → Idx → List Nat
  | k, pa :: pas, i :: c =>
    if isGhostAt pa i then k :: ghostAxesFrom (k + 1) pas c else ghostAxesFrom (k + 1) pas c
  | _, _, _ => []

/-- entry of the valid-cell index that belongs to entry `i` of a padded index: `i - 1`, wrapped on a
periodic axis (its ghost layer holds the cell at the other end) -/
def unpad (pa : PadAxis K) (i : Int) : Int :=
  if pa.ax.periodic then (i - 1) % pa.ax.size else i - 1

/-- the neighbour of a ghost entry towards the inside: `1` for the lower, `size` for the upper layer -/
def inwardOf (pa : PadAxis K) (i : Int) : Int := if i = 0 then 1 else pa.ax.size

/-- the padded index with the ghost entry of axis `k` replaced by its inward neighbour -/
def inwardAt : List (PadAxis K) → Idx → Nat → Idx
  | pa :: _, i :: c, 0 => inwardOf pa i :: c
  | _ :: pas, i :: c, k + 1 => i :: inwardAt pas c k
  | _, c, _ => c

/-- the condition of the face behind which entry `i` of axis `k` lies, and the spacing of that axis -/
def faceAt : List (PadAxis K) → Idx → Nat → Option (Side K × K)
  | pa :: _, i :: _, 0 => some (if i = 0 then pa.lower else pa.upper, pa.ax.dx)
  | _ :: pas, _ :: c, k + 1 => faceAt pas c k
  | _, _, _ => none

/-- `padFull` with an explicit recursion depth (`fuel` = number of axes + 1 suffices: every step
removes one ghost coordinate) -/
def padAux (pas : List (PadAxis K)) (data : Idx → K) : Nat → Idx → K
  | 0, _ => ((0:Nat) : K)
  | fuel + 1, c =>
    match ghostAxesFrom 0 pas c with
    | [] => data (List.zipWith unpad pas c)
    | [k] =>
      match faceAt pas c k with
      | some (s, dx) => ghostOf s dx (padAux pas data fuel (inwardAt pas c k))
      | none => ((0:Nat) : K)
    | ks => sumK (ks.map (fun k => padAux pas data fuel (inwardAt pas c k))) / ((ks.length : Nat) : K)

/-- `field._data_full` after `set_ghost_cells(bc, set_corners=True)` as a function of the valid data
and the imposed conditions (index `i + 1` = cell `i`) -/
def padFull (pas : List (PadAxis K)) (data : Idx → K) : Idx → K :=
  padAux pas data (pas.length + 1)

end
end PdeVerif.Interp
