import PdeVerif.Model.Grid
/-
Model of cell volumes, grid volume, integration and projection:
`cell_volume_data` / `cell_volumes` / `volume` (pde/grids/cartesian.py:205-213,
spherical.py:170-186, cylindrical.py:213-217,395-402, base.py:517-529), `GridBase.integrate`
(base.py:1286) and `ScalarField.project(method="integral")` (pde/fields/scalar.py:269).
Core Lean only; generic in the number type.  `pi` is a parameter of every formula.

Arrays are functions of a multi-index `List Nat` (axis order); the sums run in index order.
-/
namespace PdeVerif.Grids
open PdeVerif

section
variable {K : Type} [Add K] [Sub K] [Mul K] [Div K] [Neg K] [NatCast K] [IntCast K]

/-- `sum_{i < n} f i`, accumulated in index order -/
def sumN : Nat → (Nat → K) → K
  | 0, _ => ((0:Nat) : K)
  | n + 1, f => sumN n f + f n

/-- `volume_from_radius(radius, dim)` (spherical.py:31) -/
def ballVolume (pi : K) (dim : Nat) (r : K) : K :=
  match dim with
  | 1 => ((2:Nat) : K) * r
  | 2 => pi * (r * r)
  | 3 => ((4:Nat) : K) / ((3:Nat) : K) * pi * (r * r * r)
  | _ => ((0:Nat) : K)          -- NotImplementedError in the code; no grid class gets here

/-- `cell_volume_data[ax][i]` of every grid class: the factor axis `ax` contributes to the volume
of a cell with index `i` along that axis.
* Cartesian/unit: `discretization[ax]`
* polar/spherical: `volume_from_radius(rs + dr/2) - volume_from_radius(rs - dr/2)`
* cylindrical: `2 pi dr rs` for `r`, `dz` for `z`. -/
def Grid.volFactor (pi : K) (g : Grid K) (ax : Nat) (a : Axis K) (i : Nat) : K :=
  match g.cls with
  | .unit | .cartesian => g.dxOf a
  | .polar => ballVolume pi 2 (cellHi a.lo a.hi a.n i) - ballVolume pi 2 (cellLo a.lo a.hi a.n i)
  | .spherical => ballVolume pi 3 (cellHi a.lo a.hi a.n i) - ballVolume pi 3 (cellLo a.lo a.hi a.n i)
  | .cylindrical =>
    if ax = 0 then ((2:Nat) : K) * pi * dx a.lo a.hi a.n * centre a.lo a.hi a.n i
    else dx a.lo a.hi a.n

/-- an axis as `integrate` sees it: number of cells, volume factor per cell, and whether the
axis is integrated over -/
structure AxisVol (K : Type) where
  n : Nat
  vol : Nat → K
  sel : Bool

/-- pair every axis with its position (`enumerate`) -/
def enumFrom {α : Type} : Nat → List α → List (Nat × α)
  | _, [] => []
  | k, a :: as => (k, a) :: enumFrom (k + 1) as

/-- `cell_volume_data` with a selection flag per axis -/
def Grid.axisVols (pi : K) (g : Grid K) (sel : List Bool) : List (AxisVol K) :=
  (enumFrom 0 g.axes).zipWith (fun (p : Nat × Axis K) s => ⟨p.2.n, g.volFactor pi p.1 p.2, s⟩) sel

/-- all axes selected -/
def Grid.axisVolsAll (pi : K) (g : Grid K) : List (AxisVol K) :=
  g.axisVols pi (g.axes.map fun _ => true)

/-- product of the per-axis factors at a multi-index: `reduce(np.outer, cell_volume_data)[idx]` -/
def prodAt : List (AxisVol K) → List Nat → K
  | [], _ => ((1:Nat) : K)
  | a :: rest, idx => a.vol (idx.headD 0) * prodAt rest idx.tail

/-- `grid.cell_volumes[idx]` -/
def Grid.cellVolume (pi : K) (g : Grid K) (idx : List Nat) : K := prodAt (g.axisVolsAll pi) idx

/-- `GridBase.integrate(data, axes)`: weighted sum of `data * cell_volumes` over the selected
axes, where the unselected axes carry the factor 1 and are kept.  `ret` is the multi-index of the
result along the retained axes. -/
def integrate : List (AxisVol K) → (List Nat → K) → List Nat → K
  | [], data, _ => data []
  | a :: rest, data, ret =>
    if a.sel then sumN a.n (fun i => a.vol i * integrate rest (fun idx => data (i :: idx)) ret)
    else integrate rest (fun idx => data (ret.headD 0 :: idx)) ret.tail

/-- `grid.integrate(data)` over all axes -/
def Grid.integrateAll (pi : K) (g : Grid K) (data : List Nat → K) : K :=
  integrate (g.axisVolsAll pi) data []

/-- `grid.integrate(data, axes)`; `sel[ax]` tells whether `ax in axes` -/
def Grid.integrateSel (pi : K) (g : Grid K) (sel : List Bool) (data : List Nat → K) :
    List Nat → K :=
  integrate (g.axisVols pi sel) data

/-- keep the entries whose flag is `true` -/
def keep {α : Type} : List α → List Bool → List α
  | a :: as, b :: bs => if b then a :: keep as bs else keep as bs
  | _, _ => []

/-- `grid.slice(retained axes)`: Cartesian grids keep their class; a cylindrical grid gives the
polar grid of its radial axis or the Cartesian grid of its axial axis. -/
def Grid.slice (g : Grid K) (retain : List Bool) : Grid K :=
  match g.cls with
  | .cylindrical =>
    match retain with
    | [true, false] => ⟨.polar, keep g.axes retain⟩
    | _ => ⟨.cartesian, keep g.axes retain⟩
  | c => ⟨c, keep g.axes retain⟩

/-- `ScalarField.project(axes, method="integral")`: data of the projected field (a function of
the multi-index on the sliced grid); `remove[ax]` tells whether `ax` is projected out -/
def Grid.project (pi : K) (g : Grid K) (remove : List Bool) (data : List Nat → K) : List Nat → K :=
  g.integrateSel pi remove data

variable [LT K] [DecidableLT K]

/-- `grid.volume` of every class.
* Cartesian/unit: `Cuboid.volume = prod(size)`
* polar/spherical: `volume_from_radius(r_outer) - (volume_from_radius(r_inner) if r_inner > 0)`
* cylindrical: `pi * length * (r_outer**2 - r_inner**2)` -/
def Grid.volume (pi : K) (g : Grid K) : K :=
  match g.cls, g.axes with
  | .unit, axes | .cartesian, axes => axes.foldr (fun a acc => (a.hi - a.lo) * acc) ((1:Nat) : K)
  | .polar, [a] =>
    if ((0:Nat) : K) < a.lo then ballVolume pi 2 a.hi - ballVolume pi 2 a.lo else ballVolume pi 2 a.hi
  | .spherical, [a] =>
    if ((0:Nat) : K) < a.lo then ballVolume pi 3 a.hi - ballVolume pi 3 a.lo else ballVolume pi 3 a.hi
  | .cylindrical, [r, z] => pi * (z.hi - z.lo) * (r.hi * r.hi - r.lo * r.lo)
  | _, _ => ((0:Nat) : K)        -- malformed axis list: not constructible in the code

end
end PdeVerif.Grids
