/-
Model of a data-parallel kernel (`nb.prange` loops of the numba operators): a kernel is a list of
cell writes `(output index, value)`; the values are computed from the *input* array only.
Executing the iterations in some order is a fold of updates.  Core Lean only.
-/
namespace PdeVerif.ParLoop

variable {I V : Type} [DecidableEq I]

/-- array update -/
def upd (o : I → V) (i : I) (v : V) : I → V := fun j => if j = i then v else o j

/-- executing a list of cell writes on an output array, in list order -/
def runWrites (out : I → V) (ws : List (I × V)) : I → V :=
  ws.foldl (fun o w => upd o w.1 w.2) out

/-- the writes of a kernel that computes `f c` for every output cell `c` from the input only -/
def kernelWrites (cells : List I) (f : I → V) : List (I × V) := cells.map fun c => (c, f c)

end PdeVerif.ParLoop

namespace PdeVerif.ParLoop

variable {I V : Type} [DecidableEq I]

/-- a general loop iteration: it may read the whole current store (input and output arrays alike, `I` indexes both) and
returns its writes.  Unlike `kernelWrites` this can express a kernel that reads `out` or writes its input. -/
abbrev Body (I V : Type) := (I → V) → List (I × V)

/-- executing iterations one after the other; each sees the store left by its predecessors -/
def runBodies (s : I → V) (bs : List (Body I V)) : I → V :=
  bs.foldl (fun o b => runWrites o (b o)) s

end PdeVerif.ParLoop
