import PdeVerif.Model.Expr
/-
Model of the array side of `pde/tools/expressions.py` (C11):

* `Ten α`                         - an array of rank 0, 1 or 2 (what a `TensorExpression` holds:
                                    `α = Expr`; what it evaluates to: `α = K`)
* `Ix`, `normIdx`, `sliceList`,
  `getItem`                       - `TensorExpression.__getitem__` = indexing of the sympy array with
                                    Python's conventions (negative integers count from the end, an
                                    integer out of range is an error, slice bounds are clipped, step 1)
* `tensorFunction`                - `TensorExpression(text, signature, consts=..)(*args)`
* `reprepared`, `indexedFunction` - `expr[index](*args)`: `__getitem__` builds a NEW expression from the
                                    indexed (already prepared) sympy array with `signature=self.vars`,
                                    `consts=self.consts`, `user_funcs=self.user_funcs`
* `select`                        - `Piecewise((a, c), (b, True))` for a comparison `c` as an operation
                                    on the AST (arithmetic selection with the 0/1 value of `c`)
* `Ten.symbols`, `dependsOn`      - `ExpressionBase.depends_on`

Core Lean only; generic in the number type.
-/
namespace PdeVerif.Ex
open PdeVerif

/-- an array of rank 0, 1 or 2 -/
inductive Ten (α : Type) where
  | sc (a : α)
  | vec (l : List α)
  | mat (m : List (List α))
deriving Repr, DecidableEq

namespace Ten
variable {α β : Type}

/-- apply `f` to every component -/
def map (f : α → β) : Ten α → Ten β
  | .sc a => .sc (f a)
  | .vec l => .vec (l.map f)
  | .mat m => .mat (m.map (fun row => row.map f))

/-- all components, row-major -/
def toList : Ten α → List α
  | .sc a => [a]
  | .vec l => l
  | .mat m => m.flatten

def rank : Ten α → Nat
  | .sc _ => 0
  | .vec _ => 1
  | .mat _ => 2

/-- `expr.shape` (a rank-2 array is rectangular: the length of its first row) -/
def shape : Ten α → List Nat
  | .sc _ => []
  | .vec l => [l.length]
  | .mat m => [m.length, (m.headD []).length]

end Ten

/-- `Option`-valued map over a list: `none` as soon as one element fails -/
def optMapList {α β : Type} (f : α → Option β) : List α → Option (List β)
  | [] => some []
  | a :: as =>
    match f a, optMapList f as with
    | some b, some bs => some (b :: bs)
    | _, _ => none

/-- `Option`-valued map over an array -/
def Ten.optMap {α β : Type} (f : α → Option β) : Ten α → Option (Ten β)
  | .sc a => (f a).map Ten.sc
  | .vec l => (optMapList f l).map Ten.vec
  | .mat m => (optMapList (optMapList f) m).map Ten.mat

/-- one entry of a Python index: an integer or a slice `a:b` (step 1, either bound may be absent) -/
inductive Ix where
  | at (i : Int)
  | slice (a b : Option Int)
deriving Repr, DecidableEq

/-- integer index into an axis of length `n`: negative integers count from the end, anything
outside `-n ≤ i < n` is an error (`none`; sympy raises `ValueError: Index ... out of border`) -/
def normIdx (n : Nat) (i : Int) : Option Nat :=
  if 0 ≤ i then (if i.toNat < n then some i.toNat else none)
  else if (-i).toNat ≤ n then some (n - (-i).toNat) else none

/-- slice bound on an axis of length `n` (`slice.indices` for step 1: clipped to `[0, n]`) -/
def clipIdx (n : Nat) (i : Int) : Nat :=
  if 0 ≤ i then min i.toNat n else n - min (-i).toNat n

/-- `l[a:b]` -/
def sliceList {α : Type} (l : List α) (a b : Option Int) : List α :=
  let s := match a with
    | none => 0
    | some i => clipIdx l.length i
  let e := match b with
    | none => l.length
    | some i => clipIdx l.length i
  (l.take e).drop s

/-- `l[i]` -/
def itemList {α : Type} (l : List α) (i : Int) : Option α :=
  (normIdx l.length i).bind (fun k => l[k]?)

/-- `expr[index]`: indexing of the array with a tuple of index entries; `none` = the index is
refused (too many entries, integer out of range) -/
def getItem {α : Type} : Ten α → List Ix → Option (Ten α)
  | t, [] => some t
  | .sc _, _ :: _ => none
  | .vec l, [.at i] => (itemList l i).map Ten.sc
  | .vec l, [.slice a b] => some (.vec (sliceList l a b))
  | .vec _, _ :: _ :: _ => none
  | .mat m, [.at i] => (itemList m i).map Ten.vec
  | .mat m, [.slice a b] => some (.mat (sliceList m a b))
  | .mat m, [.at i, .at j] => (itemList m i).bind (fun row => (itemList row j).map Ten.sc)
  | .mat m, [.at i, .slice c d] => (itemList m i).map (fun row => Ten.vec (sliceList row c d))
  | .mat m, [.slice a b, .at j] =>
    (optMapList (fun row => itemList row j) (sliceList m a b)).map Ten.vec
  | .mat m, [.slice a b, .slice c d] =>
    some (.mat ((sliceList m a b).map (fun row => sliceList row c d)))
  | .mat _, _ :: _ :: _ :: _ => none

/-- `expr[index1][index2]...`: successive indexing -/
def getChain {α : Type} (t : Ten α) : List (List Ix) → Option (Ten α)
  | [] => some t
  | ix :: rest => (getItem t ix).bind (fun t' => getChain t' rest)

/-! ### evaluation of arrays of expressions -/

section
variable {K : Type} [Add K] [Sub K] [Mul K] [Div K] [Neg K] [NatCast K] [IntCast K]

/-- value of an array of expressions in one environment -/
def evalTen (T : FunTab K) (env : Env K) (t : Ten Expr) : Ten K := t.map (eval T env)

/-- `TensorExpression(text, signature, consts=.., repl=..)(*args)`: every component through the
model of the generated function; `none` = the call is rejected -/
def tensorFunction (T : FunTab K) (sig : List (List String)) (consts : List (String × Val K))
    (repl : List (String × String)) (t : Ten Expr) (args : List (Val K)) : Option (Ten K) :=
  t.optMap (fun e => exprFunction T sig consts repl e args)

/-- the signature `__getitem__` passes on: `signature=self.vars`, the definite names only -/
def varsSig (sig : List (List String)) : List (List String) := (sigVars sig).map (fun v => [v])

/-- `expr[index](*args)`: `__getitem__` indexes the PREPARED sympy array (aliases and synonyms are
already renamed) and builds a new expression with `signature=self.vars`, `consts=self.consts`
and the same user functions (the table `T`), without `repl` -/
def indexedFunction (T : FunTab K) (sig : List (List String)) (consts : List (String × Val K))
    (repl : List (String × String)) (t : Ten Expr) (ix : List Ix) (args : List (Val K)) :
    Option (Ten K) :=
  (getItem (t.map (prepare sig repl)) ix).bind
    (fun t' => tensorFunction T (varsSig sig) consts [] t' args)

/-- `expr[index1][index2]...(*args)`: every `__getitem__` indexes the sympy array of the expression
before it and passes `signature=self.vars` and the same constants and user functions on; the
prepared array stays what it is (theorem `prepare_varsSig`) -/
def chainFunction (T : FunTab K) (sig : List (List String)) (consts : List (String × Val K))
    (repl : List (String × String)) (t : Ten Expr) (chain : List (List Ix)) (args : List (Val K)) :
    Option (Ten K) :=
  (getChain (t.map (prepare sig repl)) chain).bind
    (fun t' => tensorFunction T (varsSig sig) consts [] t' args)

end

/-- `Piecewise((a, c), (b, True))` where `c` is a comparison (value 1 or 0): the selection written
with arithmetic, `c*a + (1 - c)*b` -/
def select (c a b : Expr) : Expr := .add (.mul c a) (.mul (.sub (.num 1) c) b)

/-- the truth value of a comparison -/
def Cmp.holds {K : Type} [LT K] [LE K] (op : Cmp) (a b : K) : Prop :=
  match op with
  | .lt => a < b
  | .le => a ≤ b
  | .gt => b < a
  | .ge => b ≤ a

/-- symbols of all components -/
def Ten.symbols (t : Ten Expr) : List String := t.toList.flatMap Ex.symbols

/-- `expr.depends_on(v)`: the variable occurs in (the prepared form of) some component -/
def dependsOn (sig : List (List String)) (repl : List (String × String)) (t : Ten Expr)
    (v : String) : Bool :=
  (t.map (prepare sig repl)).symbols.contains v

end PdeVerif.Ex
